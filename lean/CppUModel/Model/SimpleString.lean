import CppUModel.Base.CString
/-!
# Model of `SimpleString` (src/CppUTest/SimpleString.cpp), written from the C++ line by line

* An object is its internal buffer (`id` of the allocation, all bytes of it) plus the recorded
  `bufferSize_`.  The recorded size is a separate field: it is what `deallocStringBuffer` is
  given, and "released with the size it was requested with" is a theorem, not a definition.
* The string allocator is an event log: `alloc id n` / `free id n`; ids are handed out 1,2,3,…
  Fresh buffers are filled with an arbitrary `junk` byte (uninitialised memory).
* `vsnprintf` is the environment: every call pops one recorded result (return value, bytes
  written) — only the glue around it is modelled.
* Temporaries are constructed and destroyed explicitly, in the order the compiled code does it
  (g++, C++17: copy elision for prvalues, NRVO where every `return` names the same local,
  right operand of an overloaded binary operator first).

Every function is total and returns `Except Err …`; `.error .oob` is an access outside a buffer.
-/
namespace SStr
open CStr

inductive Ev
  | alloc (id n : Nat)                       -- allocStringBuffer(n) returned buffer `id`
  | free (id n : Nat)                        -- deallocStringBuffer(id, n)
  | vsn (size ret : Nat) (text : Buf)        -- one PlatformSpecificVSNprintf call (echo of the environment)
  | out (line : String)                      -- an observation line of the operation
deriving Repr, DecidableEq, Inhabited

structure VsnRes where
  ret : Nat
  text : Buf
deriving Repr, DecidableEq, Inhabited

structure World where
  next : Nat := 1
  log : List Ev := []
  junk : UInt8 := 0xCD
  vsn : List VsnRes := []
deriving Repr, Inhabited

/-- a raw `char*` block obtained from the string allocator -/
structure Blk where
  id : Nat
  buf : Buf
deriving Repr, DecidableEq, Inhabited

/-- a `SimpleString` object: `buffer_` (allocation `id`, contents `buf`) and `bufferSize_` -/
structure Obj where
  id : Nat
  buf : Buf
  size : Nat
deriving Repr, DecidableEq, Inhabited

def M (α : Type) := World → Except Err (α × World)

instance : Monad M where
  pure a := fun w => .ok (a, w)
  bind x f := fun w =>
    match x w with
    | .error e => .error e
    | .ok (a, w') => f a w'

def liftE {α} (e : Except Err α) : M α := fun w =>
  match e with
  | .ok a => .ok (a, w)
  | .error e => .error e

def emit (e : Ev) : M Unit := fun w => .ok ((), { w with log := w.log ++ [e] })

def getJunk : M UInt8 := fun w => .ok (w.junk, w)

def npos : Nat := 18446744073709551615

/-! ### allocator indirection -/

def allocStringBuffer (n : Nat) : M Blk := fun w =>
  .ok (⟨w.next, List.replicate n w.junk⟩,
       { w with next := w.next + 1, log := w.log ++ [.alloc w.next n] })

def deallocStringBuffer (id n : Nat) : M Unit := emit (.free id n)

/-- `PlatformSpecificVSNprintf(buf, size, …)`: pops the recorded result; the bytes written are
    `text` and a terminator, which must fit `size` (the libc contract) -/
def vsnprintf (buf : Buf) (size : Nat) : M (VsnRes × Buf) := fun w =>
  match w.vsn with
  | [] => .error .env
  | r :: rest =>
    if r.text.length < size ∧ size ≤ buf.length then
      .ok ((r, r.text ++ 0 :: buf.drop (r.text.length + 1)),
           { w with vsn := rest, log := w.log ++ [.vsn size r.ret r.text] })
    else .error .env

/-! ### literals -/

def emptyLit : Buf := [0]
def nullLit : Buf := Gen.Str.nullText ++ [0]                                -- "(null)"
def lit (s : String) : Buf := s.toUTF8.toList ++ [0]

/-! ### buffer management -/

/-- `getEmptyString` -/
def getEmptyString : M Blk := do
  let k ← allocStringBuffer 1
  let b ← liftE (wr k.buf 0 0)
  pure ⟨k.id, b⟩

/-- `copyToNewBuffer(bufferToCopy, bufferSize)` -/
def copyToNewBuffer (src : Buf) (sp : Nat) (bufferSize : Nat) : M Blk := do
  let k ← allocStringBuffer bufferSize
  let b ← liftE (StrNCpy k.buf 0 src sp bufferSize)
  let b ← liftE (wr b (bufferSize - 1) 0)
  pure ⟨k.id, b⟩

/-- `deallocateInternalBuffer` (`none`: `buffer_ == NULL`, an object under construction) -/
def deallocateInternalBuffer : Option Obj → M Unit
  | none => pure ()
  | some o => deallocStringBuffer o.id o.size

/-- destructor -/
def dtor (o : Obj) : M Unit := deallocateInternalBuffer (some o)

def setInternalBufferAsEmptyString (old : Option Obj) : M Obj := do
  deallocateInternalBuffer old
  let k ← getEmptyString
  pure ⟨k.id, k.buf, 1⟩

/-- `copyBufferToNewInternalBuffer(const char*, size_t)` -/
def copyBufferToNewInternalBuffer (old : Option Obj) (src : Buf) (sp : Nat) (bufferSize : Nat) : M Obj := do
  deallocateInternalBuffer old
  let k ← copyToNewBuffer src sp bufferSize
  pure ⟨k.id, k.buf, bufferSize⟩

def setInternalBufferToNewBuffer (old : Option Obj) (bufferSize : Nat) : M Obj := do
  deallocateInternalBuffer old
  let k ← allocStringBuffer bufferSize
  let b ← liftE (wr k.buf 0 0)
  pure ⟨k.id, b, bufferSize⟩

def setInternalBufferTo (old : Option Obj) (blk : Blk) (bufferSize : Nat) : M Obj := do
  deallocateInternalBuffer old
  pure ⟨blk.id, blk.buf, bufferSize⟩

/-! ### constructors, assignment -/

/-- `SimpleString(const char*)`, non-NULL argument: `copyBufferToNewInternalBuffer(otherBuffer)` -/
def ctorCStr (src : Buf) (sp : Nat) : M Obj := do
  let n ← liftE (StrLen src sp)
  copyBufferToNewInternalBuffer none src sp (n + 1)

/-- `SimpleString(NULL)` -/
def ctorNull : M Obj := setInternalBufferAsEmptyString none

/-- the copy loop of `SimpleString(const char*, size_t repeatCount)` -/
def repeatLoop (src : Buf) (sp len : Nat) : Nat → Buf → Nat → Except Err (Buf × Nat)
  | 0, b, next => .ok (b, next)
  | k + 1, b, next =>
    match StrNCpy b next src sp (len + 1) with
    | .error e => .error e
    | .ok b' => repeatLoop src sp len k b' (next + len)

def ctorRepeat (src : Buf) (sp : Nat) (repeatCount : Nat) : M Obj := do
  let len ← liftE (StrLen src sp)
  let o ← setInternalBufferToNewBuffer none (len * repeatCount + 1)
  let r ← liftE (repeatLoop src sp len repeatCount o.buf 0)
  let b ← liftE (wr r.1 r.2 0)
  pure ⟨o.id, b, o.size⟩

/-- copy constructor: `copyBufferToNewInternalBuffer(other.getBuffer())` -/
def ctorCopy (other : Obj) : M Obj := ctorCStr other.buf 0

/-- `size()` -/
def size (self : Obj) : Except Err Nat := StrLen self.buf 0

/-- `operator=` for `this != &other`: `copyBufferToNewInternalBuffer(other)` -/
def assign (self other : Obj) : M Obj := do
  let n ← liftE (size other)
  copyBufferToNewInternalBuffer (some self) other.buf 0 (n + 1)

/-! ### concatenation -/

/-- `operator+=(const char* rhs)` -/
def appendC (self : Obj) (rhs : Buf) (rp : Nat) : M Obj := do
  let originalSize ← liftE (size self)
  let l ← liftE (StrLen rhs rp)
  let t ← copyToNewBuffer self.buf 0 (originalSize + (l + 1))
  let b ← liftE (StrNCpy t.buf originalSize rhs rp (l + 1))
  setInternalBufferTo (some self) ⟨t.id, b⟩ (originalSize + (l + 1))

/-- `operator+`: `SimpleString t(getBuffer()); t += rhs.getBuffer(); return t;` -/
def plus (self rhs : Obj) : M Obj := do
  let t ← ctorCStr self.buf 0
  appendC t rhs.buf 0

/-! ### comparisons and searches (no allocation unless stated) -/

def equals (l r : Obj) : Except Err Bool :=
  match StrCmp l.buf 0 r.buf 0 with
  | .error e => .error e
  | .ok d => .ok (d == 0)

def contains (self other : Obj) : Except Err Bool :=
  match StrStr self.buf 0 other.buf 0 with
  | .error e => .error e
  | .ok r => .ok r.isSome

def startsWith (self other : Obj) : Except Err Bool :=
  match size other with
  | .error e => .error e
  | .ok ol =>
    if ol = 0 then .ok true
    else
      match size self with
      | .error e => .error e
      | .ok l =>
        if l = 0 then .ok false
        else
          match StrStr self.buf 0 other.buf 0 with
          | .error e => .error e
          | .ok r => .ok (r == some 0)

def endsWith (self other : Obj) : Except Err Bool :=
  match size self with
  | .error e => .error e
  | .ok length =>
    match size other with
    | .error e => .error e
    | .ok other_length =>
      if other_length = 0 then .ok true
      else if length = 0 then .ok false
      else if length < other_length then .ok false
      else
        match StrCmp self.buf (length - other_length) other.buf 0 with
        | .error e => .error e
        | .ok d => .ok (d == 0)

/-- the `while (*str && strpart)` loop of `count` -/
def countLoop (b sub : Buf) : Nat → Nat → Option Nat → Nat → Except Err Nat
  | 0, _, _, _ => .error .fuel
  | f + 1, str, strpart, num =>
    match rd b str with
    | .error e => .error e
    | .ok c =>
      if c = 0 then .ok num
      else
        match strpart with
        | none => .ok num
        | some q =>
          match StrStr b (q + 1) sub 0 with
          | .error e => .error e
          | .ok r => countLoop b sub f (q + 1) r (num + 1)

def count (self substr : Obj) : Except Err Nat :=
  match rd self.buf 0 with
  | .error e => .error e
  | .ok c =>
    if c = 0 then .ok 0
    else
      match StrStr self.buf 0 substr.buf 0 with
      | .error e => .error e
      | .ok r => countLoop self.buf substr.buf (self.buf.length + 1) 0 r 0

/-- `at(pos)` — unchecked accessor -/
def at_ (self : Obj) (pos : Nat) : Except Err UInt8 := rd self.buf pos

def findFromLoop (b : Buf) (ch : UInt8) : Nat → Nat → Except Err Nat
  | 0, _ => .ok npos
  | k + 1, i =>
    match rd b i with
    | .error e => .error e
    | .ok c => if c = ch then .ok i else findFromLoop b ch k (i + 1)

/-- `findFrom(starting_position, ch)`: `for (i = start; i < length; i++) if (at(i) == ch) return i;` -/
def findFrom (self : Obj) (start : Nat) (ch : UInt8) : Except Err Nat :=
  match size self with
  | .error e => .error e
  | .ok length => findFromLoop self.buf ch (length - start) start

def find (self : Obj) (ch : UInt8) : Except Err Nat := findFrom self 0 ch

/-! ### substrings -/

/-- `subString(beginPos, amount)`; the named local is copied on return (no NRVO: the function
    also returns `""`) -/
def subString (self : Obj) (beginPos amount : Nat) : M Obj := do
  let l ← liftE (size self)
  if beginPos ≥ l then ctorCStr emptyLit 0
  else do
    let newString ← ctorCStr self.buf beginPos
    let nl ← liftE (size newString)
    let b ← liftE (if nl > amount then wr newString.buf amount 0 else .ok newString.buf)
    let r ← ctorCopy ⟨newString.id, b, newString.size⟩
    dtor newString
    pure r

def subString1 (self : Obj) (beginPos : Nat) : M Obj := subString self beginPos npos

def subStringFromTill (self : Obj) (startChar lastExcludedChar : UInt8) : M Obj := do
  let beginPos ← liftE (find self startChar)
  if beginPos = npos then ctorCStr emptyLit 0
  else do
    let endPos ← liftE (findFrom self beginPos lastExcludedChar)
    if endPos = npos then subString1 self beginPos
    else subString self beginPos (endPos - beginPos)

/-! ### in-place changes -/

/-- `replace(char to, char with)` -/
def replaceCharLoop (to w : UInt8) : Nat → Buf → Nat → Except Err Buf
  | 0, b, _ => .ok b
  | k + 1, b, i =>
    match rd b i with
    | .error e => .error e
    | .ok c =>
      if c = to then
        match wr b i w with
        | .error e => .error e
        | .ok b' => replaceCharLoop to w k b' (i + 1)
      else replaceCharLoop to w k b (i + 1)

def replaceChar (self : Obj) (to w : UInt8) : Except Err Obj :=
  match size self with
  | .error e => .error e
  | .ok s =>
    match replaceCharLoop to w s self.buf 0 with
    | .error e => .error e
    | .ok b => .ok ⟨self.id, b, self.size⟩

/-- first loop of `replace(const char*, const char*)`: occurrences left to right, not overlapping -/
def replCountLoop (b : Buf) (len : Nat) (to : Buf) (tp tolen : Nat) : Nat → Nat → Nat → Except Err Nat
  | 0, _, _ => .error .fuel
  | f + 1, i, c =>
    if i < len then
      match StrNCmp b i to tp tolen with
      | .error e => .error e
      | .ok d =>
        if d = 0 then replCountLoop b len to tp tolen f (i + tolen) (c + 1)
        else replCountLoop b len to tp tolen f (i + 1) c
    else .ok c

/-- second loop: build the new buffer -/
def replCopyLoop (b : Buf) (len : Nat) (to : Buf) (tp tolen : Nat) (w : Buf) (wp withlen : Nat) :
    Nat → Nat → Nat → Buf → Except Err Buf
  | 0, _, _, _ => .error .fuel
  | f + 1, i, j, nb =>
    if i < len then
      match StrNCmp b i to tp tolen with
      | .error e => .error e
      | .ok d =>
        if d = 0 then
          match StrNCpy nb j w wp (withlen + 1) with
          | .error e => .error e
          | .ok nb' => replCopyLoop b len to tp tolen w wp withlen f (i + tolen) (j + withlen) nb'
        else
          match rd b i with
          | .error e => .error e
          | .ok c =>
            match wr nb j c with
            | .error e => .error e
            | .ok nb' => replCopyLoop b len to tp tolen w wp withlen f (i + 1) (j + 1) nb'
    else .ok nb

def replaceBuild (self : Obj) (len : Nat) (to : Buf) (tp tolen : Nat) (w : Buf) (wp withlen c : Nat) : M Obj :=
  if len + withlen * c - tolen * c + 1 > 1 then do
    let nb ← allocStringBuffer (len + withlen * c - tolen * c + 1)
    let b ← liftE (replCopyLoop self.buf len to tp tolen w wp withlen (len + 1) 0 0 nb.buf)
    let b ← liftE (wr b (len + withlen * c - tolen * c + 1 - 1) 0)
    setInternalBufferTo (some self) ⟨nb.id, b⟩ (len + withlen * c - tolen * c + 1)
  else setInternalBufferAsEmptyString (some self)

/-- `replace(const char* to, const char* with)` -/
def replaceStr (self : Obj) (to : Buf) (tp : Nat) (w : Buf) (wp : Nat) : M Obj := do
  let len ← liftE (size self)
  let tolen ← liftE (StrLen to tp)
  let withlen ← liftE (StrLen w wp)
  if tolen = 0 then pure self
  else do
    let c ← liftE (replCountLoop self.buf len to tp tolen (len + 1) 0 0)
    if c = 0 then pure self
    else replaceBuild self len to tp tolen w wp withlen c

/-! ### lowerCase -/

def lowerLoop : Nat → Buf → Nat → Except Err Buf
  | 0, b, _ => .ok b
  | k + 1, b, i =>
    match rd b i with
    | .error e => .error e
    | .ok c =>
      match wr b i (ToLower c) with
      | .error e => .error e
      | .ok b' => lowerLoop k b' (i + 1)

/-- `lowerCase()`: `SimpleString str(*this); …; return str;` (NRVO) -/
def lowerCase (self : Obj) : M Obj := do
  let str ← ctorCopy self
  let n ← liftE (size str)
  let b ← liftE (lowerLoop n str.buf 0)
  pure ⟨str.id, b, str.size⟩

/-- `lowerCase() == str.lowerCase()`: the right operand is evaluated first -/
def equalsNoCase (self str : Obj) : M Bool := do
  let r ← lowerCase str
  let l ← lowerCase self
  let e ← liftE (equals l r)
  dtor l
  dtor r
  pure e

/-- `lowerCase().contains(other.lowerCase())` -/
def containsNoCase (self other : Obj) : M Bool := do
  let l ← lowerCase self
  let r ← lowerCase other
  let e ← liftE (contains l r)
  dtor r
  dtor l
  pure e

/-! ### formatted construction (glue around `vsnprintf`) -/

def sizeOfdefaultBuffer : Nat := Gen.Str.sizeOfdefaultBuffer

/-- `VStringFromFormat` -/
def vStringFromFormat : M Obj := do
  let resultString ← ctorCStr emptyLit 0
  let j ← getJunk
  let r ← vsnprintf (List.replicate sizeOfdefaultBuffer j) sizeOfdefaultBuffer
  if r.1.ret < sizeOfdefaultBuffer then do
    let tmp ← ctorCStr r.2 0
    let res ← assign resultString tmp
    dtor tmp
    pure res
  else do
    let newBuffer ← allocStringBuffer (r.1.ret + 1)
    let r2 ← vsnprintf newBuffer.buf (r.1.ret + 1)
    let tmp ← ctorCStr r2.2 0
    let res ← assign resultString tmp
    dtor tmp
    deallocStringBuffer newBuffer.id (r.1.ret + 1)
    pure res

/-- `StringFromFormat`: `SimpleString resultString; resultString = VStringFromFormat(…); return resultString;` -/
def stringFromFormat : M Obj := do
  let resultString ← ctorCStr emptyLit 0
  let tmp ← vStringFromFormat
  let res ← assign resultString tmp
  dtor tmp
  pure res

/-! ### printable -/

def getPrintableSizeLoop (b : Buf) : Nat → Nat → Nat → Except Err Nat
  | 0, _, acc => .ok acc
  | k + 1, i, acc =>
    match rd b i with
    | .error e => .error e
    | .ok c =>
      if isControlWithShortEscapeSequence c then getPrintableSizeLoop b k (i + 1) (acc + Gen.Str.printableSizeShort)
      else if isControl c then getPrintableSizeLoop b k (i + 1) (acc + Gen.Str.printableSizeHex)
      else getPrintableSizeLoop b k (i + 1) acc

def getPrintableSize (self : Obj) : Except Err Nat :=
  match size self with
  | .error e => .error e
  | .ok n => getPrintableSizeLoop self.buf n 0 n

/-- `shortEscapeCodes[(unsigned char)(c - '\a')]` as a literal buffer -/
def shortEscapeCode (c : UInt8) : Buf :=
  (Gen.Str.shortEscapeCodes.getD (c - Gen.Str.shortEscBase).toNat []) ++ [0]

def printableLoop (src : Buf) : Nat → Nat → Nat → Buf → M (Buf × Nat)
  | 0, _, j, rb => pure (rb, j)
  | k + 1, i, j, rb => do
    let c ← liftE (rd src i)
    if isControlWithShortEscapeSequence c then do
      let rb' ← liftE (StrNCpy rb j (shortEscapeCode c) 0 Gen.Str.shortEscapeCopy)
      printableLoop src k (i + 1) (j + Gen.Str.shortEscapeAdvance) rb'
    else if isControl c then do
      let hexEscapeCode ← stringFromFormat
      let rb' ← liftE (StrNCpy rb j hexEscapeCode.buf 0 Gen.Str.hexEscapeCopy)
      dtor hexEscapeCode
      printableLoop src k (i + 1) (j + Gen.Str.hexEscapeAdvance) rb'
    else do
      let rb' ← liftE (wr rb j c)
      printableLoop src k (i + 1) (j + 1) rb'

/-- `printable()` -/
def printable (self : Obj) : M Obj := do
  let result ← ctorCStr emptyLit 0
  let ps ← liftE (getPrintableSize self)
  let result ← setInternalBufferToNewBuffer (some result) (ps + 1)
  let n ← liftE (size self)
  let r ← printableLoop self.buf n 0 0 result.buf
  let b ← liftE (wr r.1 r.2 0)
  pure ⟨result.id, b, result.size⟩

/-! ### padding, copy-out -/

/-- the body of `padStringsToSameLength` after the swap: `str1 = SimpleString(pad, n) + str1` -/
def padFirst (str1 : Obj) (n : Nat) (padCharacter : UInt8) : M Obj := do
  let rep ← ctorRepeat [padCharacter, 0] 0 n
  let t ← plus rep str1
  let r ← assign str1 t
  dtor t
  dtor rep
  pure r

/-- `padStringsToSameLength(str1, str2, ch)` for two different objects; returns (str1, str2) -/
def padStringsToSameLength (str1 str2 : Obj) (ch : UInt8) : M (Obj × Obj) := do
  let l1 ← liftE (size str1)
  let l2 ← liftE (size str2)
  if l1 > l2 then do
    let r ← padFirst str2 (l1 - l2) ch
    pure (str1, r)
  else do
    let r ← padFirst str1 (l2 - l1) ch
    pure (r, str2)

/-- `copyToBuffer(buffer, bufferSize)`, `none` = NULL -/
def copyToBuffer (self : Obj) (buffer : Option Buf) (bufferSize : Nat) : Except Err (Option Buf) :=
  match buffer with
  | none => .ok none
  | some dst =>
    if bufferSize = 0 then .ok (some dst)
    else
      match size self with
      | .error e => .error e
      | .ok l =>
        match StrNCpy dst 0 self.buf 0 (if bufferSize - 1 < l then bufferSize - 1 else l) with
        | .error e => .error e
        | .ok d =>
          match wr d (if bufferSize - 1 < l then bufferSize - 1 else l) 0 with
          | .error e => .error e
          | .ok d' => .ok (some d')

/-! ### split -/

structure Coll where
  items : List Obj       -- collection_[0 .. size_)
  empty : Obj            -- empty_
deriving Repr, Inhabited

/-- `SimpleStringCollection()` : member `empty_` default-constructed -/
def collCtor : M Coll := do
  let e ← ctorCStr emptyLit 0
  pure ⟨[], e⟩

def dtorAllRev : List Obj → M Unit
  | [] => pure ()
  | o :: rest => do dtorAllRev rest; dtor o

def ctorEmptyN : Nat → M (List Obj)
  | 0 => pure []
  | k + 1 => do
    let o ← ctorCStr emptyLit 0
    let rest ← ctorEmptyN k
    pure (o :: rest)

/-- `allocate(size)`: `delete[] collection_; collection_ = new SimpleString[size_]` -/
def collAllocate (col : Coll) (n : Nat) : M Coll := do
  dtorAllRev col.items
  let items ← ctorEmptyN n
  pure ⟨items, col.empty⟩

/-- `~SimpleStringCollection`: `delete[] collection_` (elements in reverse order), then `empty_` -/
def collDtor (col : Coll) : M Unit := do
  dtorAllRev col.items
  dtor col.empty

/-- `col[index] = value` (`operator[]` then `operator=`; out of range goes to `empty_ = ""` first) -/
def collAssign (col : Coll) (index : Nat) (value : Obj) : M Coll :=
  match col.items[index]? with
  | some o => do
    let o' ← assign o value
    pure ⟨col.items.set index o', col.empty⟩
  | none => do
    let t ← ctorCStr emptyLit 0
    let e ← assign col.empty t
    dtor t
    let e' ← assign e value
    pure ⟨col.items, e'⟩

/-- `col[index]` read access: returns the element; out of range `empty_ = ""; return empty_` -/
def collGet (col : Coll) (index : Nat) : M (Coll × Obj) :=
  match col.items[index]? with
  | some o => pure (col, o)
  | none => do
    let t ← ctorCStr emptyLit 0
    let e ← assign col.empty t
    dtor t
    pure (⟨col.items, e⟩, e)

structure Scan where
  rest : Nat
  num : Nat
deriving Repr, Inhabited

/-- first loop of `split`: `for (found; *rest && (found = StrStr(rest, delim)) != NULL; num++) rest = found + delimiterLength;` -/
def splitScan (b d : Buf) (dl : Nat) : Nat → Nat → Nat → Except Err Scan
  | 0, _, _ => .error .fuel
  | f + 1, rest, num =>
    match rd b rest with
    | .error e => .error e
    | .ok c =>
      if c = 0 then .ok ⟨rest, num⟩
      else
        match StrStr b rest d 0 with
        | .error e => .error e
        | .ok none => .ok ⟨rest, num⟩
        | .ok (some found) => splitScan b d dl f (found + dl) (num + 1)

/-- `col[i] = SimpleString(prev).subString(0, amount)`: the two temporaries are destroyed at the end
    of the full expression, the `subString` result first -/
def splitStoreToken (self : Obj) (prev amount : Nat) (col : Coll) (i : Nat) : M Coll := do
  let tmp ← ctorCStr self.buf prev
  let sub ← subString tmp 0 amount
  let col' ← collAssign col i sub
  dtor sub
  dtor tmp
  pure col'

/-- `col[num] = str` (`str` converted to a temporary `SimpleString`) -/
def splitStoreRest (self : Obj) (str : Nat) (col : Coll) (i : Nat) : M Coll := do
  let tmp ← ctorCStr self.buf str
  let col' ← collAssign col i tmp
  dtor tmp
  pure col'

/-- second loop: `prev = str; str = StrStr(str, delim) + delimiterLength; col[i] = SimpleString(prev).subString(0, str - prev)` -/
def splitFill (self : Obj) (d : Buf) (dl : Nat) : Nat → Nat → Nat → Coll → M (Coll × Nat)
  | 0, _, str, col => pure (col, str)
  | k + 1, i, str, col => do
    let f ← liftE (StrStr self.buf str d 0)
    match f with
    | none => liftE (.error .oob)          -- `NULL + delimiterLength` would be dereferenced next
    | some found => do
      let col' ← splitStoreToken self str (found + dl - str) col i
      splitFill self d dl k (i + 1) (found + dl) col'

/-- `split(delimiter, col)` -/
def split (self delimiter : Obj) (col : Coll) : M Coll := do
  let ds ← liftE (size delimiter)
  let sc ← liftE (splitScan self.buf delimiter.buf (if ds ≠ 0 then ds else 1) (self.buf.length + 1) 0 0)
  let c ← liftE (rd self.buf sc.rest)
  let ew ← liftE (if c ≠ 0 then .ok true else if sc.num = 0 then endsWith self delimiter else .ok true)
  -- extraEndToken = (*rest || (num == 0 && !endsWith(delimiter))) ? 1 : 0
  let col ← collAllocate col (sc.num + (if c ≠ 0 ∨ (sc.num = 0 ∧ ew = false) then 1 else 0))
  let r ← splitFill self delimiter.buf (if ds ≠ 0 then ds else 1) sc.num 0 0 col
  if c ≠ 0 ∨ (sc.num = 0 ∧ ew = false) then splitStoreRest self r.2 r.1 sc.num
  else pure r.1

/-! ### number / binary / bit formatters (glue) -/

/-- `StringFromOrNull`-style choice: `(p) ? StringFrom(p) : StringFrom("(null)")` -/
def stringFromOrNull : Option Buf → M Obj
  | some b => ctorCStr b 0
  | none => ctorCStr nullLit 0

/-- `HexStringFrom(signed char)`: for a negative value only the last two digits are kept -/
def hexStringFromSignedChar (negative : Bool) : M Obj := do
  let result ← stringFromFormat
  if negative then do
    let sz ← liftE (size result)
    -- `size - (CPPUTEST_CHAR_BIT/4)` on `size_t`: wraps for a text shorter than two characters
    let t ← subString1 result (if sz ≥ 2 then sz - 2 else sz + 18446744073709551616 - 2)
    let r ← assign result t
    dtor t
    pure r
  else pure result

/-- `BracketsFormattedHexString(hexString)`: `SimpleString("(0x") + hexString + ")"`;
    the conversion of `")"` is evaluated first -/
def bracketsFormattedHexString (hexString : Obj) : M Obj := do
  let c ← ctorCStr [41, 0] 0
  let a ← ctorCStr [40, 48, 120, 0] 0
  let t1 ← plus a hexString
  let t2 ← plus t1 c
  dtor t1
  dtor a
  dtor c
  pure t2

/-- `SimpleString("0x") + HexStringFrom(value)` with the right operand first -/
def stringFromPointer : M Obj := do
  let h ← stringFromFormat
  let x ← ctorCStr [48, 120, 0] 0
  let r ← plus x h
  dtor x
  dtor h
  pure r

def binaryLoop : Nat → Obj → M Obj
  | 0, result => pure result
  | k + 1, result => do
    let f ← stringFromFormat
    let result' ← appendC result f.buf 0
    dtor f
    binaryLoop k result'

/-- `StringFromBinary(value, size)`; the bytes themselves only reach `vsnprintf` -/
def stringFromBinary (n : Nat) : M Obj := do
  let result ← ctorCStr emptyLit 0
  let result ← binaryLoop n result
  let sz ← liftE (size result)
  let t ← subString result 0 (if sz = 0 then npos else sz - 1)
  let r ← assign result t
  dtor t
  pure r

def stringFromBinaryOrNull (isNull : Bool) (n : Nat) : M Obj :=
  if isNull then ctorCStr nullLit 0 else stringFromBinary n

def stringFromBinaryWithSize (isNull : Bool) (n : Nat) : M Obj := do
  let result ← stringFromFormat
  let b ← stringFromBinaryOrNull isNull (if n > Gen.Str.binaryDisplayLimit then Gen.Str.binaryDisplayLimit else n)
  let result ← appendC result b.buf 0
  dtor b
  if n > (if n > Gen.Str.binaryDisplayLimit then Gen.Str.binaryDisplayLimit else n) then appendC result (Gen.Str.binaryEllipsis ++ [0]) 0
  else pure result

def stringFromBinaryWithSizeOrNull (isNull : Bool) (n : Nat) : M Obj :=
  if isNull then ctorCStr nullLit 0 else stringFromBinaryWithSize false n

def maskedBitsLoop (bitCount : Nat) : Nat → Nat → Nat → Nat → Obj → M Obj
  | 0, _, _, _, result => pure result
  | k + 1, i, value, mask, result => do
    let r1 ← appendC result
      (if mask &&& (1 <<< (bitCount - 1)) ≠ 0 then (if value &&& (1 <<< (bitCount - 1)) ≠ 0 then [49, 0] else [48, 0]) else [120, 0]) 0
    let r2 ← (if i % 8 = 7 ∧ i ≠ bitCount - 1 then appendC r1 [32, 0] 0 else pure r1)
    maskedBitsLoop bitCount k (i + 1) ((value <<< 1) % 18446744073709551616) ((mask <<< 1) % 18446744073709551616) r2

/-- `StringFromMaskedBits(value, mask, byteCount)`, `byteCount ≥ 1` -/
def stringFromMaskedBits (value mask byteCount : Nat) : M Obj := do
  let result ← ctorCStr emptyLit 0
  maskedBitsLoop (if byteCount > 8 then 64 else byteCount * 8) (if byteCount > 8 then 64 else byteCount * 8) 0 value mask result

/-- the suffix chosen by `StringFromOrdinalNumber` (the rest is `vsnprintf`) -/
def ordinalSuffix (number : Nat) : Buf :=
  if number % Gen.Str.ordinalMod < Gen.Str.ordinalLo ∨ number % Gen.Str.ordinalMod > Gen.Str.ordinalHi then
    match Gen.Str.ordinalTable.find? (fun p => p.1 == number % Gen.Str.ordinalDigitMod) with
    | some p => p.2
    | none => Gen.Str.ordinalDefault
  else Gen.Str.ordinalDefault

/-- `PrintableStringFromOrNull` -/
def printableStringFromOrNull : Option Buf → M Obj
  | none => ctorCStr nullLit 0
  | some b => do
    let s ← ctorCStr b 0
    let r ← printable s
    dtor s
    pure r

end SStr
