import CppUModel.Model.MockValue
/-!
# The rest of src/CppUTestExt/MockNamedValue.cpp, hand-written: names, `MockNamedValueList`,
# `MockNamedValueComparatorsAndCopiersRepository`, `setObjectPointer`

Written from the C++ loop by loop; tied to the code by the `h_c09` correspondence (ops `name`, `ladd`,
`lget`, `llist`, `lclear`, `rcmp`, `rcop`, `rget`, `rimport`, `rclear`, `rdefault`) and by the shape
checks of `translate/c09_shapes.py` (a changed body raises TranslateError).  Comparators and copiers
are identified by small numbers (the harness' objects); names of types are `String`s like `type_`.
-/
namespace Mock

/-! ## the name of a value -/

/-- a `MockNamedValue`: its name and what it holds -/
structure NamedValue where
  name : Bytes
  val : MVal

/-- `MockNamedValue(const SimpleString& name)`: type "int", `intValue_ = 0`, no comparator -/
def NamedValue.new (name : Bytes) : NamedValue := { name := name, val := .int 0 }
/-- `setName(const char*)`: `name_ = name` through `SimpleString(const char*)` (NULL = "") -/
def NamedValue.setName (v : NamedValue) (name : Option Bytes) : NamedValue := { v with name := simpleStringOfCStr name }
def NamedValue.getName (v : NamedValue) : Bytes := v.name

/-! ## `MockNamedValueList`: singly linked, head first; items are what the nodes point to -/

/-- a list node's view of its item: the name (`getName()`) and the item itself -/
abbrev NList (α : Type) := List (Bytes × α)

/-- `add`: walk to the last node (`while (lastNode->next())`) and hang the new node there -/
def NList.add {α} : NList α → Bytes × α → NList α
  | [], x => [x]
  | h :: t, x => h :: NList.add t x

/-- `getValueByName`: `for (p = head_; p; p = p->next()) if (p->getName() == name) return p->item();` -/
def NList.getValueByName {α} : NList α → Bytes → Option α
  | [], _ => none
  | (n, a) :: t, name => if simpleStringEq n name then some a else NList.getValueByName t name

def NList.clear {α} (_ : NList α) : NList α := []

/-! ## the comparator / copier repository: singly linked, new nodes at the HEAD -/

structure RepoNode where
  name : String
  comparator : Option Nat
  copier : Option Nat
deriving Repr, DecidableEq

abbrev Repo := List RepoNode

def Repo.installComparator (r : Repo) (name : String) (c : Nat) : Repo :=
  { name := name, comparator := some c, copier := none } :: r
def Repo.installCopier (r : Repo) (name : String) (c : Nat) : Repo :=
  { name := name, comparator := none, copier := some c } :: r

/-- `for (p = head_; p; p = p->next_) if (p->name_ == name && p->comparator_) return p->comparator_;` -/
def Repo.getComparatorForType : Repo → String → Option Nat
  | [], _ => none
  | n :: rest, name => if n.name == name && n.comparator.isSome then n.comparator else Repo.getComparatorForType rest name
def Repo.getCopierForType : Repo → String → Option Nat
  | [], _ => none
  | n :: rest, name => if n.name == name && n.copier.isSome then n.copier else Repo.getCopierForType rest name

/-- `installComparatorsAndCopiers(other)`: `for (p = other.head_; p; p = p->next_) head_ = new Node(p…, head_)` —
    every node of `other`, head first, is pushed onto the head of this repository -/
def Repo.installAll : Repo → Repo → Repo
  | r, [] => r
  | r, n :: rest => Repo.installAll (n :: r) rest

def Repo.clear (_ : Repo) : Repo := []

/-! ## `setObjectPointer` / `setConstObjectPointer` -/

/-- what the setter looks up: `if (defaultRepository_) { comparator_ = …getComparatorForType(type); copier_ = … }`;
    a fresh value has neither -/
def lookupForType (defaultRepo : Option Repo) (ty : String) : Option Nat × Option Nat :=
  match defaultRepo with
  | none => (none, none)
  | some r => (r.getComparatorForType ty, r.getCopierForType ty)

/-- the value stored by `setObjectPointer(type, p)` / `setConstObjectPointer(type, p)`; `sem` gives the
    behaviour (`isEqual`) of a comparator object -/
def setObjectPointer (defaultRepo : Option Repo) (sem : Nat → Nat → Nat → Bool) (ty : String) (p : Nat) : MVal :=
  .obj ty p ((lookupForType defaultRepo ty).1.map sem)

end Mock
