/-!
# C10: the statements of the scoped-lock code, as syntax

`translate/extract_threadsafe.py` regenerates the constructor / destructor of `MemLeakScopedMutex`,
`MemLeakScopedMutex::releaseBeforeFailing()` and `MemoryLeakWarningReporter::fail` from
`src/CppUTest/MemoryLeakWarningPlugin.cpp` as lists of these statements
(`Gen/ThreadSafeWiring.lean`); `Model/ThreadSafe.lean` executes them.
-/
namespace ThreadSafe

inductive LockState
  | free | held
deriving DecidableEq, Repr, Inhabited

/-- loop- and branch-free statements on the detector's mutex and on the file-static flag
    `memLeakMutexIsHeld` -/
inductive Simple
  /-- `mutex->Lock()` (also: construction of the `ScopedMutexLock` member) -/
  | lock
  /-- `mutex->Unlock()` (also: destruction of the `ScopedMutexLock` member) -/
  | unlock
  /-- `memLeakMutexIsHeld = b;` -/
  | setFlag (b : Bool)
deriving DecidableEq, Repr, Inhabited

inductive LStmt
  | simple (s : Simple)
  /-- `if (memLeakMutexIsHeld) { ... }` -/
  | ifFlag (body : List Simple)
deriving DecidableEq, Repr, Inhabited

/-- statements of `MemoryLeakWarningReporter::fail` -/
inductive FStmt
  /-- a statement that touches neither the mutex nor the flag (`UtestShell::getCurrent()`) -/
  | other
  /-- `MemLeakScopedMutex::releaseBeforeFailing();` -/
  | releaseBeforeFailing
  /-- `currentTest->failWith(.., getCurrentTestTerminatorWithoutExceptions())`: leaves by `longjmp`;
      nothing after it runs, no destructor of the frames it leaves runs -/
  | failWith
  /-- `currentTest->addFailure(FailFailure(..))` as a statement of its own: records the failure
      (`TestResult::addFailure` -> `TestOutput::printFailure`) and RETURNS.  `printFailure` is a callback
      into whatever output is installed; an output may allocate through `operator new` there
      (`JUnitTestOutput::printFailure`: `new TestFailure(failure)`) - the 'allocating callback' of
      `Model/ThreadSafe.lean` -/
  | addFailure
  /-- `UtestShell::getCurrentTestTerminatorWithoutExceptions().exitCurrentTest()`: leaves by `longjmp`
      (`failWith` = `addFailure` followed by this) -/
  | exitCurrentTest
deriving DecidableEq, Repr, Inhabited

/-- the regenerated code of the locked wrappers -/
structure Code where
  /-- static initialiser of `memLeakMutexIsHeld` -/
  flagInit : Bool
  /-- `MemLeakScopedMutex()`: member initialisers in declaration order, then the constructor body -/
  ctor : List LStmt
  /-- `~MemLeakScopedMutex()`: the destructor body, then the members in reverse declaration order -/
  dtor : List LStmt
  /-- body of `MemLeakScopedMutex::releaseBeforeFailing()` -/
  release : List LStmt
  /-- body of `MemoryLeakWarningReporter::fail` -/
  fail : List FStmt
deriving DecidableEq, Repr, Inhabited

end ThreadSafe
