import CppUModel.Model.OutputEvents
import CppUModel.Gen.EscapeTables
import CppUModel.Gen.TeamCityWriters
/-!
# Model of `TeamCityTestOutput` (src/CppUTest/TeamCityTestOutput.cpp), written from the C++

State: `currtest_` (only its name is read) and `currGroup_` — both are carried from one repetition of a
repeated run (`-r`) into the next and never cleared.  The writer is a fold over the runner's
output events; what it returns per event is the byte string handed to `printBuffer`.
`printEscaped` follows the regenerated branch table `Gen.EscapeTables.tcBranches`.

The five overridden callbacks and `TestOutput::printTestRun` are NOT written by hand any more: `step` is an
INTERPRETER (`exec`) of the statement lists `Gen.TeamCityWriters.*`, regenerated from the C++ on every run
(`translate/extract_teamcity.py`): print("literal") / printEscaped(field) / print(field) / print(number) /
if (cond) { prints } / early-return guard / assignment to currtest_ / currGroup_, in source order.  The former
hand-written writer is kept as `stepHand`; `Proofs/TeamCity.lean` proves `step = stepHand` (obligation
`writers_are_the_source`), which is how every theorem below speaks about what the source says at check time.
The base class parts that still print (`TestOutput::print`, `ConsoleTestOutput`'s summary in
`printTestsEnded`) are modelled as well so that the whole captured stream can be compared.
-/
namespace TeamCity
open Text (Bytes)
open OutEv

/-- the `if / else if` chain of `printEscaped` for one byte -/
def escByteAux (barc : UInt8) : List (List UInt8 × Option UInt8) → UInt8 → Bytes
  | [], c => [c]
  | (cs, second) :: rest, c =>
    if cs.contains c then [barc, second.getD c] else escByteAux barc rest c

def escByte (c : UInt8) : Bytes := escByteAux Gen.EscapeTables.tcBar Gen.EscapeTables.tcBranches c

/-- `printEscaped(s)`: `while (*s) { …; printBuffer(str); s++; }` -/
def printEscaped (s : Bytes) : Bytes := s.flatMap escByte

structure St where
  currTest  : Option Bytes := none
  currGroup : Bytes := []
  veryVerbose : Bool := false          -- `verbose_ == level_veryVerbose` (set before the run, -vv)
deriving Repr, DecidableEq, Inhabited

def testStartedOut (t : TestInfo) : Bytes :=
  lit "##teamcity[testStarted name='" ++ printEscaped t.name ++ lit "']\n" ++
  (if !t.willRun then lit "##teamcity[testIgnored name='" ++ printEscaped t.name ++ lit "']\n" else [])

def testEndedOut (cur : Option Bytes) (ms : Nat) : Bytes :=
  match cur with
  | none => []
  | some name => lit "##teamcity[testFinished name='" ++ printEscaped name ++ lit "' duration='" ++ dec ms ++ lit "']\n"

def groupStartedOut (g : Bytes) : Bytes :=
  lit "##teamcity[testSuiteStarted name='" ++ printEscaped g ++ lit "']\n"

def groupEndedOut (g : Bytes) : Bytes :=
  if g == [] then [] else lit "##teamcity[testSuiteFinished name='" ++ printEscaped g ++ lit "']\n"

def failurePrefix (f : Failure) : Bytes :=
  if f.isOutsideTestFile || f.isInHelperFunction then
    lit "TEST failed (" ++ printEscaped f.testFile ++ lit ":" ++ dec f.testLine ++ lit "): "
  else []

def failureOut (f : Failure) : Bytes :=
  lit "##teamcity[testFailed name='" ++ printEscaped f.testName ++ lit "' message='" ++
  failurePrefix f ++ printEscaped f.file ++ lit ":" ++ dec f.line ++
  lit "' details='" ++ printEscaped f.message ++ lit "']\n"

/-- `TestOutput::printTestsEnded` (not overridden), colour off -/
def summaryOut (s : Summary) : Bytes :=
  lit "\n" ++
  (if s.failureCount != 0 || s.runCount + s.ignoredCount == 0 then
     lit "Errors (" ++ (if s.failureCount > 0 then dec s.failureCount ++ lit " failures, " else lit "ran nothing, ")
   else lit "OK (") ++
  dec s.testCount ++ lit " tests, " ++ dec s.runCount ++ lit " ran, " ++ dec s.checkCount ++ lit " checks, " ++
  dec s.ignoredCount ++ lit " ignored, " ++ dec s.filteredOutCount ++ lit " filtered out, " ++ dec s.totalMs ++ lit " ms)" ++
  (if (s.failureCount != 0 || s.runCount + s.ignoredCount == 0) && s.failureCount == 0 then
     lit ("\nNote: test run failed because no tests were run or ignored. Assuming something went wrong. " ++
          "This often happens because of linking errors or typos in test filter.")
   else []) ++
  lit "\n\n"

/-- `TestOutput::printTestRun` (not overridden) -/
def testRunOut (number total : Nat) : Bytes :=
  if total > 1 then lit "Test run " ++ dec number ++ lit " of " ++ dec total ++ lit "\n" else []

/-- the hand-written writer (reference the regenerated one is proved equal to) -/
def stepHand (s : St) : Ev → St × List UInt8
  | .testRun i n => (s, testRunOut i n)
  | .testsStarted => (s, [])
  | .groupStarted t => ({ s with currGroup := t.group }, groupStartedOut t.group)
  | .testStarted t => ({ s with currTest := some t.name }, testStartedOut t)
  | .print text => (s, text)
  | .failure f => (s, failureOut f)
  | .veryVerbose text => (s, if s.veryVerbose then text else [])      -- `TestOutput::printVeryVerbose`
  | .testEnded ms _ => (s, testEndedOut s.currTest ms)
  | .groupEnded _ => (s, groupEndedOut s.currGroup)
  | .testsEnded sm => (s, summaryOut sm)

/-! ## the interpreter of the regenerated statement lists -/

open Gen.TeamCityWriters in
/-- the argument of a callback: the `UtestShell` (test/group started), the test time (test ended), the
    `TestFailure` (printFailure), the two numbers of `printTestRun` -/
structure Env where
  test      : TestInfo := default
  ms        : Nat := 0
  failure   : Failure := default
  runNumber : Nat := 0
  runTotal  : Nat := 0

open Gen.TeamCityWriters in
def fieldVal (s : St) (env : Env) : Field → Bytes
  | .testName => env.test.name
  | .testGroup => env.test.group
  | .currTestName => (match s.currTest with | some n => n | none => [])    -- a null `currtest_` is excluded by the guard
  | .currGroup => s.currGroup
  | .failTestNameOnly => env.failure.testName
  | .failFileName => env.failure.file
  | .failTestFileName => env.failure.testFile
  | .failMessage => env.failure.message

open Gen.TeamCityWriters in
def numVal (env : Env) : Num → Nat
  | .testDuration => env.ms
  | .failLine => env.failure.line
  | .failTestLine => env.failure.testLine
  | .runNumber => env.runNumber
  | .runTotal => env.runTotal

open Gen.TeamCityWriters in
def condAtomHolds (env : Env) : CondAtom → Bool
  | .testWillRun => env.test.willRun
  | .failOutsideTestFile => env.failure.isOutsideTestFile
  | .failInHelperFunction => env.failure.isInHelperFunction
  | .runTotalGtOne => decide (env.runTotal > 1)

open Gen.TeamCityWriters in
/-- `a || !b || …` -/
def condHolds (env : Env) : List (Bool × CondAtom) → Bool
  | [] => false
  | (neg, a) :: rest => (if neg then !condAtomHolds env a else condAtomHolds env a) || condHolds env rest

open Gen.TeamCityWriters in
def guardHolds (s : St) : Guard → Bool
  | .currTestNull => s.currTest.isNone
  | .currGroupEmpty => s.currGroup == []

open Gen.TeamCityWriters in
/-- one output call: what reaches `printBuffer` -/
def atomOut (s : St) (env : Env) : Atom → Bytes
  | .lit x => lit x
  | .esc f => printEscaped (fieldVal s env f)
  | .raw f => fieldVal s env f
  | .num n => dec (numVal env n)

def atomsOut (s : St) (env : Env) : List Gen.TeamCityWriters.Atom → Bytes
  | [] => []
  | a :: rest => atomOut s env a ++ atomsOut s env rest

open Gen.TeamCityWriters in
/-- run one callback: statements in source order, the state threaded through the assignments -/
def exec (env : Env) : List Stmt → St → St × Bytes
  | [], s => (s, [])
  | .out a :: rest, s => ((exec env rest s).1, atomOut s env a ++ (exec env rest s).2)
  | .cond d body :: rest, s =>
    ((exec env rest s).1, (if condHolds env d then atomsOut s env body else []) ++ (exec env rest s).2)
  | .returnIf g :: rest, s => if guardHolds s g then (s, []) else exec env rest s
  | .setCurrTest :: rest, s => exec env rest { s with currTest := some env.test.name }
  | .setCurrGroup :: rest, s => exec env rest { s with currGroup := env.test.group }

/-- the writer: every overridden callback and `printTestRun` executed from the regenerated statement lists -/
def step (s : St) : Ev → St × List UInt8
  | .testRun i n => exec { runNumber := i, runTotal := n } Gen.TeamCityWriters.printTestRun s
  | .testsStarted => (s, [])
  | .groupStarted t => exec { test := t } Gen.TeamCityWriters.printCurrentGroupStarted s
  | .testStarted t => exec { test := t } Gen.TeamCityWriters.printCurrentTestStarted s
  | .print text => (s, text)
  | .failure f => exec { failure := f } Gen.TeamCityWriters.printFailure s
  | .veryVerbose text => (s, if s.veryVerbose then text else [])      -- `TestOutput::printVeryVerbose`
  | .testEnded ms _ => exec { ms := ms } Gen.TeamCityWriters.printCurrentTestEnded s
  | .groupEnded _ => exec {} Gen.TeamCityWriters.printCurrentGroupEnded s
  | .testsEnded sm => (s, summaryOut sm)

/-- the captured stream of a whole run; `vv` = very verbose mode on -/
def streamV (vv : Bool) (evs : List Ev) : Bytes := (foldEvents step { veryVerbose := vv } evs).2

/-- the captured stream of a whole run in the default mode (`-v` changes nothing here: the overridden
    `printCurrentTestStarted/Ended` do not look at the verbosity) -/
def stream (evs : List Ev) : Bytes := streamV false evs

/-! ## `CompositeTestOutput` (src/CppUTest/TestOutput.cpp): a TeamCity output next to another output -/

/-- every callback goes to `outputOne_`, then to `outputTwo_`; the bytes of both, in that order -/
def both {σ τ : Type} (a : σ → Ev → σ × Bytes) (b : τ → Ev → τ × Bytes) (s : σ × τ) (e : Ev) : (σ × τ) × Bytes :=
  (((a s.1 e).1, (b s.2 e).1), (a s.1 e).2 ++ (b s.2 e).2)

/-- an output whose bytes do not go to stdout (a console output writing elsewhere); state: callbacks seen -/
def sinkStep (n : Nat) (_ : Ev) : Nat × Bytes := (n + 1, [])

/-- what reaches stdout when the TeamCity output is `outputOne_` (position 1) / `outputTwo_` (position 2) of a composite
    whose other output writes elsewhere -/
def streamComposite (position : Nat) (vv : Bool) (evs : List Ev) : Bytes :=
  if position == 1 then (foldEvents (both step sinkStep) ({ veryVerbose := vv }, 0) evs).2
  else (foldEvents (both sinkStep step) (0, { veryVerbose := vv }) evs).2

/-- the callbacks through which the runner, the tests and the base class reach an output -/
def requiredForwards : List (String × String) :=
  [("printTestsStarted", ""), ("printTestsEnded", "constTestResult&"), ("printCurrentTestStarted", "constUtestShell&"),
   ("printCurrentTestEnded", "constTestResult&"), ("printCurrentGroupStarted", "constUtestShell&"),
   ("printCurrentGroupEnded", "constTestResult&"), ("printFailure", "constTestFailure&"), ("print", "constchar*"),
   ("print", "long"), ("print", "size_t"), ("printVeryVerbose", "constchar*"), ("verbose", "VerbosityLevel"),
   ("printBuffer", "constchar*"), ("flush", "")]

/-- in the regenerated table of `CompositeTestOutput`'s methods every required callback is forwarded to both outputs -/
def compositeForwardsAll : Bool :=
  requiredForwards.all fun r =>
    Gen.TeamCityWriters.compositeForwards.any fun f => f.1 == r.1 && f.2.1 == r.2 && f.2.2.1 && f.2.2.2.1

end TeamCity
