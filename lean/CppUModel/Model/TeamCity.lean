import CppUModel.Model.OutputEvents
import CppUModel.Gen.EscapeTables
/-!
# Model of `TeamCityTestOutput` (src/CppUTest/TeamCityTestOutput.cpp), written from the C++

State: `currtest_` (only its name is read) and `currGroup_` — both are carried from one repetition of a
repeated run (`-r`) into the next and never cleared.  The writer is a fold over the runner's
output events; what it returns per event is the byte string handed to `printBuffer`.
`printEscaped` follows the regenerated branch table `Gen.EscapeTables.tcBranches`.
The base class parts that still print (`TestOutput::print`, `ConsoleTestOutput`'s summary in
`printTestsEnded`) are modelled as well so that the whole captured stream can be compared.
-/
namespace TeamCity
open Text (Bytes)
open OutEv

/-- the `if / else if` chain of `printEscaped` for one byte -/
def escByteAux (barc : UInt8) : List (List UInt8 × Option UInt8) → UInt8 → Bytes
  | [], c => [c]
  | (cs, second) :: rest, c =>
    if cs.contains c then [barc, second.getD c] else escByteAux barc rest c

def escByte (c : UInt8) : Bytes := escByteAux Gen.EscapeTables.tcBar Gen.EscapeTables.tcBranches c

/-- `printEscaped(s)`: `while (*s) { …; printBuffer(str); s++; }` -/
def printEscaped (s : Bytes) : Bytes := s.flatMap escByte

structure St where
  currTest  : Option Bytes := none
  currGroup : Bytes := []
  veryVerbose : Bool := false          -- `verbose_ == level_veryVerbose` (set before the run, -vv)
deriving Repr, DecidableEq, Inhabited

def testStartedOut (t : TestInfo) : Bytes :=
  lit "##teamcity[testStarted name='" ++ printEscaped t.name ++ lit "']\n" ++
  (if !t.willRun then lit "##teamcity[testIgnored name='" ++ printEscaped t.name ++ lit "']\n" else [])

def testEndedOut (cur : Option Bytes) (ms : Nat) : Bytes :=
  match cur with
  | none => []
  | some name => lit "##teamcity[testFinished name='" ++ printEscaped name ++ lit "' duration='" ++ dec ms ++ lit "']\n"

def groupStartedOut (g : Bytes) : Bytes :=
  lit "##teamcity[testSuiteStarted name='" ++ printEscaped g ++ lit "']\n"

def groupEndedOut (g : Bytes) : Bytes :=
  if g == [] then [] else lit "##teamcity[testSuiteFinished name='" ++ printEscaped g ++ lit "']\n"

def failurePrefix (f : Failure) : Bytes :=
  if f.isOutsideTestFile || f.isInHelperFunction then
    lit "TEST failed (" ++ printEscaped f.testFile ++ lit ":" ++ dec f.testLine ++ lit "): "
  else []

def failureOut (f : Failure) : Bytes :=
  lit "##teamcity[testFailed name='" ++ printEscaped f.testName ++ lit "' message='" ++
  failurePrefix f ++ printEscaped f.file ++ lit ":" ++ dec f.line ++
  lit "' details='" ++ printEscaped f.message ++ lit "']\n"

/-- `TestOutput::printTestsEnded` (not overridden), colour off -/
def summaryOut (s : Summary) : Bytes :=
  lit "\n" ++
  (if s.failureCount != 0 || s.runCount + s.ignoredCount == 0 then
     lit "Errors (" ++ (if s.failureCount > 0 then dec s.failureCount ++ lit " failures, " else lit "ran nothing, ")
   else lit "OK (") ++
  dec s.testCount ++ lit " tests, " ++ dec s.runCount ++ lit " ran, " ++ dec s.checkCount ++ lit " checks, " ++
  dec s.ignoredCount ++ lit " ignored, " ++ dec s.filteredOutCount ++ lit " filtered out, " ++ dec s.totalMs ++ lit " ms)" ++
  (if (s.failureCount != 0 || s.runCount + s.ignoredCount == 0) && s.failureCount == 0 then
     lit ("\nNote: test run failed because no tests were run or ignored. Assuming something went wrong. " ++
          "This often happens because of linking errors or typos in test filter.")
   else []) ++
  lit "\n\n"

/-- `TestOutput::printTestRun` (not overridden) -/
def testRunOut (number total : Nat) : Bytes :=
  if total > 1 then lit "Test run " ++ dec number ++ lit " of " ++ dec total ++ lit "\n" else []

def step (s : St) : Ev → St × List UInt8
  | .testRun i n => (s, testRunOut i n)
  | .testsStarted => (s, [])
  | .groupStarted t => ({ s with currGroup := t.group }, groupStartedOut t.group)
  | .testStarted t => ({ s with currTest := some t.name }, testStartedOut t)
  | .print text => (s, text)
  | .failure f => (s, failureOut f)
  | .veryVerbose text => (s, if s.veryVerbose then text else [])      -- `TestOutput::printVeryVerbose`
  | .testEnded ms _ => (s, testEndedOut s.currTest ms)
  | .groupEnded _ => (s, groupEndedOut s.currGroup)
  | .testsEnded sm => (s, summaryOut sm)

/-- the captured stream of a whole run; `vv` = very verbose mode on -/
def streamV (vv : Bool) (evs : List Ev) : Bytes := (foldEvents step { veryVerbose := vv } evs).2

/-- the captured stream of a whole run in the default mode (`-v` changes nothing here: the overridden
    `printCurrentTestStarted/Ended` do not look at the verbosity) -/
def stream (evs : List Ev) : Bytes := streamV false evs

end TeamCity
