import CppUModel.Model.OutputEvents
import CppUModel.Gen.EscapeTables
/-!
# Model of `JUnitTestOutput` (src/CppUTest/JUnitTestOutput.cpp), written from the C++

Collector: per-group list of test nodes (first failure per test, counts), flushed to a file at
group end.  Writer: `(fileName, bytes)` exactly as handed to `PlatformSpecificFOpen/FPuts`.
`encodeXmlText` is the chain of `SimpleString::replace(const char*, const char*)` calls of the
regenerated table `Gen.EscapeTables.xmlReplaces` (each call = `Text.replaceAll`);
`encodeFileName` is the loop of `replace(char, char)` over `Gen.EscapeTables.fileNameForbidden`.
The time string (`GetPlatformSpecificTimeString`) is an environment input.
`totalCheckCount_` and `stdOutput_` are never reset between groups — as in the code.
-/
namespace JUnit
open Text (Bytes)
open OutEv

/-! ## formatting (`%d`, `%03d` of `(int)` casts) -/

/-- `(int) x` for a `size_t` (or a difference of two): the low 32 bits as a signed number -/
def castInt (z : Int) : Int :=
  if z % 4294967296 < 2147483648 then z % 4294967296 else z % 4294967296 - 4294967296

/-- `%d` -/
def fmtInt (z : Int) : Bytes :=
  if z < 0 then 45 :: dec z.natAbs else dec z.natAbs

/-- `%03d` of a number below 1000 (what `% 1000` yields) -/
def pad3 (n : Nat) : Bytes := [digit (n / 100), digit (n / 10), digit n]

/-- `"%d.%03d"` of `(int)(ms / 1000), (int)(ms % 1000)` -/
def fmtTime (ms : Nat) : Bytes := fmtInt (castInt (ms / 1000)) ++ [46] ++ pad3 (ms % 1000)

/-! ## encodeXmlText / encodeFileName -/

/-- `buf.replace(p1, r1); buf.replace(p2, r2); …` in source order -/
def replaceSeq : List (Bytes × Bytes) → Bytes → Bytes
  | [], s => s
  | (p, r) :: rest, s => replaceSeq rest (Text.replaceAll s p r)

def encodeXmlText (s : Bytes) : Bytes := replaceSeq Gen.EscapeTables.xmlReplaces s

/-- `for (sym …) result.replace(*sym, '_')` -/
def replaceBytes (repl : UInt8) : List UInt8 → Bytes → Bytes
  | [], s => s
  | c :: rest, s => replaceBytes repl rest (Text.replaceByte s c repl)

def encodeFileName (s : Bytes) : Bytes :=
  replaceBytes Gen.EscapeTables.fileNameReplacement Gen.EscapeTables.fileNameForbidden s

def createFileName (package group : Bytes) : Bytes :=
  encodeFileName (Gen.EscapeTables.fileNamePrefix ++
      (if package.isEmpty then [] else package ++ Gen.EscapeTables.fileNamePackageSep) ++ group) ++
    Gen.EscapeTables.fileNameSuffix

/-! ## collector -/

structure Node where
  name       : Bytes
  execTime   : Nat := 0
  failure    : Option Failure := none
  ignored    : Bool := false
  file       : Bytes
  line       : Nat
  checkCount : Nat := 0
deriving Repr, DecidableEq, Inhabited

structure St where
  testCount       : Nat := 0
  failureCount    : Nat := 0
  totalCheckCount : Nat := 0          -- not reset by `resetTestGroupResult`
  groupExecTime   : Nat := 0
  group           : Bytes := []
  nodesRev        : List Node := []   -- the node list, newest (`tail_`) first
  package         : Bytes := []
  stdOutput       : Bytes := []       -- not reset either
  timeString      : Bytes := []       -- environment: `GetPlatformSpecificTimeString()`
  crashed         : Bool := false     -- `tail_` dereferenced while NULL (no test started in this group)
deriving Repr, DecidableEq, Inhabited

structure File where
  name  : Bytes
  bytes : Bytes
deriving Repr, DecidableEq, Inhabited

def newNode (t : TestInfo) : Node :=
  { name := t.name, file := t.file, line := t.line, ignored := !t.willRun }

/-- `printCurrentTestStarted` -/
def onTestStarted (s : St) (t : TestInfo) : St :=
  { s with testCount := s.testCount + 1, group := t.group, nodesRev := newNode t :: s.nodesRev }

/-- `printCurrentTestEnded` -/
def onTestEnded (s : St) (ms checks : Nat) : St :=
  match s.nodesRev with
  | [] => { s with crashed := true }
  | n :: rest => { s with nodesRev := { n with execTime := ms, checkCount := checks } :: rest }

/-- `printFailure`: only the first failure of a test is kept and counted -/
def onFailure (s : St) (f : Failure) : St :=
  match s.nodesRev with
  | [] => { s with crashed := true }
  | n :: rest =>
    match n.failure with
    | none => { s with failureCount := s.failureCount + 1, nodesRev := { n with failure := some f } :: rest }
    | some _ => s

/-- `resetTestGroupResult` -/
def reset (s : St) : St :=
  { s with testCount := 0, failureCount := 0, group := [], nodesRev := [] }

/-! ## writer -/

def xmlHeader : Bytes := lit "<?xml version=\"1.0\" encoding=\"UTF-8\" ?>\n"

def suiteSummary (s : St) : Bytes :=
  lit "<testsuite errors=\"0\" failures=\"" ++ fmtInt (castInt s.failureCount) ++
  lit "\" hostname=\"localhost\" name=\"" ++ encodeXmlText s.group ++
  lit "\" tests=\"" ++ fmtInt (castInt s.testCount) ++
  lit "\" time=\"" ++ fmtTime s.groupExecTime ++
  lit "\" timestamp=\"" ++ s.timeString ++ lit "\">\n"

def properties : Bytes := lit "<properties>\n" ++ lit "</properties>\n"

def failureElem (f : Failure) : Bytes :=
  lit "<failure message=\"" ++ encodeXmlText f.file ++ lit ":" ++ fmtInt (castInt f.line) ++ lit ": " ++
  encodeXmlText f.message ++ lit "\" type=\"AssertionFailedError\">\n" ++ lit "</failure>\n"

def testCase (package group : Bytes) (total : Nat) (n : Node) : Bytes :=
  lit "<testcase classname=\"" ++ encodeXmlText package ++ (if package.isEmpty then [] else lit ".") ++
  encodeXmlText group ++ lit "\" name=\"" ++ encodeXmlText n.name ++
  lit "\" assertions=\"" ++ fmtInt (castInt ((n.checkCount : Int) - (total : Int))) ++
  lit "\" time=\"" ++ fmtTime n.execTime ++
  lit "\" file=\"" ++ encodeXmlText n.file ++ lit "\" line=\"" ++ fmtInt (castInt n.line) ++ lit "\">\n" ++
  (match n.failure with
   | some f => failureElem f
   | none => if n.ignored then lit "<skipped />\n" else []) ++
  lit "</testcase>\n"

/-- `writeTestCases`: the loop over the node list; `total` is `totalCheckCount_` -/
def testCases (package group : Bytes) : Nat → List Node → Bytes
  | _, [] => []
  | total, n :: rest => testCase package group total n ++ testCases package group n.checkCount rest

/-- `totalCheckCount_` after `writeTestCases` -/
def totalAfter : Nat → List Node → Nat
  | total, [] => total
  | _, n :: rest => totalAfter n.checkCount rest

def fileEnding (s : St) : Bytes :=
  lit "<system-out>" ++ encodeXmlText s.stdOutput ++ lit "</system-out>\n" ++
  lit "<system-err></system-err>\n" ++ lit "</testsuite>\n"

/-- everything written between `openFileForWrite` and `closeFile` -/
def fileBytes (s : St) : Bytes :=
  xmlHeader ++ suiteSummary s ++ properties ++
  testCases s.package s.group s.totalCheckCount s.nodesRev.reverse ++ fileEnding s

/-- `writeTestGroupToFile` -/
def writeGroup (s : St) : File :=
  { name := createFileName s.package s.group, bytes := fileBytes s }

/-- `printCurrentGroupEnded` -/
def onGroupEnded (s : St) (ms : Nat) : St :=
  reset { s with groupExecTime := ms, totalCheckCount := totalAfter s.totalCheckCount s.nodesRev.reverse }

/-- `TestOutput::printTestRun` on this output: `print(const char*)` is collected, `print(size_t)` does nothing,
    so the numbers are missing -/
def testRunText (total : Nat) : Bytes :=
  if total > 1 then lit "Test run " ++ lit " of " ++ lit "\n" else []

def step (s : St) (e : Ev) : St × List File :=
  if s.crashed then (s, []) else
  match e with
  | .testRun _ n => ({ s with stdOutput := s.stdOutput ++ testRunText n }, [])
  | .testsStarted => (s, [])
  | .groupStarted _ => (s, [])
  | .testStarted t => (onTestStarted s t, [])
  | .print text => ({ s with stdOutput := s.stdOutput ++ text }, [])
  | .failure f => (onFailure s f, [])
  | .veryVerbose _ => (s, [])          -- `printVeryVerbose` → `printBuffer`, which does nothing here
  | .testEnded ms checks => (onTestEnded s ms checks, [])
  | .groupEnded ms => (onGroupEnded s ms, [writeGroup { s with groupExecTime := ms }])
  | .testsEnded _ => (s, [])

/-- the files of a whole run, in the order they are written -/
def files (package timeString : Bytes) (evs : List Ev) : List File :=
  (foldEvents step { package := package, timeString := timeString } evs).2

end JUnit
