import CppUModel.Model.OutputEvents
import CppUModel.Gen.EscapeTables
import CppUModel.Gen.JUnitTemplates
/-!
# Model of `JUnitTestOutput` (src/CppUTest/JUnitTestOutput.cpp), written from the C++

Collector: per-group list of test nodes (first failure per test, counts), flushed to a file at
group end.  Writer: `(fileName, bytes)` exactly as handed to `PlatformSpecificFOpen/FPuts`.
`encodeXmlText` is the chain of `SimpleString::replace(const char*, const char*)` calls of the
regenerated table `Gen.EscapeTables.xmlReplaces` (each call = `Text.replaceAll`);
`encodeFileName` is the loop of `replace(char, char)` over `Gen.EscapeTables.fileNameForbidden`.
The writer functions are NOT written out here: `interp` interprets the statement lists that
`translate/extract_junit.py` regenerates from the source on every run (`Gen.JUnitTemplates`: every literal and
conversion of every format string, which fields pass through `encodeXmlText`, the order of the writer calls, the
fields `resetTestGroupResult` clears, the statement order of `printCurrentGroupEnded`).
The time string (`GetPlatformSpecificTimeString`) is an environment input.
`totalCheckCount_` and `stdOutput_` are never reset between groups — as in the code.
-/
namespace JUnit
open Text (Bytes)
open OutEv

/-! ## formatting (`%d`, `%03d` of `(int)` casts) -/

/-- `(int) x` for a `size_t` (or a difference of two): the low 32 bits as a signed number -/
def castInt (z : Int) : Int :=
  if z % 4294967296 < 2147483648 then z % 4294967296 else z % 4294967296 - 4294967296

/-- `%d` -/
def fmtInt (z : Int) : Bytes :=
  if z < 0 then 45 :: dec z.natAbs else dec z.natAbs

/-- `%03d` of a number below 1000 (what `% 1000` yields) -/
def pad3 (n : Nat) : Bytes := [digit (n / 100), digit (n / 10), digit n]

/-- `"%d.%03d"` of `(int)(ms / 1000), (int)(ms % 1000)` -/
def fmtTime (ms : Nat) : Bytes := fmtInt (castInt (ms / 1000)) ++ [46] ++ pad3 (ms % 1000)

/-! ## encodeXmlText / encodeFileName -/

/-- `buf.replace(p1, r1); buf.replace(p2, r2); …` in source order -/
def replaceSeq : List (Bytes × Bytes) → Bytes → Bytes
  | [], s => s
  | (p, r) :: rest, s => replaceSeq rest (Text.replaceAll s p r)

def encodeXmlText (s : Bytes) : Bytes := replaceSeq Gen.EscapeTables.xmlReplaces s

/-- `for (sym …) result.replace(*sym, '_')` -/
def replaceBytes (repl : UInt8) : List UInt8 → Bytes → Bytes
  | [], s => s
  | c :: rest, s => replaceBytes repl rest (Text.replaceByte s c repl)

def encodeFileName (s : Bytes) : Bytes :=
  replaceBytes Gen.EscapeTables.fileNameReplacement Gen.EscapeTables.fileNameForbidden s

def createFileName (package group : Bytes) : Bytes :=
  encodeFileName (Gen.EscapeTables.fileNamePrefix ++
      (if package.isEmpty then [] else package ++ Gen.EscapeTables.fileNamePackageSep) ++ group) ++
    Gen.EscapeTables.fileNameSuffix

/-! ## collector -/

structure Node where
  name       : Bytes
  execTime   : Nat := 0
  failure    : Option Failure := none
  ignored    : Bool := false
  file       : Bytes
  line       : Nat
  checkCount : Nat := 0
deriving Repr, DecidableEq, Inhabited

structure St where
  testCount       : Nat := 0
  failureCount    : Nat := 0
  totalCheckCount : Nat := 0          -- not reset by `resetTestGroupResult`
  groupExecTime   : Nat := 0
  group           : Bytes := []
  nodesRev        : List Node := []   -- the node list, newest (`tail_`) first
  package         : Bytes := []
  stdOutput       : Bytes := []       -- not reset either
  timeString      : Bytes := []       -- environment: `GetPlatformSpecificTimeString()`
  crashed         : Bool := false     -- `tail_` dereferenced while NULL (no test started in this group)
deriving Repr, DecidableEq, Inhabited

structure File where
  name  : Bytes
  bytes : Bytes
deriving Repr, DecidableEq, Inhabited

def newNode (t : TestInfo) : Node :=
  { name := t.name, file := t.file, line := t.line, ignored := !t.willRun }

/-- `printCurrentTestStarted` -/
def onTestStarted (s : St) (t : TestInfo) : St :=
  { s with testCount := s.testCount + 1, group := t.group, nodesRev := newNode t :: s.nodesRev }

/-- `printCurrentTestEnded` -/
def onTestEnded (s : St) (ms checks : Nat) : St :=
  match s.nodesRev with
  | [] => { s with crashed := true }
  | n :: rest => { s with nodesRev := { n with execTime := ms, checkCount := checks } :: rest }

/-- `printFailure`: only the first failure of a test is kept and counted -/
def onFailure (s : St) (f : Failure) : St :=
  match s.nodesRev with
  | [] => { s with crashed := true }
  | n :: rest =>
    match n.failure with
    | none => { s with failureCount := s.failureCount + 1, nodesRev := { n with failure := some f } :: rest }
    | some _ => s

/-- one cleared field of `resetTestGroupResult` -/
def resetField (s : St) : Tpl.ResetField → St
  | .testCount => { s with testCount := 0 }
  | .failureCount => { s with failureCount := 0 }
  | .group => { s with group := [] }
  | .nodes => { s with nodesRev := [] }

/-- `resetTestGroupResult`: the regenerated list of cleared fields -/
def reset (s : St) : St := Gen.JUnitTemplates.resetFields.foldl resetField s

/-! ## writer: an interpreter of the regenerated statement lists (`Gen/JUnitTemplates.lean`) -/

/-- `%0<w>d` -/
def zeroPad (w : Nat) (ds : Bytes) : Bytes := List.replicate (w - ds.length) 48 ++ ds

def fmtPad (w : Nat) (z : Int) : Bytes :=
  if z < 0 then 45 :: zeroPad (w - 1) (dec z.natAbs) else zeroPad w (dec z.natAbs)

/-- what a writer statement can see: the collector, the running `totalCheckCount_`, the node `cur` of the
    loop of `writeTestCases` and the failure `node->failure_` of `writeFailure` -/
structure Ctx where
  s     : St
  total : Nat
  node  : Node
  fail  : Failure

def Ctx.ofSt (s : St) : Ctx := { s := s, total := s.totalCheckCount, node := default, fail := default }

def evalField (c : Ctx) : Tpl.Field → Bytes
  | .group => c.s.group
  | .package => c.s.package
  | .nodeName => c.node.name
  | .nodeFile => c.node.file
  | .failFile => c.fail.file
  | .failMessage => c.fail.message
  | .stdOutput => c.s.stdOutput
  | .timeString => c.s.timeString

def evalN (c : Ctx) : Tpl.NExpr → Nat
  | .failureCount => c.s.failureCount
  | .testCount => c.s.testCount
  | .groupExecTime => c.s.groupExecTime
  | .totalCheckCount => c.total
  | .nodeCheckCount => c.node.checkCount
  | .nodeExecTime => c.node.execTime
  | .nodeLine => c.node.line
  | .failLine => c.fail.line
  | .div e k => evalN c e / k
  | .mod e k => evalN c e % k

/-- the `int` handed to the format -/
def evalNum (c : Ctx) : Tpl.Num → Int
  | .cast e => castInt (evalN c e)
  | .castDiff a b => castInt ((evalN c a : Int) - (evalN c b : Int))

def itemBytes (c : Ctx) : Tpl.Item → Bytes
  | .text b => b
  | .enc f => encodeXmlText (evalField c f)
  | .raw f => evalField c f
  | .int n => fmtInt (evalNum c n)
  | .intPad w n => fmtPad w (evalNum c n)
  | .ifPackageEmpty a b => if c.s.package.isEmpty then a else b

/-- the bytes a regenerated statement list writes -/
def interp (c : Ctx) (items : List Tpl.Item) : Bytes := items.flatMap (itemBytes c)

/-- one iteration of the loop of `writeTestCases`; `total` is `totalCheckCount_` on entry (it is set to
    `cur->checkCount_` after the open tag) -/
def testCase (s : St) (total : Nat) (n : Node) : Bytes :=
  interp { s := s, total := total, node := n, fail := default } Gen.JUnitTemplates.caseOpen ++
  (match n.failure with
   | some f => interp { s := s, total := n.checkCount, node := n, fail := f } Gen.JUnitTemplates.failureElem
   | none =>
     if n.ignored then interp { s := s, total := n.checkCount, node := n, fail := default } Gen.JUnitTemplates.caseSkipped
     else []) ++
  interp { s := s, total := n.checkCount, node := n, fail := default } Gen.JUnitTemplates.caseClose

/-- `writeTestCases`: the loop over the node list -/
def testCases (s : St) : Nat → List Node → Bytes
  | _, [] => []
  | total, n :: rest => testCase s total n ++ testCases s n.checkCount rest

/-- `totalCheckCount_` after `writeTestCases` -/
def totalAfter : Nat → List Node → Nat
  | total, [] => total
  | _, n :: rest => totalAfter n.checkCount rest

def sectionBytes (s : St) : Tpl.Section → Bytes
  | .xmlHeader => interp (Ctx.ofSt s) Gen.JUnitTemplates.xmlHeader
  | .suiteSummary => interp (Ctx.ofSt s) Gen.JUnitTemplates.suiteSummary
  | .properties => interp (Ctx.ofSt s) Gen.JUnitTemplates.properties
  | .testCases => testCases s s.totalCheckCount s.nodesRev.reverse
  | .fileEnding => interp (Ctx.ofSt s) Gen.JUnitTemplates.fileEnding

/-- everything written between `openFileForWrite` and `closeFile`: the writer calls of
    `writeTestGroupToFile` in their regenerated order (each exactly once — checked by the translator) -/
def fileBytes (s : St) : Bytes := Gen.JUnitTemplates.groupFile.flatMap (sectionBytes s)

/-- `writeTestGroupToFile` -/
def writeGroup (s : St) : File :=
  { name := createFileName s.package s.group, bytes := fileBytes s }

/-- one statement of `printCurrentGroupEnded` -/
def endStep (ms : Nat) (acc : St × List File) : Tpl.EndStep → St × List File
  | .takeGroupTime => ({ acc.1 with groupExecTime := ms }, acc.2)
  | .writeFile =>
    ({ acc.1 with totalCheckCount := totalAfter acc.1.totalCheckCount acc.1.nodesRev.reverse }, acc.2 ++ [writeGroup acc.1])
  | .reset => (reset acc.1, acc.2)

/-- `printCurrentGroupEnded`: the regenerated statement list -/
def groupEnded (s : St) (ms : Nat) : St × List File :=
  Gen.JUnitTemplates.groupEndedSteps.foldl (endStep ms) (s, [])

/-- the collector after `printCurrentGroupEnded` (closed form, see `groupEnded_eq`) -/
def onGroupEnded (s : St) (ms : Nat) : St :=
  reset { s with groupExecTime := ms, totalCheckCount := totalAfter s.totalCheckCount s.nodesRev.reverse }

/-- `TestOutput::printTestRun` on this output: `print(const char*)` is collected, `print(size_t)` does nothing,
    so the numbers are missing -/
def testRunText (total : Nat) : Bytes :=
  if total > 1 then lit "Test run " ++ lit " of " ++ lit "\n" else []

def step (s : St) (e : Ev) : St × List File :=
  if s.crashed then (s, []) else
  match e with
  | .testRun _ n => ({ s with stdOutput := s.stdOutput ++ testRunText n }, [])
  | .testsStarted => (s, [])
  | .groupStarted _ => (s, [])
  | .testStarted t => (onTestStarted s t, [])
  | .print text => ({ s with stdOutput := s.stdOutput ++ text }, [])
  | .failure f => (onFailure s f, [])
  | .veryVerbose _ => (s, [])          -- `printVeryVerbose` → `printBuffer`, which does nothing here
  | .testEnded ms checks => (onTestEnded s ms checks, [])
  | .groupEnded ms => groupEnded s ms
  | .testsEnded _ => (s, [])

/-- the files of a whole run, in the order they are written -/
def files (package timeString : Bytes) (evs : List Ev) : List File :=
  (foldEvents step { package := package, timeString := timeString } evs).2

end JUnit
