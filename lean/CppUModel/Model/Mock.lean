import CppUModel.Gen.MockMessages
/-!
Model of the CppUTest mocking core, written from the C++ line by line:
`src/CppUTestExt/MockSupport.cpp`, `MockActualCall.cpp` (`MockCheckedActualCall`),
`MockExpectedCall.cpp` (`MockCheckedExpectedCall`), `MockExpectedCallsList.cpp`, `MockFailure.cpp`
(first line of every failure message).

Representation.  The expectation list of a `MockSupport` is a `List Exp` in declaration order.
The candidate list `potentiallyMatchingExpectations_` of the (single) actual call a `MockSupport`
has in flight is always a sub-list of that list *in the same order* (it is built by
`addPotentiallyMatchingExpectations` and only ever pruned), so it is represented by its
characteristic function: the field `cand` of every expectation.  `matchingExpectation_` (a
pointer to at most one expectation, which has been removed from the candidate list) is the field
`isMatch`.  "First candidate such that P" is then "first list element with `cand && P`".
The per-call matching state that the C++ keeps *inside the shared expectation objects*
(`matchesActualCall_` of every parameter, `wasPassedToObject_`, `isActualCallMatchFinalized_`)
is kept in the same place here (`passed`, `passedObj`, `finalized`), and it is reset exactly
where the C++ resets it — in particular a candidate that is pruned because of a parameter value,
an output parameter or the object is reset when it is dropped
(`onlyKeepExpectationsWithInputParameter` / `…WithOutputParameter` / `…OnObject`), while
`onlyKeepExpectationsRelatedTo` (pruning by name, before any flag can be set) does not reset.

Parameter values: `equals` is "same type and same value" here; the mixed-integer branches of
`MockNamedValue::equals` belong to property C09 and the C08 generator never mixes integer types
under one parameter name.
-/
namespace Mock

/-- the value types used by the C08 scenarios (`MockNamedValue` type name in brackets) -/
inductive Val
  | int  (v : Int)          -- "int"
  | uint (v : Nat)          -- "unsigned int"
  | str  (b : List UInt8)   -- "const char*" (compared by content)
  | ptr  (a : Nat)          -- "void*"
  | cptr (a : Nat)          -- "const void*"
  | bool (b : Bool)         -- "bool"
  | mem  (b : List UInt8)   -- "const unsigned char*" memory buffer (size and content)
deriving DecidableEq, Repr, Inhabited

/-- `MockExpectedFunctionParameter` of the input list -/
structure Param where
  name   : String
  val    : Val
  passed : Bool            -- matchesActualCall_
deriving DecidableEq, Repr, Inhabited

/-- `MockExpectedFunctionParameter` of the output list (`withOutputParameterReturning`) -/
structure OutParam where
  name   : String
  bytes  : List UInt8
  passed : Bool
deriving DecidableEq, Repr, Inhabited

/-- `MockCheckedExpectedCall` -/
structure Exp where
  name       : String
  ins        : List Param
  outs       : List OutParam
  iop        : Bool          -- ignoreOtherParameters_
  obj        : Option Nat    -- isSpecificObjectExpected_ / objectPtr_
  passedObj  : Bool          -- wasPassedToObject_
  finalized  : Bool          -- isActualCallMatchFinalized_
  expected   : Nat
  actual     : Nat
  lo         : Nat           -- initialExpectedCallOrder_ (0 = NO_EXPECTED_CALL_ORDER)
  hi         : Nat
  outOfOrder : Bool
  ret        : Option Val    -- returnValue_ (none = name "")
  cand       : Bool          -- in potentiallyMatchingExpectations_ of the current call
  isMatch    : Bool          -- is matchingExpectation_ of the current call
deriving DecidableEq, Repr, Inhabited

/-- one step of an actual call after `withName` -/
inductive Seg
  | inp (name : String) (v : Val)     -- with…Parameter
  | out (name : String)               -- withOutputParameter
  | obj (o : Nat)                     -- onObject
deriving DecidableEq, Repr, Inhabited

/-- one modifier of an expectation -/
inductive ESeg
  | inp (name : String) (v : Val)
  | out (name : String) (bytes : List UInt8)
  | obj (o : Nat)
  | ret (v : Val)
  | iop
deriving DecidableEq, Repr, Inhabited

/-! ## MockCheckedExpectedCall -/

/-- constructor `MockCheckedExpectedCall(numCalls)` + `withName` + `withCallOrder` -/
def Exp.new (name : String) (n lo hi : Nat) : Exp :=
  { name := name, ins := [], outs := [], iop := false, obj := none, passedObj := true,
    finalized := false, expected := n, actual := 0, lo := lo, hi := hi, outOfOrder := false,
    ret := none, cand := false, isMatch := false }

def Exp.addSeg (e : Exp) : ESeg → Exp
  | .inp n v => { e with ins := e.ins ++ [{ name := n, val := v, passed := false }] }
  | .out n b => { e with outs := e.outs ++ [{ name := n, bytes := b, passed := false }] }
  | .obj o   => { e with obj := some o, passedObj := false }
  | .ret v   => { e with ret := some v }
  | .iop     => { e with iop := true }

def Exp.canMatch (e : Exp) : Bool := decide (e.actual < e.expected)
def Exp.isFulfilled (e : Exp) : Bool := decide (e.actual = e.expected)

/-- `areParametersMatchingActualCall` -/
def Exp.paramsMatching (e : Exp) : Bool := e.ins.all (·.passed) && e.outs.all (·.passed)
/-- `isMatchingActualCall` -/
def Exp.isMatching (e : Exp) : Bool := e.paramsMatching && e.passedObj
/-- `isMatchingActualCallAndFinalized` -/
def Exp.isMatchingFinalized (e : Exp) : Bool := e.isMatching && (!e.iop || e.finalized)

/-- `resetActualCallMatchingState` -/
def Exp.reset (e : Exp) : Exp :=
  { e with passedObj := e.obj.isNone, finalized := false,
           ins := e.ins.map (fun p => { p with passed := false }),
           outs := e.outs.map (fun p => { p with passed := false }) }

/-- `callWasMade(callOrder)` -/
def Exp.callWasMade (e : Exp) (order : Nat) : Exp :=
  Exp.reset { e with actual := e.actual + 1,
                     outOfOrder := e.outOfOrder || (e.lo != 0 && (decide (order < e.lo) || decide (e.hi < order))) }

/-- `hasInputParameter`: first parameter of that name (`getValueByName`) must be `equals` -/
def Exp.hasInput (e : Exp) (n : String) (v : Val) : Bool :=
  match e.ins.find? (fun p => p.name == n) with
  | some p => p.val == v
  | none => e.iop

def Exp.hasInputNamed (e : Exp) (n : String) : Bool := e.ins.any (fun p => p.name == n)
def Exp.hasOutputNamed (e : Exp) (n : String) : Bool := e.outs.any (fun p => p.name == n)

/-- `hasOutputParameter`: `compatibleForCopying` is always true for ("const void*", "void*") -/
def Exp.hasOutput (e : Exp) (n : String) : Bool :=
  match e.outs.find? (fun p => p.name == n) with
  | some _ => true
  | none => e.iop

/-- `inputParameterWasPassed` -/
def Exp.passInput (e : Exp) (n : String) : Exp :=
  { e with ins := e.ins.map (fun p => if p.name == n then { p with passed := true } else p) }
/-- `outputParameterWasPassed` -/
def Exp.passOutput (e : Exp) (n : String) : Exp :=
  { e with outs := e.outs.map (fun p => if p.name == n then { p with passed := true } else p) }

/-- `relatesToObject` -/
def Exp.relatesToObject (e : Exp) (o : Nat) : Bool :=
  match e.obj with
  | none => true
  | some x => x == o

/-! ## MockCheckedActualCall -/

inductive CState | succeed | inProgress | failed
deriving DecidableEq, Repr, Inhabited

structure ACall where
  name    : String
  order   : Nat
  state   : CState
  checked : Bool                              -- expectationsChecked_
  bufs    : List (String × List UInt8)        -- outputParameterExpectations_: name, buffer content
deriving DecidableEq, Repr, Inhabited

/-- expectation list of the scope + the call in flight + the failure delivered to the reporter -/
structure CS where
  es   : List Exp
  call : ACall
  fail : Option String
deriving Repr, Inhabited

def anyCand (es : List Exp) : Bool := es.any (·.cand)
def anyMatch (es : List Exp) : Bool := es.any (·.isMatch)

/-- apply `f` to the first element satisfying `p` -/
def modifyFirst (p : Exp → Bool) (f : Exp → Exp) : List Exp → List Exp
  | [] => []
  | e :: es => if p e then f e :: es else e :: modifyFirst p f es

/-- `MockCheckedActualCall::failTest` -/
def failCall (cs : CS) (msg : String) : CS :=
  if cs.call.state = .failed then cs
  else { cs with call := { cs.call with state := .failed },
                 fail := match cs.fail with | some m => some m | none => some msg }

/-- `copyOutputParameters(expectedCall)`: memcpy of the expectation's bytes into every registered
    output buffer of that name -/
def copyOne (e : Exp) (b : String × List UInt8) : String × List UInt8 :=
  match e.outs.find? (fun p => p.name == b.1) with
  | some o => (b.1, o.bytes ++ b.2.drop o.bytes.length)
  | none => b

def copyOutputs (e : Exp) (bufs : List (String × List UInt8)) : List (String × List UInt8) :=
  bufs.map (copyOne e)

def isMF (e : Exp) : Bool := e.cand && e.isMatchingFinalized
def isM (e : Exp) : Bool := e.cand && e.isMatching

/-- removed from the candidate list and stored in `matchingExpectation_` -/
def Exp.take (e : Exp) : Exp := { e with cand := false, isMatch := true }

/-- `completeCallWhenMatchIsFound` -/
def complete (cs : CS) : CS :=
  match cs.es.find? isMF with
  | some e =>
    { cs with es := modifyFirst isMF Exp.take cs.es,
              call := { cs.call with bufs := copyOutputs e cs.call.bufs, state := .succeed } }
  | none =>
    match cs.es.find? isM with
    | some e => { cs with call := { cs.call with bufs := copyOutputs e cs.call.bufs } }
    | none => cs

/-- `discardCurrentlyMatchingExpectations`, per expectation: the current match is reset and
    forgotten; `onlyKeepUnmatchingExpectations` resets and drops complete candidates -/
def discardE (e : Exp) : Exp :=
  if e.isMatch then { e.reset with isMatch := false }
  else if isMF e then { e.reset with cand := false }
  else e

def totalActualFor (es : List Exp) (n : String) : Nat :=
  (es.filter (fun e => e.name == n)).foldl (fun a e => a + e.actual) 0

def ordinal (n : Nat) : String :=
  let suffix :=
    if n % 100 < 11 || n % 100 > 13 then
      (if n % 10 = 3 then "rd" else if n % 10 = 2 then "nd" else if n % 10 = 1 then "st" else "th")
    else "th"
  toString n ++ suffix

/-- first line of `MockUnexpectedCallHappenedFailure`; the message pieces are regenerated from
    `MockFailure.cpp` (`Gen/MockMessages.lean`) -/
def msgUnexpectedCall (es : List Exp) (n : String) : String :=
  if totalActualFor es n > 0 then
    Gen.MockMsg.additionalPre ++ ordinal (totalActualFor es n + 1) ++ Gen.MockMsg.additionalMid ++ n
  else Gen.MockMsg.unexpectedCallPre ++ n

/-- first line of `MockUnexpectedInputParameterFailure` (the value after `: <` is cut off) -/
def msgUnexpectedInput (es : List Exp) (fn pn : String) : String :=
  if (es.filter (fun e => e.name == fn && e.hasInputNamed pn)).isEmpty then
    Gen.MockMsg.paramNamePre ++ fn ++ Gen.MockMsg.paramNameMid ++ pn
  else Gen.MockMsg.paramValuePre ++ pn ++ Gen.MockMsg.paramValueMid ++ fn ++ Gen.MockMsg.paramValueEnd

/-- first line of `MockUnexpectedOutputParameterFailure` -/
def msgUnexpectedOutput (es : List Exp) (fn pn : String) : String :=
  if (es.filter (fun e => e.name == fn && e.hasOutputNamed pn)).isEmpty then
    Gen.MockMsg.outNamePre ++ fn ++ Gen.MockMsg.outNameMid ++ pn
  else Gen.MockMsg.outTypePre ++ "void*" ++ Gen.MockMsg.outTypeMid1 ++ pn ++ Gen.MockMsg.outTypeMid2 ++ fn ++ Gen.MockMsg.outTypeEnd

def msgUnexpectedObject (fn : String) : String := Gen.MockMsg.unexpectedObjectPre ++ fn
def msgMissingParam (fn : String) : String := Gen.MockMsg.missingParamPre ++ fn ++ Gen.MockMsg.missingParamEnd
def msgMissingObject (fn : String) : String := Gen.MockMsg.missingObjectPre ++ fn ++ Gen.MockMsg.missingObjectEnd
def msgUnfulfilled : String := Gen.MockMsg.unfulfilled
def msgOutOfOrder : String := Gen.MockMsg.outOfOrder
def msgCannotHappen : String :=
  "Actual call is in progress, but there are finalized matching expectations when checking expectations. This cannot happen."

/-- constructor: `addPotentiallyMatchingExpectations(allExpectations)` -/
def beginCall (es : List Exp) : List Exp :=
  es.map (fun e => { e with cand := e.canMatch, isMatch := false })

/-- `withName` -/
def withName (cs : CS) (n : String) : CS :=
  let es1 := cs.es.map (fun e => { e with cand := e.cand && e.name == n })
  let cs1 : CS := { cs with es := es1, call := { cs.call with name := n, state := .inProgress } }
  if anyCand es1 then complete cs1
  else failCall cs1 (msgUnexpectedCall cs.es n)

/-- common body of `checkInputParameter` / `checkOutputParameter` (the two C++ functions are the
    same text up to the pruning predicate, the flag that is set and the failure): `keep` is
    `hasInputParameter` / `hasOutputParameter`, `pass` is `parameterWasPassed` /
    `outputParameterWasPassed`; a candidate that is dropped is reset first -/
def checkParam (cs : CS) (keep : Exp → Bool) (pass : Exp → Exp) (msg : String) : CS :=
  if cs.call.state = .failed then cs
  else
    let es1 := cs.es.map discardE
    let es2 := es1.map (fun e => if e.cand && !keep e then { e.reset with cand := false } else e)
    let cs2 : CS := { cs with es := es2, call := { cs.call with state := .inProgress } }
    if anyCand es2 then
      complete { cs2 with es := es2.map (fun e => if e.cand then pass e else e) }
    else failCall cs2 msg

/-- `checkInputParameter` -/
def checkInput (cs : CS) (n : String) (v : Val) : CS :=
  checkParam cs (fun e => e.hasInput n v) (fun e => e.passInput n) (msgUnexpectedInput cs.es cs.call.name n)

/-- `withOutputParameter`: `addOutputParameter` first (even after a failure), then
    `checkOutputParameter`; `buf` is the caller's buffer content -/
def checkOutput (cs0 : CS) (n : String) (buf : List UInt8) : CS :=
  checkParam { cs0 with call := { cs0.call with bufs := cs0.call.bufs ++ [(n, buf)] } }
    (fun e => e.hasOutput n) (fun e => e.passOutput n) (msgUnexpectedOutput cs0.es cs0.call.name n)

/-- `onObject` -/
def onObject (cs : CS) (o : Nat) : CS :=
  if cs.call.state = .failed then cs
  else
    let es1 := cs.es.map (fun e => if e.cand && !e.relatesToObject o then { e.reset with cand := false } else e)
    let cs1 : CS := { cs with es := es1 }
    if !anyMatch es1 && !anyCand es1 then failCall cs1 (msgUnexpectedObject cs.call.name)
    else
      let es2 := es1.map (fun e => if e.cand then { e with passedObj := true } else e)
      let cs2 : CS := { cs1 with es := es2 }
      if anyMatch es2 then cs2 else complete cs2

def applySeg (cs : CS) (buf : List UInt8) : Seg → CS
  | .inp n v => checkInput cs n v
  | .out n   => checkOutput cs n buf
  | .obj o   => onObject cs o

/-- `potentiallyMatchingExpectations_.resetActualCallMatchingState()` -/
def resetCands (es : List Exp) : List Exp := es.map (fun e => if e.cand then e.reset else e)

/-- the tail of `checkExpectations` for a call that is still in progress: take the first
    candidate that matches (only possible with ignored parameters), else report what is missing -/
def finishInProgress (cs : CS) : CS :=
  if cs.es.any isMF then failCall cs msgCannotHappen
  else
    match cs.es.find? isM with
    | some _ =>
      let es1 := modifyFirst isM (fun e => ({ e.take with finalized := true }).callWasMade cs.call.order) cs.es
      { cs with es := resetCands es1, call := { cs.call with state := .succeed } }
    | none =>
      if cs.es.any (fun e => e.cand && !e.paramsMatching) then failCall cs (msgMissingParam cs.call.name)
      else failCall cs (msgMissingObject cs.call.name)

/-- `MockCheckedActualCall::checkExpectations` -/
def callCheck (cs : CS) : CS :=
  if cs.call.checked then cs
  else
    let cs1 : CS := { cs with call := { cs.call with checked := true } }
    match cs1.call.state with
    | .succeed =>
      { cs1 with es := resetCands (cs1.es.map (fun e => if e.isMatch then e.callWasMade cs1.call.order else e)) }
    | .failed => { cs1 with es := resetCands cs1.es }
    | .inProgress => finishInProgress cs1

/-- `returnValue()` after `checkExpectations()`: the matching expectation's value, or the
    named value "no return value" (an `int` 0 whose name is not empty) -/
def returnValueOf (es : List Exp) : Option Val :=
  match es.find? (·.isMatch) with
  | some e => e.ret
  | none => some (.int 0)

def newCall (order : Nat) : ACall :=
  { name := "", order := order, state := .succeed, checked := false, bufs := [] }

/-- the steps of a call statement; the first failure leaves the statement (the reporter throws) -/
def segsFrom (cs : CS) (buf : List UInt8) : List Seg → CS
  | [] => cs
  | s :: rest => if cs.fail.isSome then cs else segsFrom (applySeg cs buf s) buf rest

/-- a whole actual call on an expectation list: constructor, `withName`, the steps, and the
    finishing `checkExpectations` of the call -/
def callFull (es : List Exp) (order : Nat) (name : String) (segs : List Seg) (buf : List UInt8) : CS :=
  callCheck (segsFrom (withName { es := beginCall es, call := newCall order, fail := none } name) buf segs)

/-! ## MockSupport -/

structure Scope where
  name          : String          -- mockName_ ("" = the global mock)
  es            : List Exp
  actualOrder   : Nat
  expectedOrder : Nat
  strict        : Bool
  ioc           : Bool            -- ignoreOtherCalls_
  enabled       : Bool
  last          : Option ACall    -- lastActualFunctionCall_
deriving Repr, Inhabited

def Scope.fresh (name : String) : Scope :=
  { name := name, es := [], actualOrder := 0, expectedOrder := 0, strict := false, ioc := false,
    enabled := true, last := none }

/-- `appendScopeToName` -/
def Scope.fullName (sc : Scope) (fn : String) : String :=
  if sc.name.isEmpty then fn else sc.name ++ "::" ++ fn

/-- `expectNCalls(amount, functionName)` followed by the modifiers -/
def Scope.expectN (sc : Scope) (n : Nat) (fn : String) (segs : List ESeg) : Scope :=
  if !sc.enabled then sc
  else
    let e0 := if sc.strict then Exp.new (sc.fullName fn) n (sc.expectedOrder + 1) (sc.expectedOrder + n)
              else Exp.new (sc.fullName fn) n 0 0
    let e := segs.foldl Exp.addSeg e0
    { sc with es := sc.es ++ [e], expectedOrder := if sc.strict then sc.expectedOrder + n else sc.expectedOrder }

/-- `lastActualFunctionCall_->checkExpectations()` (the call object stays) -/
def Scope.checkLast (sc : Scope) : Scope × Option String :=
  match sc.last with
  | none => (sc, none)
  | some c =>
    let cs := callCheck { es := sc.es, call := c, fail := none }
    ({ sc with es := cs.es, last := some cs.call }, cs.fail)

/-- result of starting an actual call -/
structure Started where
  sc      : Scope
  fail    : Option String
  ignored : Bool
deriving Repr, Inhabited

/-- the rest of `actualCall(functionName)` once the previous call is finished and deleted: the
    disabled / ignored routing, else `createActualCall` and `withName(scopeFunctionName)` -/
def Scope.startCall (sc2 : Scope) (full : String) : Started :=
  if !sc2.enabled then { sc := sc2, fail := none, ignored := true }
  else if sc2.ioc && !(sc2.es.any (fun e => e.name == full)) then
    { sc := sc2, fail := none, ignored := true }
  else
    let order := sc2.actualOrder + 1
    let cs := withName { es := beginCall sc2.es, call := newCall order, fail := none } full
    { sc := { sc2 with es := cs.es, actualOrder := order, last := some cs.call }, fail := cs.fail, ignored := false }

/-- `actualCall(functionName)` up to and including `withName`: the scoped name is computed first,
    the call in flight is finished (`checkExpectations`) and deleted, then the new call starts -/
def Scope.actualCall (sc : Scope) (fn : String) : Started :=
  match sc.checkLast with
  | (sc1, some f) => { sc := sc1, fail := some f, ignored := false }
  | (sc1, none) => Scope.startCall { sc1 with last := none } (sc.fullName fn)

/-- apply one step of the call in flight -/
def Scope.seg (sc : Scope) (buf : List UInt8) (s : Seg) : Scope × Option String :=
  match sc.last with
  | none => (sc, none)
  | some c =>
    let cs := applySeg { es := sc.es, call := c, fail := none } buf s
    ({ sc with es := cs.es, last := some cs.call }, cs.fail)

def Scope.clear (sc : Scope) : Scope := Scope.fresh sc.name

def Scope.hasUnfulfilled (sc : Scope) : Bool := sc.es.any (fun e => !e.isFulfilled)
def Scope.hasOutOfOrder (sc : Scope) : Bool := sc.es.any (·.outOfOrder)

/-- the global mock and its scopes (`data_` entries, in creation order) -/
structure World where
  glob : Scope
  subs : List Scope
deriving Repr, Inhabited

def World.init : World := { glob := Scope.fresh "", subs := [] }

/-- `clone(mockName)` -/
def World.cloneScope (w : World) (name : String) : Scope :=
  { Scope.fresh name with strict := w.glob.strict, ioc := w.glob.ioc, enabled := w.glob.enabled }

/-- `mock(name)`: creates the scope on first use -/
def World.touch (w : World) (name : String) : World :=
  if name.isEmpty then w
  else if w.subs.any (fun s => s.name == name) then w
  else { w with subs := w.subs ++ [w.cloneScope name] }

def World.get (w : World) (name : String) : Scope :=
  if name.isEmpty then w.glob
  else match w.subs.find? (fun s => s.name == name) with
    | some s => s
    | none => w.cloneScope name

def World.put (w : World) (sc : Scope) : World :=
  if sc.name.isEmpty then { w with glob := sc }
  else { w with subs := w.subs.map (fun s => if s.name == sc.name then sc else s) }

/-- `checkExpectationsOfLastActualCall` over a list of scopes, stopping at the first failure -/
def checkLasts : List Scope → List Scope × Option String
  | [] => ([], none)
  | s :: rest =>
    match s.checkLast with
    | (s1, some f) => (s1 :: rest, some f)
    | (s1, none) =>
      match checkLasts rest with
      | (rest1, f) => (s1 :: rest1, f)

/-- all scopes a call on `name` covers: the global mock covers every scope -/
def World.covered (w : World) (name : String) : List Scope :=
  if name.isEmpty then w.glob :: w.subs else [w.get name]

def World.putAll (w : World) (scs : List Scope) : World := scs.foldl World.put w

/-- `checkExpectations()` on scope `name`: result world and the failure, if any -/
def World.check (w0 : World) (name : String) : World × Option String :=
  let w := w0.touch name
  match checkLasts (w.covered name) with
  | (scs, some f) => (w.putAll scs, some f)
  | (scs, none) =>
    let w1 := w.putAll scs
    if scs.any Scope.hasUnfulfilled then (w1, some msgUnfulfilled)
    else if scs.any Scope.hasOutOfOrder then (w1, some msgOutOfOrder)
    else (w1, none)

/-- `expectedCallsLeft()` -/
def World.left (w0 : World) (name : String) : World × Option String × Bool :=
  let w := w0.touch name
  match checkLasts (w.covered name) with
  | (scs, some f) => (w.putAll scs, some f, false)
  | (scs, none) => (w.putAll scs, none, scs.any Scope.hasUnfulfilled)

def World.clear (w0 : World) (name : String) : World :=
  let w := w0.touch name
  if name.isEmpty then { glob := w.glob.clear, subs := [] } else w.put (w.get name).clear

def World.setAll (w0 : World) (name : String) (f : Scope → Scope) : World :=
  let w := w0.touch name
  if name.isEmpty then { glob := f w.glob, subs := w.subs.map f } else w.put (f (w.get name))

def World.strictOrder (w0 : World) (name : String) : World :=
  let w := w0.touch name
  w.put { w.get name with strict := true }

def World.expectN (w0 : World) (name : String) (n : Nat) (fn : String) (segs : List ESeg) : World :=
  let w := w0.touch name
  w.put ((w.get name).expectN n fn segs)

/-- a whole actual-call statement: `actualCall(fn)` and its steps.  Returns the world, the
    failure (first), whether the call was ignored -/
def segsLoop (sc : Scope) (bufInit : List UInt8) : List Seg → Scope × Option String
  | [] => (sc, none)
  | s :: rest =>
    match sc.seg bufInit s with
    | (sc1, some f) => (sc1, some f)
    | (sc1, none) => segsLoop sc1 bufInit rest

structure CallOut where
  w       : World
  fail    : Option String
  ignored : Bool
deriving Repr, Inhabited

def World.call (w0 : World) (name fn : String) (segs : List Seg) (bufInit : List UInt8) : CallOut :=
  let w := w0.touch name
  let st := (w.get name).actualCall fn
  match st.fail with
  | some f => { w := w.put st.sc, fail := some f, ignored := false }
  | none =>
    if st.ignored then { w := w.put st.sc, fail := none, ignored := true }
    else
      match segsLoop st.sc bufInit segs with
      | (sc1, f) => { w := w.put sc1, fail := f, ignored := false }

/-- `hasReturnValue()` / `returnValue()` of the call in flight on scope `name` -/
def World.returnValue (w : World) (name : String) : World × Option String × Option Val :=
  let sc := w.get name
  match sc.checkLast with
  | (sc1, some f) => (w.put sc1, some f, none)
  | (sc1, none) => (w.put sc1, none, returnValueOf sc1.es)

def World.bufs (w : World) (name : String) : List (String × List UInt8) :=
  match (w.get name).last with
  | some c => c.bufs
  | none => []

/-! ## MockSupportPlugin -/

/-- `checkExpectationsOfLastActualCall` with a reporter that records and goes on (the plugin's):
    every scope's call in flight is finished, every failure is delivered -/
def checkLastsAll : List Scope → List Scope × List String
  | [] => ([], [])
  | s :: rest =>
    match s.checkLast, checkLastsAll rest with
    | (s1, f), (rest1, fs) => (s1 :: rest1, f.toList ++ fs)

/-- `wasLastActualCallFulfilled` -/
def Scope.lastFulfilled (sc : Scope) : Bool :=
  match sc.last with
  | some c => c.state == .succeed
  | none => true

/-- `mock().checkExpectations()` under a reporter that does not leave the test: the failures it
    delivers, in order (calls in flight; then unfulfilled expectations if every last call was
    fulfilled — `failTest` clears the mock, so nothing follows —, else out-of-order calls) -/
def World.checkAllFailures (w : World) : List String :=
  match checkLastsAll (w.glob :: w.subs) with
  | (scs, fs) =>
    if scs.all Scope.lastFulfilled && scs.any Scope.hasUnfulfilled then fs ++ [msgUnfulfilled]
    else if scs.any Scope.hasOutOfOrder then fs ++ [msgOutOfOrder]
    else fs

/-- what a test body leaves behind: the mock, whether the test has failed, the failures reported -/
structure BodyResult where
  w      : World
  failed : Bool
  msgs   : List String
deriving Repr, Inhabited

/-- `MockSupportPlugin::postTestAction`: `if (!test.hasFailed()) mock().checkExpectations();
    mock().clear();` — the failures it adds to the test, and the mock afterwards -/
def pluginPost (r : BodyResult) : List String × World :=
  (if r.failed then [] else r.w.checkAllFailures, r.w.clear "")

end Mock
