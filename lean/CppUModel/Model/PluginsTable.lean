import CppUModel.Model.Plugins
import CppUModel.Gen.PluginCode
/-!
Array-level model of the pointer table of `src/CppUTest/TestPlugin.cpp`: the state is what the file
declares — `static int pointerTableIndex`, `static cpputest_pair setlist[MAX_SET]` — plus the pointer
variables; the code that runs on it is NOT written here: it is `Gen/PluginCode.lean`, regenerated from the
clang AST of the current source on every check run, and executed by the interpreter below.

Every evaluation of `setlist[e]` checks `0 ≤ e < setlistLen`; an access outside the array sets the sticky
flag `oob` (and is otherwise skipped), so "nothing is written past the table" is the statement
`oob = false`.
-/
namespace Plugins
open Plugins.Code

structure Tab where
  mem       : Loc → Val          -- the pointer variables
  idx       : Int                -- `pointerTableIndex` (an `int`)
  orig      : Nat → Loc          -- `setlist[i].orig`
  origValue : Nat → Val          -- `setlist[i].orig_value`
  oob       : Bool               -- some `setlist[e]` was evaluated with `e` outside the array

def fupd {α} (f : Nat → α) (k : Nat) (a : α) : Nat → α := fun x => if x = k then a else f x

def inB (len : Nat) (k : Int) : Bool := decide (0 ≤ k) && decide (k < (len : Int))

/-- what the interpreter needs besides the state: the array length, the parameter of `CppUTestStore`,
    the value of the loop variable -/
structure Env where
  len   : Nat
  param : Loc
  i     : Int

def evalI (t : Tab) (env : Env) : IExp → Int
  | .lit n => n
  | .idx => t.idx
  | .loopVar => env.i
  | .add a b => evalI t env a + evalI t env b
  | .sub a b => evalI t env a - evalI t env b

def evalC (t : Tab) (env : Env) (c : Cond) : Bool :=
  match c.rel with
  | .ge => decide (evalI t env c.a ≥ evalI t env c.b)
  | .gt => decide (evalI t env c.a > evalI t env c.b)
  | .le => decide (evalI t env c.a ≤ evalI t env c.b)
  | .lt => decide (evalI t env c.a < evalI t env c.b)
  | .eq => decide (evalI t env c.a = evalI t env c.b)
  | .ne => decide (evalI t env c.a ≠ evalI t env c.b)

/-- `none` = the expression reads `setlist` outside the array -/
def evalP (t : Tab) (env : Env) : PExp → Option Loc
  | .param => some env.param
  | .origAt e => if inB env.len (evalI t env e) then some (t.orig (evalI t env e).toNat) else none

def evalV (t : Tab) (env : Env) : VExp → Option Val
  | .deref p =>
    match evalP t env p with
    | some l => some (t.mem l)
    | none => none
  | .origValueAt e => if inB env.len (evalI t env e) then some (t.origValue (evalI t env e).toNat) else none

inductive Out
  | ok (t : Tab)
  | failed (t : Tab)        -- a `FAIL` was reached: the function (and the test body) is left

def Out.tab : Out → Tab
  | .ok t => t
  | .failed t => t

def Out.isFailed : Out → Bool
  | .ok _ => false
  | .failed _ => true

def Tab.flag (t : Tab) : Tab := { t with oob := true }

def execS (env : Env) (t : Tab) : SStmt → Out
  | .failIf c => if evalC t env c then .failed t else .ok t
  | .setOrigValue ie v =>
    match evalV t env v with
    | none => .ok t.flag
    | some x =>
      if inB env.len (evalI t env ie) then .ok { t with origValue := fupd t.origValue (evalI t env ie).toNat x }
      else .ok t.flag
  | .setOrig ie p =>
    match evalP t env p with
    | none => .ok t.flag
    | some l =>
      if inB env.len (evalI t env ie) then .ok { t with orig := fupd t.orig (evalI t env ie).toNat l }
      else .ok t.flag
  | .storeThrough p v =>
    match evalP t env p, evalV t env v with
    | some l, some x => .ok { t with mem := update t.mem l x }
    | _, _ => .ok t.flag
  | .setIdx e => .ok { t with idx := evalI t env e }

def execSs (env : Env) : List SStmt → Tab → Out
  | [], t => .ok t
  | s :: rest, t =>
    match execS env t s with
    | .ok t' => execSs env rest t'
    | .failed t' => .failed t'

/-- `n` iterations of a descending loop, the loop variable starting at `i` -/
def execDown (env : Env) (body : List SStmt) : Nat → Int → Tab → Out
  | 0, _, t => .ok t
  | n + 1, i, t =>
    match execSs { env with i := i } body t with
    | .ok t' => execDown env body n (i - 1) t'
    | .failed t' => .failed t'

def execUp (env : Env) (body : List SStmt) : Nat → Int → Tab → Out
  | 0, _, t => .ok t
  | n + 1, i, t =>
    match execSs { env with i := i } body t with
    | .ok t' => execUp env body n (i + 1) t'
    | .failed t' => .failed t'

/-- the loop bounds are evaluated when the loop starts (the translator only accepts bounds that the
    loop body cannot change) -/
def execT (env : Env) (t : Tab) : TStmt → Out
  | .simple s => execS env t s
  | .forDown init lo body => execDown env body (evalI t env init - evalI t env lo + 1).toNat (evalI t env init) t
  | .forUp init hi body => execUp env body (evalI t env hi - evalI t env init).toNat (evalI t env init) t

def exec (env : Env) : List TStmt → Tab → Out
  | [], t => .ok t
  | s :: rest, t =>
    match execT env t s with
    | .ok t' => exec env rest t'
    | .failed t' => .failed t'

open Gen.PluginCode

def envFor (l : Loc) : Env := { len := setlistLen, param := l, i := 0 }

/-- `CppUTestStore(&a)` as the source has it now -/
def storeA (t : Tab) (l : Loc) : Out := exec (envFor l) storeCode t

/-- `SetPointerPlugin::postTestAction` as the source has it now -/
def postA (t : Tab) : Tab := (exec (envFor 0) postCode t).tab

/-- the `SetPointerPlugin` constructor as the source has it now -/
def constructA (t : Tab) : Tab := (exec (envFor 0) ctorCode t).tab

/-- `UT_PTR_SET(a, b)`: the macro's statements in the order the header has them -/
def macroA (l : Loc) (v : Val) : List MacroStep → Tab → Out
  | [], t => .ok t
  | .callStore :: rest, t =>
    match storeA t l with
    | .ok t' => macroA l v rest t'
    | .failed t' => .failed t'
  | .assign :: rest, t => macroA l v rest { t with mem := update t.mem l v }

def ptrSetA (t : Tab) (l : Loc) (v : Val) : Out := macroA l v utPtrSetSteps t

structure BodyResultA where
  tab      : Tab
  failed   : Bool
  overflow : Bool
  done     : Nat

/-- a scripted test body on the array-level state (the same statements as `runBody`) -/
def runBodyA (t : Tab) (done : Nat) : List Stmt → BodyResultA
  | [] => { tab := t, failed := false, overflow := false, done := done }
  | .stop :: _ => { tab := t, failed := true, overflow := false, done := done }
  | .set l v :: rest =>
    match ptrSetA t l v with
    | .failed t' => { tab := t', failed := true, overflow := true, done := done }
    | .ok t' => runBodyA t' (done + 1) rest

/-- a test on the array-level state: body, then the post action if an enabled pointer plugin sees it -/
def runTestA (active : Bool) (t : Tab) (body : List Stmt) : Tab :=
  if active then postA (runBodyA t 0 body).tab else (runBodyA t 0 body).tab

def BodyResultA.andThen (r : BodyResultA) (next : List Stmt) : BodyResultA :=
  { tab := (runBodyA r.tab r.done next).tab,
    failed := r.failed || (runBodyA r.tab r.done next).failed,
    overflow := r.overflow || (runBodyA r.tab r.done next).overflow,
    done := (runBodyA r.tab r.done next).done }

/-- `Utest::run` on the array-level state -/
def runPhasesA (t : Tab) (p : Phases) : BodyResultA :=
  (if (runBodyA t 0 p.setup).failed then runBodyA t 0 p.setup
   else (runBodyA t 0 p.setup).andThen p.body).andThen p.teardown

def runTestPA (active : Bool) (t : Tab) (p : Phases) : Tab :=
  if active then postA (runPhasesA t p).tab else (runPhasesA t p).tab

/-- the recorded entries, most recent first (how `Model/Plugins.lean` keeps them) -/
def entries (t : Tab) : Nat → List (Loc × Val)
  | 0 => []
  | n + 1 => (t.orig n, t.origValue n) :: entries t n

/-- abstraction to the list-level state of `Model/Plugins.lean` -/
def absT (t : Tab) : Store := { mem := t.mem, table := entries t t.idx.toNat }

def Tab.init (m : Loc → Val) : Tab := { mem := m, idx := 0, orig := fun _ => 0, origValue := fun _ => 0, oob := false }

/-! ## the chain walks as the source has them -/

/-- one frame of `runAllPreTestAction` / `runAllPostTestAction`: the statements in source order; the
    sentinel's override is empty -/
def walk (steps : List WalkStep) : Chain → List String
  | [] => []
  | p :: rest =>
    steps.flatMap (fun s =>
      match s with
      | .ownIfEnabled => if p.enabled then [p.name] else []
      | .own => [p.name]
      | .next => walk steps rest)

def runAllPreA (c : Chain) : List String := walk preSteps c
def runAllPostA (c : Chain) : List String := walk postSteps c

end Plugins
