/-!
Syntax shared by the regenerated file `Gen/AllocLayoutCode.lean` (written by
`translate/extract_alloclayout.py` from `MemoryLeakDetector.cpp` and `MemoryLeakWarningPlugin.cpp`)
and the hand-written interpreter `Model/AllocLayoutCode.lean` (C05).

The statement lists of `MemoryLeakDetector::allocMemory`, `reallocMemory`,
`reallocateMemoryAndLeakInformation` and `storeLeakInformation` are not copied by hand: the
extractor turns every C++ statement of these bodies into one micro-step below (locals may be
renamed, statements may be dropped, added or reordered in the source: the list follows), and
`Props/C05.lean` proves that executing the regenerated lists IS the hand model the C05 theorems
are about.  The driver replays traces through the regenerated lists.
-/
namespace AllocLayout

/-- one statement of the allocation functions of the detector -/
inductive AStep
  /- `#ifdef CPPUTEST_DISABLE_MEM_CORRUPTION_CHECK allocatNodesSeperately = true; #endif` -/
  | forceSepIfNoCheck
  /- `if (<overflow guard>) return NULLPTR;` (the expression is `Gen.AllocLayout.alloc/reallocOverflowGuard`) -/
  | guardReturnNull
  /- `char* memory = allocateMemoryWithAccountingInformation(allocator, size, file, line, allocatNodesSeperately);` -/
  | allocData
  /- `char* new_memory = reallocateMemoryWithAccountingInformation(allocator, memory, size, file, line, allocatNodesSeperately);` -/
  | platformRealloc
  /- `if (memory == NULLPTR) return NULLPTR;` on the freshly obtained block -/
  | ifNewNullReturnNull
  /- `MemoryLeakDetectorNode* node = createMemoryLeakAccountingInformation(allocator, size, memory, allocatNodesSeperately);` -/
  | createNode
  /- `if (node == NULLPTR) { allocator->free_memory(memory, size, file, line); return NULLPTR; }` -/
  | ifNodeNullFreeReturnNull
  /- `storeLeakInformation(node, memory, size, allocator, file, line);` (runs the regenerated list of that function) -/
  | store
  /- `return node->memory_;` -/
  | returnNodeMemory
  /- `node->init(new_memory, allocationSequenceNumber_++, size, allocator, current_period_, current_allocation_stage_, file, line);` -/
  | initNew
  /- `addMemoryCorruptionInformation(node->memory_ + node->size_);` -/
  | writeGuard
  /- `memoryTable_.addNewNode(node);` -/
  | addNode
  /- `MemoryLeakDetectorNode oldNode;` -/
  | declOldNode
  /- `if (memory) { … }` around the statements that take the old record out of the table -/
  | ifMemoryTakeOld
  /- `MemoryLeakDetectorNode* node = memoryTable_.removeNode(memory);` -/
  | removeOld
  /- `if (node == NULLPTR) { outputBuffer_.reportDeallocateNonAllocatedMemoryFailure(…); return NULLPTR; }` -/
  | ifRemovedNullReportReturnNull
  /- `oldNode = *node;` -/
  | copyOld
  /- `checkForCorruption(node, file, line, allocator, allocatNodesSeperately);` -/
  | checkCorruption
  /- `char* new_memory = reallocateMemoryAndLeakInformation(allocator, memory, size, file, line, allocatNodesSeperately);` -/
  | callReallocInner
  /- `if (new_memory == NULLPTR && memory) { … }` around the statements that re-register the old block -/
  | ifFailedRetrack
  /- `MemoryLeakDetectorNode* node = createMemoryLeakAccountingInformation(oldNode.allocator_, oldNode.size_, memory, allocatNodesSeperately);` -/
  | createNodeOld
  /- `node->init(memory, oldNode.number_, oldNode.size_, oldNode.allocator_, oldNode.period_, oldNode.allocation_stage_, oldNode.file_, oldNode.line_);` -/
  | initOld
  /- `return new_memory;` -/
  | returnNew
  /- `if (memory == NULLPTR) return;` (deallocMemory) -/
  | ifNullReturn
  /- `if (node == NULLPTR) { outputBuffer_.reportDeallocateNonAllocatedMemoryFailure(…); return; }` -/
  | ifRemovedNullReportReturn
  /- `if (!allocator->hasBeenDestroyed()) { … }` around the statements that check and free the block -/
  | ifAllocatorAlive
  /- `size_t size = node->size_;` -/
  | readSize
  /- `allocator->free_memory((char*) memory, size, file, line);` -/
  | freeData
deriving DecidableEq, Repr, Inhabited

/-- what a global `operator new` / `operator delete` overload forwards to: the function pointer
    (as its index in the regenerated table) and whether the overload is an array form -/
structure Forwarder where
  overload : String     -- e.g. "new(size_t,const char*,int)"
  array    : Bool       -- `operator new[]` / `operator delete[]`
  isDelete : Bool
  fptr     : String     -- e.g. "operator_new_debug_fptr"
  args     : String     -- the arguments passed on, `$k` = the k-th parameter
deriving DecidableEq, Repr, Inhabited

end AllocLayout
