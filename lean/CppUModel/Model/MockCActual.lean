import CppUModel.Gen.CMockWiring
/-!
# C19 — `MockSupport::actualCall(name)` and the "last actual call" of a scope (C++ side, MockSupport.cpp)

The C forwarders `hasReturnValue_c` and every `return<Type>ValueOrDefault_c` (both tables) ask
`currentMockSupport->hasReturnValue()`, i.e. `lastActualFunctionCall_` of the selected scope, and read the value from
the static `actualCall`; the C++ program asks the object `actualCall()` handed out (`MockIgnoredActualCall` answers "no
return value" itself).  The two agree only if an actual call that hands out the ignored-call object leaves no last call
behind: `MockSupport::actualCall` finishes and deletes the previous call BEFORE it tests `enabled_`.

`runSteps` interprets the statement list regenerated from the source (`Gen.CMock.actualCallSteps`).
-/
namespace MockC.Actual

/-- one `MockSupport` scope, as far as `actualCall` / `hasReturnValue` are concerned -/
structure Sup where
  enabled  : Bool := true
  tracing  : Bool := false
  /-- `lastActualFunctionCall_`: id of the checked call, whether the expectation it fulfilled carries a return value -/
  last     : Option (Nat × Bool) := none
  next     : Nat := 0
  /-- calls that were finished (`checkExpectations()`) and deleted, newest first -/
  finished : List Nat := []
deriving DecidableEq, Repr, Inhabited

/-- what `actualCall` hands out -/
inductive Handed
  | checked (id : Nat) (hasRet : Bool)
  | ignored
  | trace
  | unknown (why : String)
deriving DecidableEq, Repr, Inhabited

def finishLast (s : Sup) : Sup :=
  match s.last with
  | some l => { s with last := none, finished := l.1 :: s.finished }
  | none => s

/-- the statements of `MockSupport::actualCall` in source order; `created` = the local `call`;
    `callIgnored` = `callIsIgnored(name)`, `hasRet` = the expectation the new call fulfils carries a return value -/
def runSteps : List ACStep → Sup → Option (Nat × Bool) → Bool → Bool → Sup × Handed
  | [], s, _, _, _ => (s, .unknown "fell off the end")
  | .scopeName :: r, s, c, ci, hr => runSteps r s c ci hr
  | .finishLast :: r, s, c, ci, hr => runSteps r (finishLast s) c ci hr
  | .retIgnoredIfDisabled :: r, s, c, ci, hr => if s.enabled then runSteps r s c ci hr else (s, .ignored)
  | .retTraceIfTracing :: r, s, c, ci, hr => if s.tracing then (s, .trace) else runSteps r s c ci hr
  | .retIgnoredIfCallIgnored :: r, s, c, ci, hr => if ci then (s, .ignored) else runSteps r s c ci hr
  | .createChecked :: r, s, _, ci, hr =>
    runSteps r { s with last := some (s.next, hr), next := s.next + 1 } (some (s.next, hr)) ci hr
  | .withName :: r, s, c, ci, hr => runSteps r s c ci hr
  | .retChecked :: _, s, c, _, _ =>
    match c with
    | some x => (s, .checked x.1 x.2)
    | none => (s, .unknown "return *call without a call")
  | .other t :: _, s, _, _, _ => (s, .unknown t)

/-- `mock(scope).actualCall(name)` of the current source -/
def actualCall (s : Sup) (callIgnored hasRet : Bool) : Sup × Handed :=
  runSteps Gen.CMock.actualCallSteps s none callIgnored hasRet

/-- `MockSupport::hasReturnValue()`: `if (last) return last->hasReturnValue(); return false;` -/
def supHas (s : Sup) : Bool :=
  match s.last with
  | some l => l.2
  | none => false

/-- `call.hasReturnValue()` of the object handed out (C++ program) -/
def handedHas : Handed → Bool
  | .checked _ hr => hr
  | _ => false

/-- `actualCall->hasReturnValue()` through the C table: `hasReturnValue_c` asks the selected scope -/
def cHas (s : Sup) : Bool := supHas s

/-- a value: `some v` = the return value set by the expectation, read with the right getter; the ignored-call and the
    trace object return the zero of the type (`none`) -/
def handedValue (v : Nat) : Handed → Option Nat
  | .checked _ _ => some v
  | _ => none

/-- result of `return<Type>ValueOrDefault(d)`: `.inl d` the caller's default, `.inr x` what the getter of the static
    actual call returns -/
def cOrDefault (s : Sup) (h : Handed) (v d : Nat) : Nat ⊕ Option Nat :=
  if cHas s then .inr (handedValue v h) else .inl d

def cppOrDefault (h : Handed) (v d : Nat) : Nat ⊕ Option Nat :=
  if handedHas h then .inr (handedValue v h) else .inl d

/-- does an ignored actual call (mocking disabled, or the call ignored by `ignoreOtherCalls`) clear the scope's last
    call?  Evaluated on the regenerated statement list; used by the driver's replay. -/
def ignoredCallClearsLast : Bool :=
  (actualCall { enabled := false, last := some (0, true), next := 1 } false false).1.last.isNone &&
  (actualCall { enabled := true, last := some (0, true), next := 1 } true false).1.last.isNone

end MockC.Actual
