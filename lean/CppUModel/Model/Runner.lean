import CppUModel.Gen.RunnerConstants
import CppUModel.Model.Asserts
/-!
Model of the test runner, written from the C++ line by line:

* `Utest::run`, `UtestShell::runOneTest / runOneTestInCurrentProcess / failWith / addFailure`,
  the terminators                                             (src/CppUTest/Utest.cpp)
* `PlatformSpecificSetJmp / LongJmp / RestoreJumpBuffer`      (src/Platforms/Gcc/UtestPlatform.cpp)
* `TestResult` counters, `isFailure`                          (include/CppUTest/TestResult.h)
* `TestOutput::printFailure / printTestsEnded / printCurrentTest…` (src/CppUTest/TestOutput.cpp)
* `TestPlugin::runAllPreTestAction / runAllPostTestAction`    (src/CppUTest/TestPlugin.cpp)
* `TestRegistry::runAllTests`                                 (src/CppUTest/TestRegistry.cpp)
* `CommandLineTestRunner::runAllTests`                        (src/CppUTest/CommandLineTestRunner.cpp)

A test program is data: every phase (setup, body, teardown) is a list of `Stmt`.
`jmp_buf_index` is an `Int` (it is a C `int`); every use of it as an array index is checked
against the regenerated array length, a miss is the fault `jmpIndex`.  `setjmp/longjmp` and
C++ unwinding are modelled by their contract: a function called through
`PlatformSpecificSetJmp` leaves in one of three ways (`Exit`), and only the normal return and
`PlatformSpecificLongJmp` decrement the index.

Regenerated from the source (`Gen.Runner`): the array length, `TestResult::isFailure`, the
verdict condition of `TestOutput::printTestsEnded`, the return expression of
`CommandLineTestRunner::runAllTests`.

Environment inputs: the successive readings of `GetPlatformSpecificTimeInMillis` (`Cfg.clock`);
every read is an event (`Ev.clock`), so the call sites and their order are part of the
correspondence.  Rethrow mode is modelled up to "the exception propagates out of
`runAllTests`" (`Stop.propagated`, with everything printed until then, the setjmp depth and the
current test at that moment).
-/
namespace Runner

structure Loc where
  file : String
  line : Nat
deriving Repr, DecidableEq, Inhabited

/-- one real check per assert function / macro family (the harness statement
    `checkKind <k> <pass|fail>`).  What the check does — whether it fails, how often it calls
    `countCheck()` — is taken from property C03's model of the check macros (`Model/Asserts.lean`),
    applied to the operands the harness uses. -/
inductive CheckKind
  | check | checkText | checkEqual | longs | ulongs | longlongs | ulonglongs | bytes | sbytes
  | pointers | fpointers | doubles | strcmp | strncmp | strcmpNocase | strcmpContains | strcmpNocaseContains
  | memcmp0 | memcmp | bits | compare | enumsInt | throws
  | cInt | cReal | cString | cPointer | cMemcmp0 | cMemcmp | cBits | checkC
deriving Repr, DecidableEq, Inhabited

/-- finite arithmetic for the two `DOUBLES_EQUAL`-type checks: their operands are small integers -/
def intOps : Asserts.FinOps Int :=
  { sub := fun a b => .fin (a - b), abs := fun a => Int.ofNat a.natAbs, le := fun a b => decide (a ≤ b),
    pos := fun a => decide (a > 0) }

def bAbc : Text.Bytes := [97, 98, 99]
def bAbd : Text.Bytes := [97, 98, 100]
def bAxd : Text.Bytes := [97, 120, 100]
def bABC : Text.Bytes := [65, 66, 67]
def bABD : Text.Bytes := [65, 66, 68]
def bBc : Text.Bytes := [98, 99]
def bAbcd : Text.Bytes := [97, 98, 99, 100]
def baBCd : Text.Bytes := [97, 66, 67, 100]
def m123 : Text.Bytes := [1, 2, 3]
def m193 : Text.Bytes := [1, 9, 3]

/-- the check macro applied to the harness' operands (`pass` selects the satisfying / violating
    second operand; with length 0 both pass) -/
def CheckKind.outcome (k : CheckKind) (pass : Bool) : Asserts.Outcome :=
  match k with
  | .check => Asserts.CHECK pass
  | .checkText => Asserts.CHECK pass
  | .checkEqual => Asserts.CHECK_EQUAL_int ⟨Asserts.tyInt, 1⟩ ⟨Asserts.tyInt, if pass then 1 else 2⟩
  | .longs => Asserts.LONGS_EQUAL 1 (if pass then 1 else 2)
  | .ulongs => Asserts.UNSIGNED_LONGS_EQUAL 1 (if pass then 1 else 2)
  | .longlongs => Asserts.LONGLONGS_EQUAL 1 (if pass then 1 else 2)
  | .ulonglongs => Asserts.UNSIGNED_LONGLONGS_EQUAL 1 (if pass then 1 else 2)
  | .bytes => Asserts.BYTES_EQUAL ⟨Asserts.tyInt, 257⟩ ⟨Asserts.tyInt, if pass then 513 else 514⟩
  | .sbytes => Asserts.SIGNED_BYTES_EQUAL (-1) (if pass then -1 else 2)
  | .pointers => Asserts.POINTERS_EQUAL 4096 (if pass then 4096 else 8192)
  | .fpointers => Asserts.FUNCTIONPOINTERS_EQUAL 4096 (if pass then 4096 else 8192)
  | .doubles => Asserts.DOUBLES_EQUAL intOps (.fin 10) (.fin (if pass then 10 else 20)) (.fin 5)
  | .strcmp => Asserts.STRCMP_EQUAL (some bAbc) (some (if pass then bAbc else bAbd))
  | .strncmp => Asserts.STRNCMP_EQUAL (some bAbc) (some (if pass then bAbd else bAxd)) 2
  | .strcmpNocase => Asserts.STRCMP_NOCASE_EQUAL (some bAbc) (some (if pass then bABC else bABD))
  | .strcmpContains => Asserts.STRCMP_CONTAINS (some bBc) (some (if pass then bAbcd else bAbd))
  | .strcmpNocaseContains => Asserts.STRCMP_NOCASE_CONTAINS (some bBc) (some (if pass then baBCd else bAbd))
  | .memcmp0 => Asserts.MEMCMP_EQUAL (some m123) (some (if pass then m123 else m193)) 0
  | .memcmp => Asserts.MEMCMP_EQUAL (some m123) (some (if pass then m123 else m193)) 3
  | .bits => Asserts.BITS_EQUAL 21 (if pass then 53 else 20) 15 4
  | .compare => Asserts.CHECK_COMPARE_int .lt ⟨Asserts.tyInt, 1⟩ ⟨Asserts.tyInt, if pass then 2 else 0⟩
  | .enumsInt => Asserts.ENUMS_EQUAL_TYPE 32 1 (if pass then 1 else 2)
  | .throws => Asserts.CHECK_THROWS (if pass then .expected else .nothing)
  | .cInt => Asserts.CHECK_EQUAL_C_INT 1 (if pass then 1 else 2)
  | .cReal => Asserts.CHECK_EQUAL_C_REAL intOps (.fin 10) (.fin (if pass then 10 else 20)) (.fin 5)
  | .cString => Asserts.CHECK_EQUAL_C_STRING (some bAbc) (some (if pass then bAbc else bAbd))
  | .cPointer => Asserts.CHECK_EQUAL_C_POINTER 4096 (if pass then 4096 else 8192)
  | .cMemcmp0 => Asserts.CHECK_EQUAL_C_MEMCMP (some m123) (some (if pass then m123 else m193)) 0
  | .cMemcmp => Asserts.CHECK_EQUAL_C_MEMCMP (some m123) (some (if pass then m123 else m193)) 3
  | .cBits => Asserts.CHECK_EQUAL_C_BITS 21 (if pass then 53 else 20) 15 4
  | .checkC => Asserts.CHECK_C (if pass then 1 else 0)

/-- the C entry points of TestHarness_c.cpp pass the terminator without exceptions -/
def CheckKind.isC : CheckKind → Bool
  | .cInt | .cReal | .cString | .cPointer | .cMemcmp0 | .cMemcmp | .cBits | .checkC => true
  | _ => false

/-- one statement of a test phase -/
inductive Stmt
  | mark (n : Nat)                        -- an observable side effect of the test program
  | checkPass                             -- `CHECK(true)` / `CHECK_C(1)`: a check that holds
  | failCpp (loc : Loc) (msg : String)    -- `FAIL` / `CHECK(false)`: check fails, default terminator
  | failC (loc : Loc) (msg : String)      -- `FAIL_TEXT_C` / `CHECK_C(0)`: terminator without exceptions
  | throwStd                              -- `throw std::runtime_error(..)`
  | throwOther                            -- `throw 42`
  | exitTest                              -- `TEST_EXIT` = exitTest(default terminator)
  | exitTestC                             -- `exitTest(TestTerminatorWithoutExceptions())`
  | check (k : CheckKind) (pass : Bool) (loc : Loc) (msg : String)
      -- one real check of kind `k`; `msg` is the text of its failure
deriving Repr, DecidableEq, Inhabited

inductive Phase
  | setup | body | teardown
deriving Repr, DecidableEq, Inhabited

structure Test where
  group    : String
  name     : String
  file     : String
  line     : Nat
  ignored  : Bool                 -- an `IgnoredUtestShell`
  setup    : List Stmt
  body     : List Stmt
  teardown : List Stmt
deriving Repr, DecidableEq, Inhabited

/-- an error a plugin reports through `result.addFailure` in its pre or post action;
    `only = some n`: reported for tests named `n` only -/
structure PErr where
  only : Option String
  loc  : Loc
  msg  : String
deriving Repr, DecidableEq, Inhabited

structure Plugin where
  name    : String
  enabled : Bool
  pre     : List PErr
  post    : List PErr
deriving Repr, DecidableEq, Inhabited

/-- a strict (`-sg`, `-sn`) or strict excluding (`-xsg`, `-xsn`) filter -/
structure Filter where
  text   : String
  invert : Bool
deriving Repr, DecidableEq, Inhabited

structure Cfg where
  exceptions   : Bool             -- CPPUTEST_HAVE_EXCEPTIONS (build variant)
  rethrow      : Bool             -- UtestShell::rethrowExceptions_ (off with `-e`)
  verbose      : Bool             -- `-v`
  veryVerbose  : Bool             -- `-vv`
  color        : Bool             -- `-c`
  runIgnored   : Bool             -- `-ri`
  groupFilters : List Filter
  nameFilters  : List Filter
  stdExcMsg    : String           -- text of UnexpectedExceptionFailure(test, e)
  otherExcMsg  : String           -- text of UnexpectedExceptionFailure(test)
  clock        : List Nat         -- environment: successive readings of GetPlatformSpecificTimeInMillis
  separate     : Bool := false    -- `-p`: every test runs in a forked child (GccPlatformSpecificRunTestInASeperateProcess)
deriving Repr, DecidableEq, Inhabited

/-! ## TestResult -/

structure Result where
  testCount        : Nat := 0
  runCount         : Nat := 0
  checkCount       : Nat := 0
  failureCount     : Nat := 0
  filteredOutCount : Nat := 0
  ignoredCount     : Nat := 0
deriving Repr, DecidableEq, Inhabited

def Result.countTest (r : Result) : Result := { r with testCount := r.testCount + 1 }
def Result.countRun (r : Result) : Result := { r with runCount := r.runCount + 1 }
def Result.countCheck (r : Result) : Result := { r with checkCount := r.checkCount + 1 }
/-- `countCheck()` called `n` times -/
def Result.countChecks (r : Result) (n : Nat) : Result := { r with checkCount := r.checkCount + n }
def Result.countFilteredOut (r : Result) : Result := { r with filteredOutCount := r.filteredOutCount + 1 }
def Result.countIgnored (r : Result) : Result := { r with ignoredCount := r.ignoredCount + 1 }
/-- the counter part of `TestResult::addFailure` (the print is the event `Ev.failure`) -/
def Result.countFailure (r : Result) : Result := { r with failureCount := r.failureCount + 1 }

/-- `TestResult::isFailure` (regenerated expression) -/
def Result.isFailure (r : Result) : Bool :=
  Gen.Runner.isFailure r.failureCount r.runCount r.ignoredCount

/-! ## what is printed / observed -/

/-- a `TestFailure` as `TestOutput::printFailure` sees it -/
structure FailRec where
  testName : String        -- getFormattedName()
  testFile : String
  testLine : Nat
  file     : String
  line     : Nat
  msg      : String
deriving Repr, DecidableEq, Inhabited

inductive Ev
  | tok (s : String)                                   -- one `TestOutput::print` call
  | enter (ph : Phase) (depth : Int)                   -- the test's setup()/testBody()/teardown() was called
  | mark (ph : Phase) (n : Nat) (depth : Int)          -- statement `mark n` executed
  | plug (name : String) (post : Bool) (depth : Int)   -- a plugin's pre/post action ran
  | failure (r : FailRec)                              -- TestOutput::printFailure(r)
  | sepFailure (r : FailRec)
      -- `-p`: printFailure of the parent's "Failed in separate process" record for a child that exited non-zero
  | ended (depth : Int) (current : Option String) (failed : Bool)
      -- after runOneTest returned: jmp_buf_index, UtestShell::currentTest_, the shell's hasFailed_
  | summary (r : Result) (time : Nat)                  -- TestOutput::printTestsEnded(r), total time `time`
  | clock (v : Nat)                                    -- one reading of GetPlatformSpecificTimeInMillis
  | ret (v : Int)                                      -- value returned by runAllTests
deriving Repr, DecidableEq, Inhabited

/-- `printEclipseErrorInFileOnLine` -/
def locToks (file : String) (line : Nat) : List String :=
  ["\n", file, ":", toString line, ":", " error:"]

/-- `isOutsideTestFile() || isInHelperFunction()` -/
def FailRec.twoLocations (r : FailRec) : Bool :=
  (r.testFile != r.file) || decide (r.line < r.testLine)

/-- `TestOutput::printFailure` as the list of strings given to `print` -/
def failureToks (r : FailRec) : List String :=
  (if r.twoLocations then
    locToks r.testFile r.testLine ++ [" Failure in ", r.testName] ++ locToks r.file r.line
   else
    locToks r.file r.line ++ [" Failure in ", r.testName])
  ++ ["\n", "\t", r.msg, "\n\n"]

def noteText : String :=
  "\nNote: test run failed because no tests were run or ignored. Assuming something went wrong. This often happens because of linking errors or typos in test filter."

/-- the verdict `printTestsEnded` prints (regenerated condition of that function) -/
def Result.printsFailure (r : Result) : Bool :=
  Gen.Runner.summaryIsFailure r.failureCount r.runCount r.ignoredCount

/-- the head of the summary line (with the colour escape when `-c`) -/
def summaryHead (color : Bool) (r : Result) : List String :=
  if r.printsFailure then
    (if color then ["\x1b[31;1m"] else []) ++
    (if r.failureCount > 0 then ["Errors (", toString r.failureCount, " failures, "]
     else ["Errors (", "ran nothing, "])
  else (if color then ["\x1b[32;1m"] else []) ++ ["OK ("]

/-- `TestOutput::printTestsEnded` -/
def summaryToks (color : Bool) (r : Result) (time : Nat) : List String :=
  ["\n"] ++ summaryHead color r ++
  [toString r.testCount, " tests, ", toString r.runCount, " ran, ", toString r.checkCount, " checks, ",
   toString r.ignoredCount, " ignored, ", toString r.filteredOutCount, " filtered out, ", toString time, " ms)"] ++
  (if color then ["\x1b[m"] else []) ++
  (if r.printsFailure && r.failureCount == 0 then [noteText] else []) ++ ["\n\n"]

/-! ## statements of one phase -/

inductive ExcKind
  | failed      -- CppUTestFailedException
  | std         -- derived from std::exception
  | other       -- anything else
deriving Repr, DecidableEq, Inhabited

/-- how control leaves a function that was called through PlatformSpecificSetJmp -/
inductive Exit
  | normal
  | longjmp                 -- PlatformSpecificLongJmp()
  | exc (k : ExcKind)       -- a C++ exception propagates
deriving Repr, DecidableEq, Inhabited

def formattedName (cfg : Cfg) (t : Test) : String :=
  (if t.ignored && !cfg.runIgnored then "IGNORE_TEST" else "TEST") ++ "(" ++ t.group ++ ", " ++ t.name ++ ")"

/-- `TestFailure(test, fileName, lineNumber, message)` -/
def mkRec (cfg : Cfg) (t : Test) (loc : Loc) (msg : String) : FailRec :=
  { testName := formattedName cfg t, testFile := t.file, testLine := t.line,
    file := loc.file, line := loc.line, msg := msg }

/-- `TestFailure(test, message)`: the failure is located at the test itself -/
def mkRecAtTest (cfg : Cfg) (t : Test) (msg : String) : FailRec :=
  mkRec cfg t ⟨t.file, t.line⟩ msg

structure PhaseOut where
  res       : Result
  hasFailed : Bool
  evs       : List Ev
  exit      : Exit
deriving Repr, DecidableEq, Inhabited

def PhaseOut.cons (e : Ev) (o : PhaseOut) : PhaseOut := { o with evs := e :: o.evs }

/-- `NormalTestTerminator::exitCurrentTest`: throw, or longjmp in a build without exceptions -/
def normalTerminator (cfg : Cfg) : Exit :=
  if cfg.exceptions then .exc .failed else .longjmp

/-- The statements of a phase, executed at `jmp_buf_index = d`.
    `fail`: countCheck; failWith = addFailure (hasFailed_, print, failureCount_++) then terminator.
    A `throw` statement does not exist in a build without exception support (the harness drops
    it there); the model skips it. -/
def runStmts (cfg : Cfg) (t : Test) (ph : Phase) (d : Int) : Result → Bool → List Stmt → PhaseOut
  | res, hf, [] => ⟨res, hf, [], .normal⟩
  | res, hf, .mark n :: rest => (runStmts cfg t ph d res hf rest).cons (.mark ph n d)
  | res, hf, .checkPass :: rest => runStmts cfg t ph d res.countCheck hf rest
  | res, _, .failCpp loc msg :: _ =>
    ⟨res.countCheck.countFailure, true, [.failure (mkRec cfg t loc msg)], normalTerminator cfg⟩
  | res, _, .failC loc msg :: _ =>
    ⟨res.countCheck.countFailure, true, [.failure (mkRec cfg t loc msg)], .longjmp⟩
  | res, hf, .throwStd :: rest =>
    if cfg.exceptions then ⟨res, hf, [], .exc .std⟩ else runStmts cfg t ph d res hf rest
  | res, hf, .throwOther :: rest =>
    if cfg.exceptions then ⟨res, hf, [], .exc .other⟩ else runStmts cfg t ph d res hf rest
  | res, hf, .exitTest :: _ => ⟨res, hf, [], normalTerminator cfg⟩
  | res, hf, .exitTestC :: _ => ⟨res, hf, [], .longjmp⟩
  | res, hf, .check k pass loc msg :: rest =>
    if (k.outcome pass).fails then
      ⟨(res.countChecks (k.outcome pass).counted).countFailure, true, [.failure (mkRec cfg t loc msg)],
       if k.isC then .longjmp else normalTerminator cfg⟩
    else runStmts cfg t ph d (res.countChecks (k.outcome pass).counted) hf rest

/-! ## the setjmp stack -/

inductive Fault
  | jmpIndex (i : Int)      -- test_exit_jmp_buf[i] with i outside the array
  | wrongFrame              -- longjmp to a buffer that is not the innermost active frame's
  | uncaught                -- exception in a build without exception support
deriving Repr, DecidableEq, Inhabited

/-- rethrow mode: an exception on its way out of `runAllTests` -/
structure Propagated where
  kind    : ExcKind
  evs     : List Ev              -- everything observed until it left
  depth   : Int                  -- jmp_buf_index at that moment (nobody decrements on the way out)
  current : Option String        -- UtestShell::currentTest_ at that moment (not restored)
deriving Repr, DecidableEq, Inhabited

/-- why a run does not come back with a value -/
inductive Stop
  | fault (f : Fault)
  | propagated (p : Propagated)
deriving Repr, DecidableEq, Inhabited

/-- the caller had already observed `before` -/
def Stop.prepend (before : List Ev) : Stop → Stop
  | .fault f => .fault f
  | .propagated p => .propagated { p with evs := before ++ p.evs }

/-- state threaded through one test -/
structure TSt where
  res       : Result
  hasFailed : Bool               -- UtestShell::hasFailed_ of the running shell
  depth     : Int                -- jmp_buf_index
  current   : Option String      -- UtestShell::currentTest_ (name of the shell; none = outside a run)
deriving Repr, DecidableEq, Inhabited

/-- what `function(data)` did: the state when control left it, what it printed, how it left -/
structure Frame where
  st   : TSt
  evs  : List Ev
  exit : Exit
deriving Repr, DecidableEq, Inhabited

/-- result of one `PlatformSpecificSetJmp(function, data)` call -/
structure JmpOut where
  st  : TSt
  evs : List Ev
  ret : Bool                     -- 1: function returned; 0: came back through longjmp
  esc : Option ExcKind           -- an exception passes through the call (no decrement happened)
deriving Repr, DecidableEq, Inhabited

def inBuf (i : Int) : Bool := decide (0 ≤ i) && decide (i < Int.ofNat Gen.Runner.jmpBufLen)

def TSt.dec (s : TSt) : TSt := { s with depth := s.depth - 1 }

/-- the part of PlatformSpecificSetJmpImplementation after `function(data)` was entered.
    `d` is the index the buffer was saved at. -/
def setJmpAfter (d : Int) (fr : Frame) : Except Stop JmpOut :=
  match fr.exit with
  | .normal => .ok ⟨fr.st.dec, fr.evs, true, none⟩                      -- jmp_buf_index--; return 1
  | .longjmp =>                                                          -- LongJmp: jmp_buf_index--; longjmp(buf[index])
    if !inBuf (fr.st.depth - 1) then .error (.fault (.jmpIndex (fr.st.depth - 1)))
    else if fr.st.depth - 1 = d then .ok ⟨fr.st.dec, fr.evs, false, none⟩   -- lands in this setjmp: return 0
    else .error (.fault .wrongFrame)
  | .exc k => .ok ⟨fr.st, fr.evs, false, some k⟩                        -- unwinds through; nobody decrements

/-- `PlatformSpecificSetJmpImplementation(function, data)`:
    `if (0 == setjmp(buf[index])) { index++; function(data); index--; return 1; } return 0;` -/
def setJmp (st : TSt) (fn : TSt → Except Stop Frame) : Except Stop JmpOut :=
  if !inBuf st.depth then .error (.fault (.jmpIndex st.depth))
  else
    match fn { st with depth := st.depth + 1 } with
    | .error f => .error f
    | .ok fr => setJmpAfter st.depth fr

/-- `PlatformSpecificRestoreJumpBuffer` -/
def restoreJumpBuffer (st : TSt) : TSt := st.dec

/-! ## Utest::run -/

def stmtsOf (t : Test) : Phase → List Stmt
  | .setup => t.setup
  | .body => t.body
  | .teardown => t.teardown

/-- helperDoTestSetup / Body / Teardown: the user's code of one phase -/
def phaseFn (cfg : Cfg) (t : Test) (ph : Phase) (st : TSt) : Except Stop Frame :=
  let o := runStmts cfg t ph st.depth st.res st.hasFailed (stmtsOf t ph)
  .ok ⟨{ st with res := o.res, hasFailed := o.hasFailed }, .enter ph st.depth :: o.evs, o.exit⟩

/-- `current->addFailure(f)`: hasFailed_ = true; result->addFailure(f) -/
def shellAddFailure (st : TSt) : TSt :=
  { st with hasFailed := true, res := st.res.countFailure }

/-- state and events so far -/
structure Acc where
  st  : TSt
  evs : List Ev
deriving Repr, DecidableEq, Inhabited

/-- `printVeryVerbose(s)`: printed with `-vv` only -/
def vv (cfg : Cfg) (s : String) : List Ev := if cfg.veryVerbose then [.tok s] else []

/-- the same inside `Utest::run`, whose variant without exceptions has no such calls -/
def vvU (cfg : Cfg) (s : String) : List Ev := if cfg.veryVerbose && cfg.exceptions then [.tok s] else []

def vvBefore : Phase → String
  | .setup => "\n-------- before setup: "
  | .body => "\n----------  before body: "
  | .teardown => "\n--------  before teardown: "

def vvAfter : Phase → String
  | .setup => "\n-------- after  setup: "
  | .body => "\n----------  after body: "
  | .teardown => "\n--------  after teardown: "

/-- the three `catch` clauses that follow both `try` blocks of `Utest::run`; in rethrow mode a
    std or foreign exception is recorded, the index restored, and the exception thrown on -/
def catchClauses (cfg : Cfg) (t : Test) (st : TSt) (evs : List Ev) : ExcKind → Except Stop Acc
  | .failed => .ok ⟨restoreJumpBuffer st, evs⟩
  | .std =>
    if cfg.rethrow then
      .error (.propagated ⟨.std, evs ++ [.failure (mkRecAtTest cfg t cfg.stdExcMsg)],
                           (restoreJumpBuffer (shellAddFailure st)).depth, st.current⟩)
    else .ok ⟨restoreJumpBuffer (shellAddFailure st), evs ++ [.failure (mkRecAtTest cfg t cfg.stdExcMsg)]⟩
  | .other =>
    if cfg.rethrow then
      .error (.propagated ⟨.other, evs ++ [.failure (mkRecAtTest cfg t cfg.otherExcMsg)],
                           (restoreJumpBuffer (shellAddFailure st)).depth, st.current⟩)
    else .ok ⟨restoreJumpBuffer (shellAddFailure st), evs ++ [.failure (mkRecAtTest cfg t cfg.otherExcMsg)]⟩

/-- what follows a SetJmp call inside a `try`: an escaping exception goes to the catch clauses
    (skipping the "after" print), otherwise the "after" print follows -/
def afterTry (cfg : Cfg) (t : Test) (j : JmpOut) (evsBefore evsAfter : List Ev) : Except Stop Acc :=
  match j.esc with
  | some k => catchClauses cfg t j.st (evsBefore ++ j.evs) k
  | none => .ok ⟨j.st, evsBefore ++ j.evs ++ evsAfter⟩

/-- `if (jumpResult) { PlatformSpecificSetJmp(helperDoTestBody, this); }` inside the first try block -/
def bodyIfSetupReturned (cfg : Cfg) (t : Test) (a1 : Acc) (ret : Bool) : Except Stop Acc :=
  if ret then
    match setJmp a1.st (phaseFn cfg t .body) with
    | .error f => .error f
    | .ok j2 => afterTry cfg t j2 (a1.evs ++ vvU cfg (vvBefore .body)) (vvU cfg (vvAfter .body))
  else .ok a1

/-- first `try` block with its catch clauses -/
def tryBlock1 (cfg : Cfg) (t : Test) (st : TSt) : Except Stop Acc :=
  match setJmp st (phaseFn cfg t .setup) with
  | .error f => .error f
  | .ok j1 =>
    match afterTry cfg t j1 (vvU cfg (vvBefore .setup)) (vvU cfg (vvAfter .setup)) with
    | .error f => .error f
    | .ok a1 =>
      match j1.esc with
      | some _ => .ok a1                        -- the catch clause ended the try block
      | none => bodyIfSetupReturned cfg t a1 j1.ret

/-- second `try` block with its catch clauses -/
def tryBlock2 (cfg : Cfg) (t : Test) (a : Acc) : Except Stop Acc :=
  match setJmp a.st (phaseFn cfg t .teardown) with
  | .error f => .error f
  | .ok j => afterTry cfg t j (a.evs ++ vvU cfg (vvBefore .teardown)) (vvU cfg (vvAfter .teardown))

/-- `Utest::run`, build with exceptions -/
def utestRunExc (cfg : Cfg) (t : Test) (st : TSt) : Except Stop Acc :=
  match tryBlock1 cfg t st with
  | .error f => .error f
  | .ok a => tryBlock2 cfg t a

/-- an exception where no handler exists -/
def noEsc (j : JmpOut) (evsBefore : List Ev) : Except Stop Acc :=
  match j.esc with
  | some _ => .error (.fault .uncaught)
  | none => .ok ⟨j.st, evsBefore ++ j.evs⟩

def bodyNoExc (cfg : Cfg) (t : Test) (j1 : JmpOut) : Except Stop Acc :=
  match j1.esc with
  | some _ => .error (.fault .uncaught)
  | none =>
    if j1.ret then
      match setJmp j1.st (phaseFn cfg t .body) with
      | .error f => .error f
      | .ok j2 => noEsc j2 j1.evs
    else .ok ⟨j1.st, j1.evs⟩

def teardownNoExc (cfg : Cfg) (t : Test) (a : Acc) : Except Stop Acc :=
  match setJmp a.st (phaseFn cfg t .teardown) with
  | .error f => .error f
  | .ok j => noEsc j a.evs

/-- `Utest::run`, build without exceptions:
    `if (SetJmp(setup)) SetJmp(body); SetJmp(teardown);` -/
def utestRunNoExc (cfg : Cfg) (t : Test) (st : TSt) : Except Stop Acc :=
  match setJmp st (phaseFn cfg t .setup) with
  | .error f => .error f
  | .ok j1 =>
    match bodyNoExc cfg t j1 with
    | .error f => .error f
    | .ok a => teardownNoExc cfg t a

def utestRun (cfg : Cfg) (t : Test) (st : TSt) : Except Stop Acc :=
  if cfg.exceptions then utestRunExc cfg t st else utestRunNoExc cfg t st

/-! ## plugins -/

def PErr.applies (e : PErr) (t : Test) : Bool :=
  match e.only with
  | none => true
  | some n => n == t.name

/-- the recording plugin's action: one `result.addFailure(TestFailure(&test, file, line, msg))`
    per applicable error (does not touch the shell's hasFailed_) -/
def reportErrs (cfg : Cfg) (t : Test) : List PErr → TSt → Acc
  | [], st => ⟨st, []⟩
  | e :: rest, st =>
    if e.applies t then
      let r := reportErrs cfg t rest { st with res := st.res.countFailure }
      ⟨r.st, .failure (mkRec cfg t e.loc e.msg) :: r.evs⟩
    else reportErrs cfg t rest st

/-- `TestPlugin::runAllPreTestAction`: this plugin (if enabled), then the rest of the chain -/
def runAllPre (cfg : Cfg) (t : Test) : List Plugin → TSt → Acc
  | [], st => ⟨st, []⟩
  | p :: rest, st =>
    if p.enabled then
      let a := reportErrs cfg t p.pre st
      let b := runAllPre cfg t rest a.st
      ⟨b.st, .plug p.name false st.depth :: a.evs ++ b.evs⟩
    else runAllPre cfg t rest st

/-- `TestPlugin::runAllPostTestAction`: the rest of the chain first, then this plugin -/
def runAllPost (cfg : Cfg) (t : Test) : List Plugin → TSt → Acc
  | [], st => ⟨st, []⟩
  | p :: rest, st =>
    if p.enabled then
      let a := runAllPost cfg t rest st
      let b := reportErrs cfg t p.post a.st
      ⟨b.st, a.evs ++ .plug p.name true a.st.depth :: b.evs⟩
    else runAllPost cfg t rest st

/-! ## UtestShell::runOneTest -/

/-- after `testToRun->run()` returned: "after runTest", restore the saved context, destroyTest,
    post actions -/
def afterRun (cfg : Cfg) (plugins : List Plugin) (t : Test) (saved : Option String)
    (evsPre : List Ev) (a : Acc) : Frame :=
  let p := runAllPost cfg t plugins { a.st with current := saved }
  ⟨p.st,
   evsPre ++ a.evs ++ vv cfg "\n------ after runTest: " ++ vv cfg "\n---- before destroyTest: " ++
     vv cfg "\n---- after destroyTest: " ++ vv cfg "\n-- before runAllPostTestAction: " ++ p.evs ++
     vv cfg "\n-- after runAllPostTestAction: ",
   .normal⟩

/-- what `runOneTestInCurrentProcess` prints before `testToRun->run()` -/
def beforeRun (cfg : Cfg) (preEvs : List Ev) : List Ev :=
  vv cfg "\n-- before runAllPreTestAction: " ++ preEvs ++ vv cfg "\n-- after runAllPreTestAction: " ++
  vv cfg "\n---- before createTest: " ++ vv cfg "\n---- after createTest: " ++ vv cfg "\n------ before runTest: "

/-- `UtestShell::runOneTestInCurrentProcess` (called through helperDoRunOneTestInCurrentProcess).
    An exception that leaves `Utest::run` (rethrow mode) passes `catch(...) { destroyTest; throw; }`:
    the saved context is not restored and the post actions do not run. -/
def runOneTestInCurrentProcess (cfg : Cfg) (plugins : List Plugin) (t : Test) (st : TSt) :
    Except Stop Frame :=
  let pre := runAllPre cfg t plugins st
  match utestRun cfg t { pre.st with current := some t.name } with
  | .error f => .error (f.prepend (beforeRun cfg pre.evs))
  | .ok a => .ok (afterRun cfg plugins t pre.st.current (beforeRun cfg pre.evs) a)

/-- `UtestShell::runOneTest`: hasFailed_ = false; result.countRun(); SetJmp(helperDoRunOneTest…) -/
def runOneTest (cfg : Cfg) (plugins : List Plugin) (t : Test) (st : TSt) : Except Stop JmpOut :=
  setJmp { st with hasFailed := false, res := st.res.countRun } (runOneTestInCurrentProcess cfg plugins t)

/-! ## `-p`: the test in a forked child -/

def separateProcessMsg : String := "Failed in separate process"

/-- `GccPlatformSpecificRunTestInASeperateProcess` (called through helperDoRunOneTestSeperateProcess):
    the child runs `runOneTestInCurrentProcess` on its copy of everything and ends with
    `_exit(initialFailureCount < result->getFailureCount())`; everything it prints is seen, everything
    it counts is lost.  The parent waits and, for a non-zero exit status, reports ONE failure through
    `result->addFailure` (the shell's hasFailed_ stays false).  Signals / stopped children are C11's.
    An exception that leaves the child (rethrow mode) is outside this model. -/
def separateFn (cfg : Cfg) (plugins : List Plugin) (t : Test) (st : TSt) : Except Stop Frame :=
  match runOneTestInCurrentProcess cfg plugins t st with
  | .error f => .error f
  | .ok child =>
    if st.res.failureCount < child.st.res.failureCount then
      .ok ⟨{ st with res := st.res.countFailure },
           child.evs ++ [.sepFailure (mkRecAtTest cfg t separateProcessMsg)], .normal⟩
    else .ok ⟨st, child.evs, .normal⟩

/-- `UtestShell::runOneTest` when `isRunInSeperateProcess()` -/
def runOneTestSeparate (cfg : Cfg) (plugins : List Plugin) (t : Test) (st : TSt) : Except Stop JmpOut :=
  setJmp { st with hasFailed := false, res := st.res.countRun } (separateFn cfg plugins t)

/-- `test->runOneTest(plugin, result)` in the mode the command line selected -/
def runOneTestMode (cfg : Cfg) (plugins : List Plugin) (t : Test) (st : TSt) : Except Stop JmpOut :=
  if cfg.separate then runOneTestSeparate cfg plugins t st else runOneTest cfg plugins t st

/-! ## TestRegistry::runAllTests -/

/-- `TestFilter::match`, strict matching -/
def Filter.matches (f : Filter) (s : String) : Bool :=
  if f.invert then !(s == f.text) else s == f.text

/-- `UtestShell::match`: no filter = everything; otherwise any filter matches -/
def matchAny (s : String) (fs : List Filter) : Bool :=
  fs.isEmpty || fs.any (fun f => f.matches s)

def shouldRun (cfg : Cfg) (t : Test) : Bool :=
  matchAny t.group cfg.groupFilters && matchAny t.name cfg.nameFilters

/-- console output state: `dotCount_`, `progressIndication_` -/
structure OutSt where
  dotCount  : Nat := 0
  indicator : String := "."
deriving Repr, DecidableEq, Inhabited

/-- does the shell run its test (`willRun`)? an ignored one only with `-ri` -/
def willRun (cfg : Cfg) (t : Test) : Bool := !t.ignored || cfg.runIgnored

/-- `verbose_ > level_quiet` -/
def Cfg.anyVerbose (cfg : Cfg) : Bool := cfg.verbose || cfg.veryVerbose

/-- `TestOutput::printCurrentTestStarted` -/
def testStartedToks (cfg : Cfg) (t : Test) : List Ev :=
  if cfg.anyVerbose then [.tok (formattedName cfg t)] else []

/-- `TestOutput::printCurrentTestEnded`; `time` = getCurrentTestTotalExecutionTime() -/
def testEndedToks (cfg : Cfg) (ind : String) (dots : Nat) (time : Nat) : List Ev :=
  if cfg.anyVerbose then [.tok " - ", .tok (toString time), .tok " ms\n"]
  else if (dots + 1) % 50 = 0 then [.tok ind, .tok "\n"] else [.tok ind]

def dotsAfter (cfg : Cfg) (dots : Nat) : Nat := if cfg.anyVerbose then dots else dots + 1

/-- the `i`-th reading of the clock seam (environment input) -/
def readClock (cfg : Cfg) (i : Nat) : Nat := cfg.clock.getD i 0

/-- `(size_t) now - then`: unsigned 64-bit subtraction -/
def elapsed (now before : Nat) : Nat := (now % 18446744073709551616 + 18446744073709551616 - before % 18446744073709551616) % 18446744073709551616

/-- state of the loop over the registry -/
structure LSt where
  res        : Result
  depth      : Int
  current    : Option String
  out        : OutSt
  tick       : Nat                 -- clock readings consumed so far
  groupStart : Bool                -- the loop variable of the same name
deriving Repr, DecidableEq, Inhabited

structure LAcc where
  st  : LSt
  evs : List Ev
deriving Repr, DecidableEq, Inhabited

/-- `currentTestStarted` (print, then read the clock), `test->runOneTest(plugin, result)` for a shell
    that runs (`UtestShell::runOneTest`) or an ignored one (`result.countIgnored()`), then
    `currentTestEnded` (read the clock, then print) -/
def runSelected (cfg : Cfg) (plugins : List Plugin) (t : Test) (s : LSt) : Except Stop LAcc :=
  if willRun cfg t then
    match runOneTestMode cfg plugins t ⟨s.res, false, s.depth, s.current⟩ with
    | .error f => .error (f.prepend (testStartedToks cfg t ++ [.clock (readClock cfg s.tick)]))
    | .ok j =>
      match j.esc with
      | some _ => .error (.fault .uncaught)
      | none =>
        .ok ⟨⟨j.st.res, j.st.depth, j.st.current, ⟨dotsAfter cfg s.out.dotCount, "."⟩, s.tick + 2, s.groupStart⟩,
             testStartedToks cfg t ++ [.clock (readClock cfg s.tick)] ++ j.evs ++
               [.clock (readClock cfg (s.tick + 1)), .ended j.st.depth j.st.current j.st.hasFailed]
               ++ testEndedToks cfg "." s.out.dotCount (elapsed (readClock cfg (s.tick + 1)) (readClock cfg s.tick))⟩
  else
    .ok ⟨⟨s.res.countIgnored, s.depth, s.current, ⟨dotsAfter cfg s.out.dotCount, "!"⟩, s.tick + 2, s.groupStart⟩,
         testStartedToks cfg t ++ [.clock (readClock cfg s.tick), .clock (readClock cfg (s.tick + 1)),
           .ended s.depth s.current false]
           ++ testEndedToks cfg "!" s.out.dotCount (elapsed (readClock cfg (s.tick + 1)) (readClock cfg s.tick))⟩

/-- `if (groupStart) { result.currentGroupStarted(test); groupStart = false; }` (reads the clock,
    prints nothing on the console) -/
def groupStarted (cfg : Cfg) (s : LSt) : LAcc :=
  if s.groupStart then ⟨{ s with tick := s.tick + 1, groupStart := false }, [.clock (readClock cfg s.tick)]⟩
  else ⟨s, []⟩

/-- `if (endOfGroup(test)) { groupStart = true; result.currentGroupEnded(test); }` -/
def groupEnded (cfg : Cfg) (last : Bool) (s : LSt) : LAcc :=
  if last then ⟨{ s with tick := s.tick + 1, groupStart := true }, [.clock (readClock cfg s.tick)]⟩
  else ⟨s, []⟩

/-- `TestRegistry::endOfGroup`: no next test, or the next one has another group -/
def endOfGroup (t : Test) : List Test → Bool
  | [] => true
  | n :: _ => t.group != n.group

/-- the middle of one iteration: countTest, then the test if the filters select it -/
def runFiltered (cfg : Cfg) (plugins : List Plugin) (t : Test) (s : LSt) : Except Stop LAcc :=
  if shouldRun cfg t then runSelected cfg plugins t { s with res := s.res.countTest }
  else .ok ⟨{ s with res := s.res.countTest.countFilteredOut }, []⟩

/-- one iteration of the loop in `TestRegistry::runAllTests`; `last` = endOfGroup(test) -/
def runEntry (cfg : Cfg) (plugins : List Plugin) (t : Test) (last : Bool) (s : LSt) : Except Stop LAcc :=
  match runFiltered cfg plugins t (groupStarted cfg s).st with
  | .error f => .error (f.prepend (groupStarted cfg s).evs)
  | .ok a => .ok ⟨(groupEnded cfg last a.st).st, (groupStarted cfg s).evs ++ a.evs ++ (groupEnded cfg last a.st).evs⟩

def runTests (cfg : Cfg) (plugins : List Plugin) : List Test → LSt → Except Stop LAcc
  | [], s => .ok ⟨s, []⟩
  | t :: rest, s =>
    match runEntry cfg plugins t (endOfGroup t rest) s with
    | .error f => .error f
    | .ok a =>
      match runTests cfg plugins rest a.st with
      | .error f => .error (f.prepend a.evs)
      | .ok b => .ok ⟨b.st, a.evs ++ b.evs⟩

/-- `TestRegistry::runAllTests(result)`: testsStarted (reads the clock); the loop; testsEnded (reads
    the clock, prints the summary with the elapsed time and resets dotCount_) -/
def registryRunAll (cfg : Cfg) (plugins : List Plugin) (tests : List Test) (s : LSt) : Except Stop LAcc :=
  match runTests cfg plugins tests { s with tick := s.tick + 1, groupStart := true } with
  | .error f => .error (f.prepend [.clock (readClock cfg s.tick)])
  | .ok a =>
    .ok ⟨{ a.st with out := { a.st.out with dotCount := 0 }, tick := a.st.tick + 1 },
         .clock (readClock cfg s.tick) :: a.evs ++
           [.clock (readClock cfg a.st.tick),
            .summary a.st.res (elapsed (readClock cfg a.st.tick) (readClock cfg s.tick))]⟩

/-! ## CommandLineTestRunner::runAllTests -/

/-- `TestOutput::printTestRun` -/
def testRunToks (number total : Nat) : List Ev :=
  if total > 1 then [.tok "Test run ", .tok (toString number), .tok " of ", .tok (toString total), .tok "\n"] else []

/-- what survives a repetition outside the `TestResult tr` local -/
structure RSt where
  depth   : Int
  current : Option String
  out     : OutSt
  tick    : Nat
  failedTestCount      : Nat
  failedExecutionCount : Nat
deriving Repr, DecidableEq, Inhabited

structure RAcc where
  st   : RSt
  evs  : List Ev
  reps : List Result             -- the `tr` of every repetition, in order
deriving Repr, DecidableEq, Inhabited

/-- body of `while (loopCount++ < repeatCount)` -/
def repetition (cfg : Cfg) (plugins : List Plugin) (tests : List Test) (number total : Nat) (s : RSt) :
    Except Stop RAcc :=
  match registryRunAll cfg plugins tests ⟨{}, s.depth, s.current, s.out, s.tick, true⟩ with
  | .error f => .error (f.prepend (testRunToks number total))
  | .ok a =>
    .ok ⟨⟨a.st.depth, a.st.current, a.st.out, a.st.tick,
          s.failedTestCount + a.st.res.failureCount,
          if a.st.res.isFailure then s.failedExecutionCount + 1 else s.failedExecutionCount⟩,
         testRunToks number total ++ a.evs, [a.st.res]⟩

/-- the loop, `k` repetitions left, the next one is number `number` -/
def repeatLoop (cfg : Cfg) (plugins : List Plugin) (tests : List Test) (total : Nat) :
    Nat → Nat → RSt → Except Stop RAcc
  | 0, _, s => .ok ⟨s, [], []⟩
  | k + 1, number, s =>
    match repetition cfg plugins tests number total s with
    | .error f => .error f
    | .ok a =>
      match repeatLoop cfg plugins tests total k (number + 1) a.st with
      | .error f => .error (f.prepend a.evs)
      | .ok b => .ok ⟨b.st, a.evs ++ b.evs, a.reps ++ b.reps⟩

/-- `return (int)(failedTestCount != 0 ? failedTestCount : failedExecutionCount)` (regenerated) -/
def runnerReturn (s : RSt) : Int :=
  Gen.Runner.returnValue s.failedTestCount s.failedExecutionCount

structure RunOut where
  evs   : List Ev
  reps  : List Result
  ret   : Int
  depth : Int
  current : Option String
deriving Repr, DecidableEq, Inhabited

/-- `CommandLineTestRunner::runAllTests` for a parsed command line with repeat count `repeatCount`,
    started with `jmp_buf_index = d` -/
def runAllTests (cfg : Cfg) (plugins : List Plugin) (tests : List Test) (repeatCount : Nat) (d : Int) :
    Except Stop RunOut :=
  match repeatLoop cfg plugins tests repeatCount repeatCount 1 ⟨d, none, {}, 0, 0, 0⟩ with
  | .error f => .error f
  | .ok a => .ok ⟨a.evs ++ [.ret (runnerReturn a.st)], a.reps, runnerReturn a.st, a.st.depth, a.st.current⟩

/-! ## several runner invocations in one process

What a `CommandLineTestRunner` leaves behind in the process when it returns: the static
`UtestShell::rethrowExceptions_` (written by `initializeTestRun`) and `jmp_buf_index`. A process may
start any number of runners one after the other (one `RunAllTests` call per group is common on
targets without a real argv), each with its own command line. -/

structure Process where
  rethrowExceptions : Bool := false     -- `bool UtestShell::rethrowExceptions_ = false;`
  depth : Int := 0                      -- jmp_buf_index
deriving Repr, DecidableEq, Inhabited

/-- `CommandLineTestRunner::initializeTestRun`, the part that reaches the tests through a static:
    `UtestShell::setRethrowExceptions(arguments_->isRethrowingExceptions());` — an unconditional assignment
    of the option's value (`optRethrow` = no `-e` on this command line) -/
def initializeTestRun (optRethrow : Bool) (pr : Process) : Process := { pr with rethrowExceptions := optRethrow }

/-- one runner invocation: its parsed command line (`cfg.rethrow` is the OPTION of this command line),
    the registry it runs, its repeat count -/
structure Invocation where
  cfg : Cfg
  plugins : List Plugin
  tests : List Test
  repeatCount : Nat
deriving Repr, Inhabited

/-- what the tests of this invocation see: the static flag, not the option -/
def effectiveCfg (pr : Process) (i : Invocation) : Cfg := { i.cfg with rethrow := pr.rethrowExceptions }

/-- `runAllTestsMain` in a process in state `pr`: `initializeTestRun`, then the run -/
def runnerInvoke (pr : Process) (i : Invocation) : Process × Except Stop RunOut :=
  match runAllTests (effectiveCfg (initializeTestRun i.cfg.rethrow pr) i) i.plugins i.tests i.repeatCount pr.depth with
  | .ok o => ({ initializeTestRun i.cfg.rethrow pr with depth := o.depth }, .ok o)
  | .error e => (initializeTestRun i.cfg.rethrow pr, .error e)

/-- a sequence of invocations in one process; an exception that leaves a runner ends the process -/
def runSequence : Process → List Invocation → List (Except Stop RunOut)
  | _, [] => []
  | pr, i :: rest =>
    match runnerInvoke pr i with
    | (pr1, .ok o) => .ok o :: runSequence pr1 rest
    | (_, .error e) => [.error e]

/-- `CommandLineArguments::setRepeatCount`: no `-r`: 1; `-r` alone or `-r0`: 2; `-rN`: N -/
def repeatCountOf : Option (Option Nat) → Nat
  | none => 1
  | some none => 2
  | some (some n) => if n = 0 then 2 else n

end Runner
