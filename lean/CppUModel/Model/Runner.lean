import CppUModel.Gen.RunnerConstants
/-!
Model of the test runner, written from the C++ line by line:

* `Utest::run`, `UtestShell::runOneTest / runOneTestInCurrentProcess / failWith / addFailure`,
  the terminators                                             (src/CppUTest/Utest.cpp)
* `PlatformSpecificSetJmp / LongJmp / RestoreJumpBuffer`      (src/Platforms/Gcc/UtestPlatform.cpp)
* `TestResult` counters, `isFailure`                          (include/CppUTest/TestResult.h)
* `TestOutput::printFailure / printTestsEnded / printCurrentTest…` (src/CppUTest/TestOutput.cpp)
* `TestPlugin::runAllPreTestAction / runAllPostTestAction`    (src/CppUTest/TestPlugin.cpp)
* `TestRegistry::runAllTests`                                 (src/CppUTest/TestRegistry.cpp)
* `CommandLineTestRunner::runAllTests`                        (src/CppUTest/CommandLineTestRunner.cpp)

A test program is data: every phase (setup, body, teardown) is a list of `Stmt`.
`jmp_buf_index` is an `Int` (it is a C `int`); every use of it as an array index is checked
against the regenerated array length, a miss is the fault `jmpIndex`.  `setjmp/longjmp` and
C++ unwinding are modelled by their contract: a function called through
`PlatformSpecificSetJmp` leaves in one of three ways (`Exit`), and only the normal return and
`PlatformSpecificLongJmp` decrement the index.

Regenerated from the source (`Gen.Runner`): the array length, `TestResult::isFailure`, the
return expression of `CommandLineTestRunner::runAllTests`.
-/
namespace Runner

structure Loc where
  file : String
  line : Nat
deriving Repr, DecidableEq, Inhabited

/-- one statement of a test phase -/
inductive Stmt
  | mark (n : Nat)                        -- an observable side effect of the test program
  | checkPass                             -- `CHECK(true)` / `CHECK_C(1)`: a check that holds
  | failCpp (loc : Loc) (msg : String)    -- `FAIL` / `CHECK(false)`: check fails, default terminator
  | failC (loc : Loc) (msg : String)      -- `FAIL_TEXT_C` / `CHECK_C(0)`: terminator without exceptions
  | throwStd                              -- `throw std::runtime_error(..)`
  | throwOther                            -- `throw 42`
  | exitTest                              -- `TEST_EXIT`
deriving Repr, DecidableEq, Inhabited

inductive Phase
  | setup | body | teardown
deriving Repr, DecidableEq, Inhabited

structure Test where
  group    : String
  name     : String
  file     : String
  line     : Nat
  ignored  : Bool                 -- an `IgnoredUtestShell`
  setup    : List Stmt
  body     : List Stmt
  teardown : List Stmt
deriving Repr, DecidableEq, Inhabited

/-- an error a plugin reports through `result.addFailure` in its pre or post action;
    `only = some n`: reported for tests named `n` only -/
structure PErr where
  only : Option String
  loc  : Loc
  msg  : String
deriving Repr, DecidableEq, Inhabited

structure Plugin where
  name    : String
  enabled : Bool
  pre     : List PErr
  post    : List PErr
deriving Repr, DecidableEq, Inhabited

/-- a strict (`-sg`, `-sn`) or strict excluding (`-xsg`, `-xsn`) filter -/
structure Filter where
  text   : String
  invert : Bool
deriving Repr, DecidableEq, Inhabited

structure Cfg where
  exceptions   : Bool             -- CPPUTEST_HAVE_EXCEPTIONS (build variant)
  rethrow      : Bool             -- UtestShell::rethrowExceptions_ (off with `-e`)
  verbose      : Bool             -- `-v`
  runIgnored   : Bool             -- `-ri`
  groupFilters : List Filter
  nameFilters  : List Filter
  stdExcMsg    : String           -- text of UnexpectedExceptionFailure(test, e)
  otherExcMsg  : String           -- text of UnexpectedExceptionFailure(test)
deriving Repr, DecidableEq, Inhabited

/-! ## TestResult -/

structure Result where
  testCount        : Nat := 0
  runCount         : Nat := 0
  checkCount       : Nat := 0
  failureCount     : Nat := 0
  filteredOutCount : Nat := 0
  ignoredCount     : Nat := 0
deriving Repr, DecidableEq, Inhabited

def Result.countTest (r : Result) : Result := { r with testCount := r.testCount + 1 }
def Result.countRun (r : Result) : Result := { r with runCount := r.runCount + 1 }
def Result.countCheck (r : Result) : Result := { r with checkCount := r.checkCount + 1 }
def Result.countFilteredOut (r : Result) : Result := { r with filteredOutCount := r.filteredOutCount + 1 }
def Result.countIgnored (r : Result) : Result := { r with ignoredCount := r.ignoredCount + 1 }
/-- the counter part of `TestResult::addFailure` (the print is the event `Ev.failure`) -/
def Result.countFailure (r : Result) : Result := { r with failureCount := r.failureCount + 1 }

/-- `TestResult::isFailure` (regenerated expression) -/
def Result.isFailure (r : Result) : Bool :=
  Gen.Runner.isFailure r.failureCount r.runCount r.ignoredCount

/-! ## what is printed / observed -/

/-- a `TestFailure` as `TestOutput::printFailure` sees it -/
structure FailRec where
  testName : String        -- getFormattedName()
  testFile : String
  testLine : Nat
  file     : String
  line     : Nat
  msg      : String
deriving Repr, DecidableEq, Inhabited

inductive Ev
  | tok (s : String)                                   -- one `TestOutput::print` call
  | enter (ph : Phase) (depth : Int)                   -- the test's setup()/testBody()/teardown() was called
  | mark (ph : Phase) (n : Nat) (depth : Int)          -- statement `mark n` executed
  | plug (name : String) (post : Bool) (depth : Int)   -- a plugin's pre/post action ran
  | failure (r : FailRec)                              -- TestOutput::printFailure(r)
  | ended (depth : Int) (current : Option String) (failed : Bool)
      -- after runOneTest returned: jmp_buf_index, UtestShell::currentTest_, the shell's hasFailed_
  | summary (r : Result)                               -- TestOutput::printTestsEnded(r)
  | ret (v : Int)                                      -- value returned by runAllTests
deriving Repr, DecidableEq, Inhabited

/-- `printEclipseErrorInFileOnLine` -/
def locToks (file : String) (line : Nat) : List String :=
  ["\n", file, ":", toString line, ":", " error:"]

/-- `isOutsideTestFile() || isInHelperFunction()` -/
def FailRec.twoLocations (r : FailRec) : Bool :=
  (r.testFile != r.file) || decide (r.line < r.testLine)

/-- `TestOutput::printFailure` as the list of strings given to `print` -/
def failureToks (r : FailRec) : List String :=
  (if r.twoLocations then
    locToks r.testFile r.testLine ++ [" Failure in ", r.testName] ++ locToks r.file r.line
   else
    locToks r.file r.line ++ [" Failure in ", r.testName])
  ++ ["\n", "\t", r.msg, "\n\n"]

def noteText : String :=
  "\nNote: test run failed because no tests were run or ignored. Assuming something went wrong. This often happens because of linking errors or typos in test filter."

/-- the head of the summary line -/
def summaryHead (r : Result) : List String :=
  if r.isFailure then
    (if r.failureCount > 0 then ["Errors (", toString r.failureCount, " failures, "]
     else ["Errors (", "ran nothing, "])
  else ["OK ("]

/-- `TestOutput::printTestsEnded` (no colour; the clock seam is pinned, so the time prints as 0) -/
def summaryToks (r : Result) : List String :=
  ["\n"] ++ summaryHead r ++
  [toString r.testCount, " tests, ", toString r.runCount, " ran, ", toString r.checkCount, " checks, ",
   toString r.ignoredCount, " ignored, ", toString r.filteredOutCount, " filtered out, ", "0", " ms)"] ++
  (if r.isFailure && r.failureCount == 0 then [noteText] else []) ++ ["\n\n"]

/-! ## statements of one phase -/

inductive ExcKind
  | failed      -- CppUTestFailedException
  | std         -- derived from std::exception
  | other       -- anything else
deriving Repr, DecidableEq, Inhabited

/-- how control leaves a function that was called through PlatformSpecificSetJmp -/
inductive Exit
  | normal
  | longjmp                 -- PlatformSpecificLongJmp()
  | exc (k : ExcKind)       -- a C++ exception propagates
deriving Repr, DecidableEq, Inhabited

def formattedName (cfg : Cfg) (t : Test) : String :=
  (if t.ignored && !cfg.runIgnored then "IGNORE_TEST" else "TEST") ++ "(" ++ t.group ++ ", " ++ t.name ++ ")"

/-- `TestFailure(test, fileName, lineNumber, message)` -/
def mkRec (cfg : Cfg) (t : Test) (loc : Loc) (msg : String) : FailRec :=
  { testName := formattedName cfg t, testFile := t.file, testLine := t.line,
    file := loc.file, line := loc.line, msg := msg }

/-- `TestFailure(test, message)`: the failure is located at the test itself -/
def mkRecAtTest (cfg : Cfg) (t : Test) (msg : String) : FailRec :=
  mkRec cfg t ⟨t.file, t.line⟩ msg

structure PhaseOut where
  res       : Result
  hasFailed : Bool
  evs       : List Ev
  exit      : Exit
deriving Repr, DecidableEq, Inhabited

def PhaseOut.cons (e : Ev) (o : PhaseOut) : PhaseOut := { o with evs := e :: o.evs }

/-- `NormalTestTerminator::exitCurrentTest`: throw, or longjmp in a build without exceptions -/
def normalTerminator (cfg : Cfg) : Exit :=
  if cfg.exceptions then .exc .failed else .longjmp

/-- The statements of a phase, executed at `jmp_buf_index = d`.
    `fail`: countCheck; failWith = addFailure (hasFailed_, print, failureCount_++) then terminator.
    A `throw` statement does not exist in a build without exception support (the harness drops
    it there); the model skips it. -/
def runStmts (cfg : Cfg) (t : Test) (ph : Phase) (d : Int) : Result → Bool → List Stmt → PhaseOut
  | res, hf, [] => ⟨res, hf, [], .normal⟩
  | res, hf, .mark n :: rest => (runStmts cfg t ph d res hf rest).cons (.mark ph n d)
  | res, hf, .checkPass :: rest => runStmts cfg t ph d res.countCheck hf rest
  | res, _, .failCpp loc msg :: _ =>
    ⟨res.countCheck.countFailure, true, [.failure (mkRec cfg t loc msg)], normalTerminator cfg⟩
  | res, _, .failC loc msg :: _ =>
    ⟨res.countCheck.countFailure, true, [.failure (mkRec cfg t loc msg)], .longjmp⟩
  | res, hf, .throwStd :: rest =>
    if cfg.exceptions then ⟨res, hf, [], .exc .std⟩ else runStmts cfg t ph d res hf rest
  | res, hf, .throwOther :: rest =>
    if cfg.exceptions then ⟨res, hf, [], .exc .other⟩ else runStmts cfg t ph d res hf rest
  | res, hf, .exitTest :: _ => ⟨res, hf, [], normalTerminator cfg⟩

/-! ## the setjmp stack -/

inductive Fault
  | jmpIndex (i : Int)      -- test_exit_jmp_buf[i] with i outside the array
  | wrongFrame              -- longjmp to a buffer that is not the innermost active frame's
  | rethrown                -- rethrow mode: the exception leaves Utest::run (ends the process by design)
  | uncaught                -- exception in a build without exception support
deriving Repr, DecidableEq, Inhabited

/-- state threaded through one test -/
structure TSt where
  res       : Result
  hasFailed : Bool               -- UtestShell::hasFailed_ of the running shell
  depth     : Int                -- jmp_buf_index
  current   : Option String      -- UtestShell::currentTest_ (name of the shell; none = outside a run)
deriving Repr, DecidableEq, Inhabited

/-- what `function(data)` did: the state when control left it, what it printed, how it left -/
structure Frame where
  st   : TSt
  evs  : List Ev
  exit : Exit
deriving Repr, DecidableEq, Inhabited

/-- result of one `PlatformSpecificSetJmp(function, data)` call -/
structure JmpOut where
  st  : TSt
  evs : List Ev
  ret : Bool                     -- 1: function returned; 0: came back through longjmp
  esc : Option ExcKind           -- an exception passes through the call (no decrement happened)
deriving Repr, DecidableEq, Inhabited

def inBuf (i : Int) : Bool := decide (0 ≤ i) && decide (i < Int.ofNat Gen.Runner.jmpBufLen)

def TSt.dec (s : TSt) : TSt := { s with depth := s.depth - 1 }

/-- the part of PlatformSpecificSetJmpImplementation after `function(data)` was entered.
    `d` is the index the buffer was saved at. -/
def setJmpAfter (d : Int) (fr : Frame) : Except Fault JmpOut :=
  match fr.exit with
  | .normal => .ok ⟨fr.st.dec, fr.evs, true, none⟩                      -- jmp_buf_index--; return 1
  | .longjmp =>                                                          -- LongJmp: jmp_buf_index--; longjmp(buf[index])
    if !inBuf (fr.st.depth - 1) then .error (.jmpIndex (fr.st.depth - 1))
    else if fr.st.depth - 1 = d then .ok ⟨fr.st.dec, fr.evs, false, none⟩   -- lands in this setjmp: return 0
    else .error .wrongFrame
  | .exc k => .ok ⟨fr.st, fr.evs, false, some k⟩                        -- unwinds through; nobody decrements

/-- `PlatformSpecificSetJmpImplementation(function, data)`:
    `if (0 == setjmp(buf[index])) { index++; function(data); index--; return 1; } return 0;` -/
def setJmp (st : TSt) (fn : TSt → Except Fault Frame) : Except Fault JmpOut :=
  if !inBuf st.depth then .error (.jmpIndex st.depth)
  else
    match fn { st with depth := st.depth + 1 } with
    | .error f => .error f
    | .ok fr => setJmpAfter st.depth fr

/-- `PlatformSpecificRestoreJumpBuffer` -/
def restoreJumpBuffer (st : TSt) : TSt := st.dec

/-! ## Utest::run -/

def stmtsOf (t : Test) : Phase → List Stmt
  | .setup => t.setup
  | .body => t.body
  | .teardown => t.teardown

/-- helperDoTestSetup / Body / Teardown: the user's code of one phase -/
def phaseFn (cfg : Cfg) (t : Test) (ph : Phase) (st : TSt) : Except Fault Frame :=
  let o := runStmts cfg t ph st.depth st.res st.hasFailed (stmtsOf t ph)
  .ok ⟨{ st with res := o.res, hasFailed := o.hasFailed }, .enter ph st.depth :: o.evs, o.exit⟩

/-- `current->addFailure(f)`: hasFailed_ = true; result->addFailure(f) -/
def shellAddFailure (st : TSt) : TSt :=
  { st with hasFailed := true, res := st.res.countFailure }

/-- state and events so far -/
structure Acc where
  st  : TSt
  evs : List Ev
deriving Repr, DecidableEq, Inhabited

/-- the three `catch` clauses that follow both `try` blocks of `Utest::run` -/
def catchClauses (cfg : Cfg) (t : Test) (st : TSt) (evs : List Ev) : ExcKind → Except Fault Acc
  | .failed => .ok ⟨restoreJumpBuffer st, evs⟩
  | .std =>
    if cfg.rethrow then .error .rethrown
    else .ok ⟨restoreJumpBuffer (shellAddFailure st), evs ++ [.failure (mkRecAtTest cfg t cfg.stdExcMsg)]⟩
  | .other =>
    if cfg.rethrow then .error .rethrown
    else .ok ⟨restoreJumpBuffer (shellAddFailure st), evs ++ [.failure (mkRecAtTest cfg t cfg.otherExcMsg)]⟩

/-- what follows a SetJmp call inside a `try`: an escaping exception goes to the catch clauses -/
def afterTry (cfg : Cfg) (t : Test) (j : JmpOut) (evsBefore : List Ev) : Except Fault Acc :=
  match j.esc with
  | some k => catchClauses cfg t j.st (evsBefore ++ j.evs) k
  | none => .ok ⟨j.st, evsBefore ++ j.evs⟩

/-- `if (jumpResult) PlatformSpecificSetJmp(helperDoTestBody, this);` inside the first try block -/
def bodyIfSetupReturned (cfg : Cfg) (t : Test) (j1 : JmpOut) : Except Fault Acc :=
  match j1.esc with
  | some k => catchClauses cfg t j1.st j1.evs k
  | none =>
    if j1.ret then
      match setJmp j1.st (phaseFn cfg t .body) with
      | .error f => .error f
      | .ok j2 => afterTry cfg t j2 j1.evs
    else .ok ⟨j1.st, j1.evs⟩

/-- first `try` block with its catch clauses -/
def tryBlock1 (cfg : Cfg) (t : Test) (st : TSt) : Except Fault Acc :=
  match setJmp st (phaseFn cfg t .setup) with
  | .error f => .error f
  | .ok j1 => bodyIfSetupReturned cfg t j1

/-- second `try` block with its catch clauses -/
def tryBlock2 (cfg : Cfg) (t : Test) (a : Acc) : Except Fault Acc :=
  match setJmp a.st (phaseFn cfg t .teardown) with
  | .error f => .error f
  | .ok j => afterTry cfg t j a.evs

/-- `Utest::run`, build with exceptions -/
def utestRunExc (cfg : Cfg) (t : Test) (st : TSt) : Except Fault Acc :=
  match tryBlock1 cfg t st with
  | .error f => .error f
  | .ok a => tryBlock2 cfg t a

/-- an exception where no handler exists -/
def noEsc (j : JmpOut) (evsBefore : List Ev) : Except Fault Acc :=
  match j.esc with
  | some _ => .error .uncaught
  | none => .ok ⟨j.st, evsBefore ++ j.evs⟩

def bodyNoExc (cfg : Cfg) (t : Test) (j1 : JmpOut) : Except Fault Acc :=
  match j1.esc with
  | some _ => .error .uncaught
  | none =>
    if j1.ret then
      match setJmp j1.st (phaseFn cfg t .body) with
      | .error f => .error f
      | .ok j2 => noEsc j2 j1.evs
    else .ok ⟨j1.st, j1.evs⟩

def teardownNoExc (cfg : Cfg) (t : Test) (a : Acc) : Except Fault Acc :=
  match setJmp a.st (phaseFn cfg t .teardown) with
  | .error f => .error f
  | .ok j => noEsc j a.evs

/-- `Utest::run`, build without exceptions:
    `if (SetJmp(setup)) SetJmp(body); SetJmp(teardown);` -/
def utestRunNoExc (cfg : Cfg) (t : Test) (st : TSt) : Except Fault Acc :=
  match setJmp st (phaseFn cfg t .setup) with
  | .error f => .error f
  | .ok j1 =>
    match bodyNoExc cfg t j1 with
    | .error f => .error f
    | .ok a => teardownNoExc cfg t a

def utestRun (cfg : Cfg) (t : Test) (st : TSt) : Except Fault Acc :=
  if cfg.exceptions then utestRunExc cfg t st else utestRunNoExc cfg t st

/-! ## plugins -/

def PErr.applies (e : PErr) (t : Test) : Bool :=
  match e.only with
  | none => true
  | some n => n == t.name

/-- the recording plugin's action: one `result.addFailure(TestFailure(&test, file, line, msg))`
    per applicable error (does not touch the shell's hasFailed_) -/
def reportErrs (cfg : Cfg) (t : Test) : List PErr → TSt → Acc
  | [], st => ⟨st, []⟩
  | e :: rest, st =>
    if e.applies t then
      let r := reportErrs cfg t rest { st with res := st.res.countFailure }
      ⟨r.st, .failure (mkRec cfg t e.loc e.msg) :: r.evs⟩
    else reportErrs cfg t rest st

/-- `TestPlugin::runAllPreTestAction`: this plugin (if enabled), then the rest of the chain -/
def runAllPre (cfg : Cfg) (t : Test) : List Plugin → TSt → Acc
  | [], st => ⟨st, []⟩
  | p :: rest, st =>
    if p.enabled then
      let a := reportErrs cfg t p.pre st
      let b := runAllPre cfg t rest a.st
      ⟨b.st, .plug p.name false st.depth :: a.evs ++ b.evs⟩
    else runAllPre cfg t rest st

/-- `TestPlugin::runAllPostTestAction`: the rest of the chain first, then this plugin -/
def runAllPost (cfg : Cfg) (t : Test) : List Plugin → TSt → Acc
  | [], st => ⟨st, []⟩
  | p :: rest, st =>
    if p.enabled then
      let a := runAllPost cfg t rest st
      let b := reportErrs cfg t p.post a.st
      ⟨b.st, a.evs ++ .plug p.name true a.st.depth :: b.evs⟩
    else runAllPost cfg t rest st

/-! ## UtestShell::runOneTest -/

/-- after `testToRun->run()` returned: restore the saved context, destroyTest, post actions -/
def afterRun (cfg : Cfg) (plugins : List Plugin) (t : Test) (saved : Option String)
    (evsPre : List Ev) (a : Acc) : Frame :=
  let p := runAllPost cfg t plugins { a.st with current := saved }
  ⟨p.st, evsPre ++ a.evs ++ p.evs, .normal⟩

/-- `UtestShell::runOneTestInCurrentProcess` (called through helperDoRunOneTestInCurrentProcess).
    With rethrow off `Utest::run` lets no exception out, so the `catch(...) { destroyTest; throw; }`
    is not entered. -/
def runOneTestInCurrentProcess (cfg : Cfg) (plugins : List Plugin) (t : Test) (st : TSt) :
    Except Fault Frame :=
  let pre := runAllPre cfg t plugins st
  match utestRun cfg t { pre.st with current := some t.name } with
  | .error f => .error f
  | .ok a => .ok (afterRun cfg plugins t pre.st.current pre.evs a)

/-- `UtestShell::runOneTest`: hasFailed_ = false; result.countRun(); SetJmp(helperDoRunOneTest…) -/
def runOneTest (cfg : Cfg) (plugins : List Plugin) (t : Test) (st : TSt) : Except Fault JmpOut :=
  setJmp { st with hasFailed := false, res := st.res.countRun } (runOneTestInCurrentProcess cfg plugins t)

/-! ## TestRegistry::runAllTests -/

/-- `TestFilter::match`, strict matching -/
def Filter.matches (f : Filter) (s : String) : Bool :=
  if f.invert then !(s == f.text) else s == f.text

/-- `UtestShell::match`: no filter = everything; otherwise any filter matches -/
def matchAny (s : String) (fs : List Filter) : Bool :=
  fs.isEmpty || fs.any (fun f => f.matches s)

def shouldRun (cfg : Cfg) (t : Test) : Bool :=
  matchAny t.group cfg.groupFilters && matchAny t.name cfg.nameFilters

/-- console output state: `dotCount_`, `progressIndication_` -/
structure OutSt where
  dotCount  : Nat := 0
  indicator : String := "."
deriving Repr, DecidableEq, Inhabited

/-- does the shell run its test (`willRun`)? an ignored one only with `-ri` -/
def willRun (cfg : Cfg) (t : Test) : Bool := !t.ignored || cfg.runIgnored

/-- `TestOutput::printCurrentTestStarted` -/
def testStartedToks (cfg : Cfg) (t : Test) : List Ev :=
  if cfg.verbose then [.tok (formattedName cfg t)] else []

/-- `TestOutput::printCurrentTestEnded` (time pinned to 0) -/
def testEndedToks (cfg : Cfg) (ind : String) (dots : Nat) : List Ev :=
  if cfg.verbose then [.tok " - ", .tok "0", .tok " ms\n"]
  else if (dots + 1) % 50 = 0 then [.tok ind, .tok "\n"] else [.tok ind]

def dotsAfter (cfg : Cfg) (dots : Nat) : Nat := if cfg.verbose then dots else dots + 1

/-- state of the loop over the registry -/
structure LSt where
  res     : Result
  depth   : Int
  current : Option String
  out     : OutSt
deriving Repr, DecidableEq, Inhabited

structure LAcc where
  st  : LSt
  evs : List Ev
deriving Repr, DecidableEq, Inhabited

/-- `test->runOneTest(plugin, result)` for a shell that runs (`UtestShell::runOneTest`) or an
    ignored one (`result.countIgnored()`), then `currentTestEnded` -/
def runSelected (cfg : Cfg) (plugins : List Plugin) (t : Test) (s : LSt) : Except Fault LAcc :=
  if willRun cfg t then
    match runOneTest cfg plugins t ⟨s.res, false, s.depth, s.current⟩ with
    | .error f => .error f
    | .ok j =>
      match j.esc with
      | some _ => .error .rethrown
      | none =>
        .ok ⟨⟨j.st.res, j.st.depth, j.st.current, ⟨dotsAfter cfg s.out.dotCount, "."⟩⟩,
             testStartedToks cfg t ++ j.evs ++ [.ended j.st.depth j.st.current j.st.hasFailed]
               ++ testEndedToks cfg "." s.out.dotCount⟩
  else
    .ok ⟨⟨s.res.countIgnored, s.depth, s.current, ⟨dotsAfter cfg s.out.dotCount, "!"⟩⟩,
         testStartedToks cfg t ++ [.ended s.depth s.current false] ++ testEndedToks cfg "!" s.out.dotCount⟩

/-- one iteration of the loop in `TestRegistry::runAllTests` (group start/end print nothing on
    the console) -/
def runEntry (cfg : Cfg) (plugins : List Plugin) (t : Test) (s : LSt) : Except Fault LAcc :=
  if shouldRun cfg t then runSelected cfg plugins t { s with res := s.res.countTest }
  else .ok ⟨{ s with res := s.res.countTest.countFilteredOut }, []⟩

def runTests (cfg : Cfg) (plugins : List Plugin) : List Test → LSt → Except Fault LAcc
  | [], s => .ok ⟨s, []⟩
  | t :: rest, s =>
    match runEntry cfg plugins t s with
    | .error f => .error f
    | .ok a =>
      match runTests cfg plugins rest a.st with
      | .error f => .error f
      | .ok b => .ok ⟨b.st, a.evs ++ b.evs⟩

/-- `TestRegistry::runAllTests(result)`: testsStarted; the loop; testsEnded (prints the summary and
    resets dotCount_) -/
def registryRunAll (cfg : Cfg) (plugins : List Plugin) (tests : List Test) (s : LSt) : Except Fault LAcc :=
  match runTests cfg plugins tests s with
  | .error f => .error f
  | .ok a => .ok ⟨{ a.st with out := { a.st.out with dotCount := 0 } }, a.evs ++ [.summary a.st.res]⟩

/-! ## CommandLineTestRunner::runAllTests -/

/-- `TestOutput::printTestRun` -/
def testRunToks (number total : Nat) : List Ev :=
  if total > 1 then [.tok "Test run ", .tok (toString number), .tok " of ", .tok (toString total), .tok "\n"] else []

/-- what survives a repetition outside the `TestResult tr` local -/
structure RSt where
  depth   : Int
  current : Option String
  out     : OutSt
  failedTestCount      : Nat
  failedExecutionCount : Nat
deriving Repr, DecidableEq, Inhabited

structure RAcc where
  st   : RSt
  evs  : List Ev
  reps : List Result             -- the `tr` of every repetition, in order
deriving Repr, DecidableEq, Inhabited

/-- body of `while (loopCount++ < repeatCount)` -/
def repetition (cfg : Cfg) (plugins : List Plugin) (tests : List Test) (number total : Nat) (s : RSt) :
    Except Fault RAcc :=
  match registryRunAll cfg plugins tests ⟨{}, s.depth, s.current, s.out⟩ with
  | .error f => .error f
  | .ok a =>
    .ok ⟨⟨a.st.depth, a.st.current, a.st.out,
          s.failedTestCount + a.st.res.failureCount,
          if a.st.res.isFailure then s.failedExecutionCount + 1 else s.failedExecutionCount⟩,
         testRunToks number total ++ a.evs, [a.st.res]⟩

/-- the loop, `k` repetitions left, the next one is number `number` -/
def repeatLoop (cfg : Cfg) (plugins : List Plugin) (tests : List Test) (total : Nat) :
    Nat → Nat → RSt → Except Fault RAcc
  | 0, _, s => .ok ⟨s, [], []⟩
  | k + 1, number, s =>
    match repetition cfg plugins tests number total s with
    | .error f => .error f
    | .ok a =>
      match repeatLoop cfg plugins tests total k (number + 1) a.st with
      | .error f => .error f
      | .ok b => .ok ⟨b.st, a.evs ++ b.evs, a.reps ++ b.reps⟩

/-- `return (int)(failedTestCount != 0 ? failedTestCount : failedExecutionCount)` (regenerated) -/
def runnerReturn (s : RSt) : Int :=
  Gen.Runner.returnValue s.failedTestCount s.failedExecutionCount

structure RunOut where
  evs   : List Ev
  reps  : List Result
  ret   : Int
  depth : Int
  current : Option String
deriving Repr, DecidableEq, Inhabited

/-- `CommandLineTestRunner::runAllTests` for a parsed command line with repeat count `repeatCount`,
    started with `jmp_buf_index = d` -/
def runAllTests (cfg : Cfg) (plugins : List Plugin) (tests : List Test) (repeatCount : Nat) (d : Int) :
    Except Fault RunOut :=
  match repeatLoop cfg plugins tests repeatCount repeatCount 1 ⟨d, none, {}, 0, 0⟩ with
  | .error f => .error f
  | .ok a => .ok ⟨a.evs ++ [.ret (runnerReturn a.st)], a.reps, runnerReturn a.st, a.st.depth, a.st.current⟩

/-- `CommandLineArguments::setRepeatCount`: no `-r`: 1; `-r` alone or `-r0`: 2; `-rN`: N -/
def repeatCountOf : Option (Option Nat) → Nat
  | none => 1
  | some none => 2
  | some (some n) => if n = 0 then 2 else n

end Runner
