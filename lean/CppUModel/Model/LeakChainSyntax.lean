/-!
Syntax shared by the regenerated file `Gen/LeakChainCode.lean` (written by
`translate/extract_leakchain.py` from `TestPlugin.cpp`, `TestRegistry.cpp`, `CommandLineTestRunner.cpp`,
`MockSupportPlugin.cpp`) and the hand-written chain interpreter `Model/LeakPluginChain.lean`.
-/
namespace LeakPlugin

/-- the two statements of `TestPlugin::runAllPreTestAction` / `runAllPostTestAction`: the plugin's own
    action and the call of the rest of the chain (`next_->runAll…`), in source order -/
inductive ChainOrder
  | selfThenNext | nextThenSelf
deriving DecidableEq, Repr, Inhabited

/-- where `TestRegistry::installPlugin` links the new plugin: `firstPlugin_ = plugin->addPlugin(firstPlugin_)`
    makes it the head of the chain -/
inductive InstallAt
  | head | tail
deriving DecidableEq, Repr, Inhabited

/-- how a plugin's post action records a failure: `result.addFailure(f)` (the action goes on) -/
inductive FailureStyle
  | addFailure | failAndJump
deriving DecidableEq, Repr, Inhabited

end LeakPlugin
