import CppUModel.Model.Cache
import CppUModel.Gen.CacheCode
/-!
Pointer-level model of `SimpleStringInternalCache`: an interpreter for the statement language of
`Model/CacheSyntax.lean`, run on the member functions as REGENERATED from the C++ source
(`Gen/CacheCode.lean`).  The heap maps ids of underlying allocations to `SimpleStringMemoryBlock`
cells; an allocation creates a cell, `free_memory` removes it, and reading or writing through a pointer
that has no cell (NULL, freed, never allocated) is an error (what would be a crash / use-after-free).
-/
namespace Cache.Heap
open Cache

structure Cell where
  next : Nat
  mem  : Nat
deriving Repr, DecidableEq, Inhabited

structure HNode where
  size : Nat
  free : Nat
  used : Nat
deriving Repr, DecidableEq, Inhabited

structure HState where
  cells     : Nat → Option Cell
  nodes     : List HNode
  nonCached : Nat
  warned    : Bool

structure Env where
  hs     : HState
  locals : String → Nat
  fresh  : List Nat           -- ids the underlying allocator will hand out next
  evs    : List Ev

inductive Flow
  | fall
  | ret (v : Option Nat)
deriving Repr, DecidableEq, Inhabited

def setCell (cells : Nat → Option Cell) (p : Nat) (c : Option Cell) : Nat → Option Cell :=
  fun q => if q = p then c else cells q

def setLocal (l : String → Nat) (x : String) (v : Nat) : String → Nat :=
  fun y => if y = x then v else l y

/-- `getIndexForCache` on the node array (first class that fits, 0 when none does) -/
def indexForH (ns : List HNode) (size : Nat) : Nat :=
  match ns.findIdx? (fun n => decide (size ≤ n.size)) with
  | some i => i
  | none => 0

def deref (hs : HState) (p : Nat) : Except String Cell :=
  match hs.cells p with
  | some c => .ok c
  | none => .error s!"dereference of {p} which is not a live block"

def nodeAt (hs : HState) (i : Nat) : Except String HNode :=
  match hs.nodes[i]? with
  | some n => .ok n
  | none => .error s!"cache node index {i} out of range"

def evalE (env : Env) : E → Except String Nat
  | .lit n => .ok n
  | .var x => .ok (env.locals x)
  | .succ e => match evalE env e with
    | .ok v => .ok (v + 1)
    | .error m => .error m
  | .next p => match evalE env p with
    | .ok v => (match deref env.hs v with | .ok c => .ok c.next | .error m => .error m)
    | .error m => .error m
  | .memory p => match evalE env p with
    | .ok v => (match deref env.hs v with | .ok c => .ok c.mem | .error m => .error m)
    | .error m => .error m
  | .nfree n => match evalE env n with
    | .ok i => (match nodeAt env.hs i with | .ok nd => .ok nd.free | .error m => .error m)
    | .error m => .error m
  | .nused n => match evalE env n with
    | .ok i => (match nodeAt env.hs i with | .ok nd => .ok nd.used | .error m => .error m)
    | .error m => .error m
  | .nsize n => match evalE env n with
    | .ok i => (match nodeAt env.hs i with | .ok nd => .ok nd.size | .error m => .error m)
    | .error m => .error m
  | .nonCached => .ok env.hs.nonCached
  | .indexFor sz => match evalE env sz with
    | .ok s => .ok (indexForH env.hs.nodes s)
    | .error m => .error m

def evalB (env : Env) : B → Except String Bool
  | .nonNull p => match evalE env p with
    | .ok v => .ok (decide (v ≠ 0))
    | .error m => .error m
  | .eq a b => match evalE env a, evalE env b with
    | .ok x, .ok y => .ok (decide (x = y))
    | .error m, _ => .error m
    | _, .error m => .error m
  | .le a b => match evalE env a, evalE env b with
    | .ok x, .ok y => .ok (decide (x ≤ y))
    | .error m, _ => .error m
    | _, .error m => .error m
  | .lt a b => match evalE env a, evalE env b with
    | .ok x, .ok y => .ok (decide (x < y))
    | .error m, _ => .error m
    | _, .error m => .error m
  | .and a b => match evalB env a with
    | .ok true => evalB env b
    | .ok false => .ok false
    | .error m => .error m
  | .not a => match evalB env a with
    | .ok v => .ok (!v)
    | .error m => .error m
  | .warned => .ok env.hs.warned

def setNodeFree (env : Env) (i v : Nat) : Except String Env :=
  match env.hs.nodes[i]? with
  | some nd => .ok { env with hs := { env.hs with nodes := env.hs.nodes.set i { nd with free := v } } }
  | none => .error s!"cache node index {i} out of range"

def setNodeUsed (env : Env) (i v : Nat) : Except String Env :=
  match env.hs.nodes[i]? with
  | some nd => .ok { env with hs := { env.hs with nodes := env.hs.nodes.set i { nd with used := v } } }
  | none => .error s!"cache node index {i} out of range"

def writeNext (env : Env) (p v : Nat) : Except String Env :=
  match env.hs.cells p with
  | some c => .ok { env with hs := { env.hs with cells := setCell env.hs.cells p (some { c with next := v }) } }
  | none => .error s!"write through {p} which is not a live block"

def writeMem (env : Env) (p v : Nat) : Except String Env :=
  match env.hs.cells p with
  | some c => .ok { env with hs := { env.hs with cells := setCell env.hs.cells p (some { c with mem := v }) } }
  | none => .error s!"write through {p} which is not a live block"

def doAlloc (env : Env) (x : String) (sz : Nat) : Except String Env :=
  match env.fresh with
  | id :: rest =>
    .ok { env with fresh := rest, locals := setLocal env.locals x id, evs := env.evs ++ [.ualloc sz id],
                   hs := { env.hs with cells := setCell env.hs.cells id (some ⟨0, 0⟩) } }
  | [] => .error "the underlying allocator was asked for more blocks than the implementation obtained"

def doFree (env : Env) (p sz : Nat) : Env :=
  { env with evs := env.evs ++ [.ufree p sz], hs := { env.hs with cells := setCell env.hs.cells p none } }

/-- one effectful statement that is neither control flow nor a loop -/
def execSimple (env : Env) : Stmt → Except String Env
  | .set x e => match evalE env e with
    | .ok v => .ok { env with locals := setLocal env.locals x v }
    | .error m => .error m
  | .setNfree n e => match evalE env n, evalE env e with
    | .ok i, .ok v => setNodeFree env i v
    | .error m, _ => .error m
    | _, .error m => .error m
  | .setNused n e => match evalE env n, evalE env e with
    | .ok i, .ok v => setNodeUsed env i v
    | .error m, _ => .error m
    | _, .error m => .error m
  | .setNonCached e => match evalE env e with
    | .ok v => .ok { env with hs := { env.hs with nonCached := v } }
    | .error m => .error m
  | .setNext p e => match evalE env p, evalE env e with
    | .ok a, .ok v => writeNext env a v
    | .error m, _ => .error m
    | _, .error m => .error m
  | .setMemory p e => match evalE env p, evalE env e with
    | .ok a, .ok v => writeMem env a v
    | .error m, _ => .error m
    | _, .error m => .error m
  | .ualloc x sz => match evalE env sz with
    | .ok s => doAlloc env x s
    | .error m => .error m
  | .ufree p sz => match evalE env p, evalE env sz with
    | .ok a, .ok s => .ok (doFree env a s)
    | .error m, _ => .error m
    | _, .error m => .error m
  | .setWarned => .ok { env with hs := { env.hs with warned := true } }
  | .print => .ok { env with evs := env.evs ++ [.warn] }
  | _ => .ok env

/-- the interpreter; `fuel` bounds nesting depth + loop iterations (structural recursion) -/
def exec : Nat → Stmt → Env → Except String (Env × Flow)
  | 0, _, _ => .error "out of fuel (a list that does not end)"
  | _ + 1, .skip, env => .ok (env, .fall)
  | f + 1, .seq a b, env =>
    match exec f a env with
    | .ok (env', .fall) => exec f b env'
    | r => r
  | f + 1, .ite c t e, env =>
    match evalB env c with
    | .ok true => exec f t env
    | .ok false => exec f e env
    | .error m => .error m
  | f + 1, .while c body, env =>
    match evalB env c with
    | .ok true =>
      (match exec f body env with
       | .ok (env', .fall) => exec f (.while c body) env'
       | r => r)
    | .ok false => .ok (env, .fall)
    | .error m => .error m
  | _ + 1, .ret e, env =>
    match evalE env e with
    | .ok v => .ok (env, .ret (some v))
    | .error m => .error m
  | _ + 1, .retVoid, env => .ok (env, .ret none)
  | _ + 1, s, env =>
    match execSimple env s with
    | .ok env' => .ok (env', .fall)
    | .error m => .error m

def params : List Nat → String → Nat
  | [], _ => 0
  | [a], x => if x = "p0" then a else 0
  | a :: b :: _, x => if x = "p0" then a else if x = "p1" then b else 0

def defaultFuel : Nat := 4000

/-- run a member function: parameters `p0 p1`, the ids the allocator will return -/
def call (fuel : Nat) (prog : Stmt) (hs : HState) (ps : List Nat) (fresh : List Nat) :
    Except String (HState × List Ev × Option Nat) :=
  match exec fuel prog { hs := hs, locals := params ps, fresh := fresh, evs := [] } with
  | .ok (env, .ret v) => .ok (env.hs, env.evs, v)
  | .ok (env, .fall) => .ok (env.hs, env.evs, none)
  | .error m => .error m

open Gen.Cache.Code

/-- the constructor: five nodes with empty lists (`createInternalCacheNodes`) -/
def createH : HState :=
  { cells := fun _ => none,
    nodes := Gen.Cache.classSizes.map (fun sz => { size := sz, free := 0, used := 0 }),
    nonCached := 0, warned := false }

def allocH (fuel : Nat) (hs : HState) (size n m : Nat) : Except String (HState × List Ev) :=
  match call fuel allocProg hs [size] [n, m] with
  | .ok (hs', evs, some v) => .ok (hs', evs ++ [.ret v])
  | .ok (_, _, none) => .error "alloc fell off its end without returning a buffer"
  | .error e => .error e

def deallocH (fuel : Nat) (hs : HState) (mem size : Nat) : Except String (HState × List Ev) :=
  match call fuel deallocProg hs [mem, size] [] with
  | .ok (hs', evs, _) => .ok (hs', evs)
  | .error e => .error e

def clearCacheH (fuel : Nat) (hs : HState) : Except String (HState × List Ev) :=
  match call fuel clearCacheProg hs [] [] with
  | .ok (hs', evs, _) => .ok (hs', evs)
  | .error e => .error e

def clearAllH (fuel : Nat) (hs : HState) : Except String (HState × List Ev) :=
  match call fuel clearAllProg hs [] [] with
  | .ok (hs', evs, _) => .ok (hs', evs)
  | .error e => .error e

def getIndexH (fuel : Nat) (hs : HState) (size : Nat) : Except String Nat :=
  match call fuel getIndexProg hs [size] [] with
  | .ok (_, _, some v) => .ok v
  | .ok (_, _, none) => .error "getIndexForCache returned nothing"
  | .error e => .error e

def stepH (fuel : Nat) (hs : HState) : Op → Except String (HState × List Ev)
  | .alloc sz n m => allocH fuel hs sz n m
  | .dealloc m sz => deallocH fuel hs m sz
  | .clearCache => clearCacheH fuel hs
  | .clearAll => clearAllH fuel hs

end Cache.Heap
