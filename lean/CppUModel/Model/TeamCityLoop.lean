import CppUModel.Model.OutputEvents
import CppUModel.Gen.RunAllTestsLoop
/-!
# `TestRegistry::runAllTests` executed from its regenerated statement list (C20)

`Gen/RunAllTestsLoop.lean` is regenerated from src/CppUTest/TestRegistry.cpp on every run
(`translate/extract_runloop.py`): the calls before the `for` loop, the statements of its body in source order (plain
calls and `if (cond) { calls }`), the calls after it, and the initial value of `groupStart`.  This file interprets that
list over the scripted tests of `Model/OutputEvents.lean` and produces the runner's output events.  The state is what the
C++ keeps between statements: the local `groupStart`, the two time stamps `TestResult` takes (group start, test start) and
the `TestResult` counters with the stubbed clock (`OutEv.R`).  `Proofs/TeamCityLoop.lean` proves the result equal to the
hand-written `OutEv.runAll` all balance theorems are proved about.  Core Lean only.

The runs modelled here are those without `-p` and without `-ri`: `runInSeperateProcess_` and `runIgnored_` are false.
-/
namespace RunLoop
open OutEv
open Gen.RunAllTestsLoop (Stmt Cond body before after groupStartInit)

structure LS where
  gs : Bool          -- the local `groupStart`
  g0 : Nat           -- `currentGroupTimeStarted_`
  t0 : Nat           -- `currentTestTimeStarted_`
  r  : R             -- the counters of the `TestResult` and the clock

/-- one call; `t` is the loop variable `test` -/
def actRun (t : Script) : Gen.RunAllTestsLoop.Act → LS → LS × List Ev
  | .testsStarted, s => (s, [.testsStarted])
  | .testsEnded, s => (s, [.testsEnded s.r.summary])
  | .groupStarted, s => ({ s with g0 := s.r.clock }, [.groupStarted t.info])      -- print, then take the time
  | .groupEnded, s => (s, [.groupEnded (s.r.clock - s.g0)])
  | .testStarted, s => ({ s with t0 := s.r.clock }, [.testStarted t.info])
  | .testEnded, s => (s, [.testEnded (s.r.clock - s.t0) s.r.checks])
  | .runOneTest, s => ({ s with r := afterTest t s.r }, if t.info.willRun then testInner t.info t.acts else [])
  | .countTest, s => ({ s with r := countTest s.r }, [])
  | .setGroupStart b, s => ({ s with gs := b }, [])
  | .setSeparate, s => (s, [])
  | .setRunIgnored, s => (s, [])
  | .nextRepetition, s => (s, [])

def actsRun (t : Script) : List Gen.RunAllTestsLoop.Act → LS → LS × List Ev
  | [], s => (s, [])
  | a :: as, s => ((actsRun t as (actRun t a s).1).1, (actRun t a s).2 ++ (actsRun t as (actRun t a s).1).2)

/-- evaluating a condition; `testShouldRun` counts the test as filtered out when it answers no -/
def condRun (flt : Option Filter) (t : Script) (rest : List Script) : Cond → LS → Bool × LS
  | .groupStart, s => (s.gs, s)
  | .shouldRun, s => if shouldRun flt t.info then (true, s) else (false, { s with r := countFiltered s.r })
  | .endOfGroup, s => (endOfGroup t rest, s)
  | .separateFlag, s => (false, s)
  | .runIgnoredFlag, s => (false, s)

def stmtRun (flt : Option Filter) (t : Script) (rest : List Script) : Stmt → LS → LS × List Ev
  | .act a, s => actRun t a s
  | .ifc c acts, s =>
    if (condRun flt t rest c s).1 then actsRun t acts (condRun flt t rest c s).2 else ((condRun flt t rest c s).2, [])

def stmtsRun (flt : Option Filter) (t : Script) (rest : List Script) : List Stmt → LS → LS × List Ev
  | [], s => (s, [])
  | x :: xs, s =>
    ((stmtsRun flt t rest xs (stmtRun flt t rest x s).1).1,
     (stmtRun flt t rest x s).2 ++ (stmtsRun flt t rest xs (stmtRun flt t rest x s).1).2)

/-- the `for` loop over the registry's list, then the statements after it -/
def loopGen (flt : Option Filter) : LS → List Script → List Ev
  | s, [] => (actsRun default after s).2
  | s, t :: rest => (stmtsRun flt t rest body s).2 ++ loopGen flt (stmtsRun flt t rest body s).1 rest

def initLS : LS := { gs := groupStartInit, g0 := 0, t0 := 0, r := {} }

/-- `TestRegistry::runAllTests` as seen by the output, executed from the regenerated statement list -/
def runAllGen (flt : Option Filter) (tests : List Script) : List Ev :=
  (actsRun default before initLS).2 ++ loopGen flt (actsRun default before initLS).1 tests

/-- the repeat loop of `CommandLineTestRunner::runAllTests` around it (`OutEv.runRepeated`) -/
def runRepeatedGen (total : Nat) (flt : Option Filter) (tests : List Script) : List Ev :=
  (List.range total).flatMap fun i => .testRun (i + 1) total :: runAllGen flt tests

end RunLoop
