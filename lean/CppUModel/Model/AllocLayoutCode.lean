import CppUModel.Model.AllocLayout
import CppUModel.Gen.AllocLayoutCode
/-!
Interpreter of the REGENERATED statement lists of `MemoryLeakDetector::allocMemory`,
`storeLeakInformation`, `reallocateMemoryAndLeakInformation` and `reallocMemory`
(`Gen/AllocLayoutCode.lean`, C05).

Every micro-step (`AStep`, `Model/AllocLayoutSyntax.lean`) is executed on a small register
machine: the C++ locals (`allocatNodesSeperately`, `memory`, `new_memory`, `node`, `oldNode`) are
registers, the detector state and the events travel along, the answers of the environment
(`alloc_memory`, `allocMemoryLeakNode`, `PlatformSpecificRealloc`) are inputs.  A `return` ends the
function (`Flow.done`); a dereference of a NULL or uninitialised pointer, or a write outside a block,
ends it in `Outcome.ub`.

`allocMemoryGen` / `reallocMemoryGen` run the lists the translator produced from the CURRENT source.
`Props/C05.lean` proves (`allocMemoryCode_eq`, `reallocMemoryCode_eq`) that they agree with the hand
model `allocMemory` / `reallocMemory` of `Model/AllocLayout.lean`, which all other C05 theorems are
about; the driver replays the private-detector operations through the Gen versions.
-/
namespace AllocLayout
open Gen.AllocLayoutCode

/-- a pointer-valued local: not yet assigned, NULL, or a block -/
inductive Ptr
  | unset | null | blk (id : Nat)
deriving Repr, DecidableEq, Inhabited

/-- the local `node` -/
inductive NodeReg
  | unset | null | inline | sep (nid : Nat)
deriving Repr, DecidableEq, Inhabited

/-- the result of `memoryTable_.removeNode(memory)` -/
inductive Rem
  | unset | null | found (o : Rec)
deriving Repr, DecidableEq, Inhabited

structure Regs where
  st      : State
  evs     : List Ev := []
  sep     : Bool                      -- `allocatNodesSeperately`
  memory  : Option Nat := none        -- the `memory` argument of `reallocMemory` (none = NULL)
  newMem  : Ptr := .unset             -- `memory` of `allocMemory` / `new_memory`
  node    : NodeReg := .unset
  stored  : Option Rec := none        -- what `node->init` wrote
  removed : Rem := .unset
  old     : Option Rec := none        -- `oldNode`
deriving Repr, Inhabited

/-- inputs of one call -/
structure Env where
  c    : Cfg
  img  : NodeImage
  fam  : Nat
  size : W
  rej  : Bool        -- value of the regenerated overflow guard for `size`
  a1   : Ans         -- `alloc_memory`
  a2   : Ans         -- `allocMemoryLeakNode`
  ar   : RAns        -- `PlatformSpecificRealloc`

inductive Flow
  | next (r : Regs)
  | done (res : State × List Ev × Outcome)

def ptrId : Option Nat → Nat
  | some id => id
  | none => 0

def memAfterRealloc (m : List Block) : Option Nat → List Block
  | some oid => dropBlock m oid
  | none => m

/-- `node->init(...)`: the record is written where the node lives -/
def initWith (e : Env) (r : Regs) (rc : Rec) (bump : Nat) : Flow :=
  match writeNode e.c e.img r.st.mem rc with
  | none => .done (r.st, r.evs, .ub "node written outside its block")
  | some m1 => .next { r with st := { r.st with mem := m1, seq := r.st.seq + bump }, stored := some rc }

/-- `createMemoryLeakAccountingInformation(…, allocatNodesSeperately)` -/
def createNodeStep (e : Env) (r : Regs) : Flow :=
  if r.sep then
    match e.a2 with
    | .null => .next { r with node := .null, evs := r.evs ++ [.unode e.c.node 0] }
    | .fail => .done (r.st, r.evs ++ [.unode e.c.node 0], .testFail)
    | .block nid nb =>
      .next { r with node := .sep nid, st := { r.st with mem := ⟨nid, nb⟩ :: r.st.mem }, evs := r.evs ++ [.unode e.c.node nid] }
  else .next { r with node := .inline }

/-- statements that call no regenerated list -/
def leaf (e : Env) (r : Regs) : AStep → Flow
  | .forceSepIfNoCheck => .next { r with sep := forcedSep e.c r.sep }
  | .guardReturnNull => if e.rej then .done (r.st, r.evs, .null) else .next r
  | .allocData =>
    match e.a1 with
    | .null => .next { r with newMem := .null, evs := r.evs ++ [.ualloc (allocReq e.c r.sep e.size) 0] }
    | .fail => .done (r.st, r.evs ++ [.ualloc (allocReq e.c r.sep e.size) 0], .testFail)
    | .block id bytes =>
      .next { r with newMem := .blk id, st := { r.st with mem := ⟨id, bytes⟩ :: r.st.mem },
                     evs := r.evs ++ [.ualloc (allocReq e.c r.sep e.size) id] }
  | .platformRealloc =>
    match e.ar with
    | .null => .next { r with newMem := .null, evs := r.evs ++ [.urealloc (ptrId r.memory) (reallocReq e.c r.sep e.size) 0] }
    | .moved nid nb =>
      .next { r with newMem := .blk nid, st := { r.st with mem := ⟨nid, nb⟩ :: memAfterRealloc r.st.mem r.memory },
                     evs := r.evs ++ [.urealloc (ptrId r.memory) (reallocReq e.c r.sep e.size) nid] }
  | .ifNewNullReturnNull =>
    match r.newMem with
    | .null => .done (r.st, r.evs, .null)
    | .blk _ => .next r
    | .unset => .done (r.st, r.evs, .ub "uninitialised pointer tested")
  | .createNode => createNodeStep e r
  | .createNodeOld => createNodeStep e r
  | .ifNodeNullFreeReturnNull =>
    match r.node, r.newMem with
    | .null, .blk id => .done ({ r.st with mem := dropBlock r.st.mem id }, r.evs ++ [.ufree id], .null)
    | .null, _ => .done (r.st, r.evs, .ub "free_memory of an uninitialised pointer")
    | _, _ => .next r
  | .initNew =>
    match r.newMem, r.node with
    | .blk id, .inline => initWith e r ⟨id, e.size, e.fam, false, 0, r.st.seq⟩ 1
    | .blk id, .sep nid => initWith e r ⟨id, e.size, e.fam, true, nid, r.st.seq⟩ 1
    | _, .null => .done (r.st, r.evs, .ub "node allocation returned NULL, dereferenced")
    | _, _ => .done (r.st, r.evs, .ub "uninitialised pointer used")
  | .initOld =>
    match r.old, r.node with
    | some o, .inline => initWith e r { o with sep := false, nodeId := 0 } 0
    | some o, .sep nid => initWith e r { o with sep := true, nodeId := nid } 0
    | _, .null => .done (r.st, r.evs, .ub "node allocation returned NULL, dereferenced")
    | _, _ => .done (r.st, r.evs, .ub "uninitialised pointer used")
  | .writeGuard =>
    match r.stored with
    | none => .done (r.st, r.evs, .ub "uninitialised pointer used")
    | some rc =>
      match writeGuard e.c r.st.mem rc with
      | none => .done (r.st, r.evs, .ub "guard bytes written outside the block")
      | some m2 => .next { r with st := { r.st with mem := m2 } }
  | .addNode =>
    match r.stored with
    | none => .done (r.st, r.evs, .ub "uninitialised pointer used")
    | some rc => .next { r with st := { r.st with tracked := rc :: r.st.tracked } }
  | .returnNodeMemory =>
    match r.stored with
    | none => .done (r.st, r.evs, .ub "uninitialised pointer used")
    | some rc => .done (r.st, r.evs, .ptr rc.id)
  | .declOldNode => .next r
  | .removeOld =>
    match r.memory with
    | none => .done (r.st, r.evs, .ub "removeNode(NULL)")
    | some id =>
      match removeRec r.st.tracked id with
      | none => .next { r with removed := .null }
      | some (o, rest) => .next { r with removed := .found o, st := { r.st with tracked := rest } }
  | .ifRemovedNullReportReturnNull =>
    match r.removed with
    | .null => .done (r.st, r.evs ++ [.misuse "nonallocated"], .null)
    | _ => .next r
  | .copyOld =>
    match r.removed with
    | .found o => .next { r with old := some o }
    | _ => .done (r.st, r.evs, .ub "NULL node copied")
  | .checkCorruption =>
    match r.removed with
    | .found o =>
      match checkForCorruption e.c r.st.mem o e.fam r.sep with
      | (_, evs', true) => .done (r.st, r.evs ++ evs', .ub "inline node released as a block")
      | (m1, evs', false) => .next { r with st := { r.st with mem := m1 }, evs := r.evs ++ evs' }
    | _ => .done (r.st, r.evs, .ub "NULL node checked")
  | .returnNew =>
    match r.newMem with
    | .null => .done (r.st, r.evs, .null)
    | .blk id => .done (r.st, r.evs, .ptr id)
    | .unset => .done (r.st, r.evs, .ub "uninitialised pointer returned")
  | .ifNullReturn =>
    match r.memory with
    | none => .done (r.st, r.evs, .null)
    | some _ => .next r
  | .ifRemovedNullReportReturn =>
    match r.removed with
    | .null => .done (r.st, r.evs ++ [.misuse "nonallocated"], .null)
    | _ => .next r
  | .readSize =>
    match r.removed with
    | .found _ => .next r
    | _ => .done (r.st, r.evs, .ub "NULL node read")
  | .freeData =>
    match r.memory with
    | some id => .next { r with st := { r.st with mem := dropBlock r.st.mem id }, evs := r.evs ++ [.ufree id] }
    | none => .next r
  -- calls of regenerated lists are not leaves
  | .store => .done (r.st, r.evs, .ub "nested call not supported at this level")
  | .callReallocInner => .done (r.st, r.evs, .ub "nested call not supported at this level")
  | .ifMemoryTakeOld => .done (r.st, r.evs, .ub "nested call not supported at this level")
  | .ifFailedRetrack => .done (r.st, r.evs, .ub "nested call not supported at this level")
  | .ifAllocatorAlive => .done (r.st, r.evs, .ub "nested call not supported at this level")

/-- a list of leaf statements (`storeLeakInformation`, the two conditional bodies minus `store`) -/
def runLeaf (e : Env) : List AStep → Regs → Flow
  | [], r => .next r
  | s :: rest, r =>
    match leaf e r s with
    | .next r' => runLeaf e rest r'
    | .done res => .done res

/-- statements of `allocMemory` / `reallocateMemoryAndLeakInformation`: leaves and the call of
    `storeLeakInformation` (a `void` function: falling off its end continues the caller) -/
def stepMid (e : Env) (r : Regs) : AStep → Flow
  | .store => runLeaf e storeCode r
  | s => leaf e r s

def runMid (e : Env) : List AStep → Regs → Flow
  | [], r => .next r
  | s :: rest, r =>
    match stepMid e r s with
    | .next r' => runMid e rest r'
    | .done res => .done res

/-- what `char* new_memory = reallocateMemoryAndLeakInformation(…)` leaves in the caller -/
def afterInner (r : Regs) : Flow → Flow
  | .done (st, evs, .null) => .next { r with st := st, evs := evs, newMem := .null }
  | .done (st, evs, .ptr id) => .next { r with st := st, evs := evs, newMem := .blk id }
  | .done other => .done other
  | .next r' => .done (r'.st, r'.evs, .ub "function ends without a return")

/-- statements of `reallocMemory` -/
def stepTop (e : Env) (r : Regs) : AStep → Flow
  | .callReallocInner => afterInner r (runMid e reallocInnerCode r)
  | .ifMemoryTakeOld => if r.memory.isSome then runMid e reallocTakeOldCode r else .next r
  | .ifFailedRetrack => if r.newMem == .null && r.memory.isSome then runMid e reallocRetrackCode r else .next r
  -- (the allocators of a history outlive it: `hasBeenDestroyed()` is false)
  | .ifAllocatorAlive => runMid e deallocAliveCode r
  | s => stepMid e r s

def runTop (e : Env) : List AStep → Regs → Flow
  | [], r => .next r
  | s :: rest, r =>
    match stepTop e r s with
    | .next r' => runTop e rest r'
    | .done res => .done res

def finish : Flow → State × List Ev × Outcome
  | .done res => res
  | .next r => (r.st, r.evs, .ub "function ends without a return")

/-- `MemoryLeakDetector::allocMemory` as the current source has it -/
def allocMemoryGen (c : Cfg) (img : NodeImage) (s : State) (fam : Nat) (size : W) (sep0 : Bool)
    (a1 a2 : Ans) : State × List Ev × Outcome :=
  finish (runMid ⟨c, img, fam, size, rejectsAlloc c size, a1, a2, .null⟩ allocMemoryCode { st := s, sep := sep0 })

/-- `MemoryLeakDetector::reallocMemory` as the current source has it -/
def reallocMemoryGen (c : Cfg) (img : NodeImage) (s : State) (fam : Nat) (ptr : Option Nat) (size : W)
    (sep0 : Bool) (ar : RAns) (a2 : Ans) : State × List Ev × Outcome :=
  finish (runTop ⟨c, img, fam, size, rejectsRealloc c size, .null, a2, ar⟩ reallocMemoryCode
    { st := s, sep := sep0, memory := ptr })

/-- a `void` function: falling off its end is its normal return -/
def finishVoid : Flow → State × List Ev × Outcome
  | .done res => res
  | .next r => (r.st, r.evs, .null)

/-- `MemoryLeakDetector::deallocMemory` as the current source has it -/
def deallocMemoryGen (c : Cfg) (s : State) (fam : Nat) (ptr : Option Nat) (sep0 : Bool) : State × List Ev × Outcome :=
  finishVoid (runTop ⟨c, fun _ => [], fam, 0#64, false, .null, .null, .null⟩ deallocMemoryCode { st := s, sep := sep0, memory := ptr })

/-- `invalidateMemory(p); deallocMemory(allocator, p, …)` with the regenerated `deallocMemory` -/
def releaseGen (c : Cfg) (s : State) (fam : Nat) (ptr : Option Nat) (sep0 : Bool) : State × List Ev × Outcome :=
  match invalidateMemory s ptr with
  | none => (s, [], .ub "poison written outside the block")
  | some s1 => deallocMemoryGen c s1 fam ptr sep0

/-! ## the public wrappers over the regenerated detector functions

Copies of the wrappers of `Model/AllocLayout.lean` (`cMalloc`, `cCalloc`, `strdupAlloc`, `cStrdup`,
`cStrndup`, `cRealloc`, `cFree`, `operatorNew`, `operatorDelete`, `step`, `run`) whose detector calls go
to `allocMemoryGen` / `reallocMemoryGen` / `deallocMemoryGen`, i.e. to the statement lists of the
current source. -/

def cMallocGen (c : Cfg) (img : NodeImage) (s : State) (size : W) (a1 a2 : Ans) : State × List Ev × Outcome :=
  allocMemoryGen c img s famMalloc size true a1 a2

def cReallocGen (c : Cfg) (img : NodeImage) (s : State) (ptr : Option Nat) (size : W) (ar : RAns) (a2 : Ans) :
    State × List Ev × Outcome :=
  reallocMemoryGen c img s famMalloc ptr size true ar a2

def cCallocGen (c : Cfg) (img : NodeImage) (s : State) (num size : W) (a1 a2 : Ans) : State × List Ev × Outcome :=
  if Gen.AllocLayout.callocOverflowTest num size then (s, [], .null)
  else
    match cMallocGen c img s (Gen.AllocLayout.callocRequest num size) a1 a2 with
    | (s1, evs, .ptr id) =>
      thenWrite (s1, evs, .ptr id) 0 (List.replicate (Gen.AllocLayout.callocMemset num size).toNat 0) "memset outside the block"
    | other => other

def strdupAllocGen (c : Cfg) (img : NodeImage) (s : State) (str : List UInt8) (size : W) (a1 a2 : Ans) :
    State × List Ev × Outcome :=
  if str.length < size.toNat then
    match cMallocGen c img s size a1 a2 with
    | (s1, evs, .ptr _) => (s1, evs, .ub "memcpy reads past the source")
    | other => other
  else
    thenWrite (thenWrite (cMallocGen c img s size a1 a2) 0 (str.take size.toNat) "memcpy outside the block")
      (size - 1).toNat [0] "terminator outside the block"

def cStrdupGen (c : Cfg) (img : NodeImage) (s : State) (str : List UInt8) (a1 a2 : Ans) : State × List Ev × Outcome :=
  match cstrlen str with
  | none => (s, [], .ub "unterminated source string")
  | some len => strdupAllocGen c img s str (Gen.AllocLayout.strdupLength (BitVec.ofNat 64 len)) a1 a2

def cStrndupGen (c : Cfg) (img : NodeImage) (s : State) (str : List UInt8) (n : W) (a1 a2 : Ans) :
    State × List Ev × Outcome :=
  match cstrlen str with
  | none => (s, [], .ub "unterminated source string")
  | some len => strdupAllocGen c img s str (Gen.AllocLayout.strndupLength (BitVec.ofNat 64 len) n) a1 a2

def operatorNewGen (c : Cfg) (img : NodeImage) (s : State) (v : NewVariant) (size : W) (a1 a2 : Ans) :
    State × List Ev × Outcome :=
  match allocMemoryGen c img s (if v.array then famNewArray else famNew) size false a1 a2 with
  | (s1, evs, .null) => if v.throws then (s1, evs, .badAlloc) else (s1, evs, .null)
  | (s1, evs, .testFail) =>
    if v.nothrow then (s1, evs, .ub "test failure thrown through a noexcept operator new: std::terminate")
    else (s1, evs, .testFail)
  | other => other

def cFreeGen (c : Cfg) (s : State) (ptr : Option Nat) : State × List Ev × Outcome := releaseGen c s famMalloc ptr true

def operatorDeleteGen (c : Cfg) (s : State) (array : Bool) (ptr : Option Nat) : State × List Ev × Outcome :=
  releaseGen c s (if array then famNewArray else famNew) ptr false

/-- one public operation, executed by the statement lists of the current source -/
def stepGen (c : Cfg) (img : NodeImage) (s : State) : Op → State × List Ev × Outcome
  | .new v size a1 a2 => operatorNewGen c img s v size a1 a2
  | .malloc size a1 a2 => cMallocGen c img s size a1 a2
  | .calloc num size a1 a2 => cCallocGen c img s num size a1 a2
  | .strdup buf a1 a2 => cStrdupGen c img s buf a1 a2
  | .strndup buf n a1 a2 => cStrndupGen c img s buf n a1 a2
  | .realloc ptr size ar a2 => cReallocGen c img s ptr size ar a2
  | .free ptr => cFreeGen c s ptr
  | .delete array ptr => operatorDeleteGen c s array ptr
  | .write id off src => clientWrite s id off src

/-- the state after a history, executed by the statement lists of the current source -/
def runGen (c : Cfg) (img : NodeImage) (s : State) : List Op → State
  | [] => s
  | op :: ops => runGen c img (stepGen c img s op).1 ops

/-! ## the global operator overloads (regenerated wiring) -/

/-- the function a forwarder ends up in under `turnOnDefaultNotThreadSafeNewDeleteOverloads` -/
def Forwarder.target (f : Forwarder) : Option String :=
  (defaultOverloads.find? (fun p => p.1 == f.fptr)).map (·.2)

end AllocLayout
