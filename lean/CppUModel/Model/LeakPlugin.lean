import CppUModel.Gen.LeakPluginCode
/-!
Model of the per-test leak verdict (property C07):
`MemoryLeakWarningPlugin::preTestAction / postTestAction / expectLeaksInTest /
ignoreAllLeaksInTest / FinalReport` (src/CppUTest/MemoryLeakWarningPlugin.cpp), the detector
calls they make (src/CppUTest/MemoryLeakDetector.cpp) and the runner around them
(`UtestShell::runOneTestInCurrentProcess`, `Utest::run` in src/CppUTest/Utest.cpp).

The detector is modelled abstractly: a list of records (block id, period stamp, allocation
number, size) with exactly the period transitions of the real one.  The statement lists of
the plugin's pre/post action, of `startChecking`/`stopChecking`/`enable`, the expression of
`isInPeriod`, the failure condition, the demotion rule and the call order of the runner are
NOT written here: they are the regenerated values of `Gen/LeakPluginCode.lean`, executed by the
interpreters below (`dstep`, `pstep`, `rstep`).

Block ids stand for addresses of live blocks: the scripted tests never allocate an id that is
live and never free or realloc an id that is not (no-ops, as in the harness).  The tracked
realloc has two scripted outcomes: the platform realloc succeeds (`realloc`: old node removed,
new node stored like a fresh allocation) or returns NULL (`reallocFail`: the old node is
re-registered; which of its fields are restored from the saved copy is regenerated from
`reallocMemory`'s failure branch).
-/
namespace LeakPlugin
open Gen.LeakCode

/-- one `MemoryLeakDetectorNode` -/
structure Rec where
  id     : Nat
  period : Period
  num    : Nat
  size   : Nat
deriving DecidableEq, Repr, Inhabited

/-- the parts of `MemoryLeakDetector` the plugin depends on -/
structure Detector where
  recs : List Rec      -- memoryTable_ (most recent first; the real iteration order is by address hash)
  cur  : Period        -- current_period_
  seq  : Nat           -- allocationSequenceNumber_
  out  : List Rec      -- the leak entries currently in outputBuffer_
deriving Repr, Inhabited

namespace Detector

/-- constructor -/
def init : Detector := { recs := [], cur := initialPeriod, seq := initialSeq, out := [] }

def dstep (d : Detector) : DStep → Detector
  | .clearOutput => { d with out := [] }
  | .setPeriod p => { d with cur := p }

def dsteps (d : Detector) (l : List DStep) : Detector := l.foldl dstep d

def startChecking (d : Detector) : Detector := dsteps d startCheckingSteps
def stopChecking (d : Detector) : Detector := dsteps d stopCheckingSteps
def enable (d : Detector) : Detector := dsteps d enableSteps

def isLive (d : Detector) (id : Nat) : Bool := d.recs.any (fun r => r.id == id)

/-- `allocMemory` → `storeLeakInformation`: the node is stamped with the current period and
    the next allocation number -/
def alloc (d : Detector) (id size : Nat) : Detector :=
  { d with recs := { id := id, period := d.cur, num := d.seq, size := size } :: d.recs, seq := d.seq + 1 }

/-- `deallocMemory` → `removeNode` -/
def free (d : Detector) (id : Nat) : Detector :=
  { d with recs := d.recs.filter (fun r => r.id != id) }

/-- `reallocMemory`, platform realloc failed: the node that is put back for the old block.
    Which fields come from the saved `oldNode` is read from the source (`Gen.LeakCode`). -/
def restoredRec (d : Detector) (old : Rec) (size : Nat) : Rec :=
  { id := old.id,
    period := (match reallocFailPeriod with | .old => old.period | .fresh => d.cur),
    num := (match reallocFailNumber with | .old => old.num | .fresh => d.seq),
    size := (match reallocFailSize with | .old => old.size | .fresh => size) }

/-- `reallocMemory(memory, size)` when `PlatformSpecificRealloc` returns NULL: `removeNode`
    takes the old node out, the failure branch re-registers a node for the same block.
    (The table is a set: where in its bucket the node is put back is not observable.) -/
def reallocFail (d : Detector) (id size : Nat) : Detector :=
  { d with recs := d.recs.map (fun r => if r.id == id then restoredRec d r size else r),
           seq := (match reallocFailNumber with
                   | .old => d.seq
                   | .fresh => if d.isLive id then d.seq + 1 else d.seq) }

/-- the nodes `getFirstLeak(p)` / `getNextLeak(.., p)` visit -/
def leaksIn (d : Detector) (p : Period) : List Rec := d.recs.filter (fun r => isInPeriod r.period p)

/-- `totalMemoryLeaks(p)` -/
def totalMemoryLeaks (d : Detector) (p : Period) : Nat := (d.leaksIn p).length

/-- `report(p)`: `ConstructMemoryLeakReport` appends one entry per visited node to the output
    buffer (it does not clear it) and the whole buffer is returned -/
def report (d : Detector) (p : Period) : Detector := { d with out := d.out ++ d.leaksIn p }

def demoteRec (r : Rec) : Rec :=
  if isInPeriod r.period demoteScan && r.period == demoteFrom then { r with period := demoteTo } else r

/-- `markCheckingPeriodLeaksAsNonCheckingPeriod` -/
def demote (d : Detector) : Detector := { d with recs := d.recs.map demoteRec }

/-- environment: tracked allocations made and released again by other code (the test object
    created by the runner, …); only their allocation numbers remain visible -/
def bump (d : Detector) (n : Nat) : Detector := { d with seq := max d.seq n }

end Detector

/-- plugin members and the local `leaks` of postTestAction -/
structure Plugin where
  ignoreAll    : Bool     -- ignoreAllWarnings_
  expected     : Nat      -- expectedLeaks_
  failureCount : Nat      -- failureCount_
  leaks        : Nat
deriving Repr, Inhabited

/-- what a leak failure says: the entries in its text and the stated total -/
structure LeakReport where
  entries : List Rec
  total   : Nat
deriving Repr, Inhabited

structure World where
  det       : Detector
  plg       : Plugin
  failures  : Nat                 -- TestResult::getFailureCount()
  overloads : Bool                -- MemoryLeakWarningPlugin::areNewDeleteOverloaded()
  aborted   : Bool                -- Utest::run: the current phase was left by a failure
  leakFail  : Option LeakReport   -- observation: the failure added by postTestAction
  warned    : Bool                -- observation: "leak detection was disabled" warning printed
deriving Repr, Inhabited

/-- detector constructor, plugin constructor (which enables the detector), empty TestResult -/
def World.init (overloads : Bool) : World :=
  { det := Detector.init.enable,
    plg := { ignoreAll := ctorIgnore, expected := ctorExpected, failureCount := 0, leaks := 0 },
    failures := 0, overloads := overloads, aborted := false, leakFail := none, warned := false }

/-- the `if` block of postTestAction -/
def verdictStep (w : World) (p : Period) : World :=
  if failCond w.plg.ignoreAll w.plg.expected w.plg.leaks w.plg.failureCount w.failures then
    if w.overloads then
      { w with det := w.det.report p, failures := w.failures + 1,
               leakFail := some { entries := (w.det.report p).out, total := (w.det.leaksIn p).length } }
    else if warnCond w.plg.ignoreAll w.plg.expected w.plg.leaks w.plg.failureCount w.failures then
      { w with warned := true }
    else w
  else w

def pstep (w : World) : PStep → World
  | .startChecking => { w with det := w.det.startChecking }
  | .stopChecking => { w with det := w.det.stopChecking }
  | .saveFailureCount => { w with plg := { w.plg with failureCount := w.failures } }
  | .countLeaks p => { w with plg := { w.plg with leaks := w.det.totalMemoryLeaks p } }
  | .verdict p => verdictStep w p
  | .demote => { w with det := w.det.demote }
  | .setIgnore b => { w with plg := { w.plg with ignoreAll := b } }
  | .setExpected n => { w with plg := { w.plg with expected := n } }

def preTestAction (w : World) : World := preSteps.foldl pstep w
def postTestAction (w : World) : World := postSteps.foldl pstep w

/-- commands of a scripted test -/
inductive Cmd
  | alloc (id size : Nat)
  | free (id : Nat)
  | expectLeaks (n : Nat)      -- EXPECT_N_LEAKS(n)
  | ignoreLeaks                -- IGNORE_ALL_LEAKS_IN_TEST()
  | fail                       -- FAIL(...): the test's own failing check
  | envSeq (n : Nat)           -- environment: the allocation number has moved on to `n`
  | realloc (id newId size : Nat)   -- tracked realloc of block `id`, platform realloc succeeds: the result is block `newId`
  | reallocFail (id size : Nat)     -- tracked realloc of block `id`, platform realloc returns NULL
deriving DecidableEq, Repr, Inhabited

def doAlloc (w : World) (id size : Nat) : World :=
  if w.det.isLive id then w else { w with det := w.det.alloc id size }

def doFree (w : World) (id : Nat) : World := { w with det := w.det.free id }

/-- `reallocMemory`, success: `removeNode(old)` and then `storeLeakInformation(new)` exactly as
    for a fresh allocation (current period, next allocation number).  Script guards as for
    alloc/free: the old id must be live, the new id must not be (it may be the old id again). -/
def doRealloc (w : World) (id newId size : Nat) : World :=
  if !w.det.isLive id then w
  else if newId != id && w.det.isLive newId then w
  else doAlloc (doFree w id) newId size

def execCmd (w : World) : Cmd → World
  | .alloc id size => doAlloc w id size
  | .free id => doFree w id
  | .realloc id newId size => doRealloc w id newId size
  | .reallocFail id size => { w with det := w.det.reallocFail id size }
  | .expectLeaks n => { w with plg := { w.plg with expected := n } }
  | .ignoreLeaks => { w with plg := { w.plg with ignoreAll := ignoreAllLeaksValue } }
  | .fail => { w with failures := w.failures + 1, aborted := true }
  | .envSeq n => { w with det := w.det.bump n }

/-- a command inside a phase: nothing after the failing check of the phase is executed -/
def stepCmd (w : World) (c : Cmd) : World := if w.aborted then w else execCmd w c

def runCmds (w : World) (cs : List Cmd) : World := cs.foldl stepCmd w

/-- memory operations between two tests (before the pre action): only alloc / free -/
def execOutside (w : World) : Cmd → World
  | .alloc id size => execCmd w (.alloc id size)
  | .free id => execCmd w (.free id)
  | .envSeq n => execCmd w (.envSeq n)
  | _ => w

def runOutside (w : World) (cs : List Cmd) : World := cs.foldl execOutside w

structure Test where
  before   : List Cmd := []      -- between the previous test's post action and this one's pre action
  setup    : List Cmd := []
  body     : List Cmd := []
  teardown : List Cmd := []
deriving Repr, Inhabited

inductive Phase
  | setup | body | teardown
deriving DecidableEq, Repr, Inhabited

/-- `Utest::run`: setup; the body only if the setup completed; the teardown always -/
def enterPhase (w : World) : Phase → World
  | .setup => { w with aborted := false }
  | .body => w
  | .teardown => { w with aborted := false }

def runPhase (w : World) (ph : Phase) (cs : List Cmd) : World := runCmds (enterPhase w ph) cs

def runBody (w : World) (t : Test) : World :=
  runPhase (runPhase (runPhase w .setup t.setup) .body t.body) .teardown t.teardown

def rstep (t : Test) (w : World) : RStep → World
  | .preActions => preTestAction w
  | .createTest => w
  | .runTest => runBody w t
  | .destroyTest => w
  | .postActions => postTestAction w

/-- bookkeeping of the model, not code: forget the previous test's observations -/
def clearObs (w : World) : World := { w with leakFail := none, warned := false, aborted := false }

/-- `UtestShell::runOneTestInCurrentProcess` with the leak plugin as the only plugin -/
def runOneTest (w : World) (t : Test) : World := runOneTestOrder.foldl (rstep t) w

def runTest (w : World) (t : Test) : World := runOneTest (runOutside (clearObs w) t.before) t

structure Verdict where
  failures : Nat                  -- failures recorded for this test (own and leak)
  leakFail : Option LeakReport
  warned   : Bool
deriving Repr, Inhabited

def verdictOf (w0 w1 : World) : Verdict :=
  { failures := w1.failures - w0.failures, leakFail := w1.leakFail, warned := w1.warned }

def runTests : World → List Test → World × List Verdict
  | w, [] => (w, [])
  | w, t :: ts => ((runTests (runTest w t) ts).1, verdictOf w (runTest w t) :: (runTests (runTest w t) ts).2)

/-- `FinalReport(0)` after the run: total and entries of the returned text (`none`: "") -/
def finalReport (w : World) : Option LeakReport :=
  if w.det.totalMemoryLeaks finalCountPeriod != 0 then
    some { entries := (w.det.report finalReportPeriod).out, total := (w.det.leaksIn finalReportPeriod).length }
  else none

/-- `FinalReport(toBeDeletedLeaks)`: the report is produced unless exactly the announced number
    of blocks (those the caller is still going to delete) is outstanding -/
def finalReportN (w : World) (toBeDeleted : Nat) : Option LeakReport :=
  if w.det.totalMemoryLeaks finalCountPeriod != toBeDeleted then
    some { entries := (w.det.report finalReportPeriod).out, total := (w.det.leaksIn finalReportPeriod).length }
  else none

/-! ## switches outside the tests -/

def setOverloads (w : World) (b : Bool) : World := { w with overloads := b }

/-- `turnOffNewDeleteOverloads()` / `turnOnDefaultNotThreadSafeNewDeleteOverloads()`: what
    `areNewDeleteOverloaded()` answers afterwards is computed from the source -/
def turnOffOverloads (w : World) : World := setOverloads w overloadsAfterTurnOff
def turnOnOverloads (w : World) : World := setOverloads w overloadsAfterTurnOn

/-- `destroyGlobalDetector()`: overloads off, detector deleted; the next `getGlobalDetector()`
    constructs a new one -/
def destroyGlobalDetector (w : World) : World :=
  { (if destroyTurnsOverloadsOff then turnOffOverloads w else w) with det := Detector.init }

/-! ## a test whose object allocates in its constructor / destructor

`createTest` and `destroyTest` are calls of `runOneTestInCurrentProcess` between the pre and the
post actions (regenerated order `runOneTestOrder`): what the constructor and the destructor of
the `Utest` object (members of a TEST_GROUP) allocate is inside the leak window. -/

/-- memory operations of a constructor / destructor: no checks, no declarations -/
def execMem (w : World) : Cmd → World
  | .alloc id size => doAlloc w id size
  | .free id => doFree w id
  | .realloc id newId size => doRealloc w id newId size
  | .reallocFail id size => execCmd w (.reallocFail id size)
  | .envSeq n => execCmd w (.envSeq n)
  | _ => w

def runMem (w : World) (cs : List Cmd) : World := cs.foldl execMem w

structure TestObj where
  ctor : List Cmd := []
  test : Test := {}
  dtor : List Cmd := []
deriving Repr, Inhabited

def rstepObj (t : TestObj) (w : World) : RStep → World
  | .preActions => preTestAction w
  | .createTest => runMem w t.ctor
  | .runTest => runBody w t.test
  | .destroyTest => runMem w t.dtor
  | .postActions => postTestAction w

def runOneTestObj (w : World) (t : TestObj) : World := runOneTestOrder.foldl (rstepObj t) w

def runTestObj (w : World) (t : TestObj) : World := runOneTestObj (runOutside (clearObs w) t.test.before) t

/-! ## a test run in a separate process (`-p`, `setRunInSeperateProcess`)

`PlatformSpecificRunTestInASeperateProcess`: the child runs `runOneTestInCurrentProcess` (pre
actions, test, post actions) on its copy of everything and exits with "did the failure count
grow"; the parent only adds one failure when the child's exit status is not 0. -/

def joinSeparate (parent child : World) : World :=
  if child.failures > parent.failures then { parent with failures := parent.failures + 1 } else parent

def runTestSeparate (w : World) (t : TestObj) : World :=
  joinSeparate (runOutside (clearObs w) t.test.before) (runTestObj w t)

/-! ## `firstPlugin_`: which plugin object the declaration macros reach

`EXPECT_N_LEAKS(n)` / `IGNORE_ALL_LEAKS_IN_TEST()` call `getFirstPlugin()->…`.  The static is
written by the plugin constructor only (whether "only while it is NULL" is read from the source);
the destructor does not touch it.  A process holds the installed plugin (with its detector and
the test result: a `World`) and possibly further plugin objects that were never installed. -/

/-- the constructor's `firstPlugin_` line, run by the plugin object `this` -/
def afterConstruct (first this : FirstPlugin) : FirstPlugin :=
  if firstPluginSetOnlyIfNull then (match first with | .unset => this | f => f) else this

structure Proc where
  w     : World
  first : FirstPlugin
deriving Repr, Inhabited

/-- the installed plugin is the first plugin object of the process (as in
    `CommandLineTestRunner::RunAllTests`) -/
def Proc.init (overloads : Bool) : Proc :=
  { w := World.init overloads, first := afterConstruct .unset .installed }

inductive ProcOp
  | constructOther        -- `MemoryLeakWarningPlugin other("…", &otherDetector);` never installed
  | destroyOther          -- its destructor
deriving DecidableEq, Repr, Inhabited

def Proc.step (p : Proc) : ProcOp → Proc
  | .constructOther => { p with first := afterConstruct p.first .other }
  | .destroyOther => p

/-- a scripted command: declarations go to whichever plugin object `firstPlugin_` points to -/
def Proc.execCmd (p : Proc) (c : Cmd) : Proc :=
  match c with
  | .expectLeaks _ => if p.first = .installed then { p with w := LeakPlugin.execCmd p.w c } else p
  | .ignoreLeaks => if p.first = .installed then { p with w := LeakPlugin.execCmd p.w c } else p
  | _ => { p with w := LeakPlugin.execCmd p.w c }

end LeakPlugin
