import CppUModel.Model.MockEntry
import CppUModel.Spec.MockValue
/-!
# Integer return-value readers: `MockActualCall::return…Value[OrDefault]`, `mock().…ReturnValue()`,
# `mock().return…ValueOrDefault(d)`

Every reader ends in a `MockNamedValue` getter.  Which one is read from the REGENERATED table
`Gen.MockEquals.retReaders` (extracted from MockActualCall.cpp / MockSupport.cpp); the getters are the
REGENERATED `get…Gen`.  A reader is modelled only when the getter's result type is the reader's own
return type (no conversion in between) — `retReaders_total` (Props/C09.lean) says that this is every reader.
The stored return value is the `MockNamedValue` of `andReturnValue(<typed value>)`; without one the
expectation's `returnValue_` is a fresh `MockNamedValue("")` (type `int`, 0, empty name = "has no return value").
-/
namespace Mock
open Gen.MockEquals

def mapInt {w : Nat} (signed : Bool) (r : Except Fail (BitVec w)) : Except Fail Int :=
  match r with
  | .ok n => .ok (resultInt signed n)
  | .error e => .error e

/-- kind of the result of a getter, by its C++ name -/
def getterKind (g : String) : Option String :=
  if g == "getIntValue" then some "int" else if g == "getUnsignedIntValue" then some "uint"
  else if g == "getLongIntValue" then some "long" else if g == "getUnsignedLongIntValue" then some "ulong"
  else if g == "getLongLongIntValue" then some "llong" else if g == "getUnsignedLongLongIntValue" then some "ullong"
  else none

/-- the integer a getter returns (or the test fails); a name that is no integer getter never returns -/
def getterRun (g : String) (v : MVal) : Except Fail Int :=
  if g == "getIntValue" then mapInt getIntValueSigned (getIntValueGen v)
  else if g == "getUnsignedIntValue" then mapInt getUnsignedIntValueSigned (getUnsignedIntValueGen v)
  else if g == "getLongIntValue" then mapInt getLongIntValueSigned (getLongIntValueGen v)
  else if g == "getUnsignedLongIntValue" then mapInt getUnsignedLongIntValueSigned (getUnsignedLongIntValueGen v)
  else if g == "getLongLongIntValue" then mapInt getLongLongIntValueSigned (getLongLongIntValueGen v)
  else if g == "getUnsignedLongLongIntValue" then mapInt getUnsignedLongLongIntValueSigned (getUnsignedLongLongIntValueGen v)
  else .error (.typeMismatch g)

def findReader (level reader : String) : Option (String × String × String) :=
  (retReaders.find? fun r => r.1 == level && r.2.1 == reader).map (·.2.2)

/-- the getter a plain reader ends in — only when the getter's result kind is the reader's own return kind -/
def plainTarget (level reader : String) : Option String :=
  match findReader level reader with
  | some (kind, "plain", g) => if getterKind g == some kind then some g else none
  | _ => none

/-- how a reader works: (is it an `…OrDefault` form, the getter it ends in); `none` = not of a modelled shape -/
def readerPlan (level reader : String) : Option (Bool × String) :=
  match findReader level reader with
  | some (_, "plain", _) => (plainTarget level reader).map fun g => (false, g)
  | some (kind, "orDefault", p) =>
    match findReader level p with
    | some (kind', "plain", _) => if kind' == kind then (plainTarget level p).map fun g => (true, g) else none
    | _ => none
  | _ => none

/-- what `MockCheckedExpectedCall::returnValue_` is when no `andReturnValue` was called -/
def noReturnValue : MVal := .int 0

/-- result of reader `reader` of `level` when the matching expectation stored `stored` (none = no return value)
    and `d` is the default passed to an `…OrDefault` reader; `none` = the reader is not of a modelled shape -/
def readerResult (level reader : String) (stored : Option MVal) (d : Int) : Option (Except Fail Int) :=
  (readerPlan level reader).map fun plan =>
    match plan.1, stored with
    | true, none => .ok d
    | true, some v => getterRun plan.2 v
    | false, _ => getterRun plan.2 (stored.getD noReturnValue)

/-- the wiring every reader must have (level, reader, return kind, form, target) -/
def requiredRetReaders : List (String × String × String × String × String) :=
  [ ("call", "returnIntValue", "int", "plain", "getIntValue"),
    ("call", "returnIntValueOrDefault", "int", "orDefault", "returnIntValue"),
    ("call", "returnUnsignedIntValue", "uint", "plain", "getUnsignedIntValue"),
    ("call", "returnUnsignedIntValueOrDefault", "uint", "orDefault", "returnUnsignedIntValue"),
    ("call", "returnLongIntValue", "long", "plain", "getLongIntValue"),
    ("call", "returnLongIntValueOrDefault", "long", "orDefault", "returnLongIntValue"),
    ("call", "returnUnsignedLongIntValue", "ulong", "plain", "getUnsignedLongIntValue"),
    ("call", "returnUnsignedLongIntValueOrDefault", "ulong", "orDefault", "returnUnsignedLongIntValue"),
    ("call", "returnLongLongIntValue", "llong", "plain", "getLongLongIntValue"),
    ("call", "returnLongLongIntValueOrDefault", "llong", "orDefault", "returnLongLongIntValue"),
    ("call", "returnUnsignedLongLongIntValue", "ullong", "plain", "getUnsignedLongLongIntValue"),
    ("call", "returnUnsignedLongLongIntValueOrDefault", "ullong", "orDefault", "returnUnsignedLongLongIntValue"),
    ("support", "intReturnValue", "int", "plain", "getIntValue"),
    ("support", "returnIntValueOrDefault", "int", "orDefault", "intReturnValue"),
    ("support", "unsignedIntReturnValue", "uint", "plain", "getUnsignedIntValue"),
    ("support", "returnUnsignedIntValueOrDefault", "uint", "orDefault", "unsignedIntReturnValue"),
    ("support", "longIntReturnValue", "long", "plain", "getLongIntValue"),
    ("support", "returnLongIntValueOrDefault", "long", "orDefault", "longIntReturnValue"),
    ("support", "unsignedLongIntReturnValue", "ulong", "plain", "getUnsignedLongIntValue"),
    ("support", "returnUnsignedLongIntValueOrDefault", "ulong", "orDefault", "unsignedLongIntReturnValue"),
    ("support", "longLongIntReturnValue", "llong", "plain", "getLongLongIntValue"),
    ("support", "returnLongLongIntValueOrDefault", "llong", "orDefault", "longLongIntReturnValue"),
    ("support", "unsignedLongLongIntReturnValue", "ullong", "plain", "getUnsignedLongLongIntValue"),
    ("support", "returnUnsignedLongLongIntValueOrDefault", "ullong", "orDefault", "unsignedLongLongIntReturnValue") ]

end Mock
