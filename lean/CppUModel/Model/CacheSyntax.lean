/-!
Pointer-level statement language for the list code of `SimpleStringInternalCache`
(src/CppUTest/SimpleStringInternalCache.cpp).  `translate/extract_cache_code.py` regenerates the member
functions in this language on every run (`Gen/CacheCode.lean`); `Model/CacheHeap.lean` interprets it over
a heap of `SimpleStringMemoryBlock` cells.  Every value is a `Nat`: pointers are ids of underlying
allocations (0 = NULLPTR), cache nodes are indices into `cache_[]`.
-/
namespace Cache.Heap

inductive E
  | lit (n : Nat)
  | var (x : String)
  | succ (e : E)
  | next (p : E)          -- p->next_
  | memory (p : E)        -- p->memory_
  | nfree (n : E)         -- cache_[n].freeMemoryHead_
  | nused (n : E)         -- cache_[n].usedMemoryHead_
  | nsize (n : E)         -- cache_[n].size_
  | nonCached             -- nonCachedAllocations_
  | indexFor (sz : E)     -- getIndexForCache(sz)
deriving DecidableEq, Repr, Inhabited

inductive B
  | nonNull (p : E)
  | eq (a b : E)
  | le (a b : E)
  | lt (a b : E)
  | and (a b : B)         -- short-circuit `&&`
  | not (a : B)
  | warned                -- hasWarnedAboutDeallocations
deriving DecidableEq, Repr, Inhabited

inductive Stmt
  | skip
  | seq (a b : Stmt)
  | set (x : String) (e : E)          -- declaration of / assignment to a local
  | setNfree (n e : E)
  | setNused (n e : E)
  | setNonCached (e : E)
  | setNext (p e : E)                 -- p->next_ = e
  | setMemory (p e : E)               -- p->memory_ = e
  | ualloc (x : String) (sz : E)      -- x = allocator_->alloc_memory(sz)
  | ufree (p sz : E)                  -- allocator_->free_memory(p, sz)
  | setWarned
  | print                             -- UtestShell::getCurrent()->print(warning text)
  | ite (c : B) (t f : Stmt)
  | while (c : B) (body : Stmt)
  | ret (e : E)
  | retVoid
deriving DecidableEq, Repr, Inhabited

end Cache.Heap
