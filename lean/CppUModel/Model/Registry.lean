import CppUModel.Spec.Text
import CppUModel.Gen.RegistryShape
/-!
Model of the test registry loop and of test ordering, written from the C++ line by line:

* `TestFilter::match`                         (src/CppUTest/TestFilter.cpp:66-76)
* `UtestShell::match`, `UtestShell::shouldRun` (src/CppUTest/Utest.cpp:358-371)
* `UtestShell::runOneTest`, `IgnoredUtestShell::runOneTest/setRunIgnored` (Utest.cpp:186-195, 872-886)
* `TestResult::count*`                        (src/CppUTest/TestResult.cpp:85-108)
* `TestRegistry::runAllTests`, `endOfGroup`, `testShouldRun`, `addTest`, `shuffleTests`,
  `reverseTests`                              (src/CppUTest/TestRegistry.cpp)
* `UtestShellPointerArray` (constructor, `swap`, `shuffle`, `reverse`, `relinkTestsInOrder`,
  `getFirstTest`)                             (Utest.cpp:890-964)

Where the C++ calls `SimpleString::contains` / `operator==` the model uses `Text.isInfix` / `==`
(the link between SimpleString's code and these textbook definitions is property C13's job).
The loop-free decision functions (`TestFilter::match`, `shouldRun`, `endOfGroup`,
`IgnoredUtestShell::runOneTest`'s branch) are REGENERATED from the source
(`Gen/RegistryShape.lean`, translate/extract_registry.py) and used here, so the theorems are
about the decision logic the current source has.

Test objects are identified by ids (the harness numbers them in registration order); their
`next_` pointers are a finite map `Next` from id to optional id and `tests_` is the head.
The random numbers `PlatformSpecificRand()` returns are an INPUT (`rs`), already cast to
`size_t`.  Core Lean only.
-/
namespace Registry
open Text (Bytes)

/-! ## tests, filters -/

/-- a `UtestShell` (`ignored = false`) or an `IgnoredUtestShell` (`ignored = true`) -/
structure Test where
  id      : Nat
  group   : Bytes
  name    : Bytes
  ignored : Bool
deriving Repr, DecidableEq, Inhabited

/-- a `TestFilter` -/
structure Filter where
  text   : Bytes
  strict : Bool
  invert : Bool
deriving Repr, DecidableEq, Inhabited

/-- `TestFilter::match(name)`: the decision function is the regenerated one, applied to the two
    string comparisons the C++ makes (`name == filter_`, `name.contains(filter_)`) -/
def Filter.matches (f : Filter) (name : Bytes) : Bool :=
  Gen.Registry.filterMatch f.strict f.invert (name == f.text) (Text.isInfix name f.text)

/-- the `for` loop of `UtestShell::match` -/
def matchLoop (target : Bytes) : List Filter → Bool
  | [] => false
  | f :: fs => if f.matches target then true else matchLoop target fs

/-- `UtestShell::match(target, filters)`: `filters == NULL` accepts -/
def matchFilters (target : Bytes) (filters : List Filter) : Bool :=
  match filters with
  | [] => true
  | f :: fs => matchLoop target (f :: fs)

/-- what a run is configured with: the two filter lists of the registry and `runIgnored_` -/
structure Cfg where
  groupFilters : List Filter
  nameFilters  : List Filter
  runIgnored   : Bool
deriving Repr, Inhabited

/-- `UtestShell::shouldRun(groupFilters, nameFilters)` -/
def shouldRun (cfg : Cfg) (t : Test) : Bool :=
  Gen.Registry.shouldRun (matchFilters t.group cfg.groupFilters) (matchFilters t.name cfg.nameFilters)

/-! ## TestResult counters and output callbacks -/

structure Counters where
  testCount        : Nat := 0
  runCount         : Nat := 0
  ignoredCount     : Nat := 0
  filteredOutCount : Nat := 0
deriving Repr, DecidableEq, Inhabited

def Counters.countTest (c : Counters) : Counters := { c with testCount := c.testCount + 1 }
def Counters.countRun (c : Counters) : Counters := { c with runCount := c.runCount + 1 }
def Counters.countIgnored (c : Counters) : Counters := { c with ignoredCount := c.ignoredCount + 1 }
def Counters.countFilteredOut (c : Counters) : Counters :=
  { c with filteredOutCount := c.filteredOutCount + 1 }

/-- what the `TestOutput` sees, in order, plus the execution of a test body (`exec`).
    `testEnd`/`groupEnd` carry the test for the theorems; the C++ callbacks only get the
    `TestResult`, so the id is not rendered. -/
inductive Ev
  | testsStarted
  | groupStart (id : Nat)
  | testStart (id : Nat)
  | exec (id : Nat)
  | testEnd (id : Nat)
  | groupEnd (id : Nat)
  | testsEnded
deriving Repr, DecidableEq, Inhabited

def Ev.render : Ev → String
  | .testsStarted => "S"
  | .groupStart i => s!"gs{i}"
  | .testStart i  => s!"ts{i}"
  | .exec i       => s!"x{i}"
  | .testEnd _    => "te"
  | .groupEnd _   => "ge"
  | .testsEnded   => "E"

/-- `UtestShell::runOneTest`: `countRun`, then the body runs (once) -/
def utestShellRunOneTest (t : Test) (c : Counters) : Counters × List Ev :=
  (c.countRun, [.exec t.id])

/-- the shell's own `runIgnored_` at the point `IgnoredUtestShell::runOneTest` reads it: the loop
    has just executed `if (runIgnored_) test->setRunIgnored();` (`setRunIgnored`: `runIgnored_ = true`) -/
def shellFlagAtUse (registryFlag shellFlagBefore : Bool) : Bool :=
  if registryFlag then true else shellFlagBefore

/-- `IgnoredUtestShell::runOneTest`.  It reads the shell's own `runIgnored_`, which is
    `shellFlagAtUse registry.runIgnored_ before`; a shell's flag is only ever set from the
    registry's flag and neither is ever cleared, so `before → registry flag`, hence the value
    read equals the registry's flag (`Props/C02.lean`, `ignored_flag_is_registry_flag`). -/
def ignoredRunOneTest (cfg : Cfg) (t : Test) (c : Counters) : Counters × List Ev :=
  if Gen.Registry.ignoredRuns cfg.runIgnored then utestShellRunOneTest t c else (c.countIgnored, [])

/-- virtual dispatch on the shell's class -/
def runOneTest (cfg : Cfg) (t : Test) (c : Counters) : Counters × List Ev :=
  if t.ignored then ignoredRunOneTest cfg t c else utestShellRunOneTest t c

/-- loop body between `countTest()` and the end-of-group test:
    `testShouldRun` (which counts the filtered-out test) and the started/run/ended triple -/
def testStep (cfg : Cfg) (t : Test) (c : Counters) : Counters × List Ev :=
  if shouldRun cfg t then
    ((runOneTest cfg t c.countTest).1,
     [Ev.testStart t.id] ++ (runOneTest cfg t c.countTest).2 ++ [Ev.testEnd t.id])
  else (c.countTest.countFilteredOut, [])

/-- `TestRegistry::endOfGroup(test)`; `rest` is what follows `test` in the linked list.
    The regenerated decision function gets: `test` is NULL, `test->getNext()` is NULL,
    `test->getGroup() != test->getNext()->getGroup()`. -/
def endOfGroup (t : Test) : List Test → Bool
  | [] => Gen.Registry.endOfGroup false true false
  | n :: _ => Gen.Registry.endOfGroup false false (t.group != n.group)

/-- the `for` loop of `TestRegistry::runAllTests`; the `Bool` is `groupStart` -/
def runLoop (cfg : Cfg) : Bool → List Test → Counters → Counters × List Ev
  | _, [], c => (c, [])
  | gs, t :: rest, c =>
    let r := runLoop cfg (endOfGroup t rest) rest (testStep cfg t c).1
    (r.1,
     (if gs then [Ev.groupStart t.id] else []) ++ (testStep cfg t c).2 ++
       (if endOfGroup t rest then [Ev.groupEnd t.id] else []) ++ r.2)

/-- `TestRegistry::runAllTests(result)` over the list the `next_` pointers form, with a fresh
    `TestResult` -/
def runAllTests (cfg : Cfg) (ts : List Test) : Counters × List Ev :=
  let r := runLoop cfg true ts {}
  (r.1, [Ev.testsStarted] ++ r.2 ++ [Ev.testsEnded])

/-! ## the linked list of shells -/

/-- the `next_` fields: id ↦ id of the next shell, `none` = NULL -/
abbrev Next := Nat → Option Nat

/-- `shell->addTest(test)`: `next_ = test` -/
def setNext (nx : Next) (i : Nat) (v : Option Nat) : Next := fun k => if k = i then v else nx k

/-- `for (t = first; t != NULL; t = t->getNext())`: the ids visited.  `fuel` bounds the walk
    (the C++ loop has no bound; on a well-formed list the bound is never reached). -/
def walk (nx : Next) : Nat → Option Nat → List Nat
  | 0, _ => []
  | _ + 1, none => []
  | f + 1, some i => i :: walk nx f (nx i)

/-- `UtestShell::countTests()`: `next_ ? next_->countTests() + 1 : 1` -/
def countTests (nx : Next) : Nat → Nat → Nat
  | 0, _ => 1
  | f + 1, i =>
    match nx i with
    | some n => countTests nx f n + 1
    | none => 1

/-! ## UtestShellPointerArray -/

/-- the copy loop of the constructor: `arrayOfTests_[i] = currentTest; currentTest = next` -/
def copyLoop (nx : Next) : Nat → Option Nat → Array Nat → Array Nat
  | 0, _, a => a
  | _ + 1, none, a => a            -- would dereference NULL; unreachable when count = countTests
  | k + 1, some i, a => copyLoop nx k (nx i) (a.push i)

/-- `UtestShellPointerArray(firstTest)` -/
def mkArray (nx : Next) (fuel : Nat) (first : Option Nat) : Array Nat :=
  match first with
  | none => #[]
  | some i => copyLoop nx (countTests nx fuel i) (some i) #[]

/-- `swap(index1, index2)` (the C++ does not check bounds; callers stay inside) -/
def swap (a : Array Nat) (i j : Nat) : Array Nat := a.swapIfInBounds i j

/-- the loop of `shuffle`: `for (i = count_-1; i >= 1; --i) { j = rand() % (i+1); swap(i, j); }`;
    the first argument is `i`.  A stream that is too short stops the loop. -/
def shuffleLoop : Nat → List Nat → Array Nat → Array Nat
  | 0, _, a => a
  | _ + 1, [], a => a
  | k + 1, r :: rs, a => shuffleLoop k rs (swap a (k + 1) (r % Gen.Registry.shuffleModulus (k + 1)))

/-- `shuffle(seed)` without the relink; `rs` = the values `PlatformSpecificRand()` returns -/
def shuffleArr (rs : List Nat) (a : Array Nat) : Array Nat :=
  if a.size = 0 then a else shuffleLoop (a.size - 1) rs a

/-- random numbers `shuffle` consumes for `n` tests -/
def randsNeeded (n : Nat) : Nat := n - 1

/-- the loop of `reverse`: `for (i = 0; i < halfCount; i++) swap(i, count_ - i - 1)`;
    arguments: remaining iterations, `i` -/
def reverseLoop (count : Nat) : Nat → Nat → Array Nat → Array Nat
  | 0, _, a => a
  | f + 1, i, a => reverseLoop count f (i + 1) (swap a i (count - i - 1))

/-- `reverse()` without the relink -/
def reverseArr (a : Array Nat) : Array Nat :=
  if a.size = 0 then a else reverseLoop a.size (a.size / 2) 0 a

/-- `relinkTestsInOrder`: `tests = NULL; for i: tests = array[count_-i-1]->addTest(tests)`;
    the first argument is `count_ - i` (so the index used is `k`) -/
def relinkFrom (a : Array Nat) : Nat → Next → Option Nat → Next × Option Nat
  | 0, nx, tests => (nx, tests)
  | k + 1, nx, tests =>
    match a[k]? with
    | some x => relinkFrom a k (setNext nx x tests) (some x)
    | none => (nx, tests)          -- out of bounds read; unreachable (k < count_)

def relink (a : Array Nat) (nx : Next) : Next := (relinkFrom a a.size nx none).1

/-- `getFirstTest()` = `get(0)` -/
def firstOf (a : Array Nat) : Option Nat := a[0]?

/-! ## the registry -/

structure Reg where
  objs         : Array Test          -- the shells that exist (id = index); attributes never change
  next         : Next
  head         : Option Nat          -- `tests_`
  groupFilters : List Filter
  nameFilters  : List Filter
  runIgnored   : Bool
deriving Inhabited

def Reg.empty : Reg :=
  { objs := #[], next := fun _ => none, head := none, groupFilters := [], nameFilters := [],
    runIgnored := false }

def Reg.cfg (r : Reg) : Cfg :=
  { groupFilters := r.groupFilters, nameFilters := r.nameFilters, runIgnored := r.runIgnored }

/-- ids in list order -/
def Reg.order (r : Reg) : List Nat := walk r.next r.objs.size r.head

/-- the shells in list order -/
def Reg.tests (r : Reg) : List Test := r.order.filterMap (fun i => r.objs[i]?)

/-- a new shell is created and registered: `tests_ = test->addTest(tests_)` -/
def Reg.addTest (r : Reg) (group name : Bytes) (ignored : Bool) : Reg :=
  { r with objs := r.objs.push { id := r.objs.size, group := group, name := name, ignored := ignored },
           next := setNext r.next r.objs.size r.head,
           head := some r.objs.size }

/-- `TestRegistry::reverseTests` -/
def Reg.reverseTests (r : Reg) : Reg :=
  { r with next := (if (mkArray r.next r.objs.size r.head).size = 0 then r.next
                    else relink (reverseArr (mkArray r.next r.objs.size r.head)) r.next),
           head := firstOf (reverseArr (mkArray r.next r.objs.size r.head)) }

/-- `TestRegistry::shuffleTests(seed)`, `rs` = the random numbers drawn -/
def Reg.shuffleTests (r : Reg) (rs : List Nat) : Reg :=
  { r with next := (if (mkArray r.next r.objs.size r.head).size = 0 then r.next
                    else relink (shuffleArr rs (mkArray r.next r.objs.size r.head)) r.next),
           head := firstOf (shuffleArr rs (mkArray r.next r.objs.size r.head)) }

def Reg.run (r : Reg) : Counters × List Ev := runAllTests r.cfg r.tests

end Registry
