import CppUModel.Spec.Text
import CppUModel.Gen.RegistryShape
/-!
Model of the test registry loop and of test ordering, written from the C++ line by line:

* `TestFilter::match`                         (src/CppUTest/TestFilter.cpp:66-76)
* `UtestShell::match`, `UtestShell::shouldRun` (src/CppUTest/Utest.cpp:358-371)
* `UtestShell::runOneTest`, `IgnoredUtestShell::runOneTest/setRunIgnored` (Utest.cpp:186-195, 872-886)
* `TestResult::count*`                        (src/CppUTest/TestResult.cpp:85-108)
* `TestRegistry::runAllTests`, `endOfGroup`, `testShouldRun`, `addTest`, `shuffleTests`,
  `reverseTests`                              (src/CppUTest/TestRegistry.cpp)
* `UtestShellPointerArray` (constructor, `swap`, `shuffle`, `reverse`, `relinkTestsInOrder`,
  `getFirstTest`)                             (Utest.cpp:890-964)

Where the C++ calls `SimpleString::contains` / `operator==` the model uses `Text.isInfix` / `==`
(the link between SimpleString's code and these textbook definitions is property C13's job).
The loop-free decision functions (`TestFilter::match`, `shouldRun`, `endOfGroup`,
`IgnoredUtestShell::runOneTest`'s branch) are REGENERATED from the source
(`Gen/RegistryShape.lean`, translate/extract_registry.py) and used here, so the theorems are
about the decision logic the current source has.

Test objects are identified by ids (the harness numbers them in registration order); their
`next_` pointers are a finite map `Next` from id to optional id and `tests_` is the head.
The random numbers `PlatformSpecificRand()` returns are an INPUT (`rs`), already cast to
`size_t`.  Core Lean only.
-/
namespace Registry
open Text (Bytes)

/-! ## tests, filters -/

/-- a `UtestShell` (`ignored = false`) or an `IgnoredUtestShell` (`ignored = true`) -/
structure Test where
  id      : Nat
  group   : Bytes
  name    : Bytes
  ignored : Bool
  /-- `IgnoredUtestShell::runIgnored_` of this shell (meaningless for a plain `UtestShell`) -/
  flag    : Bool := false
  file    : Bytes := []
  line    : Nat := 0
deriving Repr, DecidableEq, Inhabited

/-- `shell->setRunIgnored()`: `IgnoredUtestShell` sets its flag, `UtestShell::setRunIgnored` is empty -/
def Test.setRunIgnored (t : Test) : Test := if t.ignored then { t with flag := true } else t

/-- `shell->willRun()`: `UtestShell::willRun` is `true`; `IgnoredUtestShell::willRun` is
    `if (runIgnored_) return UtestShell::willRun(); return false;` -/
def Test.willRun (t : Test) : Bool := if t.ignored then (if t.flag then true else false) else true

/-- a `TestFilter` -/
structure Filter where
  text   : Bytes
  strict : Bool
  invert : Bool
deriving Repr, DecidableEq, Inhabited

/-- `TestFilter::match(name)`: the decision function is the regenerated one, applied to the two
    string comparisons the C++ makes (`name == filter_`, `name.contains(filter_)`) -/
def Filter.matches (f : Filter) (name : Bytes) : Bool :=
  Gen.Registry.filterMatch f.strict f.invert (name == f.text) (Text.isInfix name f.text)

/-- the `for` loop of `UtestShell::match` -/
def matchLoop (target : Bytes) : List Filter → Bool
  | [] => false
  | f :: fs => if f.matches target then true else matchLoop target fs

/-- `UtestShell::match(target, filters)`: `filters == NULL` accepts -/
def matchFilters (target : Bytes) (filters : List Filter) : Bool :=
  match filters with
  | [] => true
  | f :: fs => matchLoop target (f :: fs)

/-- what a run is configured with: the two filter lists of the registry and `runIgnored_` -/
structure Cfg where
  groupFilters : List Filter
  nameFilters  : List Filter
  runIgnored   : Bool
deriving Repr, Inhabited

/-- `UtestShell::shouldRun(groupFilters, nameFilters)` -/
def shouldRun (cfg : Cfg) (t : Test) : Bool :=
  Gen.Registry.shouldRun (matchFilters t.group cfg.groupFilters) (matchFilters t.name cfg.nameFilters)

/-! ## TestResult counters and output callbacks -/

structure Counters where
  testCount        : Nat := 0
  runCount         : Nat := 0
  ignoredCount     : Nat := 0
  filteredOutCount : Nat := 0
deriving Repr, DecidableEq, Inhabited

def Counters.countTest (c : Counters) : Counters := { c with testCount := c.testCount + 1 }
def Counters.countRun (c : Counters) : Counters := { c with runCount := c.runCount + 1 }
def Counters.countIgnored (c : Counters) : Counters := { c with ignoredCount := c.ignoredCount + 1 }
def Counters.countFilteredOut (c : Counters) : Counters :=
  { c with filteredOutCount := c.filteredOutCount + 1 }

/-- what the `TestOutput` sees, in order, plus the execution of a test body (`exec`).
    `testEnd`/`groupEnd` carry the test for the theorems; the C++ callbacks only get the
    `TestResult`, so the id is not rendered. -/
inductive Ev
  | testsStarted
  | groupStart (id : Nat)
  | testStart (id : Nat)
  | exec (id : Nat)
  | testEnd (id : Nat)
  | groupEnd (id : Nat)
  | testsEnded
deriving Repr, DecidableEq, Inhabited

def Ev.render : Ev → String
  | .testsStarted => "S"
  | .groupStart i => s!"gs{i}"
  | .testStart i  => s!"ts{i}"
  | .exec i       => s!"x{i}"
  | .testEnd _    => "te"
  | .groupEnd _   => "ge"
  | .testsEnded   => "E"

/-- `UtestShell::runOneTest`: `countRun`, then the body runs (once) -/
def utestShellRunOneTest (t : Test) (c : Counters) : Counters × List Ev :=
  (c.countRun, [.exec t.id])

/-- the shell's own `runIgnored_` at the point `IgnoredUtestShell::runOneTest` reads it: the loop
    has just executed `if (runIgnored_) test->setRunIgnored();` (`setRunIgnored`: `runIgnored_ = true`) -/
def shellFlagAtUse (registryFlag shellFlagBefore : Bool) : Bool :=
  if registryFlag then true else shellFlagBefore

/-- `IgnoredUtestShell::runOneTest`.  It reads the shell's own `runIgnored_`, which at this
    point is `shellFlagAtUse registry.runIgnored_ t.flag` (`t.flag` = the shell's flag before the
    iteration: set by an earlier run with run-ignored on, or by a direct `shell->setRunIgnored()`). -/
def ignoredRunOneTest (cfg : Cfg) (t : Test) (c : Counters) : Counters × List Ev :=
  if Gen.Registry.ignoredRuns (shellFlagAtUse cfg.runIgnored t.flag) then utestShellRunOneTest t c
  else (c.countIgnored, [])

/-- virtual dispatch on the shell's class -/
def runOneTest (cfg : Cfg) (t : Test) (c : Counters) : Counters × List Ev :=
  if t.ignored then ignoredRunOneTest cfg t c else utestShellRunOneTest t c

/-- loop body between `countTest()` and the end-of-group test:
    `testShouldRun` (which counts the filtered-out test) and the started/run/ended triple -/
def testStep (cfg : Cfg) (t : Test) (c : Counters) : Counters × List Ev :=
  if shouldRun cfg t then
    ((runOneTest cfg t c.countTest).1,
     [Ev.testStart t.id] ++ (runOneTest cfg t c.countTest).2 ++ [Ev.testEnd t.id])
  else (c.countTest.countFilteredOut, [])

/-- `TestRegistry::endOfGroup(test)`; `rest` is what follows `test` in the linked list.
    The regenerated decision function gets: `test` is NULL, `test->getNext()` is NULL,
    `test->getGroup() != test->getNext()->getGroup()`. -/
def endOfGroup (t : Test) : List Test → Bool
  | [] => Gen.Registry.endOfGroup false true false
  | n :: _ => Gen.Registry.endOfGroup false false (t.group != n.group)

/-- the `for` loop of `TestRegistry::runAllTests`; the `Bool` is `groupStart` -/
def runLoop (cfg : Cfg) : Bool → List Test → Counters → Counters × List Ev
  | _, [], c => (c, [])
  | gs, t :: rest, c =>
    let r := runLoop cfg (endOfGroup t rest) rest (testStep cfg t c).1
    (r.1,
     (if gs then [Ev.groupStart t.id] else []) ++ (testStep cfg t c).2 ++
       (if endOfGroup t rest then [Ev.groupEnd t.id] else []) ++ r.2)

/-- `TestRegistry::runAllTests(result)` over the list the `next_` pointers form, with a fresh
    `TestResult` -/
def runAllTests (cfg : Cfg) (ts : List Test) : Counters × List Ev :=
  let r := runLoop cfg true ts {}
  (r.1, [Ev.testsStarted] ++ r.2 ++ [Ev.testsEnded])

/-! ## the linked list of shells -/

/-- the `next_` fields: id ↦ id of the next shell, `none` = NULL -/
abbrev Next := Nat → Option Nat

/-- `shell->addTest(test)`: `next_ = test` -/
def setNext (nx : Next) (i : Nat) (v : Option Nat) : Next := fun k => if k = i then v else nx k

/-- `for (t = first; t != NULL; t = t->getNext())`: the ids visited.  `fuel` bounds the walk
    (the C++ loop has no bound; on a well-formed list the bound is never reached). -/
def walk (nx : Next) : Nat → Option Nat → List Nat
  | 0, _ => []
  | _ + 1, none => []
  | f + 1, some i => i :: walk nx f (nx i)

/-- `UtestShell::countTests()`: `next_ ? next_->countTests() + 1 : 1` -/
def countTests (nx : Next) : Nat → Nat → Nat
  | 0, _ => 1
  | f + 1, i =>
    match nx i with
    | some n => countTests nx f n + 1
    | none => 1

/-! ## UtestShellPointerArray -/

/-- the copy loop of the constructor: `arrayOfTests_[i] = currentTest; currentTest = next` -/
def copyLoop (nx : Next) : Nat → Option Nat → Array Nat → Array Nat
  | 0, _, a => a
  | _ + 1, none, a => a            -- would dereference NULL; unreachable when count = countTests
  | k + 1, some i, a => copyLoop nx k (nx i) (a.push i)

/-- `UtestShellPointerArray(firstTest)` -/
def mkArray (nx : Next) (fuel : Nat) (first : Option Nat) : Array Nat :=
  match first with
  | none => #[]
  | some i => copyLoop nx (countTests nx fuel i) (some i) #[]

/-- `swap(index1, index2)` (the C++ does not check bounds; callers stay inside) -/
def swap (a : Array Nat) (i j : Nat) : Array Nat := a.swapIfInBounds i j

/-- the loop of `shuffle`: `for (i = count_-1; i >= 1; --i) { j = rand() % (i+1); swap(i, j); }`;
    the first argument is `i`.  A stream that is too short stops the loop. -/
def shuffleLoop : Nat → List Nat → Array Nat → Array Nat
  | 0, _, a => a
  | _ + 1, [], a => a
  | k + 1, r :: rs, a => shuffleLoop k rs (swap a (k + 1) (r % Gen.Registry.shuffleModulus (k + 1)))

/-- `shuffle(seed)` without the relink; `rs` = the values `PlatformSpecificRand()` returns -/
def shuffleArr (rs : List Nat) (a : Array Nat) : Array Nat :=
  if a.size = 0 then a else shuffleLoop (a.size - 1) rs a

/-- random numbers `shuffle` consumes for `n` tests -/
def randsNeeded (n : Nat) : Nat := n - 1

/-- the loop of `reverse`: `for (i = 0; i < halfCount; i++) swap(i, count_ - i - 1)`;
    arguments: remaining iterations, `i` -/
def reverseLoop (count : Nat) : Nat → Nat → Array Nat → Array Nat
  | 0, _, a => a
  | f + 1, i, a => reverseLoop count f (i + 1) (swap a i (count - i - 1))

/-- `reverse()` without the relink -/
def reverseArr (a : Array Nat) : Array Nat :=
  if a.size = 0 then a else reverseLoop a.size (a.size / 2) 0 a

/-- `relinkTestsInOrder`: `tests = NULL; for i: tests = array[count_-i-1]->addTest(tests)`;
    the first argument is `count_ - i` (so the index used is `k`) -/
def relinkFrom (a : Array Nat) : Nat → Next → Option Nat → Next × Option Nat
  | 0, nx, tests => (nx, tests)
  | k + 1, nx, tests =>
    match a[k]? with
    | some x => relinkFrom a k (setNext nx x tests) (some x)
    | none => (nx, tests)          -- out of bounds read; unreachable (k < count_)

def relink (a : Array Nat) (nx : Next) : Next := (relinkFrom a a.size nx none).1

/-- `getFirstTest()` = `get(0)` -/
def firstOf (a : Array Nat) : Option Nat := a[0]?

/-! ## the registry -/

structure Reg where
  objs         : Array Test          -- the shells that exist (id = index); attributes never change
  next         : Next
  head         : Option Nat          -- `tests_`
  groupFilters : List Filter
  nameFilters  : List Filter
  runIgnored   : Bool
deriving Inhabited

def Reg.empty : Reg :=
  { objs := #[], next := fun _ => none, head := none, groupFilters := [], nameFilters := [],
    runIgnored := false }

def Reg.cfg (r : Reg) : Cfg :=
  { groupFilters := r.groupFilters, nameFilters := r.nameFilters, runIgnored := r.runIgnored }

/-- ids in list order -/
def Reg.order (r : Reg) : List Nat := walk r.next r.objs.size r.head

/-- the shells in list order -/
def Reg.tests (r : Reg) : List Test := r.order.filterMap (fun i => r.objs[i]?)

/-- a new shell is created and registered: `tests_ = test->addTest(tests_)` -/
def Reg.addTest (r : Reg) (group name : Bytes) (ignored : Bool) (file : Bytes := []) (line : Nat := 0) : Reg :=
  { r with objs := r.objs.push { id := r.objs.size, group := group, name := name, ignored := ignored,
                                 file := file, line := line },
           next := setNext r.next r.objs.size r.head,
           head := some r.objs.size }

/-- `TestRegistry::reverseTests` -/
def Reg.reverseTests (r : Reg) : Reg :=
  { r with next := (if (mkArray r.next r.objs.size r.head).size = 0 then r.next
                    else relink (reverseArr (mkArray r.next r.objs.size r.head)) r.next),
           head := firstOf (reverseArr (mkArray r.next r.objs.size r.head)) }

/-- `TestRegistry::shuffleTests(seed)`, `rs` = the random numbers drawn -/
def Reg.shuffleTests (r : Reg) (rs : List Nat) : Reg :=
  { r with next := (if (mkArray r.next r.objs.size r.head).size = 0 then r.next
                    else relink (shuffleArr rs (mkArray r.next r.objs.size r.head)) r.next),
           head := firstOf (shuffleArr rs (mkArray r.next r.objs.size r.head)) }

def Reg.run (r : Reg) : Counters × List Ev := runAllTests r.cfg r.tests

/-- what `runAllTests` leaves behind in the shells: `if (runIgnored_) test->setRunIgnored();` was
    executed for every shell of the list -/
def markRunIgnored (runIgnored : Bool) (order : List Nat) (objs : Array Test) : Array Test :=
  (objs.toList.map (fun t => if runIgnored && order.contains t.id then t.setRunIgnored else t)).toArray

def Reg.afterRun (r : Reg) : Reg :=
  { r with objs := markRunIgnored r.runIgnored r.order r.objs }

/-- a direct `shell->setRunIgnored()` on shell `i` (not through the registry) -/
def Reg.shellSetRunIgnored (r : Reg) (i : Nat) : Reg :=
  { r with objs := r.objs.modify i Test.setRunIgnored }

/-- `TestRegistry::unDoLastAddTest`: `tests_ = tests_ ? tests_->getNext() : NULL` -/
def Reg.unDoLastAddTest (r : Reg) : Reg :=
  { r with head := match r.head with
                   | some i => r.next i
                   | none => none }

/-! ## queries that walk the list (`rest` of a node = what its `next_` chain holds) -/

/-- `TestRegistry::findTestWithName`: first shell in list order whose name equals -/
def findTestWithName (name : Bytes) : List Test → Option Nat
  | [] => none
  | t :: rest => if t.name == name then some t.id else findTestWithName name rest

/-- `TestRegistry::findTestWithGroup` -/
def findTestWithGroup (group : Bytes) : List Test → Option Nat
  | [] => none
  | t :: rest => if t.group == group then some t.id else findTestWithGroup group rest

/-- `TestRegistry::countTests`: `tests_ ? tests_->countTests() : 0` over the list -/
def countTestsList : List Test → Nat
  | [] => 0
  | _ :: rest => countTestsList rest + 1

/-- `TestRegistry::getTestWithNext(test)`:
    `while (current && current->getNext() != test) current = current->getNext(); return current;`
    `target = none` is a NULL argument (the loop then stops at the last shell). -/
def getTestWithNext (target : Option Nat) : List Test → Option Nat
  | [] => none
  | [t] => if target = none then some t.id else none
  | t :: n :: rest => if target = some n.id then some t.id else getTestWithNext target (n :: rest)

/-! ## list modes (-lg / -ln / -ll); the printed text as bytes -/

def hash : UInt8 := 35
def space : UInt8 := 32
def dot : UInt8 := 46

/-- the loop of `listTestGroupNames`: `gname = "#" + group + "#"`; appended with a space unless
    `groupList.contains(gname)` -/
def lgLoop : List Test → Bytes → Bytes
  | [], acc => acc
  | t :: rest, acc =>
    if Text.isInfix acc ([hash] ++ t.group ++ [hash]) then lgLoop rest acc
    else lgLoop rest (acc ++ ([hash] ++ t.group ++ [hash]) ++ [space])

/-- `groupList.replace("#", ""); if (endsWith(" ")) groupList = subString(0, size - 1);` -/
def listFinish (acc : Bytes) : Bytes :=
  if Text.endsWith (Text.replaceAll acc [hash] []) [space] then
    Text.subString (Text.replaceAll acc [hash] []) 0 ((Text.replaceAll acc [hash] []).length - 1)
  else Text.replaceAll acc [hash] []

/-- `TestRegistry::listTestGroupNames`: what is printed -/
def listTestGroupNames (ts : List Test) : Bytes := listFinish (lgLoop ts [])

def groupDotName (t : Test) : Bytes := [hash] ++ t.group ++ [dot] ++ t.name ++ [hash]

/-- the loop of `listTestGroupAndCaseNames`: only tests for which `testShouldRun` holds are
    listed; `testShouldRun` counts the others as filtered out -/
def lnLoop (cfg : Cfg) : List Test → Bytes → Counters → Bytes × Counters
  | [], acc, c => (acc, c)
  | t :: rest, acc, c =>
    if shouldRun cfg t then
      (if Text.isInfix acc (groupDotName t) then lnLoop cfg rest acc c
       else lnLoop cfg rest (acc ++ groupDotName t ++ [space]) c)
    else lnLoop cfg rest acc c.countFilteredOut

/-- `TestRegistry::listTestGroupAndCaseNames`: printed text and the `TestResult` counters -/
def listTestGroupAndCaseNames (cfg : Cfg) (ts : List Test) : Bytes × Counters :=
  (listFinish (lnLoop cfg ts [] {}).1, (lnLoop cfg ts [] {}).2)

/-- `%d` of a non-negative line number -/
def decimal (n : Nat) : Bytes := (Nat.toDigits 10 n).map (fun c => UInt8.ofNat c.toNat)

/-- `TestRegistry::listTestLocations`: `group.name.file.line\n` for EVERY shell of the list
    (this mode does not look at the filters) -/
def listTestLocations : List Test → Bytes
  | [] => []
  | t :: rest =>
    (t.group ++ [dot] ++ t.name ++ [dot] ++ t.file ++ [dot] ++ decimal t.line ++ [10]) ++
      listTestLocations rest

/-! ## CommandLineTestRunner::runAllTests -/

inductive ListMode
  | none | groups | names | locations
deriving Repr, DecidableEq, Inhabited

/-- what the parsed command line holds, as far as this property is concerned -/
structure RunnerArgs where
  groupFilters : List Filter
  nameFilters  : List Filter
  runIgnored   : Bool
  reversing    : Bool
  shuffleSeed  : Option Nat         -- `some seed`: -s given
  repeatCount  : Nat
  listMode     : ListMode
deriving Repr, Inhabited

/-- what the runner's `TestOutput` receives -/
inductive ROut
  | text (b : Bytes)
  | run (c : Counters) (evs : List Ev)
deriving Repr, Inhabited

def ofAscii (s : String) : Bytes := s.toList.map (fun c => UInt8.ofNat c.toNat)

/-- `initializeTestRun`: the registry gets the arguments' filter lists and, with -ri, run-ignored -/
def initializeTestRun (a : RunnerArgs) (r : Reg) : Reg :=
  { r with groupFilters := a.groupFilters, nameFilters := a.nameFilters,
           runIgnored := (if a.runIgnored then true else r.runIgnored) }

/-- `TestOutput::printTestRun(number, total)` -/
def printTestRun (number total : Nat) : List ROut :=
  if total > 1 then
    [.text (ofAscii "Test run " ++ decimal number ++ ofAscii " of " ++ decimal total ++ [10])]
  else []

/-- `TestResult::isFailure` for a run without failing checks (the scripted bodies never fail):
    `failureCount != 0 || runCount + ignoredCount == 0` -/
def ranNothing (c : Counters) : Bool := c.runCount + c.ignoredCount == 0

structure LoopOut where
  reg    : Reg
  out    : List ROut
  failed : Nat             -- `failedExecutionCount`
  rands  : List Nat        -- random numbers not consumed

/-- `while (loopCount++ < repeatCount) { if shuffling: shuffleTests(seed); printTestRun; TestResult tr;
    runAllTests(tr); ... if (tr.isFailure()) failedExecutionCount++; }`;
    arguments: repetitions still to do, `loopCount` after the increment -/
def repeatLoop (shuffling : Bool) (total : Nat) : Nat → Nat → Reg → List Nat → LoopOut
  | 0, _, r, rs => { reg := r, out := [], failed := 0, rands := rs }
  | k + 1, loopCount, r, rs =>
    let r1 := if shuffling then r.shuffleTests (rs.take (randsNeeded r.order.length)) else r
    let rs1 := if shuffling then rs.drop (randsNeeded r.order.length) else rs
    let rest := repeatLoop shuffling total k (loopCount + 1) r1.afterRun rs1
    { reg := rest.reg,
      out := printTestRun loopCount total ++ [ROut.run r1.run.1 r1.run.2] ++ rest.out,
      failed := (if ranNothing r1.run.1 then 1 else 0) + rest.failed,
      rands := rest.rands }

/-- `CommandLineTestRunner::runAllTests()` after a successful parse; returns the registry, the
    output, and the return value (no failing checks: `failedExecutionCount`) -/
def runnerRunAllTests (a : RunnerArgs) (r : Reg) (rs : List Nat) : Reg × List ROut × Nat :=
  match a.listMode with
  | .groups => (initializeTestRun a r, [.text (listTestGroupNames (initializeTestRun a r).tests)], 0)
  | .names =>
    (initializeTestRun a r,
     [.text (listTestGroupAndCaseNames (initializeTestRun a r).cfg (initializeTestRun a r).tests).1], 0)
  | .locations => (initializeTestRun a r, [.text (listTestLocations (initializeTestRun a r).tests)], 0)
  | .none =>
    let r0 := if a.reversing then (initializeTestRun a r).reverseTests else initializeTestRun a r
    let banner := match a.shuffleSeed with
      | some seed => [ROut.text (ofAscii "Test order shuffling enabled with seed: " ++ decimal seed ++ [10])]
      | none => []
    let lo := repeatLoop a.shuffleSeed.isSome a.repeatCount a.repeatCount 1 r0 rs
    (lo.reg, banner ++ lo.out, lo.failed)

end Registry
