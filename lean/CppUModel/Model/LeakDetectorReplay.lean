import CppUModel.Base.Proto
import CppUModel.Model.LeakDetector
import CppUModel.Model.LeakReportText
import CppUModel.Model.LeakPluginDrive
import CppUModel.Model.LeakOverloads
/-!
Replay of `h_c04` / `h_c06` traces through the detector model (shared by `Driver/C04.lean` and
`Driver/C06.lean`).  Environment inputs (the address the underlying allocator / `PlatformSpecificRealloc`
answered, whether a report was truncated by the text buffer) are read from the implementation's
observation lines; everything else is computed by the model.
-/
namespace LeakDetector.Replay
open LeakDetector Gen.LeakDetector

structure RegEntry where
  alloc : Allocator
  recording : Bool      -- a recording allocator: the size given to free_memory is observed
deriving Repr, Inhabited

structure DState where
  st      : State := State.init hashPrime
  reg     : Array RegEntry := #[]
  cur     : Current := { newA := default, newArrayA := default, mallocA := default }
  report  : ReportAllocs := { mallocR := default, newR := default, newArrayR := default }   -- MemoryReporterPlugin members
  threadSafe : Bool := false     -- the g* operations go through the thread-safe overloads
  base    : Nat := 0      -- real address of the printed address 0 (environment, from the setup lines)
  ov      : Ov := Ov.init          -- the switch position of the overloads as PARKED between two operations (see `parkedInit`)
  stash   : Stash := Stash.empty   -- the script's `GlobalMemoryAllocatorStash`
  raw     : List (Nat × Nat) := [] -- live blocks the detector does not hold (address, user size): acquired with the overloads
                                   -- off, or forgotten by `clearAllAccounting`
  out     : Diag.OutBuf := Diag.OutBuf.init   -- the detector's report builder (text buffer, `total_leaks_`, malloc-note flag);
                                   -- meaningful while `dirty` is false
  dirty   : Bool := false          -- the text buffer holds a failure text or the text of a plain `report`: the harness empties
                                   -- it (with `startChecking()`) before the next operation that may add text
deriving Inhabited

/-- the harness parks the switch position between two operations with `saveAndDisableNewDeleteOverloads()` -/
def park (o : Ov) : Ov := saveAndDisable o
/-- … and opens it again with `restoreNewDeleteOverloads()` for every operation that uses or changes it -/
def unpark (o : Ov) : Ov := restoreOverloads o

/-- start of a case: `main` and `init` turn the overloads off, `init` then switches the plain ones on and parks -/
def parkedInit : Ov := park (turnOnPlain (turnOff (turnOff Ov.init)))

def rawSize (d : DState) (a : Nat) : Nat := ((d.raw.lookup a).getD 0)
def rawErase (l : List (Nat × Nat)) (a : Nat) : List (Nat × Nat) := l.filter (fun e => e.1 != a)

def currentLine (c : Current) : String := s!"current {c.newA.id} {c.newArrayA.id} {c.mallocA.id}"

def strHex (s : String) : String := Proto.hex s.toUTF8.toList
def unhexStr (h : String) : String :=
  match Proto.unhex? h with
  | some bs => (String.fromUTF8? (ByteArray.mk bs.toArray)).getD ""
  | none => ""

def periodOf? : String → Option Period
  | "all" => some .all
  | "disabled" => some .disabled
  | "enabled" => some .enabled
  | "checking" => some .checking
  | _ => none

def failKindName : FailKind → String
  | .nonAllocated => "nonallocated"
  | .mismatch => "mismatch"
  | .corruption => "corruption"

def fillByte : UInt8 := 0xA5

/-- one event as the harness prints it; `result` is the environment's answer to the underlying request,
    `sizes` says whether the operation's allocator shows the size passed to `free_memory` -/
def renderEv (result : Nat) (sizes : Bool) : Ev → String
  | .ualloc r => s!"ualloc {r} {result}"
  | .nalloc => "nalloc"
  | .nfree g => if g then "nfree 1" else "nfree 0"
  | .ufreeRaw _ addr size => if sizes then s!"ufree {addr} {size} raw" else s!"ufree {addr} - raw"
  | .ufree _ addr size user => if sizes then s!"ufree {addr} {size} {Proto.hex user}" else s!"ufree {addr} - {Proto.hex user}"
  | .urealloc a r => s!"urealloc {a} {r} {result}"
  | .fail k af al asz aty ff fl ft =>
    s!"fail {failKindName k} {af} {al} {asz} {strHex aty} {ff} {fl} {strHex ft}"
  | .ret a => s!"ret {a}"

def totalsLine (s : State) : String :=
  s!"totals {totalMemoryLeaks s .all} {totalMemoryLeaks s .disabled} {totalMemoryLeaks s .enabled} {totalMemoryLeaks s .checking}"

def hex16 (v : UInt64) : String :=
  String.ofList ((List.range 16).map (fun i => Proto.hexDigit ((v.toNat >>> (4 * (15 - i))) % 16)))

/-- the complete report text, as length and FNV-1a hash -/
def reportTextLine (s : State) (p : Period) (base : Nat) : String :=
  let t := fastReportTextOf s p base
  s!"reporttext {t.length} {hex16 (fnv1a t)}"

def insertSorted (x : Nat × List String) : List (Nat × List String) → List (Nat × List String)
  | [] => [x]
  | y :: ys => if x.1 < y.1 then x :: y :: ys else y :: insertSorted x ys

def sortByKey (l : List (Nat × List String)) : List (Nat × List String) := l.foldr insertSorted []

/-- events of a stage release: one group per released block (`[fail] ufree`), groups ordered by address -/
def groupStage (evs : List Ev) : List String :=
  let rec go (acc : List String) (groups : List (Nat × List String)) : List Ev → List (Nat × List String) × List String
    | [] => (groups, acc)
    | e :: rest =>
      match e with
      | .ufree _ addr _ _ => go [] (groups ++ [(addr, acc ++ [renderEv 0 false e])]) rest
      | _ => go (acc ++ [renderEv 0 false e]) groups rest
  let r := go [] [] evs
  (sortByKey r.1).flatMap (·.2) ++ r.2

def leakLine (n : Node) : String :=
  s!"leak {n.addr} {n.number} {n.size} {n.file} {n.line} {strHex n.allocator.allocName}"

def reportLines (s : State) (p : Period) (truncated : Bool) : List String :=
  let leaks := reportedLeaks s p
  if leaks.isEmpty then ["report none"]
  else if truncated then [s!"report truncated {leaks.length}"]
  else
    let warn := leaks.any (fun n => n.allocator.allocName == "malloc")
    s!"report total {leaks.length} {if warn then 1 else 0}" ::
      (sortByKey (leaks.map (fun n => (n.addr, [leakLine n])))).flatMap (·.2)

/-- a report asked for again (`rereport`, `plugin refinal`): the builder goes on from where the earlier reports left it;
    the answer is the text this call appended, as length and hash, then its entries.  A full text buffer is reported as
    such (the answer may be cut). -/
def appendedReport (st : State) (base : Nat) (out : Diag.OutBuf) (p : Period) (truncated : Bool) : Diag.OutBuf × Bool × List String :=
  let leaks := (reportedLeaks st p).map (Node.toLeak base)
  let o := outReport out leaks
  if o.buf.text.length + 1 ≥ 3500 then (o, true, ["report full"])   -- same threshold as the harness: below the lowered write limit
  else
    let t := o.buf.text.drop out.buf.text.length
    (o, false, s!"reporttext {t.length} {hex16 (fnv1a t)}" :: reportLines st p truncated)

def obsResult (key : String) (obs : List (List String)) : Nat :=
  match obs.find? (fun l => l.head? == some key) with
  | some l => (l.getLast?.bind String.toNat?).getD 0
  | none => 0

def allocAt (d : DState) (w : String) : Option RegEntry := w.toNat?.bind (fun i => d.reg[i]?)

def parseRegistry (obs : List (List String)) : Array RegEntry := Id.run do
  let mut reg : Array RegEntry := #[]
  for l in obs do
    match l with
    | ["allocator", i, "plain", rec, n, a, f] =>
      reg := reg.push { alloc := .plain (i.toNat?.getD 0) (unhexStr n) (unhexStr a) (unhexStr f), recording := rec == "1" }
    | ["allocator", i, "wrap", o] =>
      let orig := (o.toNat?.bind (fun k => reg[k]?)).map (·.alloc)
      reg := reg.push { alloc := .wrap (i.toNat?.getD 0) (orig.getD default), recording := false }
    | _ => pure ()
  return reg

def setupLines (reg : Array RegEntry) (obs : List (List String)) : List String :=
  [s!"const nodesize {nodeStructBytes} hashprime {hashPrime} guard {guardSize}"] ++
  (obs.filter (fun l => l.head? == some "base")).map (fun l => " ".intercalate l) ++
  (obs.filter (fun l => l.head? == some "allocator")).map (fun l => " ".intercalate l) ++
  (List.range reg.size).map (fun i =>
    match reg[i]? with
    | some e => s!"actual {i} {e.alloc.actual.id} {strHex e.alloc.allocName} {strHex e.alloc.freeName}"
    | none => "")

def showSizes (e : RegEntry) : Bool :=
  match e.alloc with
  | .plain .. => e.recording
  | .wrap .. => false

def familyOf? : String → Option Family
  | "new" => some .new
  | "newarray" => some .newArray
  | "malloc" => some .malloc
  | _ => none

/-- name of the release wrapper of the source that serves the family in the current overload mode -/
def wrapperName (threadSafe : Bool) (f : Family) : String :=
  (if threadSafe then "threadsafe_" else "") ++
  (match f with
   | .malloc => "mem_leak_free"
   | .new => "mem_leak_operator_delete"
   | .newArray => "mem_leak_operator_delete_array")

/-- release through an overload: as the regenerated description of that wrapper says (falls back to the modelled
    `release` when the table has no such wrapper) -/
def releaseVia (d : DState) (f : Family) (addr : Nat) (file : String) (line : Nat) : State × List Ev :=
  match Gen.LeakDetector.releaseWrappers.find? (fun w => w.name == wrapperName d.threadSafe f) with
  | some w => releaseBy w d.cur d.st addr file line
  | none => release d.cur f d.st addr file line

/-- the family whose current allocator the HARNESS consults to decide whether sizes are shown (by the form's name) -/
def requiredFamilyOfForm (form : String) : Family :=
  if form == "malloc" || form == "free" then .malloc
  else if form.startsWith "newa" || form.startsWith "dela" then .newArray
  else .new

def curEntry (d : DState) (f : Family) : RegEntry :=
  let a := d.cur.of f
  (d.reg.find? (fun e => e.alloc == a)).getD { alloc := a, recording := false }

/-- reports whose text the implementation could not deliver because its text buffer was full (`fail lost`) are
    printed as such by the model too: the k-th report of the model takes the form of the k-th report of the
    implementation -/
def alignLost (implFails : List (List String)) : List String → List String
  | [] => []
  | l :: rest =>
    if l.startsWith "fail " then
      match implFails with
      | f :: fs => (if f == ["fail", "lost"] then "fail lost" else l) :: alignLost fs rest
      | [] => l :: alignLost [] rest
    else l :: alignLost implFails rest

/-- `current <new> <new[]> <malloc>`: identities of the three current allocators, printed before the totals -/
def addCurrent (d : DState) (r : DState × List String) : DState × List String :=
  let line := s!"current {d.cur.newA.id} {d.cur.newArrayA.id} {d.cur.mallocA.id}"
  (r.1, (r.2.dropLast.dropLast) ++ [line] ++ r.2.drop (r.2.length - 2))

/-- model step on the trace; returns the new state and the model's observation lines -/
def modelStepRaw (d : DState) (op : List String) (obs : List (List String)) : DState × List String :=
  let fin (d' : DState) (ls : List String) : DState × List String :=
    (d', ls ++ [totalsLine d'.st, s!"allocnum {getCurrentAllocationNumber d'.st}"])
  match op with
  | ["setup"] =>
    let reg := parseRegistry obs
    let g (i : Nat) : Allocator := (reg[i]?.map (·.alloc)).getD default
    let base := ((obs.find? (fun l => l.head? == some "base")).bind (fun l => l[1]? >>= String.toNat?)).getD 0
    ({ st := State.init hashPrime, reg := reg, cur := { newA := g 0, newArrayA := g 1, mallocA := g 2 }, base := base,
       ov := parkedInit },
     setupLines reg obs)
  | ["skip"] => (d, [])
  | ["alloc", ai, size, file, line, sep] =>
    match allocAt d ai, size.toNat?, line.toNat? with
    | some e, some size, some line =>
      let result := obsResult "ualloc" obs
      let nodeOk := !(obs.any (· == ["nalloc", "null"]))
      let r := alloc d.st e.alloc size file line (sep == "1") result nodeOk fillByte
      fin { d with st := r.1 } ((r.2.map (renderEv result (showSizes e))).map
        (fun l => if !nodeOk && l == "nalloc" then "nalloc null" else l))
    | _, _, _ => (d, ["bad-op"])
  | ["free", ai, addr, file, line, sep] =>
    match allocAt d ai, addr.toNat?, line.toNat? with
    | some e, some addr, some line =>
      let r := dealloc d.st e.alloc addr file line (sep == "1")
      fin { d with st := r.1 } (r.2.map (renderEv 0 (showSizes e)))
    | _, _, _ => (d, ["bad-op"])
  | ["realloc", ai, addr, size, file, line, sep] =>
    match allocAt d ai, addr.toNat?, size.toNat?, line.toNat? with
    | some e, some addr, some size, some line =>
      let result := obsResult "urealloc" obs
      let r := realloc d.st e.alloc addr size file line (sep == "1") result fillByte
      fin { d with st := r.1 } (r.2.map (renderEv result (showSizes e)))
    | _, _, _, _ => (d, ["bad-op"])
  | ["period", "start"] => fin { d with st := startChecking d.st } []
  | ["period", "stop"] => fin { d with st := stopChecking d.st } []
  | ["period", "enable"] => fin { d with st := enable d.st } []
  | ["period", "disable"] => fin { d with st := disable d.st } []
  | ["typecheck", "on"] => fin { d with st := enableTypeChecking d.st } []
  | ["typecheck", "off"] => fin { d with st := disableTypeChecking d.st } []
  | ["stage", "inc"] => let s := increaseStage d.st; fin { d with st := s } [s!"stagenow {s.stage.toNat}"]
  | ["stage", "dec"] => let s := decreaseStage d.st; fin { d with st := s } [s!"stagenow {s.stage.toNat}"]
  | ["stage", "release"] =>
    let r := deallocStage d.st
    fin { d with st := r.1 } (groupStage r.2 ++ [s!"stagenow {r.1.stage.toNat}"])
  | ["clear", p] =>
    match periodOf? p with
    | some p =>
      -- the blocks whose records are dropped stay with the client: live, not held by the detector
      let gone := (d.st.table.buckets.flatten.filter (isInPeriod p)).map (fun n => (n.addr, n.size))
      fin { d with st := clearAllAccounting d.st p, raw := gone ++ d.raw } []
    | none => (d, ["bad-op"])
  | ["mark"] => fin { d with st := markChecking d.st } []
  | ["plugin", "create"] => fin { d with st := pluginCreate d.st } []
  | ["plugin", "pre"] => fin { d with st := pluginPre d.st } []
  | ["plugin", "post"] => fin { d with st := pluginPost d.st } []
  | ["plugin", "final", n] =>
    match pluginFinal d.st (n.toNat?.getD 0) with
    | none => fin d ["final empty"]
    | some p =>
      let truncated := obs.any (fun l => l.take 2 == ["report", "truncated"])
      fin d ("final report" :: reportTextLine d.st p d.base :: reportLines d.st p truncated)
  | ["plugin", "refinal", n] =>
    match pluginFinal d.st (n.toNat?.getD 0) with
    | none => fin d ["final empty"]
    | some p =>
      let truncated := obs.any (fun l => l.take 2 == ["report", "truncated"])
      let r := appendedReport d.st d.base d.out p truncated
      fin { d with out := r.1, dirty := r.2.1 } ("final report" :: r.2.2)
  | ["plugin", "ignore"] => fin d []
  | ["plugin", "expect", _] => fin d []
  | ["mrp", "create"] =>
    -- three more allocator objects: the plugin's report allocators (they wrap nothing yet)
    let i := d.reg.size
    let r : ReportAllocs := { mallocR := .wrap i default, newR := .wrap (i + 1) default, newArrayR := .wrap (i + 2) default }
    let d' := { d with report := r, reg := ((d.reg.push { alloc := r.mallocR, recording := false }).push
                  { alloc := r.newR, recording := false }).push { alloc := r.newArrayR, recording := false } }
    fin d' (obs.filter (fun l => l.head? == some "parsed") |>.map (fun l => " ".intercalate l)) |> addCurrent d'
  | ["mrp", "pre"] =>
    let rc := reportPre d.report d.cur
    let upd (reg : Array RegEntry) (a : Allocator) : Array RegEntry :=
      reg.map (fun e => if e.alloc.id == a.id then { e with alloc := a } else e)
    let reg := upd (upd (upd d.reg rc.1.mallocR) rc.1.newR) rc.1.newArrayR
    let st := ((d.st.rebind rc.1.mallocR).rebind rc.1.newR).rebind rc.1.newArrayR
    let d' := { d with report := rc.1, cur := rc.2, reg := reg, st := st }
    fin d' [] |> addCurrent d'
  | ["mrp", "post"] =>
    let d' := { d with cur := reportPost d.report d.cur }
    fin d' [] |> addCurrent d'
  | ["overloads", "threadsafe"] => fin { d with threadSafe := true, ov := park (turnOnThreadSafe (unpark d.ov)) } []
  | ["overloads", "plain"] => fin { d with threadSafe := false, ov := park (turnOnPlain (unpark d.ov)) } []
  | ["ov", what] =>
    let inside := unpark d.ov
    let after? : Option Ov :=
      match what with
      | "off" => some (turnOff inside)
      | "plain" => some (turnOnPlain inside)
      | "threadsafe" => some (turnOnThreadSafe inside)
      | "save" => some (saveAndDisable inside)
      | "restore" => some (restoreOverloads inside)
      | _ => none
    match after? with
    | some after => fin { d with ov := park after } [s!"overloaded {if areOverloaded after then 1 else 0}"]
    | none => (d, ["bad-op"])
  | ["stash", "save"] => fin { d with stash := stashSaveRun d.cur d.stash } [currentLine d.cur]
  | ["stash", "restore"] =>
    let c := stashRestoreRun d.stash d.cur
    fin { d with cur := c } [currentLine c]
  | ["setcur-default", fam] =>
    match familyOf? fam with
    | some f => let c := setToDefault d.cur (defaultSetterOfFamily f); fin { d with cur := c } [currentLine c]
    | none => (d, ["bad-op"])
  | ["setcur", fam, "null"] =>
    match familyOf? fam with
    | some f => let c := setCurrentNull d.cur f; fin { d with cur := c } [currentLine c]
    | none => (d, ["bad-op"])
  | ["drop", a] =>
    -- the client returns an untracked block to the underlying allocator: not the detector's business
    fin { d with raw := rawErase d.raw (a.toNat?.getD 0) } []
  | ["report", p] =>
    match periodOf? p with
    | some p =>
      let truncated := obs.any (fun l => l.take 2 == ["report", "truncated"])
      fin d (reportTextLine d.st p d.base :: reportLines d.st p truncated)
    | none => (d, ["bad-op"])
  | ["rereport", p] =>
    match periodOf? p with
    | some p =>
      let truncated := obs.any (fun l => l.take 2 == ["report", "truncated"])
      let r := appendedReport d.st d.base d.out p truncated
      fin { d with out := r.1, dirty := r.2.1 } r.2.2
    | none => (d, ["bad-op"])
  | ["write", addr, off, b] =>
    match addr.toNat?, off.toNat?, Proto.unhex? b with
    | some addr, some off, some [b] => fin { d with st := writeByte d.st addr off b } []
    | _, _, _ => (d, ["bad-op"])
  | ["invalidate", addr] =>
    match addr.toNat? with
    | some addr => fin { d with st := invalidateMemory d.st addr } []
    | none => (d, ["bad-op"])
  | ["setcur", fam, ai] =>
    match familyOf? fam, allocAt d ai with
    | some .new, some e => fin { d with cur := { d.cur with newA := e.alloc } } []
    | some .newArray, some e => fin { d with cur := { d.cur with newArrayA := e.alloc } } []
    | some .malloc, some e => fin { d with cur := { d.cur with mallocA := e.alloc } } []
    | _, _ => (d, ["bad-op"])
  | ["gacq", form, size, file, line] =>
    -- an acquiring overload: the operator's forwarding, the function-pointer table of the current mode and the function's
    -- own allocator / location / layout, all as regenerated from the source
    match size.toNat?, line.toNat? with
    | some size, some line =>
      let result := obsResult "ualloc" obs
      let inside := unpark d.ov
      match gAcquire inside d.cur d.st form size file line result fillByte with
      | .tracked r =>
        let getter := (((inside.formFunction form).bind (fun fn => acquireWrappers.find? (fun w => w.name == fn))).map (·.getter)).getD ""
        fin { d with st := r.1 } (r.2.map (renderEv result
          (showSizes (curEntry d (requiredFamilyOfForm form)) && showSizes (curEntry d (familyOfGetter getter)))))
      | .raw "malloc" =>
        -- the overloads are off: the platform malloc is asked for exactly `size` bytes, the detector sees nothing
        fin { d with raw := if result = 0 then d.raw else (result, size) :: d.raw } [s!"ualloc {size} {result}", s!"ret {result}"]
      | _ => (d, ["bad-op"])
    | _, _ => (d, ["bad-op"])
  | ["grealloc", addr, size, file, line] =>
    match addr.toNat?, size.toNat?, line.toNat? with
    | some addr, some size, some line =>
      let result := obsResult "urealloc" obs
      let inside := unpark d.ov
      match gRealloc inside d.cur d.st addr size file line result fillByte with
      | .tracked r => fin { d with st := r.1 } (r.2.map (renderEv result (showSizes (curEntry d .malloc))))
      | .raw "realloc" =>
        fin { d with raw := if result = 0 then d.raw else (result, size) :: rawErase d.raw addr }
          [s!"urealloc {addr} {size} {result}", s!"ret {result}"]
      | _ => (d, ["bad-op"])
    | _, _, _ => (d, ["bad-op"])
  | ["grel", form, addr, file, line] =>
    match addr.toNat?, line.toNat? with
    | some addr, some line =>
      let inside := unpark d.ov
      match gRelease inside d.cur d.st form addr file line with
      | .tracked r =>
        let getter := (((inside.formFunction form).bind (fun fn => releaseWrappers.find? (fun w => w.name == fn))).map (·.getter)).getD ""
        -- the size given to free_memory is shown when the allocator the harness expects and the one the code uses both record it
        fin { d with st := r.1 } (r.2.map (renderEv 0
          (showSizes (curEntry d (requiredFamilyOfForm form)) && showSizes (curEntry d (familyOfGetter getter)))))
      | .raw "free" =>
        -- the overloads are off: the pointer goes to the platform free (NULL: nothing happens)
        if addr = 0 then fin d []
        else fin { d with raw := rawErase d.raw addr }
          [s!"ufree {addr} - {Proto.hex (List.replicate (rawSize d addr) fillByte)}"]
      | _ => (d, ["bad-op"])
    | _, _ => (d, ["bad-op"])
  | _ => (d, ["bad-op"])

/-- operations before which the harness empties a dirty text buffer (`clear_text(false)`) -/
def clearsDirtyText : List String → Bool
  | "free" :: _ => true
  | "realloc" :: _ => true
  | "grealloc" :: _ => true
  | "grel" :: _ => true
  | ["stage", "release"] => true
  | "rereport" :: _ => true
  | ["plugin", "refinal", _] => true
  | _ => false

/-- operations that empty the text buffer whatever it holds: `startChecking()` itself, and (before they run) the plain
    `report` / `plugin final`, which then leave their own text behind -/
def clearsText : List String → Bool
  | ["period", "start"] => true
  | ["plugin", "pre"] => true
  | "report" :: _ => true
  | ["plugin", "final", _] => true
  | _ => false

def leavesText : List String → Bool
  | "report" :: _ => true
  | ["plugin", "final", _] => true
  | _ => false

/-- the detector's text buffer around one operation -/
def modelStepText (d : DState) (op : List String) (obs : List (List String)) : DState × List String :=
  let d0 := if clearsText op || (clearsDirtyText op && d.dirty) then { d with out := outClear d.out, dirty := false } else d
  let r := modelStepRaw d0 op obs
  if leavesText op || r.2.any (fun l => l.startsWith "fail ") then ({ r.1 with dirty := true }, r.2) else r

def modelStep (d : DState) (op : List String) (obs : List (List String)) : DState × List String :=
  let r := modelStepText d op obs
  let implFails := obs.filter (fun l => l.head? == some "fail")
  if implFails.any (· == ["fail", "lost"]) then (r.1, alignLost implFails r.2) else r

end LeakDetector.Replay
