import CppUModel.Model.Mock
import CppUModel.Gen.MockReporter
/-!
# The mock verified in `teardown()` with the library's default reporter

The common idiom `teardown() { mock().checkExpectations(); mock().clear(); }` in a test group
that installs no reporter of its own: every mock failure goes through
`MockFailureReporter::failTest` (`src/CppUTestExt/MockFailure.cpp`), whose body is regenerated on
every run as `Gen.MockReporter.reports` ("deliver the failure and leave the test iff …" as a
function of "the test has already failed").

`MockSupport::checkExpectations` under a reporter `reports`:

```
checkExpectationsOfLastActualCall();            // MockCheckedActualCall::failTest -> reporter (mock NOT cleared)
if (wasLastActualCallFulfilled() && expectedCallsLeft()) failTestWithExpectedCallsNotFulfilled();   // clear(); reporter
if (hasCallsOutOfOrder()) failTestWithOutOfOrderCalls();                                            // clear(); reporter
```

A delivered failure leaves `teardown()` at that point (`failWith` + test terminator): what follows —
including `mock().clear()` — is not executed.  A failure that is not delivered lets the code go on;
after `failTestWithExpectedCallsNotFulfilled` the mock is cleared, so nothing is out of order.
-/
namespace Mock

/-- `mock().checkExpectations(); mock().clear();` in `teardown()` when the reporter delivers:
    the first finding is reported and ends the teardown -/
def teardownDelivering (w : World) : List String × World :=
  match checkLasts (w.glob :: w.subs) with
  | (scs, some f) => ([f], w.putAll scs)
  | (scs, none) =>
    if scs.all Scope.lastFulfilled && scs.any Scope.hasUnfulfilled then ([msgUnfulfilled], (w.putAll scs).clear "")
    else if scs.any Scope.hasOutOfOrder then ([msgOutOfOrder], (w.putAll scs).clear "")
    else ([], (w.putAll scs).clear "")

/-- … when the reporter swallows every finding: nothing is reported, the mock ends up cleared -/
def teardownSilent (w : World) : List String × World :=
  ([], (w.putAll (checkLastsAll (w.glob :: w.subs)).1).clear "")

/-- the teardown of a test whose body left `r` behind, under the reporter `reports` -/
def teardownPostWith (reports : Bool → Bool) (r : BodyResult) : List String × World :=
  if reports r.failed then teardownDelivering r.w else teardownSilent r.w

/-- … under the library's default reporter as it is in the source -/
def teardownPost (r : BodyResult) : List String × World :=
  teardownPostWith Gen.MockReporter.reports r

end Mock
