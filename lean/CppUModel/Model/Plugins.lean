import CppUModel.Gen.PluginConstants
/-!
Model of `SetPointerPlugin` / `CppUTestStore` / `UT_PTR_SET` and of the plugin chain
(src/CppUTest/TestPlugin.cpp, include/CppUTest/TestPlugin.h) and of
`TestRegistry::installPlugin/removePluginByName/resetPlugins` (src/CppUTest/TestRegistry.cpp),
written from the C++ line by line.

* memory is a function `Loc → Val` (the pointer variables and what they hold);
* `setlist[0 .. pointerTableIndex)` is a `List (Loc × Val)` with the MOST RECENT entry first
  (`pointerTableIndex` = its length); the limit `MAX_SET` is regenerated from the header;
* the chain `firstPlugin_ → next_ → … → NullTestPlugin` is a `List Plugin`, head = `firstPlugin_`
  (the sentinel is the end of the list; the name of the sentinel is `nullName`).
-/
namespace Plugins

abbrev Loc := Nat
abbrev Val := Nat

def update (m : Loc → Val) (l : Loc) (v : Val) : Loc → Val := fun x => if x = l then v else m x

structure Store where
  mem   : Loc → Val
  table : List (Loc × Val)        -- most recent first

open Gen.Plugins

/-- `CppUTestStore(&a)`: `none` = `FAIL("Maximum number of function pointers installed!")`, nothing written -/
def store (s : Store) (l : Loc) : Option Store :=
  if s.table.length ≥ maxSet then none
  else some { s with table := (l, s.mem l) :: s.table }

/-- `UT_PTR_SET(a, b)`: store, then assign -/
def ptrSet (s : Store) (l : Loc) (v : Val) : Option Store :=
  match store s l with
  | none => none
  | some s' => some { s' with mem := update s'.mem l v }

/-- the loop of `SetPointerPlugin::postTestAction`: from the last entry to the first -/
def restore : List (Loc × Val) → (Loc → Val) → (Loc → Val)
  | [], m => m
  | (l, v) :: rest, m => restore rest (update m l v)

/-- `SetPointerPlugin::postTestAction` -/
def postAction (s : Store) : Store := { mem := restore s.table s.mem, table := [] }

/-- `SetPointerPlugin::SetPointerPlugin`: constructing a plugin object sets `pointerTableIndex = 0`
    (whatever was recorded and not yet undone is forgotten; the memory is not touched) -/
def construct (s : Store) : Store := { s with table := [] }

/-- statements of a scripted test body -/
inductive Stmt
  | set (l : Loc) (v : Val)      -- UT_PTR_SET
  | stop                         -- FAIL / FAIL_C / throw: the body ends here (any failing outcome)
deriving Repr, DecidableEq, Inhabited

structure BodyResult where
  store    : Store
  failed   : Bool      -- the test has failed (own failure or table overflow)
  overflow : Bool      -- the failure was the table limit
  done     : Nat       -- number of redirections carried out

/-- the body runs until its end, a terminating statement, or a refused store -/
def runBody (s : Store) (done : Nat) : List Stmt → BodyResult
  | [] => { store := s, failed := false, overflow := false, done := done }
  | .stop :: _ => { store := s, failed := true, overflow := false, done := done }
  | .set l v :: rest =>
    match ptrSet s l v with
    | none => { store := s, failed := true, overflow := true, done := done }
    | some s' => runBody s' (done + 1) rest

/-! ## redirections in `setup()`, the body and `teardown()` (`Utest::run`)

`Utest::run` runs `setup()`; the body only if `setup()` ended normally; and `teardown()` in every case —
also after a failing / throwing setup or body, and also after a redirection that was refused because the
table is full.  Each phase is a statement list of its own (it ends at its first terminating statement). -/

structure Phases where
  setup    : List Stmt
  body     : List Stmt
  teardown : List Stmt
deriving Repr, Inhabited

/-- run a further phase on what the earlier phases left; failures accumulate -/
def BodyResult.andThen (r : BodyResult) (next : List Stmt) : BodyResult :=
  { store := (runBody r.store r.done next).store,
    failed := r.failed || (runBody r.store r.done next).failed,
    overflow := r.overflow || (runBody r.store r.done next).overflow,
    done := (runBody r.store r.done next).done }

/-- `Utest::run` as far as the pointer table is concerned -/
def runPhases (s : Store) (t : Phases) : BodyResult :=
  (if (runBody s 0 t.setup).failed then runBody s 0 t.setup
   else (runBody s 0 t.setup).andThen t.body).andThen t.teardown

/-! ## the plugin chain -/

inductive Kind
  | recording
  | setPointer
  | failingPre      -- a plugin whose pre action reports a failure (`result.addFailure`), non-terminating
deriving Repr, DecidableEq, Inhabited

structure Plugin where
  id      : Nat            -- identity of the plugin object (two objects may carry the same name)
  name    : String
  enabled : Bool
  kind    : Kind
deriving Repr, DecidableEq, Inhabited

abbrev Chain := List Plugin

/-- `TestPlugin::runAllPreTestAction`: own action (if enabled), then `next_` -/
def runAllPre : Chain → List String
  | [] => []
  | p :: rest => (if p.enabled then [p.name] else []) ++ runAllPre rest

/-- `TestPlugin::runAllPostTestAction`: `next_` first, then the own action (if enabled) -/
def runAllPost : Chain → List String
  | [] => []
  | p :: rest => runAllPost rest ++ (if p.enabled then [p.name] else [])

/-- effect of the post actions on the pointer store: only an enabled `SetPointerPlugin` acts -/
def postStore : Chain → Store → Store
  | [], s => s
  | p :: rest, s =>
    if p.enabled ∧ p.kind = .setPointer then postAction (postStore rest s) else postStore rest s

/-- `TestRegistry::installPlugin` -/
def install (c : Chain) (p : Plugin) : Chain := p :: c

/-- `TestRegistry::resetPlugins` -/
def reset (_ : Chain) : Chain := []

/-- `TestPlugin::removePluginByName` seen from a plugin whose `next_` chain is the argument:
    the new `next_` chain and whether something was unlinked.  At the sentinel nothing matches
    (requested names differ from `nullName`). -/
def removeNext (name : String) : Chain → Chain × Bool
  | [] => ([], false)
  | q :: rest =>
    if q.name = name then (rest, true)
    else (q :: (removeNext name rest).1, (removeNext name rest).2)

/-- one `firstPlugin_->removePluginByName(name)` (the result is never `firstPlugin_` itself) -/
def removeBelowHead (name : String) : Chain → Chain
  | [] => []
  | p :: rest => p :: (removeNext name rest).1

/-- `if (firstPlugin_->getName() == name) firstPlugin_ = firstPlugin_->getNext();` -/
def removeHead (name : String) : Chain → Chain
  | [] => []
  | p :: rest => if p.name = name then rest else p :: rest

/-- `TestRegistry::removePluginByName`: the three statements in order -/
def regRemove (name : String) (c : Chain) : Chain :=
  removeBelowHead name (removeHead name (removeBelowHead name c))

/-- `TestRegistry::getPluginByName` -/
def getByName (name : String) : Chain → Option Plugin
  | [] => none
  | p :: rest => if name = p.name then some p else getByName name rest

/-- result of `getPluginByName`: a plugin, the sentinel itself (it carries the name `nullName`), or NULL -/
inductive Lookup
  | plugin (p : Plugin)
  | sentinel
  | none
deriving Repr, DecidableEq, Inhabited

/-- `TestRegistry::getPluginByName` including the end of the chain: `NullTestPlugin` compares its own
    name, then returns its `next_`, which is NULL -/
def lookup (name : String) : Chain → Lookup
  | [] => if name = Gen.Plugins.nullName then .sentinel else .none
  | p :: rest => if name = p.name then .plugin p else lookup name rest

/-- `TestRegistry::countPlugins`: plugins before the sentinel -/
def countPlugins (c : Chain) : Nat := c.length

/-- `TestRegistry::getFirstPlugin` (`none` = the sentinel) -/
def firstPlugin (c : Chain) : Option Plugin := c.head?

/-- `disable()` / `enable()` of a plugin object that is linked in the chain -/
def setEnabled (id : Nat) (b : Bool) (c : Chain) : Chain :=
  c.map (fun p => if p.id = id then { p with enabled := b } else p)

/-! ## one test, and consecutive tests -/

structure TestResult where
  store    : Store
  failed   : Bool
  overflow : Bool
  done     : Nat
  pre      : List String
  post     : List String

/-- some enabled plugin reports a failure in its pre action -/
def preFails (c : Chain) : Bool := c.any (fun p => p.enabled && p.kind == .failingPre)

/-- `runOneTestInCurrentProcess`: pre actions, body (any outcome), post actions.  A failure reported
    by a pre action (`result.addFailure`) marks the test as failed and changes nothing else: the body
    and every post action still run. -/
def runTest (c : Chain) (s : Store) (body : List Stmt) : TestResult :=
  { store := postStore c (runBody s 0 body).store,
    failed := (runBody s 0 body).failed || preFails c,
    overflow := (runBody s 0 body).overflow,
    done := (runBody s 0 body).done,
    pre := runAllPre c, post := runAllPost c }

/-- a test whose three phases redirect pointers -/
def runTestP (c : Chain) (s : Store) (t : Phases) : TestResult :=
  { store := postStore c (runPhases s t).store,
    failed := (runPhases s t).failed || preFails c,
    overflow := (runPhases s t).overflow,
    done := (runPhases s t).done,
    pre := runAllPre c, post := runAllPost c }

/-- how the shell runs a test (`UtestShell::runOneTest`, `IgnoredUtestShell::runOneTest`) -/
inductive RunKind
  | normal        -- in the current process
  | separate      -- `setRunInSeperateProcess`: fork; the CHILD runs `runOneTestInCurrentProcess`
  | ignored       -- `IgnoredUtestShell`, ignored tests not run: `result.countIgnored()` and nothing else
  | ignoredRun    -- `IgnoredUtestShell` with `setRunIgnored()`: as a normal test
deriving Repr, DecidableEq, Inhabited

/-- what the calling process observes.  In separate-process mode pre actions, body and post actions
    all happen in the child (a copy of the process): the parent's pointers and table are untouched,
    it only learns the verdict through the exit status. -/
def runTestKind (k : RunKind) (c : Chain) (s : Store) (body : List Stmt) : TestResult :=
  match k with
  | .normal => runTest c s body
  | .ignoredRun => runTest c s body
  | .separate => { runTest c s body with store := s }
  | .ignored => { store := s, failed := false, overflow := false, done := 0, pre := [], post := [] }

/-! ## changes of the chain WHILE the registry runs (`TestRegistry::runAllTests`)

`runAllTests` passes `firstPlugin_` — read afresh for every test — to `runOneTest`; inside
`runOneTestInCurrentProcess` that head pointer is used for the pre walk and, after the body, for the
post walk, which follows the LIVE `next_` pointers.  A scripted test makes at most one change from its
body (after its redirections, before it ends) and at most one from the post action of a designated
plugin. -/

inductive Mut
  | none
  | install (p : Plugin)        -- `TestRegistry::installPlugin` of an object that is not linked
  | remove (name : String)      -- `TestRegistry::removePluginByName`
deriving Repr, DecidableEq, Inhabited

def applyMut : Mut → Chain → Chain
  | .none, c => c
  -- the scripted body installs only objects that are not linked (a linked one would make a cycle)
  | .install p, c => if c.any (fun q => q.id == p.id) then c else install c p
  | .remove name, c => regRemove name c

/-- The chain that the post walk of a test visits when the test started with chain `c` and its BODY
    made the change: the walk starts at the head object captured when the test started.
    * install: the new plugin sits in front of the captured head — not visited;
    * remove of the captured head: `firstPlugin_` moves on, the object keeps its `next_` — the walk
      still visits it and everything behind it;
    * remove of any other plugin: its predecessor's `next_` skips it — not visited any more. -/
def postChainAfterBody (c : Chain) : Mut → Chain
  | .remove name =>
    match c with
    | [] => []
    | h :: rest => if h.name = name then h :: rest else regRemove name (h :: rest)
  | _ => c

structure ScriptedTest where
  body      : List Stmt
  bodyMut   : Mut               -- carried out after the redirections unless one of them was refused
  postActor : Nat               -- id of the plugin whose post action makes `postMut`
  postMut   : Mut

/-- is the designated plugin among those whose post action runs? -/
def actorActs (pc : Chain) (actor : Nat) : Bool := pc.any (fun p => p.id == actor && p.enabled)

def effectiveBodyMut (s : Store) (t : ScriptedTest) : Mut :=
  if (runBody s 0 t.body).overflow then .none else t.bodyMut

/-- one test of the registry loop, started with chain `c`: what it shows and the chain it leaves.
    All frames of the post recursion exist before the first post action runs, so a change made
    FROM a post action does not alter who sees this test's post action. -/
def runScripted (c : Chain) (s : Store) (t : ScriptedTest) : TestResult × Chain :=
  ({ store := postStore (postChainAfterBody c (effectiveBodyMut s t)) (runBody s 0 t.body).store,
     failed := (runBody s 0 t.body).failed || preFails c,
     overflow := (runBody s 0 t.body).overflow,
     done := (runBody s 0 t.body).done,
     pre := runAllPre c,
     post := runAllPost (postChainAfterBody c (effectiveBodyMut s t)) },
   if actorActs (postChainAfterBody c (effectiveBodyMut s t)) t.postActor
   then applyMut t.postMut (applyMut (effectiveBodyMut s t) c)
   else applyMut (effectiveBodyMut s t) c)

/-- `TestRegistry::runAllTests`: every test gets the chain as it is when the test starts -/
def runAllTestsReg (c : Chain) (s : Store) : List ScriptedTest → List TestResult × Chain × Store
  | [] => ([], c, s)
  | t :: rest =>
    ((runScripted c s t).1 :: (runAllTestsReg (runScripted c s t).2 (runScripted c s t).1.store rest).1,
     (runAllTestsReg (runScripted c s t).2 (runScripted c s t).1.store rest).2)

def runTestKindP (k : RunKind) (c : Chain) (s : Store) (t : Phases) : TestResult :=
  match k with
  | .normal => runTestP c s t
  | .ignoredRun => runTestP c s t
  | .separate => { runTestP c s t with store := s }
  | .ignored => { store := s, failed := false, overflow := false, done := 0, pre := [], post := [] }

def runTestsP (c : Chain) (s : Store) : List Phases → Store
  | [] => s
  | t :: rest => runTestsP c (runTestP c s t).store rest

def runTests (c : Chain) (s : Store) : List (List Stmt) → Store
  | [] => s
  | b :: rest => runTests c (runTest c s b).store rest

/-! ## the command-line runner (`CommandLineTestRunner::runAllTestsMain`, `runAllTests`)

`runAllTestsMain` constructs its own `SetPointerPlugin` (the constructor resets the table index), installs it in
front of whatever the registry holds, runs the registry `repeat` times (`-r<n>`), and removes the plugin again BY
NAME (`DEF_PLUGIN_SET_POINTER`). -/

def cliPlugin (id : Nat) : Plugin :=
  { id := id, name := Gen.Plugins.cliSetPointerName, enabled := true, kind := .setPointer }

/-- the repeat loop: the whole list of tests `n` times over -/
def runRepeated (c : Chain) (s : Store) : Nat → List (List Stmt) → Store
  | 0, _ => s
  | n + 1, bodies => runRepeated c (runTests c s bodies) n bodies

/-- the chain the registry is left with, and the pointer store -/
def runCli (id : Nat) (c : Chain) (s : Store) (n : Nat) (bodies : List (List Stmt)) : Chain × Store :=
  (regRemove Gen.Plugins.cliSetPointerName (install c (cliPlugin id)),
   runRepeated (install c (cliPlugin id)) (construct s) n bodies)

end Plugins
