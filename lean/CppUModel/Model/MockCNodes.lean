import CppUModel.Model.MockCTypes
import CppUModel.Gen.CMockWiring
/-!
# C19 — the adaptor nodes of the C mocking layer: who owns them, when they are deleted, who still points to them

`MockSupport_c.cpp` wraps every C comparator / copier in a heap node (`MockCFunctionComparatorNode`,
`MockCFunctionCopierNode`) and keeps the nodes in two singly linked lists with FILE-STATIC heads
(`comparatorList_`, `copierList_`): `installComparator_c` / `installCopier_c` push a node
(`list = new Node(list, fn...)`, the constructor stores its first argument in `next_`) and hand a reference to the
C++ core; `removeAllComparatorsAndCopiers_c` walks both lists, deletes every node, and then tells the CURRENT scope to
forget its comparators and copiers.  Through the C++ interface the comparator / copier objects belong to the test and
are never deleted by the mock.

* `LState`, `install`, `runLoop`: one list, the node constructor and the freeing loops INTERPRETED from
  `Gen.CMock.nodeCtors` / `Gen.CMock.removeAllLoops` (regenerated from the source on every run).
* `World`, `stepC`, `stepX`: the references the C++ core keeps to the nodes (the repository of every scope, the
  expectations that took a comparator / copier when a typed parameter was set) and the two interfaces side by side.
-/
namespace MockC.Nodes

/-! ## one list -/

structure LState where
  /-- the nodes reachable from the list head through `next_`, head first -/
  chain : List Nat := []
  /-- the local `next` of the freeing loop (the rest of the chain it points to) -/
  nxt   : Option (List Nat) := none
  /-- allocated and not deleted, newest first -/
  live  : List Nat := []
  /-- deleted, oldest first (a double delete would show as a duplicate) -/
  freed : List Nat := []
  /-- a node that is not live was read or deleted, a null pointer was dereferenced, the loop did not terminate, or
      the source has a statement the model cannot interpret -/
  bad   : Bool := false
deriving DecidableEq, Repr, Inhabited

/-- one statement of the loop over list `L` -/
def stmtStep (L : String) (s : LState) : NStmt → LState
  | .loadNext l mem =>
    if l = L ∧ mem = "next_" then
      match s.chain with
      | h :: t => { s with nxt := some t, bad := s.bad || !(s.live.contains h) }
      | [] => { s with bad := true }
    else { s with bad := true }
  | .delete l =>
    if l = L then
      match s.chain with
      | h :: _ => { s with live := s.live.erase h, freed := s.freed ++ [h], bad := s.bad || !(s.live.contains h) }
      | [] => s
    else { s with bad := true }
  | .advance l =>
    if l = L then
      match s.nxt with
      | some t => { s with chain := t }
      | none => { s with bad := true }
    else { s with bad := true }
  | .other _ => { s with bad := true }

def bodyStep (L : String) (body : List NStmt) (s : LState) : LState :=
  body.foldl (stmtStep L) { s with nxt := none }

/-- `while (L) { body }` with fuel; running out of fuel = the loop does not terminate -/
def runLoop (l : NLoop) : Nat → LState → LState
  | 0, s => if s.chain.isEmpty then s else { s with bad := true }
  | n + 1, s => if s.chain.isEmpty then s else runLoop l n (bodyStep l.cond l.body s)

/-- the constructor stores the argument the forwarder passes the old head in (its first one) in `next_` -/
def ctorLinks (c : NodeCtor) : Bool :=
  match c.params with
  | p :: _ => c.inits.lookup "next_" == some p
  | [] => false

/-- `list = new Node(list, ...)` -/
def install (c : NodeCtor) (id : Nat) (s : LState) : LState :=
  if ctorLinks c then { s with chain := id :: s.chain, live := id :: s.live }
  else { s with chain := [id], live := id :: s.live }

def ctorOf (cs : List NodeCtor) (cls : String) : NodeCtor :=
  (cs.find? (fun c => c.cls = cls)).getD ⟨cls, [], []⟩

def loopOf (ls : List NLoop) (listVar : String) : NLoop :=
  (ls.find? (fun l => l.cond = listVar)).getD ⟨listVar, [.other "no loop for this list"]⟩

/-! ## both lists, as the C layer uses them -/

structure NState where
  cmp   : LState := {}
  cpy   : LState := {}
  fresh : Nat := 0
deriving DecidableEq, Repr, Inhabited

inductive NOp | installComparator | installCopier | removeAll
deriving DecidableEq, Repr, Inhabited

def nstepWith (cs : List NodeCtor) (ls : List NLoop) (s : NState) : NOp → NState
  | .installComparator =>
    { s with cmp := install (ctorOf cs "MockCFunctionComparatorNode") s.fresh s.cmp, fresh := s.fresh + 1 }
  | .installCopier =>
    { s with cpy := install (ctorOf cs "MockCFunctionCopierNode") s.fresh s.cpy, fresh := s.fresh + 1 }
  | .removeAll =>
    { s with cmp := runLoop (loopOf ls "comparatorList_") (s.cmp.live.length + 1) s.cmp,
             cpy := runLoop (loopOf ls "copierList_") (s.cpy.live.length + 1) s.cpy }

/-- on the current source -/
def nstep (s : NState) (o : NOp) : NState := nstepWith Gen.CMock.nodeCtors Gen.CMock.removeAllLoops s o

def nrun (s : NState) (os : List NOp) : NState := os.foldl nstep s

def NState.live (s : NState) : List Nat := s.cmp.live ++ s.cpy.live
def NState.freed (s : NState) : List Nat := s.cmp.freed ++ s.cpy.freed
def NState.bad (s : NState) : Bool := s.cmp.bad || s.cpy.bad

/-! ## who points to the nodes -/

inductive Holder
  | repo (scope : String)      -- the comparator / copier repository of a `MockSupport`
  | exp (scope : String)       -- an expectation of that scope (`MockNamedValue::comparator_` / `copier_`)
deriving DecidableEq, Repr, Inhabited

/-- operations of a scenario that matter for the adaptor nodes -/
inductive AOp
  | scope (s : String)         -- `mock_c()` (`""`) / `mock_scope_c(s)`: a new scope starts with the global repository
  | installComparator
  | installCopier
  | expectTyped                -- `withParameterOfType` / `withOutputParameterOfTypeReturning` on an expectation of the scope
  | clear                      -- `clear()`: the expectations of the scope (of every scope, on the global one) are deleted
  | removeAll                  -- `removeAllComparatorsAndCopiers()`
deriving DecidableEq, Repr, Inhabited

structure World where
  nodes  : NState := {}
  cur    : Option String := none
  scopes : List String := [""]
  refs   : List (Holder × Nat) := []
deriving Repr, Inhabited

def isRepoOf (s : String) (r : Holder × Nat) : Bool := r.1 == .repo s
def isRepo (r : Holder × Nat) : Bool := match r.1 with | .repo _ => true | .exp _ => false
def isExpOf (s : String) (r : Holder × Nat) : Bool := r.1 == .exp s

/-- scopes an operation on `s` reaches: the global mock forwards to every scope -/
def reach (w : World) (s : String) : List String := if s = "" then w.scopes else [s]

/-- what is common to both interfaces; `free` = does `removeAll` delete the nodes (C: yes, C++: they are the test's) -/
def stepWith (free : Bool) (w : World) : AOp → World
  | .scope s =>
    if w.scopes.contains s then { w with cur := some s }
    else { w with cur := some s, scopes := w.scopes ++ [s],
                  refs := w.refs ++ ((w.refs.filter (isRepoOf "")).map (fun r => (Holder.repo s, r.2))) }
  | .installComparator =>
    match w.cur with
    | some s => { w with nodes := nstep w.nodes .installComparator,
                         refs := w.refs ++ (reach w s).map (fun t => (Holder.repo t, w.nodes.fresh)) }
    | none => w
  | .installCopier =>
    match w.cur with
    | some s => { w with nodes := nstep w.nodes .installCopier,
                         refs := w.refs ++ (reach w s).map (fun t => (Holder.repo t, w.nodes.fresh)) }
    | none => w
  | .expectTyped =>
    match w.cur with
    | some s => { w with refs := w.refs ++ ((w.refs.filter (isRepoOf s)).map (fun r => (Holder.exp s, r.2))) }
    | none => w
  | .clear =>
    match w.cur with
    | some s => { w with refs := w.refs.filter (fun r => !((reach w s).any (fun t => isExpOf t r))) }
    | none => w
  | .removeAll =>
    match w.cur with
    | some s => { w with nodes := if free then nstep w.nodes .removeAll else w.nodes,
                         refs := w.refs.filter (fun r => !((reach w s).any (fun t => isRepoOf t r))) }
    | none => w

/-- the scenario through the C interface -/
def stepC (w : World) (o : AOp) : World := stepWith true w o
/-- the scenario through the C++ interface -/
def stepX (w : World) (o : AOp) : World := stepWith false w o

def runC (w : World) (os : List AOp) : World := os.foldl stepC w
def runX (w : World) (os : List AOp) : World := os.foldl stepX w

/-- somebody still points to a deleted node -/
def dangling (w : World) : Bool := w.refs.any (fun r => !(w.nodes.live.contains r.2))

/-! ## the class of scenarios on which the C layer's ownership is safe -/

structure Disc where
  cur     : Option String := none
  /-- an expectation may hold a comparator / copier (typed parameter set since the last `clear()` on the global mock) -/
  pending : Bool := false
deriving DecidableEq, Repr, Inhabited

def discStep (d : Disc) : AOp → Option Disc
  | .scope s => some { d with cur := some s }
  | .expectTyped => some { d with pending := true }
  | .clear => some (if d.cur = some "" then { d with pending := false } else d)
  | .removeAll => if d.cur = some "" ∧ d.pending = false then some d else (if d.cur = none then some d else none)
  | _ => some d

def disciplinedFrom (d : Disc) : List AOp → Bool
  | [] => true
  | o :: rest => match discStep d o with
                 | some d' => disciplinedFrom d' rest
                 | none => false

/-- **Disciplined**: `removeAllComparatorsAndCopiers` is only called on the global mock, and only while no expectation
    made since the last global `clear()` carries a typed parameter. -/
def Disciplined (os : List AOp) : Bool := disciplinedFrom {} os

end MockC.Nodes
