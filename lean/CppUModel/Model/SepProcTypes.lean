/-!
Types shared by the regenerated constants (`Gen/SeparateProcessConstants.lean`) and the model of
`GccPlatformSpecificRunTestInASeperateProcess` (`Model/SeparateProcess.lean`).
-/
namespace SepProc

/-- one result of `PlatformSpecificWaitPid(cpid, &status, WUNTRACED)` as the parent sees it -/
inductive WaitOutcome
  | eintr                       -- returned -1, errno == EINTR
  | error                       -- returned -1, any other errno
  | status (w : BitVec 32)      -- returned the child's pid, `status` = w (an `int`, 32 bits)
deriving Repr, DecidableEq, Inhabited

/-- the three conditions tested by `SetTestFailureByStatusCode`, as spelled in the source -/
inductive StatusCond
  | exitedNonZero               -- WIFEXITED(status) && WEXITSTATUS(status) != 0
  | signaled                    -- WIFSIGNALED(status)
  | stopped                     -- WIFSTOPPED(status)
deriving Repr, DecidableEq, Inhabited

/-- one arm of the `if / else if` chain of `SetTestFailureByStatusCode` -/
structure ChainEntry where
  cond          : StatusCond
  msg           : String
  appendsSignal : Bool          -- message += StringFrom(WTERMSIG(status))
deriving Repr, DecidableEq, Inhabited

/-- how one pass through the body of the parent's `do … while` (or the code in front of it) ends, as
    regenerated from the AST into `Gen/SeparateProcessLoop.lean`: the texts of the failures added, the
    number of `kill(w, SIGCONT)` calls, and either `return` or the `while` condition with the values
    of the loop's locals -/
inductive BodyOut
  | ret (failures : List String) (conts : Nat)
  | fall (failures : List String) (conts : Nat) (retries : BitVec 64) (status : BitVec 32) (again : Bool)
deriving Repr, DecidableEq, Inhabited

/-- where `TestRegistry::runAllTests` calls `test->setRunInSeperateProcess()` -/
inductive SepFlagPlacement
  | everyTest                   -- first statement of the loop body: for every test
  | groupStartOnly              -- inside `if (groupStart) { … }`: only for the first test of a group
deriving Repr, DecidableEq, Inhabited

/-- what the run-ignored branch of `IgnoredUtestShell::runOneTest` does with the test -/
inductive IgnoredRunCall
  | viaRunOneTest               -- `UtestShell::runOneTest(plugin, result)`: the same separate-process-or-not decision as every test
  | inCurrentProcess            -- `result.countRun(); runOneTestInCurrentProcess(plugin, result)`: never forked
deriving Repr, DecidableEq, Inhabited

/-- the command-line switches `CommandLineTestRunner::initializeTestRun` acts on -/
inductive CliSwitch
  | verbose | veryVerbose | color | separateProcess | runIgnored | crashOnFail
deriving Repr, DecidableEq, Inhabited

/-- one `if (arguments_->isX()) action;` statement of `initializeTestRun`; `isElse` when it is
    spelled `else if` (i.e. coupled to the statement before it) -/
structure InitStmt where
  switch : CliSwitch
  isElse : Bool
deriving Repr, DecidableEq, Inhabited

end SepProc
