import CppUModel.Model.MockCTypes
import CppUModel.Gen.CMockWiring
/-!
# C19 — the C mocking layer (`src/CppUTestExt/MockSupport_c.cpp`) as a state machine over its three
static pointers, on top of an ABSTRACT C++ mock.

* `CppMock` is the parameter: any state type with the C++ operations (`mock(scope)`, a method of a
  `MockSupport`, of an expected call, of an actual call) as functions.  Nothing is assumed about what the
  operations do.
* `stepC` is one C-level statement: `mock_c()` / `mock_scope_c(s)` or a call through one of the three function
  tables.  A table call looks up the member's position in the struct (header order, regenerated), takes the
  initialiser at that position (regenerated), finds that forwarder's description (regenerated) and interprets it:
  convert the arguments, call the C++ operation through the static pointer, store the returned chain object,
  convert the result.
* `stepX` is one statement of the C++ program the scenario stands for (`Spec/MockC.lean` gives the translation):
  the same receivers as program variables, the documented C++ method, no table.

Everything here is written against `Gen.CMock`; the REQUIRED tables live in `Spec/MockC.lean`.
-/
namespace MockC

/-- values crossing the interface: integers (all integer types; widths are the C compiler's business: a forwarder
    passes its parameter on unchanged unless the descriptor says otherwise), booleans, and opaque tokens (names,
    strings, doubles as bit patterns, pointers, buffers, objects) -/
inductive Val
  | int (v : Int)
  | bool (b : Bool)
  | tok (s : String)
deriving DecidableEq, Repr, Inhabited

/-- a C++ `MockNamedValue` as far as the C layer looks at it: its type string and the payload the getter of that
    type returns -/
structure NamedVal where
  type    : String
  payload : Val
deriving DecidableEq, Repr, Inhabited

/-- the C tagged union `MockValue_c` -/
structure CVal where
  tag     : String
  member  : String
  payload : Val
deriving DecidableEq, Repr, Inhabited

/-- result of a C++ operation -/
inductive Res (EC AC : Type)
  | unit
  | ec (e : EC)
  | ac (a : AC)
  | val (v : Val)
  | named (nv : NamedVal)

/-- The abstract C++ mock. `M` is the whole C++ world (all `MockSupport` scopes, all call objects, the current
    test's result, the memory output parameters point to). -/
structure CppMock where
  M  : Type
  EC : Type
  AC : Type
  /-- `mock(scope, reporter)`: finds or creates the scope, sets the active reporter and the default repository -/
  mock : M → String → M
  /-- a method of the `MockSupport` of `scope` -/
  sup : M → String → String → List Val → M × Res EC AC
  /-- a method of an expected-call object -/
  ec : M → EC → String → List Val → M × Res EC AC
  /-- a method of an actual-call object -/
  ac : M → AC → String → List Val → M × Res EC AC
  /-- the current test has been ended by a failure (the terminator was run) -/
  stopped : M → Bool
  /-- `lastActualFunctionCall_` of a scope -/
  last : M → String → Option AC

/-! ## wiring lookup (positional, as the C compiler resolves a table call) -/

def fieldsOf : Ptr → List String
  | .exp => Gen.CMock.expectedFields
  | .act => Gen.CMock.actualFields
  | .sup => Gen.CMock.supportFields

def initOf : Ptr → List String
  | .exp => Gen.CMock.expectedInit
  | .act => Gen.CMock.actualInit
  | .sup => Gen.CMock.supportInit

/-- position of a member in its struct -/
def indexOf (x : String) : List String → Nat → Option Nat
  | [], _ => none
  | y :: ys, i => if x = y then some i else indexOf x ys (i + 1)

/-- the function a table member points to: the initialiser at the member's position -/
def forwarderNameIn (fields inits : List String) (field : String) : Option String :=
  match indexOf field fields 0 with
  | some i => inits[i]?
  | none => none

def findFwdIn (fs : List Fwd) (name : String) : Option Fwd := fs.find? (fun f => f.name = name)

def forwarderIn (fields inits : List String) (fs : List Fwd) (field : String) : Option Fwd :=
  match forwarderNameIn fields inits field with
  | some n => findFwdIn fs n
  | none => none

/-- the forwarder behind `table->field` in the current source -/
def forwarderOf (tbl : Ptr) (field : String) : Option Fwd :=
  forwarderIn (fieldsOf tbl) (initOf tbl) Gen.CMock.forwarders field

/-! ## argument and result conversion -/

def neZero : Val → Val
  | .int v => .bool (v ≠ 0)
  | v => v

def boolToInt : Val → Val
  | .bool b => .int (if b then 1 else 0)
  | v => v

/-- the value of parameter `name` in a call with actual arguments `args` -/
def argOf (params : List (String × String)) (args : List Val) (name : String) : Val :=
  match indexOf name (params.map (·.1)) 0 with
  | some i => args.getD i (.tok "?")
  | none => .tok "?"

def evalArg (params : List (String × String)) (args : List Val) : ArgExpr → Val
  | .param n _ => argOf params args n
  | .neZero n => neZero (argOf params args n)
  | .fnCast n => argOf params args n
  | .newNode _ => .tok "new"
  | .other t => .tok ("other:" ++ t)

/-- the C++ type each argument is passed as (selects the overload) -/
def argType : ArgExpr → String
  | .param _ ty => ty
  | .neZero _ => "bool"
  | .fnCast _ => "fptr"
  | .newNode l => if l = "comparatorList_" then "comparator" else "copier"
  | .other t => "other:" ++ t

/-- C++ method with its overload: `withParameter(string,int)` -/
def signature (method : String) (args : List ArgExpr) : String :=
  method ++ "(" ++ ",".intercalate (args.map argType) ++ ")"

/-- `getMockValueCFromNamedValue` over a branch table -/
def toCValueWith (rows : List TagRow) (nv : NamedVal) : CVal :=
  match rows.find? (fun r => r.type = some nv.type) with
  | some r => { tag := r.tag, member := r.member, payload := if r.post = .boolToInt then boolToInt nv.payload else nv.payload }
  | none =>
    match rows.find? (fun r => r.type = none) with
    | some r => { tag := r.tag, member := r.member, payload := nv.payload }
    | none => { tag := "?", member := "?", payload := nv.payload }

def toCValue (nv : NamedVal) : CVal := toCValueWith Gen.CMock.valueTags nv

/-- what a C-level call hands back to the C caller -/
inductive CRes
  | none                     -- void, or a table pointer
  | val (v : Val)
  | valB (v : Val)           -- a C `int` that stands for a `bool` (explicit `? 1 : 0`, or the raw default of a bool getter)
  | cval (c : CVal)
  | undefined (why : String) -- a call through a null static pointer / a body the model cannot interpret
deriving DecidableEq, Repr, Inhabited

/-! The caller's static type decides how a result of the abstract mock is read (a C++ `bool` is a `Bool`, a
`MockNamedValue` is a `NamedVal`); an ill-typed answer of the abstract mock is read as a fixed junk value, the same
way by the C layer and by the C++ program. -/

def asVal {EC AC} : Res EC AC → Val
  | .val v => v
  | _ => .tok "?"

def asBool {EC AC} : Res EC AC → Bool
  | .val (.bool b) => b
  | .val (.int v) => v ≠ 0
  | _ => false

def asNamed {EC AC} : Res EC AC → NamedVal
  | .named nv => nv
  | _ => ⟨"?", .tok "?"⟩

def applyPost {EC AC} : Post → Res EC AC → CRes
  | .boolToInt, r => .valB (.int (if asBool r then 1 else 0))
  | .toCValue, r => .cval (toCValue (asNamed r))
  | .id, r => .val (asVal r)
  | .fnCastBack, r => .val (asVal r)
  | .other t, _ => .undefined ("post:" ++ t)

/-! ## the adaptor nodes: a C function installed as comparator / copier, called by the C++ core -/

/-- a two-argument C function called with the method's parameters in the extracted order -/
def applyOrder2 {α β : Type} (order : List Nat) (f : α → α → β) (p0 p1 : α) : Option β :=
  match order with
  | [0, 1] => some (f p0 p1)
  | [1, 0] => some (f p1 p0)
  | [0, 0] => some (f p0 p0)
  | [1, 1] => some (f p1 p1)
  | _ => none

def adaptorOrder (method : String) : List Nat :=
  match Gen.CMock.adaptors.find? (fun a => a.method = method) with
  | some a => a.order
  | none => []

/-- `MockCFunctionComparatorNode::isEqual(object1, object2)` over the C function `equal` (C `int`, `!= 0`);
    the C++ core calls it as `isEqual(expected, actual)` -/
def adaptIsEqual {α : Type} (equal : α → α → Int) (object1 object2 : α) : Option Bool :=
  (applyOrder2 (adaptorOrder "isEqual") equal object1 object2).map (fun r => decide (r ≠ 0))

/-- `MockCFunctionCopierNode::copy(dst, src)` over the C function `copier(dst, src)`; `σ` = memory -/
def adaptCopy {α σ : Type} (copier : α → α → σ → σ) (dst src : α) (mem : σ) : Option σ :=
  (applyOrder2 (adaptorOrder "copy") copier dst src).map (fun f => f mem)

/-! ## the C layer -/

/-- The three static pointers of MockSupport_c.cpp on top of the C++ world.  (The C++ program the scenario stands
    for has the same three things as program variables, so the same record is used for it.) -/
structure Core (K : CppMock) where
  m   : K.M
  cur : Option String := none      -- currentMockSupport (the scope it points to) / `MockSupport& support`
  e   : Option K.EC := none        -- expectedCall / `MockExpectedCall& expected`
  a   : Option K.AC := none        -- actualCall / `MockActualCall& actual`

/-- a call through one of the three pointers -/
def callVia (K : CppMock) (st : Core K) (recv : Ptr) (meth : String) (args : List Val) :
    Option (K.M × Res K.EC K.AC) :=
  match recv with
  | .sup => match st.cur with | some s => some (K.sup st.m s meth args) | none => none
  | .exp => match st.e with | some e => some (K.ec st.m e meth args) | none => none
  | .act => match st.a with | some a => some (K.ac st.m a meth args) | none => none

def storeRes (K : CppMock) (st : Core K) (store : Ptr) (r : Res K.EC K.AC) : Core K :=
  match store, r with
  | .exp, .ec e => { st with e := some e }
  | .act, .ac a => { st with a := some a }
  | _, _ => st

/-- forwarders without the `...OrDefault` combination -/
def execSimple (K : CppMock) (st : Core K) (fw : Fwd) (args : List Val) : Core K × CRes :=
  match fw.body with
  | .chain store recv meth as _ =>
    match callVia K st recv (signature meth as) (as.map (evalArg fw.params args)) with
    | some (m, r) => (storeRes K { st with m := m } store r, .none)
    | none => (st, .undefined "null pointer")
  | .void_ recv meth as =>
    match callVia K st recv (signature meth as) (as.map (evalArg fw.params args)) with
    | some (m, _) => ({ st with m := m }, .none)
    | none => (st, .undefined "null pointer")
  | .ret recv meth as post =>
    match callVia K st recv (signature meth as) (as.map (evalArg fw.params args)) with
    | some (m, r) => ({ st with m := m }, applyPost post r)
    | none => (st, .undefined "null pointer")
  | .install _ _ _ meth as =>
    match callVia K st .sup (signature meth as) (as.map (evalArg fw.params args)) with
    | some (m, _) => ({ st with m := m }, .none)
    | none => (st, .undefined "null pointer")
  | .removeAll =>
    match callVia K st .sup "removeAllComparatorsAndCopiers()" [] with
    | some (m, _) => ({ st with m := m }, .none)
    | none => (st, .undefined "null pointer")
  | .mock none => ({ st with m := K.mock st.m "", cur := some "" }, .none)
  | .mock (some p) =>
    match argOf fw.params args p with
    | .tok s => ({ st with m := K.mock st.m s, cur := some s }, .none)
    | _ => (st, .undefined "scope")
  | .orDefault _ _ => (st, .undefined "nested orDefault")
  | .other t => (st, .undefined ("body:" ++ t))

/-- the raw default of an `...OrDefault` forwarder, marked as a bool-as-int when its getter converts with `? 1 : 0` -/
def defaultRes (g : Fwd) (d : Val) : CRes :=
  match g.body with
  | .ret _ _ _ .boolToInt => .valB d
  | _ => .val d

def isTrue : CRes → Bool
  | .val (.bool b) => b
  | .val (.int v) => v ≠ 0
  | .valB (.int v) => v ≠ 0
  | _ => false

def isUndefined : CRes → Bool
  | .undefined _ => true
  | _ => false

/-- `if (!hasFn()) return defaultValue; return getFn();` on two other forwarders -/
def execOrDefault (K : CppMock) (st : Core K) (h g : Fwd) (d : Val) : Core K × CRes :=
  if isUndefined (execSimple K st h []).2 then execSimple K st h []
  else if K.stopped (execSimple K st h []).1.m then ((execSimple K st h []).1, .none)
  else if isTrue (execSimple K st h []).2 then execSimple K (execSimple K st h []).1 g []
  else ((execSimple K st h []).1, defaultRes g d)

/-- a forwarder, with the list of all forwarders it may call -/
def execFwdWith (fs : List Fwd) (K : CppMock) (st : Core K) (fw : Fwd) (args : List Val) : Core K × CRes :=
  match fw.body with
  | .orDefault hasFn getFn =>
    match findFwdIn fs hasFn, findFwdIn fs getFn with
    | some h, some g => execOrDefault K st h g (argOf fw.params args "defaultValue")
    | _, _ => (st, .undefined "orDefault: forwarder not found")
  | _ => execSimple K st fw args

def execFwd (K : CppMock) (st : Core K) (fw : Fwd) (args : List Val) : Core K × CRes :=
  execFwdWith Gen.CMock.forwarders K st fw args

/-- a C-level statement -/
inductive CStmt
  | mockC                                   -- `mock_c()`
  | mockScope (scope : String)              -- `mock_scope_c(scope)`
  | call (tbl : Ptr) (field : String) (args : List Val)     -- `table->field(args)`
deriving DecidableEq, Repr, Inhabited

/-- one C statement: the new pointers/world and what the C caller gets back -/
def execCWith (fwdOf : Ptr → String → Option Fwd) (fs : List Fwd) (K : CppMock) (st : Core K) : CStmt → Core K × CRes
  | .mockC =>
    match findFwdIn fs "mock_c" with
    | some fw => execFwdWith fs K st fw []
    | none => (st, .undefined "mock_c not found")
  | .mockScope s =>
    match findFwdIn fs "mock_scope_c" with
    | some fw => execFwdWith fs K st fw [.tok s]
    | none => (st, .undefined "mock_scope_c not found")
  | .call tbl field args =>
    match fwdOf tbl field with
    | some fw => execFwdWith fs K st fw args
    | none => (st, .undefined "no such member")

structure CState (K : CppMock) where
  core : Core K
  obs  : List CRes := []            -- what the C caller got back, oldest first

def stepCWith (fwdOf : Ptr → String → Option Fwd) (fs : List Fwd) (K : CppMock) (st : CState K) (s : CStmt) : CState K :=
  { core := (execCWith fwdOf fs K st.core s).1, obs := st.obs ++ [(execCWith fwdOf fs K st.core s).2] }

/-- one C statement on the current source's wiring -/
def stepC (K : CppMock) (st : CState K) (s : CStmt) : CState K :=
  stepCWith forwarderOf Gen.CMock.forwarders K st s

/-- a run: statements are executed until the test is ended by a failure -/
def runCWith (fwdOf : Ptr → String → Option Fwd) (fs : List Fwd) (K : CppMock) : CState K → List CStmt → CState K
  | st, [] => st
  | st, s :: rest => if K.stopped st.core.m then st else runCWith fwdOf fs K (stepCWith fwdOf fs K st s) rest

def runC (K : CppMock) (st : CState K) (ss : List CStmt) : CState K :=
  runCWith forwarderOf Gen.CMock.forwarders K st ss

/-! ## the C++ program a scenario stands for -/

/-- result handling of a C++ statement -/
inductive XKind
  | toExp      -- the returned expected call becomes the chain object
  | toAct      -- the returned actual call becomes the chain object
  | void_
  | value      -- a value is returned to the caller
  | boolValue  -- a C++ `bool` is returned
  | named      -- a `MockNamedValue` is returned
deriving DecidableEq, Repr, Inhabited

/-- a statement of the C++ test -/
inductive XStmt
  | mock (scope : String)
  /-- `recv.method(args)` on the support / expected-call / actual-call variable -/
  | call (recv : Ptr) (method : String) (args : List Val) (kind : XKind)
  /-- `recv.methodOrDefault(default)`: the C++ definition (MockSupport.cpp / MockActualCall.cpp):
      default iff `!recv.hasReturnValue()`, else `recv.getter()` -/
  | orDefault (recv : Ptr) (getter : String) (kind : XKind) (dflt : Val)
  | invalid (why : String)
deriving DecidableEq, Repr, Inhabited

/-- what the C++ caller got back -/
inductive XRes
  | none
  | val (v : Val)
  | named (nv : NamedVal)
  | undefined (why : String)
deriving DecidableEq, Repr, Inhabited

def xresOf {EC AC} : XKind → Res EC AC → XRes
  | .value, r => .val (asVal r)
  | .boolValue, r => .val (.bool (asBool r))
  | .named, r => .named (asNamed r)
  | _, _ => .none

def storeX (K : CppMock) (st : Core K) (kind : XKind) (r : Res K.EC K.AC) : Core K :=
  match kind, r with
  | .toExp, .ec e => { st with e := some e }
  | .toAct, .ac a => { st with a := some a }
  | _, _ => st

/-- the C++ `...OrDefault` methods: default iff `!hasReturnValue()` -/
def execXOrDefault (K : CppMock) (st : Core K) (recv : Ptr) (getter : String) (kind : XKind) (dflt : Val) : Core K × XRes :=
  match callVia K st recv (signature "hasReturnValue" []) [] with
  | none => (st, .undefined "null pointer")
  | some (m1, h) =>
    if K.stopped m1 then ({ st with m := m1 }, .none)
    else if asBool h then
      match callVia K { st with m := m1 } recv (signature getter []) [] with
      | some (m2, r) => ({ st with m := m2 }, xresOf kind r)
      | none => ({ st with m := m1 }, .undefined "null pointer")
    else ({ st with m := m1 }, .val dflt)

def execX (K : CppMock) (st : Core K) : XStmt → Core K × XRes
  | .mock s => ({ st with m := K.mock st.m s, cur := some s }, .none)
  | .call recv meth args kind =>
    match callVia K st recv meth args with
    | none => (st, .undefined "null pointer")
    | some (m, r) => (storeX K { st with m := m } kind r, xresOf kind r)
  | .orDefault recv getter kind dflt => execXOrDefault K st recv getter kind dflt
  | .invalid w => (st, .undefined w)

structure XState (K : CppMock) where
  core : Core K
  obs  : List XRes := []

def stepX (K : CppMock) (st : XState K) (s : XStmt) : XState K :=
  { core := (execX K st.core s).1, obs := st.obs ++ [(execX K st.core s).2] }

def runX (K : CppMock) : XState K → List XStmt → XState K
  | st, [] => st
  | st, s :: rest => if K.stopped st.core.m then st else runX K (stepX K st s) rest

end MockC
