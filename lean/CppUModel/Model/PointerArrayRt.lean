import CppUModel.Model.Registry
/-!
Run-time vocabulary of the REGENERATED `UtestShellPointerArray` methods
(`Gen/PointerArray.lean`, written by translate/extract_ptrarray.py from clang's typed JSON AST of
`src/CppUTest/Utest.cpp` on every check run).

The translator emits one Lean function per C++ method, statement by statement, over the object
state `St` below; the only hand-written pieces are the primitives a statement is mapped to:

* `arrayOfTests_[e]` as an rvalue            ↦ `Rt.get s e`
* `arrayOfTests_[e] = p`                      ↦ `Rt.set s e p`
* `p->addTest(q)` (`next_ = q; return this;`) ↦ `Rt.addTest s p q`      (shape of `UtestShell::addTest` is checked)
* `PlatformSpecificSrand(e)`                  ↦ `Rt.srand s e`
* `(size_t) PlatformSpecificRand()`           ↦ `Rt.peekRand s` followed by `Rt.popRand s`
* the one loop-carried pointer local          ↦ the register `St.ptr`
* `for (size_t i = e0; cond; ++i / i++ / --i) body` ↦ `Rt.forLoop cond step body fuel e0 s`
* `return;`                                   ↦ `Ctl.ret s`, calling a method ↦ `Ctl.call`

`size_t` values are `Nat` (no wrap: `count_ - 1` is only evaluated behind the `count_ == 0` guards;
a removed guard makes the C++ wrap and is found by the harness under ASan, not by a theorem).
Shell pointers are shell ids.  Core Lean only.
-/
namespace Registry.PA

/-- how a statement list ends: fell through (`go`), executed `return` (`ret`), or the loop fuel
    the translator chose was not enough (`fuel`; the equality theorems show it never is) -/
inductive Ctl (σ : Type) where
  | go (s : σ)
  | ret (s : σ)
  | fuel
deriving Repr

/-- the `UtestShellPointerArray` object, the `next_` fields of the shells it points to, and the
    environment of `shuffle` -/
structure St where
  arr    : Array Nat                 -- `arrayOfTests_`
  count  : Nat                       -- `count_`
  next   : Next                      -- `next_` of every shell
  rands  : List Nat := []            -- what `PlatformSpecificRand()` will return, cast to `size_t`
  srands : List Nat := []            -- arguments `PlatformSpecificSrand` was called with
  ptr    : Option Nat := none        -- the loop-carried `UtestShell*` local (`tests`)

namespace Ctl
/-- sequencing inside one function: a `return` ends the function -/
def bind {σ} (c : Ctl σ) (f : σ → Ctl σ) : Ctl σ :=
  match c with
  | .go s => f s
  | .ret s => .ret s
  | .fuel => .fuel

/-- a call of another method: its `return` only ends the callee -/
def call {σ} (c : Ctl σ) (f : σ → Ctl σ) : Ctl σ :=
  match c with
  | .go s => f s
  | .ret s => f s
  | .fuel => .fuel

/-- the state a finished call leaves -/
def state? {σ} : Ctl σ → Option σ
  | .go s => some s
  | .ret s => some s
  | .fuel => none
end Ctl

namespace Rt

def get (s : St) (i : Nat) : Nat := s.arr.getD i 0
def set (s : St) (i : Nat) (p : Nat) : St := { s with arr := s.arr.setIfInBounds i p }
def addTest (s : St) (p : Nat) (q : Option Nat) : St := { s with next := setNext s.next p q }
def setPtr (s : St) (p : Option Nat) : St := { s with ptr := p }
def srand (s : St) (seed : Nat) : St := { s with srands := s.srands ++ [seed] }
def peekRand (s : St) : Nat := s.rands.headD 0
def popRand (s : St) : St := { s with rands := s.rands.tail }

/-- `for (size_t i = i0; cond(i); i = step(i)) body(i)`; the first argument is fuel -/
def forLoop {σ} (cond : Nat → σ → Bool) (step : Nat → Nat) (body : Nat → σ → Ctl σ) :
    Nat → Nat → σ → Ctl σ
  | 0, _, _ => .fuel
  | f + 1, i, s =>
    if cond i s then
      match body i s with
      | .go s' => forLoop cond step body f (step i) s'
      | .ret s' => .ret s'
      | .fuel => .fuel
    else .go s

end Rt
end Registry.PA
