import CppUModel.Model.Mock
/-!
The text of a mock failure beyond its first line: the *expectation history*.

Written from `MockFailure.cpp` (`addExpectationsAndCallHistory`, `addExpectationsAndCallHistoryRelatedTo`,
the constructors that choose between them), `MockExpectedCallsList.cpp` (`unfulfilledCallsToString`,
`fulfilledCallsToString`, `callsWithMissingParametersToString`, `stringOrNoneTextWhenEmpty`,
`addExpectationsRelatedTo`, `addExpectations`, `onlyKeepOutOfOrderExpectations`),
`MockExpectedCall.cpp` (`callToString`, `missingParametersToString`) and
`MockSupport.cpp` (`failTestWithExpectedCallsNotFulfilled`, `failTestWithOutOfOrderCalls`: the
expectations of the mock and of every scope below it, in creation order).

The lines are in the canonical form the harness reduces the text to (`emit_history` in
`harness/h_c08.cpp`): per section a header line and one line per listed expectation with its name,
object, order window, parameter names, output parameter names, the ignore-other-parameters flag
and the two counters; parameter values and type names are dropped (C09 / C14).
-/
namespace Mock

def csv (l : List String) : String := if l.isEmpty then "-" else ",".intercalate l

/-- canonical form of `callToString()` -/
def Exp.entry (e : Exp) : String :=
  e.name ++ " o:" ++ (match e.obj with | some o => toString o | none => "-") ++
  " w:" ++ (if e.lo != 0 then toString e.lo ++ "-" ++ toString e.hi else "-") ++
  " in:" ++ csv (e.ins.map (·.name)) ++ " out:" ++ csv (e.outs.map (·.name)) ++
  " iop:" ++ (if e.iop then "1" else "0") ++ " " ++ toString e.expected ++ " " ++ toString e.actual

/-- `stringOrNoneTextWhenEmpty` -/
def orNone (sec : String) (l : List String) : List String :=
  if l.isEmpty then ["hist " ++ sec ++ " none"] else l

/-- `unfulfilledCallsToString`: the expectations with `actualCalls_ != expectedCalls_`, list order -/
def unfulfilledOf (es : List Exp) : List Exp := es.filter (fun e => !e.isFulfilled)
/-- `fulfilledCallsToString` -/
def fulfilledOf (es : List Exp) : List Exp := es.filter (fun e => e.isFulfilled)

def sectionLines (sec : String) (es : List Exp) : List String :=
  orNone sec (es.map (fun e => "hist " ++ sec ++ " " ++ e.entry))

/-- `addExpectationsAndCallHistory(expectations)` -/
def historyAll (es : List Exp) : List String :=
  ["hist U-section *"] ++ sectionLines "U" (unfulfilledOf es) ++
  ["hist F-section *"] ++ sectionLines "F" (fulfilledOf es)

/-- `addExpectationsRelatedTo(name, list)` -/
def relatedTo (fn : String) (es : List Exp) : List Exp := es.filter (fun e => e.name == fn)

/-- `addExpectationsAndCallHistoryRelatedTo(name, expectations)` -/
def historyRelated (fn : String) (es : List Exp) : List String :=
  ["hist U-section " ++ fn] ++ sectionLines "U" (unfulfilledOf (relatedTo fn es)) ++
  ["hist F-section " ++ fn] ++ sectionLines "F" (fulfilledOf (relatedTo fn es))

/-- `MockCallOrderFailure`: `onlyKeepOutOfOrderExpectations`, then the plain history -/
def historyOutOfOrder (es : List Exp) : List String := historyAll (es.filter (·.outOfOrder))

/-- `missingParametersToString`: input parameters not passed, then output parameters not passed -/
def Exp.missingNames (e : Exp) : List String :=
  (e.ins.filter (fun p => !p.passed)).map (·.name) ++ (e.outs.filter (fun p => !p.passed)).map (·.name)

/-- `callsWithMissingParametersToString` over the candidate list of the call -/
def missingLines (es : List Exp) : List String :=
  orNone "M" ((es.filter (·.cand)).flatMap (fun e => ["hist M " ++ e.entry, "hist m " ++ csv e.missingNames]))

/-- `MockExpectedParameterDidntHappenFailure` -/
def historyMissing (fn : String) (es : List Exp) : List String :=
  ["hist M-section " ++ fn] ++ missingLines es ++ historyRelated fn es

/-- which history a failure of a call carries, by the constructor that built it (`MockFailure.cpp`):
    unexpected (additional) call → every expectation of the `MockSupport`; missing parameter →
    the candidates with what they miss, then the expectations of the function; everything else →
    the expectations of the function -/
def historyOfCallFailure (es : List Exp) (fn msg : String) : List String :=
  if msg == msgUnexpectedCall es fn then historyAll es
  else if msg == msgMissingParam fn then historyMissing fn es
  else historyRelated fn es

/-- the history after a failing `actualCall` statement or return-value getter on scope `name`: the
    failing call is the scope's call in flight (the new one, or the previous one if finishing it failed) -/
def World.callFailureHistory (w : World) (name msg : String) : List String :=
  match (w.get name).last with
  | some c => historyOfCallFailure (w.get name).es c.name msg
  | none => []

/-- the call in flight that has failed, scope by scope -/
def failedPending : List Scope → Option (Scope × ACall)
  | [] => none
  | s :: rest =>
    match s.last with
    | some c => if c.state == .failed then some (s, c) else failedPending rest
    | none => failedPending rest

/-- the history after a failing `checkExpectations()` / `expectedCallsLeft()` on scope `name`
    (`w` is the world after the operation): a call in flight that could not be finished, else
    `failTestWithExpectedCallsNotFulfilled` / `failTestWithOutOfOrderCalls` over the mock and the
    scopes below it -/
def World.checkFailureHistory (w : World) (name msg : String) : List String :=
  if msg == msgUnfulfilled then historyAll ((w.covered name).flatMap (·.es))
  else if msg == msgOutOfOrder then historyOutOfOrder ((w.covered name).flatMap (·.es))
  else
    match failedPending (w.covered name) with
    | some (s, c) => historyOfCallFailure s.es c.name msg
    | none => []

end Mock
