import CppUModel.Gen.MockEquals
import CppUModel.Gen.CMockWiring
/-!
# Which `MockNamedValue` each typed entry point of the mock API creates for an integer parameter

Entry points (expectation side `expected`, actual side `actual`), each for the six integer kinds
`int uint long ulong llong ullong`:

* `ovl` — C++ `withParameter("p", <value of that type>)` (overload chosen by the argument's static type),
* `exp` — C++ explicit `withIntParameter … withUnsignedLongLongIntParameter`,
* `c`   — C `mock_c()->expectOneCall/actualCall("f")->withIntParameters … withUnsignedLongLongIntParameters`.

Nothing is assumed about the wiring: the C side is followed through the REGENERATED `Gen.CMock`
(struct field ↦ positional initialiser ↦ forwarder body: callee and declared parameter type; C19's translator,
imported unchanged), the C++ side through the REGENERATED `Gen.MockEquals.cppOverloads / cppExplicit`.  An
argument that reaches a method declared with another integer type is converted the C way (value modulo 2^width).
-/
namespace Mock

def intKinds : List String := ["int", "uint", "long", "ulong", "llong", "ullong"]

/-- the value a `setValue` overload of kind `k` stores for the (already converted) integer `v` -/
def mkInt (k : String) (v : Int) : Option MVal :=
  if k == "int" then some (.int (BitVec.ofInt 32 v))
  else if k == "uint" then some (.uint (BitVec.ofInt 32 v))
  else if k == "long" then some (.long (BitVec.ofInt 64 v))
  else if k == "ulong" then some (.ulong (BitVec.ofInt 64 v))
  else if k == "llong" then some (.llong (BitVec.ofInt 64 v))
  else if k == "ullong" then some (.ullong (BitVec.ofInt 64 v))
  else none

def lookup3 (t : List (String × String × String)) (a b : String) : Option String :=
  (t.find? fun x => x.1 == a && x.2.1 == b).map (·.2.2)

/-- kind stored by the explicit C++ method `m` of call class `cls` -/
def explicitKind (cls m : String) : Option String := lookup3 Gen.MockEquals.cppExplicit cls m

/-- kind stored when `callee` is called on a call object of class `cls` with an argument of static kind `arg`:
    `withParameter` selects the overload of `arg`, any other name is an explicit method -/
def resolveCpp (cls callee arg : String) : Option String :=
  if callee == "withParameter" then (lookup3 Gen.MockEquals.cppOverloads cls arg).bind (explicitKind cls)
  else explicitKind cls callee

def kindWord (k : String) : Option String :=
  if k == "int" then some "Int" else if k == "uint" then some "UnsignedInt" else if k == "long" then some "LongInt"
  else if k == "ulong" then some "UnsignedLongInt" else if k == "llong" then some "LongLongInt"
  else if k == "ullong" then some "UnsignedLongLongInt" else none

def zipLookup (fields init : List String) (f : String) : Option String :=
  ((fields.zip init).find? fun x => x.1 == f).map (·.2)

/-- the C struct member `with<K>Parameters` of the expected / actual function table: the forwarder it is initialised
    with, then that forwarder's callee and the declared type of its `value` parameter -/
def cForward (cls k : String) : Option (String × String) := do
  let w ← kindWord k
  let field := "with" ++ w ++ "Parameters"
  let fn ← if cls == "expected" then zipLookup Gen.CMock.expectedFields Gen.CMock.expectedInit field
           else zipLookup Gen.CMock.actualFields Gen.CMock.actualInit field
  let fwd ← Gen.CMock.forwarders.find? fun f => f.name == fn
  match fwd.body with
  | .chain _ _ method [.param _ "string", .param _ ty] _ => some (method, ty)
  | _ => none

/-- kind of the value created by entry `api` (`ovl`/`exp`/`c`) of class `cls` when called at kind `k` -/
def entryKind (cls api k : String) : Option String :=
  if api == "ovl" then resolveCpp cls "withParameter" k
  else if api == "exp" then (kindWord k).bind fun w => explicitKind cls ("with" ++ w ++ "Parameter")
  else if api == "c" then (cForward cls k).bind fun (callee, ty) => resolveCpp cls callee ty
  else none

/-- the value created for the integer `v` (in the range of kind `k`) -/
def entryValue (cls api k : String) (v : Int) : Option MVal :=
  (entryKind cls api k).bind fun k' => mkInt k' v

/-! ## non-integer typed entry points: bool, double (default tolerance / given tolerance), string, `void*`, `const void*`,
function pointer, memory buffer — through the C++ `withParameter` overloads, the explicit C++ methods and the C interface.
Followed through the REGENERATED `Gen.MockEquals.cppOverloadsX / cppExplicitX` and C19's `Gen.CMock`. -/

/-- argument(s) of one non-integer entry call -/
inductive XArg where
  | bool (b : Bool)                 -- a C++ `bool`
  | cint (v : Int)                  -- the `int` the C interface takes where C++ takes a `bool`
  | dbl (v : D Float)               -- `double value`
  | dbl2 (v t : D Float)            -- `double value, double tolerance` (expectation side only)
  | str (s : Option Bytes)
  | ptr (a : Nat)
  | cptr (a : Nat)
  | fptr (a : Nat)
  | mem (b : Bytes)                 -- `const unsigned char* value, size_t size` with `size` = number of bytes

/-- kind of the argument list -/
def XArg.kind : XArg → String
  | .bool _ => "bool"
  | .cint _ => "cint"
  | .dbl _ => "double"
  | .dbl2 _ _ => "double2"
  | .str _ => "string"
  | .ptr _ => "ptr"
  | .cptr _ => "cptr"
  | .fptr _ => "fptr"
  | .mem _ => "membuf"

/-- the tolerance `setValue(double)` stores (REGENERATED constant) -/
def defaultTol : D Float := classify Gen.MockEquals.defaultDoubleTolerance

/-- the value the setter call `setter` (text as in the source) stores for the argument(s) `a` -/
def storeX (setter : String) (a : XArg) : Option MVal :=
  if setter == "setValue(value)" then
    match a with
    | .bool b => some (.bool b)
    | .dbl v => some (.dbl v defaultTol)
    | .str s => some (.str s)
    | .ptr x => some (.ptr x)
    | .cptr x => some (.cptr x)
    | .fptr x => some (.fptr x)
    | _ => none
  else if setter == "setValue(value,tolerance)" then
    match a with
    | .dbl2 v t => some (.dbl v t)
    | _ => none
  else if setter == "setMemoryBuffer(value,size)" then
    match a with
    | .mem b => some (.mem b)
    | _ => none
  else none

def lookup4 (t : List (String × String × String × String)) (a b c : String) : Option String :=
  (t.find? fun x => x.1 == a && x.2.1 == b && x.2.2.1 == c).map (·.2.2.2)

/-- the setter call of the explicit method `m` of class `cls` taking an argument list of kind `k` -/
def explicitSetterX (cls m k : String) : Option String := lookup4 Gen.MockEquals.cppExplicitX cls m k

/-- setter reached when `callee` is called on a call object of class `cls` with an argument list of kind `k` -/
def resolveCppX (cls callee k : String) : Option String :=
  if callee == "withParameter" then (lookup3 Gen.MockEquals.cppOverloadsX cls k).bind fun m => explicitSetterX cls m k
  else explicitSetterX cls callee k

def kindWordX (k : String) : Option String :=
  if k == "bool" then some "Bool" else if k == "double" then some "Double" else if k == "double2" then some "Double"
  else if k == "string" then some "String" else if k == "ptr" then some "Pointer" else if k == "cptr" then some "ConstPointer"
  else if k == "fptr" then some "FunctionPointer" else if k == "membuf" then some "MemoryBuffer" else none

/-- name of the C struct member for an argument list of kind `k` (`cint` = the C view of a bool) -/
def cFieldX (k : String) : Option String :=
  if k == "cint" then some "withBoolParameters" else if k == "double" then some "withDoubleParameters"
  else if k == "double2" then some "withDoubleParametersAndTolerance" else if k == "string" then some "withStringParameters"
  else if k == "ptr" then some "withPointerParameters" else if k == "cptr" then some "withConstPointerParameters"
  else if k == "fptr" then some "withFunctionPointerParameters" else if k == "membuf" then some "withMemoryBufferParameter"
  else none

/-- what a C forwarder does with its arguments: the C++ method called and the converted argument list -/
def cApplyX (body : MockC.Body) (a : XArg) : Option (String × XArg) :=
  match body, a with
  | .chain _ _ method [.param "name" "string", .neZero "value"] _, .cint v => some (method, .bool (v != 0))
  | .chain _ _ method [.param "name" "string", .param "value" "double"] _, .dbl v => some (method, .dbl v)
  | .chain _ _ method [.param "name" "string", .param "value" "double", .param "tolerance" "double"] _, .dbl2 v t =>
    some (method, .dbl2 v t)
  | .chain _ _ method [.param "name" "string", .param "value" "string"] _, .str s => some (method, .str s)
  | .chain _ _ method [.param "name" "string", .param "value" "ptr"] _, .ptr x => some (method, .ptr x)
  | .chain _ _ method [.param "name" "string", .param "value" "cptr"] _, .cptr x => some (method, .cptr x)
  | .chain _ _ method [.param "name" "string", .fnCast "value"] _, .fptr x => some (method, .fptr x)
  | .chain _ _ method [.param "name" "string", .param "value" "membuf", .param "size" "size"] _, .mem b => some (method, .mem b)
  | _, _ => none

/-- the forwarder the C struct member for `a` is initialised with -/
def cForwarderX (cls : String) (a : XArg) : Option MockC.Fwd :=
  (cFieldX a.kind).bind fun field =>
    (if cls == "expected" then zipLookup Gen.CMock.expectedFields Gen.CMock.expectedInit field
     else zipLookup Gen.CMock.actualFields Gen.CMock.actualInit field).bind fun fn =>
      Gen.CMock.forwarders.find? fun f => f.name == fn

/-- the value created by entry `api` (`ovl`/`exp`/`c`) of class `cls` for the argument list `a`; `none` = no such entry
    (e.g. a tolerance on the actual side, a C `int` passed to a C++ entry) or the wiring is not of the modelled shape -/
def entryValueX (cls api : String) (a : XArg) : Option MVal :=
  if api == "ovl" then (resolveCppX cls "withParameter" a.kind).bind fun s => storeX s a
  else if api == "exp" then
    ((kindWordX a.kind).bind fun w => explicitSetterX cls ("with" ++ w ++ "Parameter") a.kind).bind fun s => storeX s a
  else if api == "c" then
    ((cForwarderX cls a).bind fun f => cApplyX f.body a).bind fun r => (resolveCppX cls r.1 r.2.kind).bind fun s => storeX s r.2
  else none

/-- the wiring every non-integer entry point must have -/
def requiredOverloadsX : List (String × String × String) :=
  [ ("actual", "bool", "withBoolParameter"), ("actual", "double", "withDoubleParameter"),
    ("actual", "string", "withStringParameter"), ("actual", "ptr", "withPointerParameter"),
    ("actual", "cptr", "withConstPointerParameter"), ("actual", "fptr", "withFunctionPointerParameter"),
    ("actual", "membuf", "withMemoryBufferParameter"),
    ("expected", "bool", "withBoolParameter"), ("expected", "double", "withDoubleParameter"),
    ("expected", "string", "withStringParameter"), ("expected", "ptr", "withPointerParameter"),
    ("expected", "cptr", "withConstPointerParameter"), ("expected", "fptr", "withFunctionPointerParameter"),
    ("expected", "membuf", "withMemoryBufferParameter"), ("expected", "double2", "withDoubleParameter") ]

/-- … and the one setter call every explicit method must make -/
def requiredExplicitX : List (String × String × String × String) :=
  [ ("actual", "withBoolParameter", "bool", "setValue(value)"), ("actual", "withDoubleParameter", "double", "setValue(value)"),
    ("actual", "withStringParameter", "string", "setValue(value)"), ("actual", "withPointerParameter", "ptr", "setValue(value)"),
    ("actual", "withConstPointerParameter", "cptr", "setValue(value)"),
    ("actual", "withFunctionPointerParameter", "fptr", "setValue(value)"),
    ("actual", "withMemoryBufferParameter", "membuf", "setMemoryBuffer(value,size)"),
    ("expected", "withBoolParameter", "bool", "setValue(value)"), ("expected", "withDoubleParameter", "double", "setValue(value)"),
    ("expected", "withDoubleParameter", "double2", "setValue(value,tolerance)"),
    ("expected", "withStringParameter", "string", "setValue(value)"), ("expected", "withPointerParameter", "ptr", "setValue(value)"),
    ("expected", "withConstPointerParameter", "cptr", "setValue(value)"),
    ("expected", "withFunctionPointerParameter", "fptr", "setValue(value)"),
    ("expected", "withMemoryBufferParameter", "membuf", "setMemoryBuffer(value,size)") ]

end Mock
