import CppUModel.Gen.MockEquals
import CppUModel.Gen.CMockWiring
/-!
# Which `MockNamedValue` each typed entry point of the mock API creates for an integer parameter

Entry points (expectation side `expected`, actual side `actual`), each for the six integer kinds
`int uint long ulong llong ullong`:

* `ovl` — C++ `withParameter("p", <value of that type>)` (overload chosen by the argument's static type),
* `exp` — C++ explicit `withIntParameter … withUnsignedLongLongIntParameter`,
* `c`   — C `mock_c()->expectOneCall/actualCall("f")->withIntParameters … withUnsignedLongLongIntParameters`.

Nothing is assumed about the wiring: the C side is followed through the REGENERATED `Gen.CMock`
(struct field ↦ positional initialiser ↦ forwarder body: callee and declared parameter type; C19's translator,
imported unchanged), the C++ side through the REGENERATED `Gen.MockEquals.cppOverloads / cppExplicit`.  An
argument that reaches a method declared with another integer type is converted the C way (value modulo 2^width).
-/
namespace Mock

def intKinds : List String := ["int", "uint", "long", "ulong", "llong", "ullong"]

/-- the value a `setValue` overload of kind `k` stores for the (already converted) integer `v` -/
def mkInt (k : String) (v : Int) : Option MVal :=
  if k == "int" then some (.int (BitVec.ofInt 32 v))
  else if k == "uint" then some (.uint (BitVec.ofInt 32 v))
  else if k == "long" then some (.long (BitVec.ofInt 64 v))
  else if k == "ulong" then some (.ulong (BitVec.ofInt 64 v))
  else if k == "llong" then some (.llong (BitVec.ofInt 64 v))
  else if k == "ullong" then some (.ullong (BitVec.ofInt 64 v))
  else none

def lookup3 (t : List (String × String × String)) (a b : String) : Option String :=
  (t.find? fun x => x.1 == a && x.2.1 == b).map (·.2.2)

/-- kind stored by the explicit C++ method `m` of call class `cls` -/
def explicitKind (cls m : String) : Option String := lookup3 Gen.MockEquals.cppExplicit cls m

/-- kind stored when `callee` is called on a call object of class `cls` with an argument of static kind `arg`:
    `withParameter` selects the overload of `arg`, any other name is an explicit method -/
def resolveCpp (cls callee arg : String) : Option String :=
  if callee == "withParameter" then (lookup3 Gen.MockEquals.cppOverloads cls arg).bind (explicitKind cls)
  else explicitKind cls callee

def kindWord (k : String) : Option String :=
  if k == "int" then some "Int" else if k == "uint" then some "UnsignedInt" else if k == "long" then some "LongInt"
  else if k == "ulong" then some "UnsignedLongInt" else if k == "llong" then some "LongLongInt"
  else if k == "ullong" then some "UnsignedLongLongInt" else none

def zipLookup (fields init : List String) (f : String) : Option String :=
  ((fields.zip init).find? fun x => x.1 == f).map (·.2)

/-- the C struct member `with<K>Parameters` of the expected / actual function table: the forwarder it is initialised
    with, then that forwarder's callee and the declared type of its `value` parameter -/
def cForward (cls k : String) : Option (String × String) := do
  let w ← kindWord k
  let field := "with" ++ w ++ "Parameters"
  let fn ← if cls == "expected" then zipLookup Gen.CMock.expectedFields Gen.CMock.expectedInit field
           else zipLookup Gen.CMock.actualFields Gen.CMock.actualInit field
  let fwd ← Gen.CMock.forwarders.find? fun f => f.name == fn
  match fwd.body with
  | .chain _ _ method [.param _ "string", .param _ ty] _ => some (method, ty)
  | _ => none

/-- kind of the value created by entry `api` (`ovl`/`exp`/`c`) of class `cls` when called at kind `k` -/
def entryKind (cls api k : String) : Option String :=
  if api == "ovl" then resolveCpp cls "withParameter" k
  else if api == "exp" then (kindWord k).bind fun w => explicitKind cls ("with" ++ w ++ "Parameter")
  else if api == "c" then (cForward cls k).bind fun (callee, ty) => resolveCpp cls callee ty
  else none

/-- the value created for the integer `v` (in the range of kind `k`) -/
def entryValue (cls api k : String) (v : Int) : Option MVal :=
  (entryKind cls api k).bind fun k' => mkInt k' v

end Mock
