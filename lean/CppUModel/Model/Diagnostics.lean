import CppUModel.Gen.DiagnosticsConstants
import CppUModel.Spec.Text
/-!
# Model of the diagnostics builders (C14)

(A) `src/CppUTest/TestFailure.cpp`: the message builder of every failure class, written from the
    C++ line by line.  The first-difference scans read NUL-terminated buffers through `rd` (a read
    outside the buffer is `.error .oob`), with fuel; everything else (`SimpleString` concatenation,
    `subString`, `printable`, `StringFrom…`) is the list operation the `SimpleString` function
    computes.  Formats, window sizes and padding come from `Gen/DiagnosticsConstants.lean`.
(B) `SimpleStringBuffer` / `MemoryLeakOutputStringBuffer` of `src/CppUTest/MemoryLeakDetector.cpp`:
    the fixed buffer as `(filled, limit, text)`; `add` gets the complete formatted text (its length is
    the value `vsnprintf` returns); the report is a fold over the leak list.
(C) `MemBuf`: the same `add` over the actual 4096-byte array followed by the 16 canary bytes of hook
    H2, with a ghost flag that records a write outside `buffer_`.
Core Lean only.
-/
namespace Diag
open Fmt Gen.Diag

abbrev Bytes := List UInt8

inductive Err | oob
deriving Repr, DecidableEq, Inhabited

/-! ## (A) failure messages -/

/-- bounded read -/
def rd (buf : Bytes) (i : Nat) : Except Err UInt8 :=
  match buf[i]? with
  | some b => .ok b
  | none => .error .oob

/-- the buffer of a C string with contents `a` (exact size) -/
def cstr (a : Bytes) : Bytes := a ++ [0]

/-- `for (i = 0; f(A[i]) == f(E[i]) && A[i] != '\0'; i++);` — returns `i` -/
def scan (f : UInt8 → UInt8) : Nat → Bytes → Bytes → Nat → Except Err Nat
  | 0, _, _, _ => .error .oob
  | fuel + 1, A, E, i =>
    match rd A i, rd E i with
    | .ok x, .ok y => if f x = f y ∧ x ≠ 0 then scan f fuel A E (i + 1) else .ok i
    | _, _ => .error .oob

/-- `for (i = 0; i < size && A[i] == E[i]; i++);` -/
def scanBin : Nat → Nat → Bytes → Bytes → Nat → Except Err Nat
  | 0, _, _, _, _ => .error .oob
  | fuel + 1, size, A, E, i =>
    if i < size then
      match rd A i, rd E i with
      | .ok x, .ok y => if x = y then scanBin fuel size A E (i + 1) else .ok i
      | _, _ => .error .oob
    else .ok i

/-- `SimpleString::ToLower` -/
def toLower (c : UInt8) : UInt8 := if 65 ≤ c ∧ c ≤ 90 then c + 32 else c

/-- `isControlWithShortEscapeSequence` (`char` is signed: bytes ≥ 0x80 are negative) -/
def isShortEsc (c : UInt8) : Bool := decide (7 ≤ c ∧ c ≤ 13)
/-- `isControl`: `ch < ' ' || ch == 0x7F` on a signed `char` -/
def isControl (c : UInt8) : Bool := decide (128 ≤ c ∨ c < 32 ∨ c = 127)

/-- `shortEscapeCodes[(unsigned char)(c - '\a')]` -/
def shortEscapeCodes : List Bytes := [[92, 97], [92, 98], [92, 116], [92, 110], [92, 118], [92, 102], [92, 114]]

/-- one iteration of the loop in `SimpleString::printable` -/
def printableStep (c : UInt8) : Bytes :=
  if isShortEsc c then (shortEscapeCodes.getD (c.toNat - 7) []).take 2
  else if isControl c then (render [.lit [92, 120], .X02, .lit [32]] [.nat c.toNat]).take 4
  else [c]

/-- `SimpleString::printable` -/
def printable (a : Bytes) : Bytes := a.flatMap printableStep

def nullText : Bytes := [40, 110, 117, 108, 108, 41]

/-- `StringFromOrNull` (`none` = NULL pointer) -/
def strOrNull : Option Bytes → Bytes
  | some a => a
  | none => nullText

/-- `PrintableStringFromOrNull` -/
def printableOrNull : Option Bytes → Bytes
  | some a => printable a
  | none => nullText

/-- `TestFailure::createUserText` -/
def userText (text : Bytes) : Bytes :=
  if text.isEmpty then []
  else (if userTextException.isPrefixOf text then [] else userTextPrefix) ++ text ++ userTextSeparator

/-- `TestFailure(test, file, line)`: no message given -/
def baseFailureNoMessage : Bytes := noMessageText

/-- `TestFailure(test, file, line, message)` / `TestFailure(test, message)` -/
def baseFailure (message : Bytes) : Bytes := message

/-- `UnexpectedExceptionFailure(test)` -/
def unexpectedExceptionUnknown : Bytes := excUnknownText

/-- `UnexpectedExceptionFailure(test, e)`: the (demangled) type name and `e.what()` are inputs -/
def unexpectedException (typeName what : Bytes) : Bytes := render excFmt [.str typeName, .str what]

/-- `TestFailure::createButWasString` -/
def butWas (expected actual : Bytes) : Bytes := render butWasFmt [.str expected, .str actual]

/-- `SimpleString(" ", n)` -/
def repeatStr (s : Bytes) (n : Nat) : Bytes := (List.replicate n s).flatten

/-- `differentString` of `createDifferenceAtPosString` -/
def differentString (reported : Nat) : Bytes := render differenceFmt [.nat reported]

/-- the padded copy of `actual` -/
def paddedActual (actual : Bytes) : Bytes := repeatStr padByte halfWindow ++ actual ++ repeatStr padByte halfWindow

/-- `TestFailure::createDifferenceAtPosString` -/
def diffAtPos (actual : Bytes) (offset reported : Nat) : Bytes :=
  diffLead
  ++ render diffLine1Fmt [.str (differentString reported), .str (Text.subString (paddedActual actual) offset window)]
  ++ render diffLine2Fmt [.str (repeatStr markerPadByte ((differentString reported).length + halfWindow))]

/-- `EqualsFailure(const char*, const char*)` -/
def equalsFailure (expected actual : Option Bytes) (text : Bytes) : Bytes :=
  userText text ++ butWas (strOrNull expected) (strOrNull actual)

/-- `EqualsFailure(const SimpleString&, const SimpleString&)` -/
def equalsFailureSS (expected actual text : Bytes) : Bytes :=
  userText text ++ butWas expected actual

/-- `DoublesEqualFailure`; the `%.7g` renderings of the three doubles and "one of them is NaN"
    are inputs (C library / platform) -/
def doublesEqualFailure (es as ts : Bytes) (anyNan : Bool) (text : Bytes) : Bytes :=
  userText text ++ butWas es as
  ++ [32, 116, 104, 114, 101, 115, 104, 111, 108, 100, 32, 117, 115, 101, 100, 32, 119, 97, 115, 32, 60] ++ ts ++ [62]
  ++ (if anyNan then [10, 9, 67, 97, 110, 110, 111, 116, 32, 109, 97, 107, 101, 32, 99, 111, 109, 112, 97, 114, 105, 115, 111, 110, 115, 32, 119, 105, 116, 104, 32, 78, 97, 110] else [])

/-- the two scans of the string classes: raw operands, printable forms; returns
    `(failStart, failStartPrintable)` -/
def stringScans (f : UInt8 → UInt8) (expected actual : Bytes) : Except Err (Nat × Nat) :=
  match scan f (actual.length + 1) (cstr actual) (cstr expected) 0 with
  | .error e => .error e
  | .ok failStart =>
    match scan f ((printable actual).length + 1) (cstr (printable actual)) (cstr (printable expected)) 0 with
    | .error e => .error e
    | .ok failStartPrintable => .ok (failStart, failStartPrintable)

/-- common tail of `CheckEqualFailure` / `StringEqualFailure` / `StringEqualNoCaseFailure` when both
    operands are non-NULL -/
def stringDiffPart (f : UInt8 → UInt8) (expected actual : Bytes) : Except Err Bytes :=
  match stringScans f expected actual with
  | .error e => .error e
  | .ok (failStart, failStartPrintable) => .ok (diffAtPos (printable actual) failStartPrintable failStart)

/-- `CheckEqualFailure` (operands are `SimpleString`s, never NULL) -/
def checkEqualFailure (expected actual text : Bytes) : Except Err Bytes :=
  match stringDiffPart id expected actual with
  | .error e => .error e
  | .ok d => .ok (userText text ++ butWas (printable expected) (printable actual) ++ d)

/-- `StringEqualFailure` (`f = id`) and `StringEqualNoCaseFailure` (`f = toLower`) -/
def stringEqualFailureBy (f : UInt8 → UInt8) (expected actual : Option Bytes) (text : Bytes) : Except Err Bytes :=
  match expected, actual with
  | some e, some a =>
    match stringDiffPart f e a with
    | .error err => .error err
    | .ok d => .ok (userText text ++ butWas (printable e) (printable a) ++ d)
  | _, _ => .ok (userText text ++ butWas (printableOrNull expected) (printableOrNull actual))

def stringEqualFailure := stringEqualFailureBy id
def stringEqualNoCaseFailure := stringEqualFailureBy toLower

/-- `ComparisonFailure` and `CheckFailure` -/
def checkFailure (checkString conditionString text : Bytes) : Bytes :=
  userText text ++ checkString ++ [40] ++ conditionString ++ [41, 32, 102, 97, 105, 108, 101, 100]

/-- `ContainsFailure` (operands through `printable()`) -/
def containsFailure (expected actual text : Bytes) : Bytes :=
  userText text ++ render containsFmt [.str (printable actual), .str (printable expected)]

/-- `FailFailure` -/
def failFailure (message : Bytes) : Bytes := message

/-- `FeatureUnsupportedFailure` -/
def featureUnsupportedFailure (name text : Bytes) : Bytes :=
  userText text ++ render featureFmt [.str name]

/-- `SimpleString::padStringsToSameLength(str1, str2, ' ')` -/
def padStringsToSameLength (s1 s2 : Bytes) : Bytes × Bytes :=
  if s1.length > s2.length then (s1, List.replicate (s1.length - s2.length) 32 ++ s2)
  else (List.replicate (s2.length - s1.length) 32 ++ s1, s2)

/-- `BracketsFormattedHexString` -/
def bracketsHex (h : Bytes) : Bytes := [40, 48, 120] ++ h ++ [41]

/-- tail shared by the integer classes: decimal renderings padded to the same length, each
    followed by the bracketed hex rendering -/
def integersEqual (eDec aDec eHex aHex text : Bytes) : Bytes :=
  userText text ++
  butWas ((padStringsToSameLength aDec eDec).2 ++ [32] ++ bracketsHex eHex)
         ((padStringsToSameLength aDec eDec).1 ++ [32] ++ bracketsHex aHex)

/-- two's complement of a signed value in `bits` bits -/
def toUnsigned (bits : Nat) (i : Int) : Nat := (i % (2 ^ bits : Nat)).toNat

/-- `LongsEqualFailure`, `LongLongsEqualFailure` (LP64: both 64 bit) -/
def longsEqualFailure (expected actual : Int) (text : Bytes) : Bytes :=
  integersEqual (decInt expected) (decInt actual) (hexLower (toUnsigned 64 expected)) (hexLower (toUnsigned 64 actual)) text

/-- `UnsignedLongsEqualFailure`, `UnsignedLongLongsEqualFailure` -/
def unsignedLongsEqualFailure (expected actual : Nat) (text : Bytes) : Bytes :=
  integersEqual (decNat expected) (decNat actual) (hexLower expected) (hexLower actual) text

/-- `HexStringFrom(signed char)`: `%x` of the promoted `int`; for negative values the last two digits -/
def hexSignedChar (v : Int) : Bytes :=
  if v < 0 then (hexLower (toUnsigned 32 v)).drop ((hexLower (toUnsigned 32 v)).length - 2)
  else hexLower (toUnsigned 32 v)

/-- `SignedBytesEqualFailure` -/
def signedBytesEqualFailure (expected actual : Int) (text : Bytes) : Bytes :=
  integersEqual (decInt expected) (decInt actual) (hexSignedChar expected) (hexSignedChar actual) text

/-- `StringFromBinary`: `%02X ` per byte, last blank removed by `subString(0, size() - 1)` -/
def stringFromBinary (bs : Bytes) : Bytes :=
  Text.subString (bs.flatMap fun b => render [.X02, .lit [32]] [.nat b.toNat]) 0
    ((bs.flatMap fun b => render [.X02, .lit [32]] [.nat b.toNat]).length - 1)

/-- the `size` bytes `value[0..size)`, read with bounds -/
def readN (buf : Bytes) (size : Nat) : Except Err Bytes :=
  if size ≤ buf.length then .ok (buf.take size) else .error .oob

/-- `StringFromBinaryOrNull` -/
def binaryOrNull (buf : Option Bytes) (size : Nat) : Except Err Bytes :=
  match buf with
  | none => .ok nullText
  | some b =>
    match readN b size with
    | .ok bs => .ok (stringFromBinary bs)
    | .error e => .error e

/-- `BinaryEqualFailure`; the operand buffers have exactly the bytes given -/
def binaryEqualFailure (expected actual : Option Bytes) (size : Nat) (text : Bytes) : Except Err Bytes :=
  match binaryOrNull actual size, binaryOrNull expected size with
  | .ok actualHex, .ok expectedHex =>
    match expected, actual with
    | some e, some a =>
      match scanBin (size + 1) size a e 0 with
      | .ok failStart => .ok (userText text ++ butWas expectedHex actualHex ++ diffAtPos actualHex (failStart * 3 + 1) failStart)
      | .error err => .error err
    | _, _ => .ok (userText text ++ butWas expectedHex actualHex)
  | .error e, _ => .error e
  | _, .error e => .error e

/-- loop of `StringFromMaskedBits` (`r` iterations left, at index `i`); `value`, `mask` are
    `unsigned long` (shifted left with wrap-around) -/
def maskedBitsLoop : Nat → Nat → Nat → Nat → Nat → Bytes
  | 0, _, _, _, _ => []
  | r + 1, i, bitCount, value, mask =>
    (if mask.testBit (bitCount - 1) then (if value.testBit (bitCount - 1) then [49] else [48]) else [120])
    ++ (if i % 8 = 7 ∧ i ≠ bitCount - 1 then [32] else [])
    ++ maskedBitsLoop r (i + 1) bitCount ((value * 2) % 18446744073709551616) ((mask * 2) % 18446744073709551616)

/-- `StringFromMaskedBits` (byteCount ≥ 1) -/
def maskedBits (value mask byteCount : Nat) : Bytes :=
  maskedBitsLoop (if byteCount > 8 then 64 else byteCount * 8) 0 (if byteCount > 8 then 64 else byteCount * 8) value mask

/-- `BitsEqualFailure` -/
def bitsEqualFailure (expected actual mask byteCount : Nat) (text : Bytes) : Bytes :=
  userText text ++ butWas (maskedBits expected mask byteCount) (maskedBits actual mask byteCount)

/-! ## (B) the fixed report buffer -/

structure Buf where
  filled : Nat          -- positions_filled_
  limit  : Nat          -- write_limit_
  text   : Bytes        -- the bytes of buffer_ before the terminator
deriving Repr, DecidableEq, Inhabited

/-- `SIMPLE_STRING_BUFFER_LEN - 1` -/
def cap : Nat := bufferLen - 1

/-- constructor -/
def Buf.init : Buf := { filled := 0, limit := cap, text := [] }

/-- `clear()` -/
def Buf.clear (b : Buf) : Buf := { b with filled := 0, text := [] }

/-- `add(format, …)` where `s` is the complete formatted text: `vsnprintf(buffer_ + filled, left + 1, …)`
    stores `min(|s|, left)` bytes and the terminator and returns `|s|` -/
def Buf.add (b : Buf) (s : Bytes) : Buf :=
  if b.filled ≥ b.limit then b
  else { b with text := b.text ++ s.take (b.limit - b.filled),
                filled := if b.filled + s.length > b.limit then b.limit else b.filled + s.length }

/-- `setWriteLimit` -/
def Buf.setWriteLimit (b : Buf) (n : Nat) : Buf := { b with limit := if n > cap then cap else n }
/-- `resetWriteLimit` -/
def Buf.resetWriteLimit (b : Buf) : Buf := { b with limit := cap }
/-- `reachedItsCapacity` -/
def Buf.reached (b : Buf) : Bool := decide (b.filled ≥ b.limit)

/-- `toAdd < ' ' || toAdd > '~'` on a signed char -/
def dumpChar (c : UInt8) : UInt8 := if c < 32 ∨ c > 126 then 46 else c

/-- the `add` calls of the first inner loop of `addMemoryDump` for the bytes of one line from index `p` -/
def dumpHexPieces : Nat → Bytes → List Bytes
  | _, [] => []
  | p, c :: rest =>
    [render dumpByteFmt [.nat c.toNat]]
    ++ (if p = dumpLineBytes / 2 - 1 then [render dumpMidGap []] else [])
    ++ dumpHexPieces (p + 1) rest

/-- all `add` calls for one line (`line` = its 1..16 bytes) at offset `pos` -/
def dumpLinePieces (pos : Nat) (line : Bytes) : List Bytes :=
  [render dumpOffsetFmt [.nat pos]]
  ++ dumpHexPieces 0 line
  ++ List.replicate (dumpLineBytes - line.length) (render dumpMissingByte [])
  ++ (if dumpLineBytes - line.length > dumpLineBytes / 2 then [render dumpMissingGap []] else [])
  ++ [render dumpBar []]
  ++ line.map (fun c => render dumpCharFmt [.chr (dumpChar c)])
  ++ [render dumpEndFmt []]

/-- the `while (currentPos < memorySize)` loop: formatted texts of all `add` calls, in order -/
def dumpPieces : Nat → Nat → Bytes → List Bytes
  | 0, _, _ => []
  | fuel + 1, pos, rest =>
    if rest.isEmpty then []
    else dumpLinePieces pos (rest.take dumpLineBytes)
         ++ dumpPieces fuel (pos + (rest.take dumpLineBytes).length) (rest.drop dumpLineBytes)

/-- `addMemoryDump(memory, size)`, `content` = the `size` bytes -/
def Buf.addMemoryDump (b : Buf) (content : Bytes) : Buf :=
  (dumpPieces content.length 0 content).foldl Buf.add b

structure Leak where
  number    : Nat        -- number_ (unsigned)
  size      : Nat        -- size_
  file      : Bytes      -- file_
  line      : Nat        -- line_ (size_t, printed through `(int)`)
  allocName : Bytes      -- allocator_->alloc_name()
  ptr       : Bytes      -- the C library's `%p` rendering of memory_ (input)
  content   : Bytes      -- the size_ bytes at memory_
deriving Repr, DecidableEq, Inhabited

structure Misuse where
  message   : Bytes
  allocFile : Bytes
  allocLine : Nat
  allocSize : Nat
  allocName : Bytes
  freeFile  : Bytes
  freeLine  : Nat
  freeName  : Bytes
deriving Repr, DecidableEq, Inhabited

/-- `MemoryLeakOutputStringBuffer` -/
structure OutBuf where
  buf        : Buf
  total      : Nat       -- total_leaks_
  mallocWarn : Bool      -- giveWarningOnUsingMalloc_
deriving Repr, DecidableEq, Inhabited

def OutBuf.init : OutBuf := { buf := Buf.init, total := 0, mallocWarn := false }

/-- `size_t` subtraction (wraps) -/
def subSizeT (a b : Nat) : Nat := (a + 18446744073709551616 - b % 18446744073709551616) % 18446744073709551616

/-- the argument of `setWriteLimit` in `startMemoryLeakReporting` -/
def listLimitArg : Nat := subSizeT bufferLen footerSizeWithMallocWarning

def OutBuf.clear (o : OutBuf) : OutBuf := { o with buf := o.buf.clear }

/-- `startMemoryLeakReporting` -/
def OutBuf.start (o : OutBuf) : OutBuf :=
  { buf := o.buf.setWriteLimit listLimitArg, total := 0, mallocWarn := false }

/-- formatted text of the first `add` of `reportMemoryLeak` -/
def leakText (l : Leak) : Bytes :=
  render leakFmt [.nat l.number, .nat l.size, .str l.file, .int (castInt32 l.line), .str l.allocName, .str l.ptr]

def headerText : Bytes := render headerFmt []

/-- `reportMemoryLeak` -/
def OutBuf.reportLeak (o : OutBuf) (l : Leak) : OutBuf :=
  { buf := (((if o.total = 0 then o.buf.add headerText else o.buf).add (leakText l)).addMemoryDump l.content),
    total := o.total + 1,
    mallocWarn := o.mallocWarn || (l.allocName == mallocName) }

def footerLine (total : Nat) : Bytes := render footerFmt [.str footerText, .int (castInt32 total)]

def tooMuchText : Bytes := render tooMuchFmt []
def mallocWarningText : Bytes := render mallocWarningFmt []

/-- `stopMemoryLeakReporting` up to and including the footer (after the early return) -/
def stopFooter (b : Buf) (total : Nat) : Buf :=
  (if b.reached then b.resetWriteLimit.add tooMuchText else b.resetWriteLimit).add (footerLine total)

/-- the part of `stopMemoryLeakReporting` after the early return -/
def stopTail (b : Buf) (total : Nat) (mallocWarn : Bool) : Buf :=
  if mallocWarn then (stopFooter b total).add mallocWarningText else stopFooter b total

/-- `stopMemoryLeakReporting` -/
def OutBuf.stop (o : OutBuf) : OutBuf :=
  if o.total = 0 then { o with buf := o.buf.add (render noLeaksFmt []) }
  else { o with buf := stopTail o.buf o.total o.mallocWarn }

def allocLocationText (file : Bytes) (line size : Nat) (name : Bytes) : Bytes :=
  render allocLocationFmt [.str file, .int (castInt32 line), .nat size, .str name]

def deallocLocationText (file : Bytes) (line : Nat) (name : Bytes) : Bytes :=
  render deallocLocationFmt [.str file, .int (castInt32 line), .str name]

/-- `reportFailure` (the text handed to `reporter->fail` is `buf.text` afterwards) -/
def OutBuf.reportFailure (o : OutBuf) (m : Misuse) : OutBuf :=
  { o with buf := ((o.buf.add m.message).add (allocLocationText m.allocFile m.allocLine m.allocSize m.allocName)).add
                    (deallocLocationText m.freeFile m.freeLine m.freeName) }

/-- `reportDeallocateNonAllocatedMemoryFailure` -/
def nonAllocatedMisuse (unknownName freeFile : Bytes) (freeLine : Nat) (freeName : Bytes) : Misuse :=
  { message := msgNonAllocated, allocFile := nonAllocatedFile, allocLine := nonAllocatedLine, allocSize := nonAllocatedSize,
    allocName := unknownName, freeFile := freeFile, freeLine := freeLine, freeName := freeName }

inductive Op where
  | clear                  -- MemoryLeakDetector::startChecking → outputBuffer_.clear()
  | start
  | leak (l : Leak)
  | stop
  | misuse (m : Misuse)
deriving Repr, DecidableEq, Inhabited

def OutBuf.step (o : OutBuf) : Op → OutBuf
  | .clear => o.clear
  | .start => o.start
  | .leak l => o.reportLeak l
  | .stop => o.stop
  | .misuse m => o.reportFailure m

def OutBuf.run (o : OutBuf) (ops : List Op) : OutBuf := ops.foldl OutBuf.step o

/-- `MemoryLeakDetector::ConstructMemoryLeakReport` over the leaks of the period, in table order -/
def OutBuf.report (o : OutBuf) (leaks : List Leak) : OutBuf :=
  (leaks.foldl OutBuf.reportLeak o.start).stop

/-! ### the reads of the leaked memory -/

/-- the bytes `mem[pos .. pos+n)`, read with bounds -/
def readRange (mem : Bytes) (pos n : Nat) : Except Err Bytes :=
  if pos + n ≤ mem.length then .ok ((mem.drop pos).take n) else .error .oob

/-- `addMemoryDump(memory, size)` reading `memory[currentPos + p]` for `p < bytesInLine` only;
    `mem` is the block as it is allocated (a freed block has no readable byte) -/
def dumpPiecesRd : Nat → Nat → Bytes → Nat → Except Err (List Bytes)
  | 0, _, _, _ => .ok []
  | fuel + 1, size, mem, pos =>
    if pos < size then
      match readRange mem pos (min (size - pos) dumpLineBytes) with
      | .error e => .error e
      | .ok line =>
        match dumpPiecesRd fuel size mem (pos + min (size - pos) dumpLineBytes) with
        | .error e => .error e
        | .ok rest => .ok (dumpLinePieces pos line ++ rest)
    else .ok []

/-- a leak as the table holds it: `block` = the bytes readable at `memory_` (`none`: the block was
    freed behind the detector's back) -/
structure LeakRef where
  number    : Nat
  size      : Nat
  file      : Bytes
  line      : Nat
  allocName : Bytes
  ptr       : Bytes
  block     : Option Bytes
deriving Repr, DecidableEq, Inhabited

def LeakRef.readable (l : LeakRef) : Bytes :=
  match l.block with
  | some b => b
  | none => []

/-- `reportMemoryLeak` with the dump reading the block -/
def OutBuf.reportLeakRd (o : OutBuf) (l : LeakRef) : Except Err OutBuf :=
  match dumpPiecesRd l.size l.size l.readable 0 with
  | .error e => .error e
  | .ok pieces =>
    .ok { buf := pieces.foldl Buf.add
                   ((if o.total = 0 then o.buf.add headerText else o.buf).add
                     (render leakFmt [.nat l.number, .nat l.size, .str l.file, .int (castInt32 l.line), .str l.allocName, .str l.ptr])),
          total := o.total + 1,
          mallocWarn := o.mallocWarn || (l.allocName == mallocName) }

def reportLeaksRd : OutBuf → List LeakRef → Except Err OutBuf
  | o, [] => .ok o
  | o, l :: ls =>
    match o.reportLeakRd l with
    | .error e => .error e
    | .ok o' => reportLeaksRd o' ls

/-- `ConstructMemoryLeakReport` with the reads made explicit -/
def OutBuf.reportRd (o : OutBuf) (leaks : List LeakRef) : Except Err OutBuf :=
  match reportLeaksRd o.start leaks with
  | .error e => .error e
  | .ok o' => .ok o'.stop

/-- the overloads of `allocMemory` / `deallocMemory` without a location pass `"<unknown>"` and line 0 -/
def noLocation : Bytes × Nat := (unknownFile, 0)

/-! ## (C) `add` over the real array -/

structure MemBuf where
  filled  : Nat
  limit   : Nat
  mem     : Bytes        -- buffer_[0 .. bufferLen) followed by verif_canary_[0 .. canaryLen)
  overrun : Bool         -- ghost: some write went to an index ≥ bufferLen
deriving Repr, DecidableEq, Inhabited

def canary : Bytes := List.replicate canaryLen 165

/-- stores `bs` at `off` (a store past the end of `mem` is dropped: it is outside the object) -/
def wrAt (mem : Bytes) (off : Nat) (bs : Bytes) : Bytes :=
  mem.take off ++ bs.take (mem.length - off) ++ mem.drop (off + bs.length)

/-- constructor: `buffer_[0] = 0`, canary initialised; the other bytes are whatever they were -/
def MemBuf.init (garbage : Bytes) : MemBuf :=
  { filled := 0, limit := cap, overrun := false,
    mem := wrAt ((garbage ++ List.replicate bufferLen 0).take bufferLen ++ canary) 0 [0] }

def MemBuf.clear (b : MemBuf) : MemBuf := { b with filled := 0, mem := wrAt b.mem 0 [0] }

/-- `vsnprintf(buffer_ + off, size, …)` producing `s`: stores `min(|s|, size - 1)` bytes and a NUL -/
def vsnprintfAt (mem : Bytes) (off size : Nat) (s : Bytes) : Bytes :=
  if size = 0 then mem else wrAt mem off (s.take (size - 1) ++ [0])

def MemBuf.add (b : MemBuf) (s : Bytes) : MemBuf :=
  if b.filled ≥ b.limit then b
  else { b with mem := vsnprintfAt b.mem b.filled (b.limit - b.filled + 1) s,
                overrun := b.overrun || decide (b.filled + (s.take (b.limit - b.filled)).length + 1 > bufferLen),
                filled := if b.filled + s.length > b.limit then b.limit else b.filled + s.length }

def MemBuf.setWriteLimit (b : MemBuf) (n : Nat) : MemBuf := { b with limit := if n > cap then cap else n }
def MemBuf.resetWriteLimit (b : MemBuf) : MemBuf := { b with limit := cap }

/-- what `toString()` shows: the bytes before the first NUL (`strlen`) -/
def cText : Bytes → Bytes
  | [] => []
  | x :: rest => if x = 0 then [] else x :: cText rest

inductive BOp where
  | add (s : Bytes)
  | setLimit (n : Nat)
  | resetLimit
  | clear
deriving Repr, DecidableEq, Inhabited

def MemBuf.step (b : MemBuf) : BOp → MemBuf
  | .add s => b.add s
  | .setLimit n => b.setWriteLimit n
  | .resetLimit => b.resetWriteLimit
  | .clear => b.clear

def Buf.step (b : Buf) : BOp → Buf
  | .add s => b.add s
  | .setLimit n => b.setWriteLimit n
  | .resetLimit => b.resetWriteLimit
  | .clear => b.clear

end Diag
