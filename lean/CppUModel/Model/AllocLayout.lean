import CppUModel.Gen.AllocLayoutConstants
/-!
Model of the tracked allocation paths (C05), written from the C++ line by line:

* `MemoryLeakDetector::allocMemory / reallocMemory / deallocMemory`, `storeLeakInformation`,
  `createMemoryLeakAccountingInformation`, `checkForCorruption`  (src/CppUTest/MemoryLeakDetector.cpp)
* `cpputest_malloc/calloc/realloc/strdup/strndup`            (src/CppUTest/TestHarness_c.cpp)
* `mem_leak_operator_new*`                                   (src/CppUTest/MemoryLeakWarningPlugin.cpp)

All `size_t` arithmetic is `BitVec 64` and goes through the REGENERATED functions of
`Gen/AllocLayoutConstants.lean` (the expressions of the current source).  An underlying block is
the list of its bytes, exactly as long as the request given to the platform; every write of the
detector (`node->init`, the guard bytes, `memset`, `memcpy`) goes through the bounds-checked
`writeAt`, and a write outside the block (or a dereference of a NULL node) ends the operation in
`Outcome.ub` — this is how the wrap-around defects of the original tree show up in the model.

Environment inputs (explicit parameters): what `alloc_memory` / `allocMemoryLeakNode` /
`PlatformSpecificRealloc` answered (`Ans`: a block with its initial bytes, NULL, or — default
allocator only — the test failure raised by `checkedMalloc`), and the byte image of a node.
-/
namespace AllocLayout
open Gen.AllocLayout

abbrev W := BitVec 64

/-- build configuration: corruption check compiled in or not; `sizeof(MemoryLeakDetectorNode)` -/
structure Cfg where
  check : Bool
  node  : W
deriving Repr, DecidableEq, Inhabited

def defaultCfg : Cfg := { check := true, node := BitVec.ofNat 64 sizeofNode }
def noCheckCfg : Cfg := { check := false, node := BitVec.ofNat 64 sizeofNode }

/-- `memory_corruption_buffer_size` -/
def Cfg.guard (c : Cfg) : W :=
  BitVec.ofNat 64 (if c.check then corruptionBufferSizeCheck else corruptionBufferSizeNoCheck)

/-- `calculateVoidPointerAlignedSize` (the branch the build compiles) -/
def align (c : Cfg) (x : W) : W :=
  if c.check then calculateVoidPointerAlignedSizeCheck x else calculateVoidPointerAlignedSizeNoCheck x

/-- `sizeOfMemoryWithCorruptionInfo` -/
def swci (c : Cfg) (size : W) : W := sizeOfMemoryWithCorruptionInfo (align c) c.guard size

/-- the overflow guard at the top of `allocMemory` -/
def rejectsAlloc (c : Cfg) (size : W) : Bool := allocOverflowGuard (swci c) c.node size
/-- the overflow guard at the top of `reallocMemory` -/
def rejectsRealloc (c : Cfg) (size : W) : Bool := reallocOverflowGuard (swci c) c.node size

/-- `#ifdef CPPUTEST_DISABLE_MEM_CORRUPTION_CHECK allocatNodesSeperately = true;` -/
def forcedSep (c : Cfg) (sep : Bool) : Bool := sep || !c.check

/-- size handed to `allocator->alloc_memory` -/
def allocReq (c : Cfg) (sep : Bool) (size : W) : W :=
  if sep then allocRequestSeparate (swci c) c.node size else allocRequestInline (swci c) c.node size
/-- size handed to `PlatformSpecificRealloc` -/
def reallocReq (c : Cfg) (sep : Bool) (size : W) : W :=
  if sep then reallocRequestSeparate (swci c) c.node size else reallocRequestInline (swci c) c.node size

/-- `getNodeFromMemoryPointer`: offset of the inline node -/
def nodeOff (c : Cfg) (size : W) : W := nodeOffset (swci c) size

/-- the bytes `addMemoryCorruptionInformation` writes -/
def guardImage (c : Cfg) : List UInt8 :=
  (List.range c.guard.toNat).map (fun i => guardBytes.getD (i % guardBytes.length) 0)

/-! ## memory -/

structure Block where
  id    : Nat
  bytes : List UInt8
deriving Repr, DecidableEq, Inhabited

/-- a write of `src` at offset `off`; `none` when it does not fit (out-of-bounds write) -/
def writeAt (bs : List UInt8) (off : Nat) (src : List UInt8) : Option (List UInt8) :=
  if off + src.length ≤ bs.length then some (bs.take off ++ src ++ bs.drop (off + src.length)) else none

def findBlock (m : List Block) (id : Nat) : Option Block := m.find? (fun b => b.id == id)
def setBlock (m : List Block) (id : Nat) (bytes : List UInt8) : List Block :=
  m.map (fun b => if b.id == id then { b with bytes := bytes } else b)
def dropBlock (m : List Block) (id : Nat) : List Block := m.filter (fun b => b.id != id)

/-- write into block `id` of the memory -/
def writeBlock (m : List Block) (id off : Nat) (src : List UInt8) : Option (List Block) :=
  match findBlock m id with
  | none => none
  | some b =>
    match writeAt b.bytes off src with
    | none => none
    | some bs => some (setBlock m id bs)

/-! ## the detector's record of a block -/

structure Rec where
  id     : Nat      -- node->memory_: the underlying block (the user pointer is its first byte)
  size   : W        -- node->size_
  fam    : Nat      -- node->allocator_ (0 new, 1 new[], 2 malloc)
  sep    : Bool     -- the node lives in a block of its own
  nodeId : Nat      -- that block (0 for an inline node)
  number : Nat      -- node->number_
deriving Repr, DecidableEq, Inhabited

structure State where
  tracked : List Rec := []
  mem     : List Block := []
  seq     : Nat := 1
deriving Repr, DecidableEq, Inhabited

/-- answer of `alloc_memory` / `allocMemoryLeakNode` -/
inductive Ans
  | block (id : Nat) (bytes : List UInt8)
  | null
  | fail            -- `checkedMalloc`: FAIL("malloc returned null pointer") (default allocators)
deriving Repr, DecidableEq, Inhabited

/-- answer of `PlatformSpecificRealloc` -/
inductive RAns
  | moved (id : Nat) (bytes : List UInt8)      -- the (possibly same) address, with its contents
  | null
deriving Repr, DecidableEq, Inhabited

inductive Outcome
  | ptr (id : Nat)
  | null
  | badAlloc
  | testFail
  | ub (why : String)
deriving Repr, DecidableEq, Inhabited

inductive Ev
  | ualloc (req : W) (id : Nat)            -- alloc_memory(req) answered block id (0 = NULL)
  | unode (size : W) (id : Nat)            -- allocMemoryLeakNode(size)
  | ufree (id : Nat)                       -- free_memory
  | unodefree (id : Nat)                   -- freeMemoryLeakNode
  | urealloc (old : Nat) (req : W) (id : Nat)
  | misuse (kind : String)
deriving Repr, DecidableEq, Inhabited

def Ans.id : Ans → Nat
  | .block id _ => id
  | _ => 0
def RAns.id : RAns → Nat
  | .moved id _ => id
  | .null => 0

/-- byte image of an initialised node (opaque: pointers, counters) -/
abbrev NodeImage := Rec → List UInt8

def famNew : Nat := 0
def famNewArray : Nat := 1
def famMalloc : Nat := 2

/-! ## storeLeakInformation -/

/-- `node->init(...)`: the node's bytes are written where the node lives -/
def writeNode (c : Cfg) (img : NodeImage) (m : List Block) (r : Rec) : Option (List Block) :=
  if r.sep then writeBlock m r.nodeId 0 (img r)
  else writeBlock m r.id (nodeOff c r.size).toNat (img r)

/-- `addMemoryCorruptionInformation(node->memory_ + node->size_)` -/
def writeGuard (c : Cfg) (m : List Block) (r : Rec) : Option (List Block) :=
  writeBlock m r.id r.size.toNat (guardImage c)

/-- `storeLeakInformation` followed by `return node->memory_` -/
def store (c : Cfg) (img : NodeImage) (s : State) (r : Rec) (evs : List Ev) : State × List Ev × Outcome :=
  match writeNode c img s.mem r with
  | none => (s, evs, .ub "node written outside its block")
  | some m1 =>
    match writeGuard c m1 r with
    | none => (s, evs, .ub "guard bytes written outside the block")
    | some m2 => ({ tracked := r :: s.tracked, mem := m2, seq := s.seq + 1 }, evs, .ptr r.id)

/-- `createMemoryLeakAccountingInformation` + `storeLeakInformation` for block `id` -/
def account (c : Cfg) (img : NodeImage) (s : State) (fam : Nat) (size : W) (sep : Bool) (id : Nat)
    (a2 : Ans) (evs : List Ev) : State × List Ev × Outcome :=
  if sep then
    match a2 with
    | .null => (s, evs ++ [.unode c.node 0], .ub "node allocation returned NULL, dereferenced")
    | .fail => (s, evs ++ [.unode c.node 0], .testFail)
    | .block nid nb =>
      store c img { s with mem := ⟨nid, nb⟩ :: s.mem } ⟨id, size, fam, true, nid, s.seq⟩ (evs ++ [.unode c.node nid])
  else
    store c img s ⟨id, size, fam, false, 0, s.seq⟩ evs

/-! ## allocMemory -/

def allocMemory (c : Cfg) (img : NodeImage) (s : State) (fam : Nat) (size : W) (sep0 : Bool)
    (a1 a2 : Ans) : State × List Ev × Outcome :=
  if rejectsAlloc c size then (s, [], .null)
  else
    match a1 with
    | .null => (s, [.ualloc (allocReq c (forcedSep c sep0) size) 0], .null)
    | .fail => (s, [.ualloc (allocReq c (forcedSep c sep0) size) 0], .testFail)
    | .block id bytes =>
      match forcedSep c sep0, a2 with
      | true, .null =>
        -- `if (node == NULLPTR) { allocator->free_memory(memory, ...); return NULLPTR; }`
        (s, [.ualloc (allocReq c true size) id, .unode c.node 0, .ufree id], .null)
      | sep, a2' =>
        account c img { s with mem := ⟨id, bytes⟩ :: s.mem } fam size sep id a2'
          [.ualloc (allocReq c sep size) id]

/-! ## deallocMemory -/

/-- `memoryTable_.removeNode(memory)` -/
def removeRec : List Rec → Nat → Option (Rec × List Rec)
  | [], _ => none
  | r :: rest, id =>
    if r.id == id then some (r, rest)
    else
      match removeRec rest id with
      | none => none
      | some (x, rest') => some (x, r :: rest')

/-- `validMemoryCorruptionInformation(node->memory_ + node->size_)` -/
def guardValid (c : Cfg) (m : List Block) (r : Rec) : Bool :=
  match findBlock m r.id with
  | none => false
  | some b => (b.bytes.drop r.size.toNat).take c.guard.toNat == guardImage c

/-- `checkForCorruption`: memory after it, events, and whether it ran into undefined behaviour
    (freeing an inline node as if it were a block) -/
def checkForCorruption (c : Cfg) (m : List Block) (r : Rec) (fam : Nat) (sep : Bool) :
    List Block × List Ev × Bool :=
  if r.fam != fam then (m, [.misuse "mismatch"], false)
  else if !guardValid c m r then (m, [.misuse "corruption"], false)
  else if sep then
    if r.sep then (dropBlock m r.nodeId, [.unodefree r.nodeId], false)
    else (m, [], true)
  else (m, [], false)

def deallocMemory (c : Cfg) (s : State) (fam : Nat) (ptr : Option Nat) (sep0 : Bool) : State × List Ev × Outcome :=
  match ptr with
  | none => (s, [], .null)
  | some id =>
    match removeRec s.tracked id with
    | none => (s, [.misuse "nonallocated"], .null)
    | some (r, rest) =>
      match checkForCorruption c s.mem r fam (forcedSep c sep0) with
      | (_, evs, true) => ({ s with tracked := rest }, evs, .ub "inline node released as a block")
      | (m1, evs, false) =>
        ({ s with tracked := rest, mem := dropBlock m1 id }, evs ++ [.ufree id], .null)

/-! ## reallocMemory -/

/-- the branch `new_memory == NULLPTR && memory`: keep tracking the old block -/
def retrack (c : Cfg) (img : NodeImage) (s : State) (old : Rec) (sep : Bool) (a2 : Ans) (evs : List Ev) :
    State × List Ev × Outcome :=
  if sep then
    match a2 with
    | .null => (s, evs ++ [.unode c.node 0], .ub "node allocation returned NULL, dereferenced")
    | .fail => (s, evs ++ [.unode c.node 0], .testFail)
    | .block nid nb =>
      match writeNode c img (⟨nid, nb⟩ :: s.mem) { old with sep := true, nodeId := nid } with
      | none => (s, evs ++ [.unode c.node nid], .ub "node written outside its block")
      | some m1 =>
        ({ s with tracked := { old with sep := true, nodeId := nid } :: s.tracked, mem := m1 },
         evs ++ [.unode c.node nid], .null)
  else
    match writeNode c img s.mem { old with sep := false, nodeId := 0 } with
    | none => (s, evs, .ub "node written outside its block")
    | some m1 => ({ s with tracked := { old with sep := false, nodeId := 0 } :: s.tracked, mem := m1 }, evs, .null)

/-- everything after the old record has been taken out of the table -/
def reallocRest (c : Cfg) (img : NodeImage) (s : State) (fam : Nat) (old : Option Rec) (size : W)
    (sep : Bool) (ar : RAns) (a2 : Ans) (evs : List Ev) : State × List Ev × Outcome :=
  match ar, old with
  | .null, none => (s, evs ++ [.urealloc 0 (reallocReq c sep size) 0], .null)
  | .null, some o => retrack c img s o sep a2 (evs ++ [.urealloc o.id (reallocReq c sep size) 0])
  | .moved nid nb, none =>
    account c img { s with mem := ⟨nid, nb⟩ :: s.mem } fam size sep nid a2
      (evs ++ [.urealloc 0 (reallocReq c sep size) nid])
  | .moved nid nb, some o =>
    account c img { s with mem := ⟨nid, nb⟩ :: dropBlock s.mem o.id } fam size sep nid a2
      (evs ++ [.urealloc o.id (reallocReq c sep size) nid])

def reallocMemory (c : Cfg) (img : NodeImage) (s : State) (fam : Nat) (ptr : Option Nat) (size : W)
    (sep0 : Bool) (ar : RAns) (a2 : Ans) : State × List Ev × Outcome :=
  if rejectsRealloc c size then (s, [], .null)
  else
    match ptr with
    | none => reallocRest c img s fam none size (forcedSep c sep0) ar a2 []
    | some id =>
      match removeRec s.tracked id with
      | none => (s, [.misuse "nonallocated"], .null)
      | some (o, rest) =>
        match checkForCorruption c s.mem o fam (forcedSep c sep0) with
        | (_, evs, true) => ({ s with tracked := rest }, evs, .ub "inline node released as a block")
        | (m1, evs, false) =>
          reallocRest c img { s with tracked := rest, mem := m1 } fam (some o) size (forcedSep c sep0) ar a2 evs

/-! ## C wrappers (TestHarness_c.cpp); malloc-family allocations keep their node separately -/

def cMalloc (c : Cfg) (img : NodeImage) (s : State) (size : W) (a1 a2 : Ans) : State × List Ev × Outcome :=
  allocMemory c img s famMalloc size true a1 a2

def cRealloc (c : Cfg) (img : NodeImage) (s : State) (ptr : Option Nat) (size : W) (ar : RAns) (a2 : Ans) :
    State × List Ev × Outcome :=
  reallocMemory c img s famMalloc ptr size true ar a2

/-- what follows a `cpputest_malloc_location` whose result is then written to -/
def thenWrite (r : State × List Ev × Outcome) (off : Nat) (src : List UInt8) (why : String) :
    State × List Ev × Outcome :=
  match r with
  | (s1, evs, .ptr id) =>
    match writeBlock s1.mem id off src with
    | none => (s1, evs, .ub why)
    | some m => ({ s1 with mem := m }, evs, .ptr id)
  | other => other

/-- `cpputest_calloc_location` -/
def cCalloc (c : Cfg) (img : NodeImage) (s : State) (num size : W) (a1 a2 : Ans) : State × List Ev × Outcome :=
  if callocOverflowTest num size then (s, [], .null)
  else
    match cMalloc c img s (callocRequest num size) a1 a2 with
    | (s1, evs, .ptr id) =>
      thenWrite (s1, evs, .ptr id) 0 (List.replicate (callocMemset num size).toNat 0) "memset outside the block"
    | other => other

/-- `test_harness_c_strlen`: position of the first NUL; `none` = the scan leaves the buffer -/
def cstrlen : List UInt8 → Option Nat
  | [] => none
  | b :: rest => if b == 0 then some 0 else (cstrlen rest).map (· + 1)

/-- `strdup_alloc(str, size)`: malloc, NULL check, memcpy of `size` bytes, `result[size-1] = 0` -/
def strdupAlloc (c : Cfg) (img : NodeImage) (s : State) (str : List UInt8) (size : W) (a1 a2 : Ans) :
    State × List Ev × Outcome :=
  if str.length < size.toNat then
    match cMalloc c img s size a1 a2 with
    | (s1, evs, .ptr _) => (s1, evs, .ub "memcpy reads past the source")
    | other => other
  else
    thenWrite (thenWrite (cMalloc c img s size a1 a2) 0 (str.take size.toNat) "memcpy outside the block")
      (size - 1).toNat [0] "terminator outside the block"

/-- `cpputest_strdup_location` -/
def cStrdup (c : Cfg) (img : NodeImage) (s : State) (str : List UInt8) (a1 a2 : Ans) : State × List Ev × Outcome :=
  match cstrlen str with
  | none => (s, [], .ub "unterminated source string")
  | some len => strdupAlloc c img s str (strdupLength (BitVec.ofNat 64 len)) a1 a2

/-- `cpputest_strndup_location` -/
def cStrndup (c : Cfg) (img : NodeImage) (s : State) (str : List UInt8) (n : W) (a1 a2 : Ans) :
    State × List Ev × Outcome :=
  match cstrlen str with
  | none => (s, [], .ub "unterminated source string")
  | some len => strdupAlloc c img s str (strndupLength (BitVec.ofNat 64 len) n) a1 a2

/-! ## operator new (MemoryLeakWarningPlugin.cpp) -/

/-- a row of the regenerated table: name, array form, throws on NULL, is a nothrow overload -/
abbrev NewVariant := String × Bool × Bool × Bool

def NewVariant.array (v : NewVariant) : Bool := v.2.1
def NewVariant.throws (v : NewVariant) : Bool := v.2.2.1
def NewVariant.nothrow (v : NewVariant) : Bool := v.2.2.2

/-- `mem_leak_operator_new*`: allocMemory with an inline node, then UT_THROW_BAD_ALLOC_WHEN_NULL
    where the source has it.  A test failure raised by the default allocator inside a
    `noexcept` (nothrow) overload cannot propagate: `std::terminate`. -/
def operatorNew (c : Cfg) (img : NodeImage) (s : State) (v : NewVariant) (size : W) (a1 a2 : Ans) :
    State × List Ev × Outcome :=
  match allocMemory c img s (if v.array then famNewArray else famNew) size false a1 a2 with
  | (s1, evs, .null) => if v.throws then (s1, evs, .badAlloc) else (s1, evs, .null)
  | (s1, evs, .testFail) =>
    if v.nothrow then (s1, evs, .ub "test failure thrown through a noexcept operator new: std::terminate")
    else (s1, evs, .testFail)
  | other => other

def findVariant (name : String) : Option NewVariant := newVariants.find? (fun v => v.1 == name)

/-! ## release: `mem_leak_free`, `mem_leak_operator_delete(_array)` -/

/-- `memoryTable_.retrieveNode(memory)` -/
def retrieveRec (t : List Rec) (id : Nat) : Option Rec := t.find? (fun r => r.id == id)

/-- `MemoryLeakDetector::invalidateMemory`: the user bytes of a tracked block are overwritten with
    the poison byte (`memset(memory, 0xCD, node->size_)`); `none` = the memset leaves the block -/
def invalidateMemory (s : State) (ptr : Option Nat) : Option State :=
  match ptr with
  | none => some s
  | some id =>
    match retrieveRec s.tracked id with
    | none => some s
    | some r =>
      match writeBlock s.mem id 0 (List.replicate r.size.toNat poisonByte) with
      | none => none
      | some m => some { s with mem := m }

/-- `invalidateMemory(p); deallocMemory(allocator, p, ...)` -/
def release (c : Cfg) (s : State) (fam : Nat) (ptr : Option Nat) (sep0 : Bool) : State × List Ev × Outcome :=
  match invalidateMemory s ptr with
  | none => (s, [], .ub "poison written outside the block")
  | some s1 => deallocMemory c s1 fam ptr sep0

/-- `cpputest_free` -/
def cFree (c : Cfg) (s : State) (ptr : Option Nat) : State × List Ev × Outcome := release c s famMalloc ptr true

/-- `operator delete` / `operator delete[]` -/
def operatorDelete (c : Cfg) (s : State) (array : Bool) (ptr : Option Nat) : State × List Ev × Outcome :=
  release c s (if array then famNewArray else famNew) ptr false

/-! ## histories of public operations -/

/-- the client stores into a block it was given -/
def clientWrite (s : State) (id off : Nat) (src : List UInt8) : State × List Ev × Outcome :=
  match writeBlock s.mem id off src with
  | none => (s, [], .ub "client wrote outside the block")
  | some m => ({ s with mem := m }, [], .null)

/-- one call of the public API together with what the environment answered -/
inductive Op
  | new (v : NewVariant) (size : W) (a1 a2 : Ans)
  | malloc (size : W) (a1 a2 : Ans)
  | calloc (num size : W) (a1 a2 : Ans)
  | strdup (buf : List UInt8) (a1 a2 : Ans)
  | strndup (buf : List UInt8) (n : W) (a1 a2 : Ans)
  | realloc (ptr : Option Nat) (size : W) (ar : RAns) (a2 : Ans)
  | free (ptr : Option Nat)
  | delete (array : Bool) (ptr : Option Nat)
  | write (id off : Nat) (src : List UInt8)

def step (c : Cfg) (img : NodeImage) (s : State) : Op → State × List Ev × Outcome
  | .new v size a1 a2 => operatorNew c img s v size a1 a2
  | .malloc size a1 a2 => cMalloc c img s size a1 a2
  | .calloc num size a1 a2 => cCalloc c img s num size a1 a2
  | .strdup buf a1 a2 => cStrdup c img s buf a1 a2
  | .strndup buf n a1 a2 => cStrndup c img s buf n a1 a2
  | .realloc ptr size ar a2 => cRealloc c img s ptr size ar a2
  | .free ptr => cFree c s ptr
  | .delete array ptr => operatorDelete c s array ptr
  | .write id off src => clientWrite s id off src

/-- the state after a history -/
def run (c : Cfg) (img : NodeImage) (s : State) : List Op → State
  | [] => s
  | op :: ops => run c img (step c img s op).1 ops

/-! ## size-level view of a request (blocks far too large to be listed byte by byte, e.g. 2^32 + 16 bytes)

What the detector asks of the platform, what `node->init` records, and where `storeLeakInformation`
puts the guard bytes and the inline node — the same regenerated expressions as above, without the
byte list.  The driver replays the harness' `balloc / brealloc / bfree` operations with it. -/

/-- what the assignment `size_ = size` in `MemoryLeakDetectorNode::init` keeps of a `size_t` value:
    the declared type of the field (regenerated: `nodeSizeFieldType`, `nodeSizeFieldBits`) -/
def storedSize (size : W) : W := (size.setWidth nodeSizeFieldBits).setWidth 64

structure Plan where
  req      : W            -- bytes asked of `alloc_memory` / `PlatformSpecificRealloc`
  recSize  : W            -- `node->size_`
  guardOff : Nat          -- offset of the guard bytes: `node->memory_ + node->size_`
  nodeAt   : Option Nat   -- offset of the inline node (`none`: the node has a block of its own)
deriving Repr, DecidableEq, Inhabited

def planOf (c : Cfg) (sep : Bool) (req size : W) : Plan :=
  { req := req, recSize := storedSize size, guardOff := (storedSize size).toNat,
    nodeAt := if sep then none else some (nodeOff c size).toNat }

/-- `allocMemory`: `none` = rejected by the overflow guard -/
def allocPlan (c : Cfg) (size : W) (sep0 : Bool) : Option Plan :=
  if rejectsAlloc c size then none
  else some (planOf c (forcedSep c sep0) (allocReq c (forcedSep c sep0) size) size)

/-- `reallocMemory` -/
def reallocPlan (c : Cfg) (size : W) (sep0 : Bool) : Option Plan :=
  if rejectsRealloc c size then none
  else some (planOf c (forcedSep c sep0) (reallocReq c (forcedSep c sep0) size) size)

end AllocLayout
