import CppUModel.Model.OutputEvents
/-!
# Syntax of the JUnit writer functions (what `translate/extract_junit.py` regenerates)

The writer functions of src/CppUTest/JUnitTestOutput.cpp (`writeXmlHeader`, `writeTestSuiteSummary`,
`writeProperties`, `writeTestCases`, `writeFailure`, `writeFileEnding`, `writeTestGroupToFile`) are
statement lists of `writeToFile(..)` / `StringFromFormat(..)` calls.  Each one is regenerated from the
source as a list of template items (`Gen/JUnitTemplates.lean`): literal text, a text field (written
through `encodeXmlText` or as it is), a number (`%d` / `%0Nd` of an `(int)` cast of a `size_t`
expression), or the `package_.isEmpty() ? a : b` choice.  `Model/JUnit.lean` INTERPRETS these lists;
the collector's statement lists (`resetTestGroupResult`, `printCurrentGroupEnded`, …) are regenerated
the same way.  Core Lean only.
-/
namespace JUnit.Tpl

abbrev Bytes := List UInt8

/-- the text-valued things a writer can print -/
inductive Field
  | group         -- `impl_->results_.group_`
  | package       -- `impl_->package_`
  | nodeName      -- `cur->name_`
  | nodeFile      -- `cur->file_`
  | failFile      -- `node->failure_->getFileName()`
  | failMessage   -- `node->failure_->getMessage()`
  | stdOutput     -- `impl_->stdOutput_`
  | timeString    -- `GetPlatformSpecificTimeString()`
deriving Repr, DecidableEq, Inhabited

/-- `size_t` expressions -/
inductive NExpr
  | failureCount      -- `impl_->results_.failureCount_`
  | testCount         -- `impl_->results_.testCount_`
  | groupExecTime     -- `impl_->results_.groupExecTime_`
  | totalCheckCount   -- `impl_->results_.totalCheckCount_`
  | nodeCheckCount    -- `cur->checkCount_`
  | nodeExecTime      -- `cur->execTime_`
  | nodeLine          -- `cur->lineNumber_`
  | failLine          -- `node->failure_->getFailureLineNumber()`
  | div (e : NExpr) (k : Nat)
  | mod (e : NExpr) (k : Nat)
deriving Repr, DecidableEq, Inhabited

/-- an `int` argument of a format: `(int) e` or `(int) (a - b)` (unsigned difference, then the cast) -/
inductive Num
  | cast (e : NExpr)
  | castDiff (a b : NExpr)
deriving Repr, DecidableEq, Inhabited

inductive Item
  | text (b : Bytes)                        -- literal text of a format string / of `writeToFile("..")`
  | enc (f : Field)                         -- `%s` of `encodeXmlText(f).asCharString()`, or `writeToFile(encodeXmlText(f))`
  | raw (f : Field)                         -- `%s` of the field as it is
  | int (n : Num)                           -- `%d`
  | intPad (w : Nat) (n : Num)              -- `%0<w>d`
  | ifPackageEmpty (thenB elseB : Bytes)    -- `%s` of `impl_->package_.isEmpty() ? thenB : elseB`
deriving Repr, DecidableEq, Inhabited

/-- the calls of `writeTestGroupToFile` between `openFileForWrite` and `closeFile` -/
inductive Section
  | xmlHeader | suiteSummary | properties | testCases | fileEnding
deriving Repr, DecidableEq, Inhabited

/-- fields of the group result that `resetTestGroupResult` clears -/
inductive ResetField
  | testCount | failureCount | group | nodes
deriving Repr, DecidableEq, Inhabited

/-- statements of `printCurrentGroupEnded` -/
inductive EndStep
  | takeGroupTime     -- `groupExecTime_ = result.getCurrentGroupTotalExecutionTime()`
  | writeFile         -- `writeTestGroupToFile()`
  | reset             -- `resetTestGroupResult()`
deriving Repr, DecidableEq, Inhabited

/-- is the field written through `encodeXmlText` everywhere it occurs? (`timeString` is the platform's) -/
def Item.encodesText : Item → Bool
  | .raw f => f == .timeString
  | _ => true

end JUnit.Tpl
