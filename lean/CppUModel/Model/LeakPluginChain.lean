import CppUModel.Model.LeakPlugin
import CppUModel.Gen.LeakChainCode
/-!
The leak plugin inside a chain of plugins (property C07, several plugins).

`TestRegistry::installPlugin` links a new plugin in front of the chain; `UtestShell::runOneTestInCurrentProcess`
calls `plugin->runAllPreTestAction` on the head before the test object is created and `runAllPostTestAction`
after it is destroyed; `TestPlugin::runAllPreTestAction` performs the own action (if `enabled_`) and then the
rest of the chain, `runAllPostTestAction` the rest of the chain first.  Statement order, guards and the place of
installation are NOT written here: they are the regenerated values of `Gen/LeakChainCode.lean`.

A plugin other than the leak plugin is given by what its pre and its post action do for the test at hand:
tracked memory operations (a `MockSupportPlugin` whose post action clears the expectations the test made, a
plugin that allocates in its pre action, …) and failures added with `result.addFailure` (unmet mock
expectations): `execAct`.
-/
namespace LeakPlugin
open Gen.LeakCode Gen.LeakChain

/-- the own action of one plugin of the chain: skipped when the call is guarded by `enabled_` and the plugin is
    disabled -/
def guardAct {σ : Type} (guarded enabled : Bool) (f : σ → σ) (s : σ) : σ :=
  if guarded && !enabled then s else f s

/-- `TestPlugin::runAllPreTestAction` called on the head of the chain (the empty chain is the `NullTestPlugin`) -/
def chainPre {π σ : Type} (en : π → Bool) (act : π → σ → σ) : List π → σ → σ
  | [], s => s
  | p :: rest, s =>
    match preOrder with
    | .selfThenNext => chainPre en act rest (guardAct preGuarded (en p) (act p) s)
    | .nextThenSelf => guardAct preGuarded (en p) (act p) (chainPre en act rest s)

/-- `TestPlugin::runAllPostTestAction` called on the head of the chain -/
def chainPost {π σ : Type} (en : π → Bool) (act : π → σ → σ) : List π → σ → σ
  | [], s => s
  | p :: rest, s =>
    match postOrder with
    | .selfThenNext => chainPost en act rest (guardAct postGuarded (en p) (act p) s)
    | .nextThenSelf => guardAct postGuarded (en p) (act p) (chainPost en act rest s)

/-- `TestRegistry::installPlugin` -/
def installPlugin {π : Type} (chain : List π) (p : π) : List π :=
  match installAt with
  | .head => p :: chain
  | .tail => chain ++ [p]

/-- a plugin other than the leak plugin, for the test at hand -/
structure Other where
  enabled : Bool := true
  pre     : List Cmd := []
  post    : List Cmd := []
deriving Repr, Inhabited

inductive Plug
  | leak (enabled : Bool)
  | other (o : Other)
deriving Repr, Inhabited

def Plug.enabled : Plug → Bool
  | .leak e => e
  | .other o => o.enabled

/-- a command of a plugin action: memory operations as in a constructor; `fail` is `result.addFailure(…)`,
    which records the failure and goes on (no jump, nothing is aborted) -/
def execAct (w : World) : Cmd → World
  | .fail =>
    match pluginFailureStyle with
    | .addFailure => { w with failures := w.failures + 1 }
    | .failAndJump => { w with failures := w.failures + 1, aborted := true }
  | .alloc id size => execMem w (.alloc id size)
  | .free id => execMem w (.free id)
  | .realloc id newId size => execMem w (.realloc id newId size)
  | .reallocFail id size => execMem w (.reallocFail id size)
  | .envSeq n => execMem w (.envSeq n)
  | .expectLeaks _ => w
  | .ignoreLeaks => w

def runAct (w : World) (cs : List Cmd) : World := cs.foldl execAct w

def plugPre : Plug → World → World
  | .leak _, w => preTestAction w
  | .other o, w => runAct w o.pre

def plugPost : Plug → World → World
  | .leak _, w => postTestAction w
  | .other o, w => runAct w o.post

/-- a test together with the plugin chain it runs under (head first, as `TestRegistry::firstPlugin_` links it) -/
structure ChainTest where
  chain : List Plug := [.leak true]
  obj   : TestObj := {}
deriving Repr, Inhabited

def rstepChain (t : ChainTest) (w : World) : RStep → World
  | .preActions => chainPre Plug.enabled plugPre t.chain w
  | .createTest => runMem w t.obj.ctor
  | .runTest => runBody w t.obj.test
  | .destroyTest => runMem w t.obj.dtor
  | .postActions => chainPost Plug.enabled plugPost t.chain w

/-- `UtestShell::runOneTestInCurrentProcess` under a chain of plugins -/
def runOneTestChain (w : World) (t : ChainTest) : World := runOneTestOrder.foldl (rstepChain t) w

def runTestChain (w : World) (t : ChainTest) : World :=
  runOneTestChain (runOutside (clearObs w) t.obj.test.before) t

def runChainTests : World → List ChainTest → World × List Verdict
  | w, [] => (w, [])
  | w, t :: ts =>
    ((runChainTests (runTestChain w t) ts).1, verdictOf w (runTestChain w t) :: (runChainTests (runTestChain w t) ts).2)

/-! ## `CommandLineTestRunner::RunAllTests`

The runner constructs the leak plugin (which enables the detector: `World.init`), installs it after everything
`main()` installed, runs the tests, and — only when the run passed, if the regenerated flag says so — prints
`FinalReport(n)` with the regenerated argument. -/

/-- the chain a run of `RunAllTests` works with: the plugins `main()` installed (in installation order), then the
    runner's leak plugin.  (The runner's `SetPointerPlugin`, installed after it, performs no tracked memory
    operation and adds no failure.) -/
def runnerChain (mainPlugins : List Other) : List Plug :=
  installPlugin ((mainPlugins.map Plug.other).foldl installPlugin []) (.leak true)

/-- what `RunAllTests` prints after the run: `none` — no final report is asked for (the run failed);
    `some none` — asked for, nothing to report; `some (some r)` — the report -/
def runnerFinal (w : World) : Option (Option LeakReport) :=
  if finalReportOnlyIfPassed && w.failures != 0 then none else some (finalReportN w finalReportArg)

/-- the order in which the actions of a chain are performed, as labels (used by the driver to compare with
    the order the real chain was observed to perform them) -/
def preOrderOf {π : Type} (en : π → Bool) (chain : List π) : List π :=
  (chainPre en (fun p l => p :: l) chain []).reverse

def postOrderOf {π : Type} (en : π → Bool) (chain : List π) : List π :=
  (chainPost en (fun p l => p :: l) chain []).reverse

end LeakPlugin
