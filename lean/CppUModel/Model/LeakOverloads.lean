import CppUModel.Model.LeakDetector
/-!
The switchable global overloads of `MemoryLeakWarningPlugin.cpp` and the three current allocators of
`TestMemoryAllocator.cpp` as state (C04 growth):

* the 11 function pointers, their 11 `saved_` copies and `save_counter`, with `turnOffNewDeleteOverloads`,
  `turnOnDefaultNotThreadSafeNewDeleteOverloads`, `turnOnThreadSafeNewDeleteOverloads`,
  `saveAndDisableNewDeleteOverloads`, `restoreNewDeleteOverloads`, `areNewDeleteOverloaded` executed from the
  REGENERATED assignment lists / counter guards (`Gen/LeakDetectorConstants.lean`);
* what a global entry point does in the current switch position: the function behind the pointer is either a
  detector wrapper (`mem_leak_*` / `threadsafe_mem_leak_*`: `allocMemory` / `reallocMemory` / `deallocMemory`) or a
  `normal_*` function (the platform call, the detector is not involved);
* `setCurrent…Allocator(NULL)` + getter, `setCurrent…AllocatorToDefault`, `GlobalMemoryAllocatorStash::save/restore`.
-/
namespace LeakDetector
open Gen.LeakDetector

/-! ## the function-pointer store -/

/-- values of the static function-pointer variables, by variable name: a finite table (`""` = not a known variable) -/
abbrev Store := List (String × String)

def Store.get (s : Store) (k : String) : String := (s.lookup k).getD ""

def Store.set (s : Store) (k v : String) : Store := (k, v) :: s.filter (fun e => e.1 != k)

/-- `k1 = f1; k2 = f2; …` (a switch function assigns function names) -/
def Store.assignConsts (s : Store) (l : List (String × String)) : Store := l.foldl (fun st e => st.set e.1 e.2) s

/-- `dst1 = src1; dst2 = src2; …` executed in order on one store (as the C statements are) -/
def Store.assignVars (s : Store) (l : List (String × String)) : Store := l.foldl (fun st e => st.set e.1 (st.get e.2)) s

structure Ov where
  vars    : Store
  counter : Int        -- `save_counter` (a C `int`)

/-- the static initialisers -/
def Ov.init : Ov := { vars := Store.assignConsts [] staticInit, counter := saveCounterInit }

def turnOff (o : Ov) : Ov := { o with vars := o.vars.assignConsts offTable }
def turnOnPlain (o : Ov) : Ov := { o with vars := o.vars.assignConsts plainTable }
def turnOnThreadSafe (o : Ov) : Ov := { o with vars := o.vars.assignConsts threadSafeTable }

/-- a parameterless member called at the end of save / restore -/
def callByName (o : Ov) (fn : String) : Ov :=
  if fn = "turnOffNewDeleteOverloads" then turnOff o
  else if fn = "turnOnDefaultNotThreadSafeNewDeleteOverloads" then turnOnPlain o
  else if fn = "turnOnThreadSafeNewDeleteOverloads" then turnOnThreadSafe o
  else o

/-- `saveAndDisableNewDeleteOverloads` -/
def saveAndDisable (o : Ov) : Ov :=
  if o.counter + saveCounterStep > saveReturnIfAbove then { o with counter := o.counter + saveCounterStep }
  else saveThenCalls.foldl callByName
    { vars := o.vars.assignVars saveAssignments, counter := o.counter + saveCounterStep }

/-- `restoreNewDeleteOverloads` -/
def restoreOverloads (o : Ov) : Ov :=
  if o.counter + restoreCounterStep > restoreReturnIfAbove then { o with counter := o.counter + restoreCounterStep }
  else restoreThenCalls.foldl callByName
    { vars := o.vars.assignVars restoreAssignments, counter := o.counter + restoreCounterStep }

/-- `areNewDeleteOverloaded` -/
def areOverloaded (o : Ov) : Bool := overloadedFns.contains (o.vars.get overloadedPtr)

/-- the function an overload form / C entry point runs in this switch position -/
def Ov.formFunction (o : Ov) (form : String) : Option String := (formFptr form).map o.vars.get

/-- `realloc` is `cpputest_realloc_location` -/
def Ov.reallocFunction (o : Ov) : String := o.vars.get "realloc_fptr"

/-! ## what a global entry point does -/

/-- `mem_leak_realloc` / `threadsafe_mem_leak_realloc` as regenerated -/
def reallocBy (w : AcquireWrapper) (c : Current) (s : State) (addr size : Nat) (file : String) (line : Nat)
    (result : Nat) (fill : UInt8) : State × List Ev :=
  realloc s (c.byGetter w.getter) addr size (if w.withLocation then file else "<unknown>") (if w.withLocation then line else 0)
    w.separateNode result fill

/-- what happened to the detector's view of the world in one global call -/
inductive GOutcome
  /-- the call went to the detector -/
  | tracked (r : State × List Ev)
  /-- the call went to the platform function named (`malloc` / `realloc` / `free`): the detector is not involved -/
  | raw (platform : String)
  /-- no function is known for that pointer value -/
  | unknown

def gAcquire (o : Ov) (c : Current) (s : State) (form : String) (size : Nat) (file : String) (line : Nat)
    (result : Nat) (fill : UInt8) : GOutcome :=
  match o.formFunction form with
  | none => .unknown
  | some fn =>
    match acquireWrappers.find? (fun w => w.name == fn) with
    | some w => if w.isRealloc then .unknown else .tracked (acquireBy w c s size file line result true fill)
    | none =>
      match normalWrappers.lookup fn with
      | some p => .raw p
      | none => .unknown

def gRelease (o : Ov) (c : Current) (s : State) (form : String) (addr : Nat) (file : String) (line : Nat) : GOutcome :=
  match o.formFunction form with
  | none => .unknown
  | some fn =>
    match releaseWrappers.find? (fun w => w.name == fn) with
    | some w => .tracked (releaseBy w c s addr file line)
    | none =>
      match normalWrappers.lookup fn with
      | some p => .raw p
      | none => .unknown

def gRealloc (o : Ov) (c : Current) (s : State) (addr size : Nat) (file : String) (line : Nat)
    (result : Nat) (fill : UInt8) : GOutcome :=
  match acquireWrappers.find? (fun w => w.name == o.reallocFunction) with
  | some w => if w.isRealloc then .tracked (reallocBy w c s addr size file line result fill) else .unknown
  | none =>
    match normalWrappers.lookup o.reallocFunction with
    | some p => .raw p
    | none => .unknown

/-- the detector state after a global call -/
def GOutcome.state (g : GOutcome) (s : State) : State :=
  match g with
  | .tracked r => r.1
  | _ => s

/-! ## the current allocators -/

/-- `default…Allocator()`: the static allocator object of a family; object identities are those of the allocator
    registry (0 = new, 1 = new [], 2 = malloc), names as regenerated -/
def defaultAllocatorOf (fn : String) : Allocator :=
  match defaultAllocators.find? (fun e => e.1 == fn) with
  | some e =>
    .plain (if fn == "defaultMallocAllocator" then 2 else if fn == "defaultNewArrayAllocator" then 1 else 0) e.2.1 e.2.2.1 e.2.2.2
  | none => default

/-- `setCurrent…AllocatorToDefault()` as regenerated: the variable it assigns, the default function it calls -/
def setToDefault (c : Current) (fn : String) : Current :=
  match defaultSetters.find? (fun e => e.1 == fn) with
  | some e => c.bySetter e.2.1 (defaultAllocatorOf e.2.2)
  | none => c

def defaultSetterOfFamily : Family → String
  | .new => "setCurrentNewAllocatorToDefault"
  | .newArray => "setCurrentNewArrayAllocatorToDefault"
  | .malloc => "setCurrentMallocAllocatorToDefault"

def setterOfFamily : Family → String
  | .new => "setCurrentNewAllocator"
  | .newArray => "setCurrentNewArrayAllocator"
  | .malloc => "setCurrentMallocAllocator"

/-- `setCurrent…Allocator(NULL)` as seen through the getter, which installs the default when it finds NULL -/
def setCurrentNull (c : Current) (f : Family) : Current := setToDefault c (defaultSetterOfFamily f)

/-- the three fields of a `GlobalMemoryAllocatorStash` (`none` = NULLPTR) -/
abbrev Stash := String → Option Allocator

def Stash.empty : Stash := fun _ => none

/-- `GlobalMemoryAllocatorStash::save` as regenerated -/
def stashSaveRun (c : Current) (st : Stash) : Stash :=
  stashSave.foldl (fun s e => fun k => if k = e.1 then some (c.byGetter e.2) else s k) st

/-- `GlobalMemoryAllocatorStash::restore` as regenerated -/
def stashRestoreRun (st : Stash) (c : Current) : Current :=
  stashRestore.foldl (fun cur e => match st e.1 with
    | some a => cur.bySetter e.2 a
    | none => cur) c

end LeakDetector
