import CppUModel.Spec.Text
import CppUModel.Gen.FailureCtors
/-!
# Runner output events (shared by C16 JUnit and C20 TeamCity)

What a `TestOutput` sees during `TestRegistry::runAllTests` (src/CppUTest/TestRegistry.cpp:46-74,
src/CppUTest/TestResult.cpp): a list of callbacks.  Both writers are folds over that list.

* `Ev` — one callback on the output object, with the data the writers read from its argument.
* `Script`/`Act` — a scripted test (what the harness registers): pass / fail through each of the
  three `TestFailure` constructors (continuing: `addFailure`, or leaving the test:
  `UtestShell::fail`) / a failure added by a plugin's post-test action / print / count checks / let
  the (stubbed) clock advance; `willRun = false` is an `IgnoredUtestShell`.
  Which field of a fresh `TestFailure` comes from where is the regenerated table
  `Gen.FailureCtors` (member-initialiser lists of src/CppUTest/TestFailure.cpp).
* `runAll` — the registry loop written from the C++ (group start flag, filter, end-of-group test),
  producing the event list.
* `foldEvents` — the fold skeleton of an output writer.

Byte strings are `List UInt8` without terminator (C strings: no NUL inside).  Core Lean only.
-/
namespace OutEv
open Text (Bytes)

/-! ## decimal rendering (`StringFrom(size_t)`, `%d` of a non-negative int) -/

def digit (n : Nat) : UInt8 := UInt8.ofNat (48 + n % 10)

def decAux : Nat → Nat → Bytes → Bytes
  | 0, _, acc => acc
  | fuel + 1, n, acc =>
    if n < 10 then digit n :: acc else decAux fuel (n / 10) (digit n :: acc)

/-- decimal digits of `n` -/
def dec (n : Nat) : Bytes := decAux (n + 1) n []

/-- bytes of an ASCII literal of the source (reduces in the kernel, unlike `toUTF8`) -/
def lit (s : String) : Bytes := s.toList.map fun c => UInt8.ofNat c.toNat

/-! ## what the output object is told -/

/-- the fields of a `UtestShell` the writers read -/
structure TestInfo where
  group   : Bytes
  name    : Bytes
  file    : Bytes
  line    : Nat
  willRun : Bool          -- `willRun()`: false for an `IgnoredUtestShell` (run-ignored off)
deriving Repr, DecidableEq, Inhabited

/-- the fields of a `TestFailure` the writers read -/
structure Failure where
  testName : Bytes        -- `getTestNameOnly()`
  file     : Bytes        -- `getFileName()`
  line     : Nat          -- `getFailureLineNumber()`
  testFile : Bytes        -- `getTestFileName()`
  testLine : Nat          -- `getTestLineNumber()`
  message  : Bytes        -- `getMessage()`
deriving Repr, DecidableEq, Inhabited

def Failure.isOutsideTestFile (f : Failure) : Bool := f.testFile != f.file
def Failure.isInHelperFunction (f : Failure) : Bool := decide (f.line < f.testLine)

/-- the counters of `TestResult` read by `printTestsEnded` -/
structure Summary where
  testCount        : Nat
  runCount         : Nat
  checkCount       : Nat
  ignoredCount     : Nat
  filteredOutCount : Nat
  failureCount     : Nat
  totalMs          : Nat
deriving Repr, DecidableEq, Inhabited

inductive Ev
  | testRun      (number total : Nat)        -- `printTestRun(number, total)`: start of one repetition (-r)
  | testsStarted
  | groupStarted (t : TestInfo)              -- `printCurrentGroupStarted(test)`
  | testStarted  (t : TestInfo)              -- `printCurrentTestStarted(test)`
  | print        (text : Bytes)              -- `print(const char*)` coming from the test
  | failure      (f : Failure)               -- `printFailure(failure)`
  | veryVerbose  (text : Bytes)              -- `printVeryVerbose(text)`: progress trace, shown only with -vv
  | testEnded    (ms : Nat) (checks : Nat)   -- `printCurrentTestEnded(result)`: test time, total check count
  | groupEnded   (ms : Nat)                  -- `printCurrentGroupEnded(result)`: group time
  | testsEnded   (s : Summary)               -- `printTestsEnded(result)`
deriving Repr, DecidableEq, Inhabited

/-! ## the fold skeleton of a writer -/

/-- run a writer (`step : state → event → state × output pieces`) over an event list -/
def foldEvents {σ ω : Type} (step : σ → Ev → σ × List ω) : σ → List Ev → σ × List ω
  | s, [] => (s, [])
  | s, e :: es =>
    ((foldEvents step (step s e).1 es).1, (step s e).2 ++ (foldEvents step (step s e).1 es).2)

theorem foldEvents_append {σ ω : Type} (step : σ → Ev → σ × List ω) :
    ∀ (a b : List Ev) (s : σ),
      foldEvents step s (a ++ b) =
        ((foldEvents step (foldEvents step s a).1 b).1,
         (foldEvents step s a).2 ++ (foldEvents step (foldEvents step s a).1 b).2)
  | [], b, s => by simp [foldEvents]
  | e :: a, b, s => by
    simp [foldEvents, foldEvents_append step a b, List.append_assoc]

/-! ## scripted tests and the registry loop -/

inductive Act
  | print    (file : Bytes) (line : Nat) (text : Bytes)   -- `UtestShell::print(text, file, line)`
  | fail     (file : Bytes) (line : Nat) (msg : Bytes)    -- `addFailure(TestFailure(cur, file, line, msg))`, test goes on
  | failExit (file : Bytes) (line : Nat) (msg : Bytes)    -- `UtestShell::fail(..)`: count a check, add a FailFailure, leave the test
  | failMsg  (msg : Bytes)                                -- `addFailure(TestFailure(cur, msg))`: no location given
  | failLoc  (file : Bytes) (line : Nat)                  -- `addFailure(TestFailure(cur, file, line))`: no message given
  | postFail (msg : Bytes)                                -- a plugin's `postTestAction`: `result.addFailure(TestFailure(&test, msg))`
  | checks   (n : Nat)                                    -- `countCheck()` n times
  | tick     (ms : Nat)                                   -- the stubbed clock advances
deriving Repr, DecidableEq, Inhabited

structure Script where
  info : TestInfo
  acts : List Act
deriving Repr, DecidableEq, Inhabited

/-- `UtestShell::print`: "\n" file ":" line " " text -/
def printText (file : Bytes) (line : Nat) (text : Bytes) : Bytes :=
  [10] ++ file ++ [58] ++ dec line ++ [32] ++ text

/-- `UtestShell::getFormattedName`: macro name, "(", group, ", ", name, ")" -/
def formattedName (t : TestInfo) : Bytes :=
  (if t.willRun then lit "TEST" else lit "IGNORE_TEST") ++ lit "(" ++ t.group ++ lit ", " ++ t.name ++ lit ")"

open Gen.FailureCtors in
/-- a text-valued source of a constructor's initialiser list -/
def srcBytes (t : TestInfo) (file msg : Bytes) : Gen.FailureCtors.Src → Bytes
  | .shellFormattedName => formattedName t
  | .shellName => t.name
  | .shellFile => t.file
  | .argFile => file
  | .argMessage => msg
  | .text s => s
  | .shellLine => []        -- not text-valued (excluded by the extractor's type check)
  | .argLine => []

/-- a number-valued source -/
def srcNat (t : TestInfo) (line : Nat) : Gen.FailureCtors.Src → Nat
  | .shellLine => t.line
  | .argLine => line
  | _ => 0                  -- not number-valued (excluded by the extractor's type check)

/-- a `TestFailure` built by constructor `c` for shell `t` with the given arguments -/
def mkFailureWith (c : Gen.FailureCtors.Ctor) (t : TestInfo) (file : Bytes) (line : Nat) (msg : Bytes) : Failure :=
  { testName := srcBytes t file msg c.testNameOnly
    file     := srcBytes t file msg c.fileName
    line     := srcNat t line c.lineNumber
    testFile := srcBytes t file msg c.testFileName
    testLine := srcNat t line c.testLineNumber
    message  := srcBytes t file msg c.message }

/-- `TestFailure(cur, file, line, msg)` -/
def locMsgFailure (t : TestInfo) (file : Bytes) (line : Nat) (msg : Bytes) : Failure :=
  mkFailureWith Gen.FailureCtors.withLocationAndMessage t file line msg
/-- `TestFailure(cur, msg)` -/
def msgFailure (t : TestInfo) (msg : Bytes) : Failure :=
  mkFailureWith Gen.FailureCtors.withMessage t [] 0 msg
/-- `TestFailure(cur, file, line)` -/
def locFailure (t : TestInfo) (file : Bytes) (line : Nat) : Failure :=
  mkFailureWith Gen.FailureCtors.withLocation t file line []
/-- `FailFailure(cur, file, line, msg)`: the constructor with a location, then `message_ = msg` -/
def exitFailure (t : TestInfo) (file : Bytes) (line : Nat) (msg : Bytes) : Failure :=
  { locFailure t file line with message := msg }

/-- events a test body sends to the output; nothing after a `failExit` is executed -/
def actEvs (t : TestInfo) : List Act → List Ev
  | [] => []
  | .print f l x :: as => .print (printText f l x) :: actEvs t as
  | .fail f l m :: as => .failure (locMsgFailure t f l m) :: actEvs t as
  | .failExit f l m :: _ => [.failure (exitFailure t f l m)]
  | .failMsg m :: as => .failure (msgFailure t m) :: actEvs t as
  | .failLoc f l :: as => .failure (locFailure t f l) :: actEvs t as
  | .postFail _ :: as => actEvs t as
  | .checks _ :: as => actEvs t as
  | .tick _ :: as => actEvs t as

/-- events of the plugin's post-test action (runs after the body, also when the body was left early) -/
def postEvs (t : TestInfo) : List Act → List Ev
  | [] => []
  | .postFail m :: as => .failure (msgFailure t m) :: postEvs t as
  | _ :: as => postEvs t as

def actChecks : List Act → Nat
  | [] => 0
  | .failExit _ _ _ :: _ => 1
  | .checks n :: as => n + actChecks as
  | _ :: as => actChecks as

def actTicks : List Act → Nat
  | [] => 0
  | .failExit _ _ _ :: _ => 0
  | .tick n :: as => n + actTicks as
  | _ :: as => actTicks as

def actFailures : List Act → Nat
  | [] => 0
  | .failExit _ _ _ :: _ => 1
  | .fail _ _ _ :: as => 1 + actFailures as
  | .failMsg _ :: as => 1 + actFailures as
  | .failLoc _ _ :: as => 1 + actFailures as
  | _ :: as => actFailures as

def postFailures : List Act → Nat
  | [] => 0
  | .postFail _ :: as => 1 + postFailures as
  | _ :: as => postFailures as

/-- one name filter of the registry (`TestFilter`): substring or strict match, possibly inverted -/
structure Filter where
  pat    : Bytes
  strict : Bool
  invert : Bool
deriving Repr, DecidableEq, Inhabited

def Filter.matches (f : Filter) (name : Bytes) : Bool :=
  (if f.strict then name == f.pat else Text.isInfix name f.pat) != f.invert

/-- `testShouldRun` with at most one name filter and no group filter -/
def shouldRun (flt : Option Filter) (t : TestInfo) : Bool :=
  match flt with
  | none => true
  | some f => f.matches t.name

/-- `TestResult` counters plus the stubbed clock -/
structure R where
  clock    : Nat := 0
  tests    : Nat := 0
  runs     : Nat := 0
  checks   : Nat := 0
  ignored  : Nat := 0
  filtered : Nat := 0
  failures : Nat := 0
deriving Repr, DecidableEq, Inhabited

def R.summary (r : R) : Summary :=
  { testCount := r.tests, runCount := r.runs, checkCount := r.checks, ignoredCount := r.ignored,
    filteredOutCount := r.filtered, failureCount := r.failures, totalMs := r.clock }

/-- `TestRegistry::endOfGroup` -/
def endOfGroup (t : Script) (rest : List Script) : Bool :=
  match rest with
  | [] => true
  | n :: _ => t.info.group != n.info.group

def vv (s : String) : Ev := .veryVerbose (lit s)

/-- the body is left early by a `failExit` -/
def bodyExits : List Act → Bool
  | [] => false
  | .failExit _ _ _ :: _ => true
  | _ :: as => bodyExits as

/-- progress trace of `runOneTestInCurrentProcess` / `Utest::run` up to the test body -/
def traceBefore : List Ev :=
  [vv "\n-- before runAllPreTestAction: ", vv "\n-- after runAllPreTestAction: ", vv "\n---- before createTest: ",
   vv "\n---- after createTest: ", vv "\n------ before runTest: ", vv "\n-------- before setup: ",
   vv "\n-------- after  setup: ", vv "\n----------  before body: "]

/-- … between the body and the post-test actions; "after body" is skipped when the body was left by
    an exception -/
def traceBetween (acts : List Act) : List Ev :=
  (if bodyExits acts then [] else [vv "\n----------  after body: "]) ++
  [vv "\n--------  before teardown: ", vv "\n--------  after teardown: ", vv "\n------ after runTest: ",
   vv "\n---- before destroyTest: ", vv "\n---- after destroyTest: ", vv "\n-- before runAllPostTestAction: "]

def traceAfter : List Ev := [vv "\n-- after runAllPostTestAction: "]

/-- everything a running test sends between `testStarted` and `testEnded` -/
def testInner (t : TestInfo) (acts : List Act) : List Ev :=
  traceBefore ++ (actEvs t acts ++ (traceBetween acts ++ (postEvs t acts ++ traceAfter)))

/-- `currentTestStarted; runOneTest; currentTestEnded` for a test that is not filtered out.
    An ignored shell only counts itself. -/
def testEvs (t : Script) (r : R) : List Ev :=
  if t.info.willRun then
    .testStarted t.info ::
      (testInner t.info t.acts ++ [.testEnded (actTicks t.acts) (r.checks + actChecks t.acts)])
  else
    [.testStarted t.info, .testEnded 0 r.checks]

def afterTest (t : Script) (r : R) : R :=
  if t.info.willRun then
    { r with clock := r.clock + actTicks t.acts, runs := r.runs + 1, checks := r.checks + actChecks t.acts,
             failures := r.failures + actFailures t.acts + postFailures t.acts }
  else
    { r with ignored := r.ignored + 1 }

def countTest (r : R) : R := { r with tests := r.tests + 1 }
def countFiltered (r : R) : R := { r with filtered := r.filtered + 1 }

def startEvs (groupStart : Bool) (t : Script) : List Ev :=
  if groupStart then [.groupStarted t.info] else []

def bodyEvs (flt : Option Filter) (t : Script) (r : R) : List Ev :=
  if shouldRun flt t.info then testEvs t (countTest r) else []

def bodyR (flt : Option Filter) (t : Script) (r : R) : R :=
  if shouldRun flt t.info then afterTest t (countTest r) else countFiltered (countTest r)

def endEvs (t : Script) (rest : List Script) (g0 : Nat) (r : R) : List Ev :=
  if endOfGroup t rest then [.groupEnded (r.clock - g0)] else []

/-- the `for` loop of `runAllTests`; `gs` is `groupStart`, `g0` the clock at the last group start -/
def loop (flt : Option Filter) : Bool → Nat → R → List Script → List Ev
  | _, _, r, [] => [.testsEnded r.summary]
  | gs, g0, r, t :: rest =>
    startEvs gs t ++ bodyEvs flt t r ++
      endEvs t rest (if gs then r.clock else g0) (bodyR flt t r) ++
      loop flt (endOfGroup t rest) (if gs then r.clock else g0) (bodyR flt t r) rest

/-- `TestRegistry::runAllTests` as seen by the output -/
def runAll (flt : Option Filter) (tests : List Script) : List Ev :=
  .testsStarted :: loop flt true 0 {} tests

/-- `CommandLineTestRunner::runAllTests`: the repeat loop (`-r<total>`).  ONE output object receives, for every
    repetition, `printTestRun` and then a whole run of the registry with a fresh `TestResult` (all times and
    counts the writers see are differences within that run, so every repetition looks the same to them —
    what is carried across is only the writers' own state). -/
def runRepeated (total : Nat) (flt : Option Filter) (tests : List Script) : List Ev :=
  (List.range total).flatMap fun i => .testRun (i + 1) total :: runAll flt tests

end OutEv
