import CppUModel.Model.SepProcTypes
import CppUModel.Gen.SeparateProcessConstants
import CppUModel.Gen.SeparateProcessLoop
/-!
Model of separate-process mode, written from the C++ line by line:

* `SetTestFailureByStatusCode` and `GccPlatformSpecificRunTestInASeperateProcess`
  (src/Platforms/Gcc/UtestPlatform.cpp),
* the part of `UtestShell::runOneTest` / `TestRegistry::runAllTests` that matters here
  (count the run, run the test through the separate-process runner, go on to the next test).

`fork`, `waitpid` and `kill` are the environment: what they answer is an input (`TestScript`).
The wait-status macros are glibc's (`<bits/waitstatus.h>`), written here as they are defined
there, on the 32-bit `int` the kernel fills in.
-/
namespace SepProc
open Gen.SepProcC

/-! ## glibc wait-status macros -/

/-- `__WEXITSTATUS(status) = (((status) & 0xff00) >> 8)` -/
def wExitStatus (s : BitVec 32) : Nat := ((s &&& 0xff00#32) >>> 8).toNat
/-- `__WTERMSIG(status) = ((status) & 0x7f)` -/
def wTermSig (s : BitVec 32) : Nat := (s &&& 0x7f#32).toNat
/-- `__WSTOPSIG(status) = __WEXITSTATUS(status)` -/
def wStopSig (s : BitVec 32) : Nat := wExitStatus s
/-- `__WIFEXITED(status) = (__WTERMSIG(status) == 0)` -/
def wIfExited (s : BitVec 32) : Bool := wTermSig s == 0
/-- `__WIFSIGNALED(status) = (((signed char) (((status) & 0x7f) + 1) >> 1) > 0)` -/
def wIfSignaled (s : BitVec 32) : Bool :=
  decide (0 < ((BitVec.ofNat 8 (wTermSig s + 1)).sshiftRight 1).toInt)
/-- `__WIFSTOPPED(status) = (((status) & 0xff) == 0x7f)` -/
def wIfStopped (s : BitVec 32) : Bool := (s &&& 0xff#32).toNat == 0x7f

/-! ## failures added to the parent's `TestResult` -/

inductive FailClass
  | exitedNonZero                 -- exited with a non-zero status (also: the child's test failed a check)
  | killedBySignal (n : Nat)      -- killed by signal n, n printed in the message
  | killedUnnumbered              -- (only if the source stops appending the number)
  | stopped                       -- stopped, parent sends SIGCONT and keeps waiting
  | forkFailed
  | waitFailed
  | eintrGiveUp
  | noFork                        -- "-p doesn't work on this platform, as it is lacking fork."
deriving Repr, DecidableEq, Inhabited

structure Failure where
  cls  : FailClass
  text : String                   -- the failure message as printed
deriving Repr, DecidableEq, Inhabited

def condHolds (c : StatusCond) (s : BitVec 32) : Bool :=
  match c with
  | .exitedNonZero => wIfExited s && wExitStatus s != 0
  | .signaled => wIfSignaled s
  | .stopped => wIfStopped s

def classOfArm (e : ChainEntry) (s : BitVec 32) : FailClass :=
  match e.cond with
  | .exitedNonZero => .exitedNonZero
  | .signaled => if e.appendsSignal then .killedBySignal (wTermSig s) else .killedUnnumbered
  | .stopped => .stopped

def textOfArm (e : ChainEntry) (s : BitVec 32) : String :=
  if e.appendsSignal then e.msg ++ toString (wTermSig s) else e.msg

/-- an `if / else if` chain: the first arm whose condition holds adds its failure -/
def chainFailures : List ChainEntry → BitVec 32 → List Failure
  | [], _ => []
  | e :: rest, s =>
    if condHolds e.cond s then [{ cls := classOfArm e s, text := textOfArm e s }]
    else chainFailures rest s

/-- `SetTestFailureByStatusCode(shell, result, status)` -/
def statusFailures (s : BitVec 32) : List Failure := chainFailures statusChain s

def forkFailure : Failure := { cls := .forkFailed, text := msgForkFailed }
def waitFailure : Failure := { cls := .waitFailed, text := msgWaitFailed }
def giveUpFailure : Failure := { cls := .eintrGiveUp, text := msgEintrGiveUp }
def noForkFailure : Failure := { cls := .noFork, text := msgNoFork }

/-! ## the parent's wait loop -/

/-- how `GccPlatformSpecificRunTestInASeperateProcess` came to return (or did not) -/
inductive LoopEnd
  | childGone       -- the `do … while` condition became false: child exited or was killed
  | gaveUp          -- too many EINTR
  | waitError       -- waitpid failed with another errno
  | forkFailed      -- fork failed, nothing waited for
  | noFork          -- the platform has no fork/waitpid/kill: nothing forked, nothing waited for
  | starved         -- the known outcomes ran out: the parent is (still) blocked in waitpid
deriving Repr, DecidableEq, Inhabited

structure LoopResult where
  failures : List Failure       -- failures added, in order
  consumed : Nat                -- number of waitpid results used
  conts    : Nat                -- number of `kill(w, SIGCONT)` calls
  ended    : LoopEnd
deriving Repr, DecidableEq, Inhabited

/-- the effects of one loop iteration that goes round again, in front of the rest of the loop -/
def LoopResult.prepend (fs : List Failure) (c : Nat) (r : LoopResult) : LoopResult :=
  { failures := fs ++ r.failures, consumed := r.consumed + 1, conts := c + r.conts, ended := r.ended }

/-- `if (WIFSTOPPED(status)) kill(w, SIGCONT);` -/
def contOf (s : BitVec 32) : Nat := if wIfStopped s then 1 else 0

/-- The `do { … } while (…)` loop of the parent; `retries` is `amountOfRetries`.
    Structural recursion over the results `waitpid` is going to give. -/
def parentLoop (retries : Nat) : List WaitOutcome → LoopResult
  | [] => { failures := [], consumed := 0, conts := 0, ended := .starved }
  | .eintr :: rest =>
    if retries > retryBound then
      { failures := [giveUpFailure], consumed := 1, conts := 0, ended := .gaveUp }
    else (parentLoop (retries + 1) rest).prepend [] 0
  | .error :: _ => { failures := [waitFailure], consumed := 1, conts := 0, ended := .waitError }
  | .status s :: rest =>
    if wIfExited s || wIfSignaled s then
      { failures := statusFailures s, consumed := 1, conts := contOf s, ended := .childGone }
    else (parentLoop retries rest).prepend (statusFailures s) (contOf s)

/-- what the environment does for one test run in a separate process -/
structure TestScript where
  forkOk : Bool                   -- false: `PlatformSpecificFork()` returned -1
  outs   : List WaitOutcome       -- successive results of `PlatformSpecificWaitPid`
deriving Repr, DecidableEq, Inhabited

/-- `GccPlatformSpecificRunTestInASeperateProcess` as executed by the parent -/
def runSeparate (t : TestScript) : LoopResult :=
  if t.forkOk then parentLoop 0 t.outs
  else { failures := [forkFailure], consumed := 0, conts := 0, ended := .forkFailed }

/-- the build variants of `GccPlatformSpecificRunTestInASeperateProcess`:
    `#if !defined(CPPUTEST_HAVE_FORK) || !defined(CPPUTEST_HAVE_WAITPID) || !defined(CPPUTEST_HAVE_KILL)` -/
inductive Platform
  | withFork
  | withoutFork
deriving Repr, DecidableEq, Inhabited

/-- `PlatformSpecificRunTestInASeperateProcess(shell, plugin, result)` on either build -/
def runSeparateOn (pf : Platform) (t : TestScript) : LoopResult :=
  match pf with
  | .withFork => runSeparate t
  | .withoutFork => { failures := [noForkFailure], consumed := 0, conts := 0, ended := .noFork }


/-! ## the function as regenerated from the AST (`Gen/SeparateProcessLoop.lean`)

`waitBodyGen` is one pass through the body of the `do … while`; the loop itself is the obvious
recursion over what `waitpid` is going to answer.  `Props/C11.lean` proves that this is the hand
model above (`genRunSeparate_eq_model`), so that every theorem about `parentLoop` / `runSeparate`
is a theorem about what the source says at check time. -/

/-- how the regenerated function came to stop -/
inductive GenEnd
  | returned        -- a `return` statement
  | condFalse       -- the `while` condition became false
  | starved         -- the known outcomes ran out
deriving Repr, DecidableEq, Inhabited

structure GenResult where
  failures : List String        -- texts of the failures added, in order
  consumed : Nat
  conts    : Nat
  ended    : GenEnd
deriving Repr, DecidableEq, Inhabited

def GenResult.prepend (fs : List String) (c : Nat) (r : GenResult) : GenResult :=
  { failures := fs ++ r.failures, consumed := r.consumed + 1, conts := c + r.conts, ended := r.ended }

/-- what one pass of the body means for the loop -/
def genStep (b : BodyOut) (next : BitVec 64 → BitVec 32 → GenResult) : GenResult :=
  match b with
  | .ret fs c => { failures := fs, consumed := 1, conts := c, ended := .returned }
  | .fall fs c r s again =>
    if again then (next r s).prepend fs c
    else { failures := fs, consumed := 1, conts := c, ended := .condFalse }

/-- `do { BODY } while (COND);` over the answers `waitpid` is going to give -/
def genLoop : List WaitOutcome → BitVec 64 → BitVec 32 → GenResult
  | [], _, _ => { failures := [], consumed := 0, conts := 0, ended := .starved }
  | o :: rest, retries, status => genStep (Gen.SepProcLoop.waitBodyGen retries status o) (genLoop rest)

/-- the code in front of the loop when fork fails -/
def genForkFailed : GenResult :=
  match Gen.SepProcLoop.forkFailedGen with
  | .ret fs c => { failures := fs, consumed := 0, conts := c, ended := .returned }
  | .fall fs c _ _ _ => { failures := fs, consumed := 0, conts := c, ended := .condFalse }

/-- `GccPlatformSpecificRunTestInASeperateProcess` in the parent, regenerated -/
def genRunSeparate (t : TestScript) : GenResult :=
  if t.forkOk then genLoop t.outs Gen.SepProcLoop.loopInitRetries Gen.SepProcLoop.loopInitStatus
  else genForkFailed

/-- the hand model's result seen through what the regenerated function can tell -/
def LoopEnd.gen : LoopEnd → GenEnd
  | .childGone => .condFalse
  | .starved => .starved
  | _ => .returned

def LoopResult.gen (r : LoopResult) : GenResult :=
  { failures := r.failures.map (·.text), consumed := r.consumed, conts := r.conts, ended := r.ended.gen }

/-- the wait status of a child that runs to its `_exit`, with the regenerated `_exit` argument
    (`size_t` counters as 64-bit words) -/
def genChildStatus (initial final : Nat) : BitVec 32 :=
  (Gen.SepProcLoop.childExitGen (BitVec.ofNat 64 initial) (BitVec.ofNat 64 final)) <<< 8

/-! ## the child's side -/

/-- `_exit(initialFailureCount < result->getFailureCount())` -/
def childExitCode (initialFailures finalFailures : Nat) : Nat :=
  if initialFailures < finalFailures then 1 else 0

/-- What one step of `runOneTestInCurrentProcess` does in the child: the plugins' pre actions,
    the test (setup / body / teardown), the plugins' post actions, in this order.  A step either
    adds failures to `result` (a failed check, or a plugin calling `result.addFailure`, which does
    not touch `UtestShell::hasFailed_`) and goes on, or ends the process. -/
inductive ChildStep
  | adds (failures : Nat)         -- returns, having added that many failures to `result`
  | dies (status : BitVec 32)     -- the process ends here with this wait status (signal, _exit(n))
deriving Repr, DecidableEq, Inhabited

/-- the wait status the parent will see for a child that starts with `initial` failures in
    `result`, has `cur` now, and still has to run `steps` -/
def childStatus (initial cur : Nat) : List ChildStep → BitVec 32
  | [] => BitVec.ofNat 32 (childExitCode initial cur * 256)
  | .adds k :: rest => childStatus initial (cur + k) rest
  | .dies s :: _ => s

/-! ## the registry loop, as far as separate-process mode is concerned -/

structure RunState where
  started  : List Nat                  -- tests started (`currentTestStarted`), in order
  runCount : Nat                       -- `TestResult::runCount_`
  failures : List (Nat × Failure)      -- (test, failure) in the order they were added
  hung     : Bool                      -- the parent is blocked waiting for a child
  inRunner : List Nat                  -- tests executed inside the runner process itself
deriving Repr, DecidableEq, Inhabited

def RunState.init : RunState := { started := [], runCount := 0, failures := [], hung := false, inRunner := [] }

/-- `TestResult::getFailureCount()` -/
def RunState.failureCount (st : RunState) : Nat := st.failures.length

/-- the run is reported as failed (`Errors (…)`, non-zero exit code of the runner) -/
def RunState.overallFailure (st : RunState) : Bool := st.failureCount != 0

/-- `CommandLineTestRunner::runAllTests` (one repetition): the runner's exit code is the number
    of failures (a run without failures that ran at least one test returns 0) -/
def RunState.exitCode (st : RunState) : Nat :=
  if st.failureCount != 0 then st.failureCount else if st.runCount == 0 then 1 else 0

/-- one pass of the `for` loop of `TestRegistry::runAllTests` for test number `idx` whose
    separate-process run gives `r` (filters select everything; `runOneTest` counts the run) -/
def runResultAt (idx : Nat) (r : LoopResult) (st : RunState) : RunState :=
  { started := st.started ++ [idx],
    runCount := st.runCount + 1,
    failures := st.failures ++ r.failures.map (fun f => (idx, f)),
    hung := decide (r.ended = .starved),
    inRunner := st.inRunner }

def runResults (idx : Nat) : List LoopResult → RunState → RunState
  | [], st => st
  | r :: rs, st =>
    if (runResultAt idx r st).hung then runResultAt idx r st
    else runResults (idx + 1) rs (runResultAt idx r st)

def runTests (idx : Nat) (ts : List TestScript) (st : RunState) : RunState :=
  runResults idx (ts.map runSeparate) st

/-- a registry whose tests all carry the separate-process flag -/
def runAll (ts : List TestScript) : RunState := runTests 0 ts RunState.init

/-- the same on either build variant -/
def runAllOn (pf : Platform) (ts : List TestScript) : RunState :=
  runResults 0 (ts.map (runSeparateOn pf)) RunState.init

/-! ### which tests get the flag: `runAllTests` line by line -/

structure RegTest where
  group  : Nat                    -- tests with equal, adjacent group names form a group
  script : TestScript
deriving Repr, DecidableEq, Inhabited

/-- `if (runInSeperateProcess_) test->setRunInSeperateProcess();` at its place in the loop:
    is it executed for a test at which `groupStart` has the given value? -/
def sepFlag (p : SepFlagPlacement) (groupStart : Bool) : Bool :=
  match p with
  | .everyTest => true
  | .groupStartOnly => groupStart

/-- `endOfGroup(test)`: no next test, or the next test's group differs -/
def endOfGroup (g : Nat) : List RegTest → Bool
  | [] => true
  | t :: _ => g != t.group

/-- a test without the flag is run by `runOneTest` in the current process (the runner) -/
def runInRunnerAt (idx : Nat) (st : RunState) : RunState :=
  { st with started := st.started ++ [idx], runCount := st.runCount + 1, inRunner := st.inRunner ++ [idx] }

/-- `TestRegistry::runAllTests` after `setRunTestsInSeperateProcess()`; `groupStart` as in the code -/
def runRegistryFrom (p : SepFlagPlacement) (idx : Nat) (groupStart : Bool) : List RegTest → RunState → RunState
  | [], st => st
  | t :: ts, st =>
    if sepFlag p groupStart then
      if (runResultAt idx (runSeparate t.script) st).hung then runResultAt idx (runSeparate t.script) st
      else runRegistryFrom p (idx + 1) (endOfGroup t.group ts) ts (runResultAt idx (runSeparate t.script) st)
    else runRegistryFrom p (idx + 1) (endOfGroup t.group ts) ts (runInRunnerAt idx st)

/-- the registry as the source has it (placement regenerated from `runAllTests`) -/
def runRegistry (ts : List RegTest) : RunState :=
  runRegistryFrom sepFlagPlacement 0 true ts RunState.init

/-! ### test kinds: `IGNORE_TEST` entries and run-ignored (`-ri`)

`IgnoredUtestShell::runOneTest`: without run-ignored the test is only counted as ignored; with it,
the branch regenerated as `ignoredRunCall` decides whether the test goes through
`UtestShell::runOneTest` (and so through the separate-process decision) or straight into the
current process. -/

inductive TestKind
  | normal                        -- `TEST`: a `UtestShell`
  | ignored                       -- `IGNORE_TEST`: an `IgnoredUtestShell`
deriving Repr, DecidableEq, Inhabited

structure KTest where
  kind   : TestKind
  group  : Nat
  script : TestScript
deriving Repr, DecidableEq, Inhabited

inductive HowRun
  | forked                        -- through `PlatformSpecificRunTestInASeperateProcess`
  | inRunner                      -- `runOneTestInCurrentProcess` in the runner itself
  | notRun                        -- `result.countIgnored()`
deriving Repr, DecidableEq, Inhabited

/-- `test->runOneTest(plugin, result)` by dynamic type; `flag` = `isRunInSeperateProcess()` -/
def howRun (call : IgnoredRunCall) (runIgnored flag : Bool) : TestKind → HowRun
  | .normal => if flag then .forked else .inRunner
  | .ignored =>
    if runIgnored then
      (match call with
       | .viaRunOneTest => if flag then .forked else .inRunner
       | .inCurrentProcess => .inRunner)
    else .notRun

/-- an ignored test that is not run: started and ended by the registry, counted as ignored only -/
def notRunAt (idx : Nat) (st : RunState) : RunState := { st with started := st.started ++ [idx] }

/-- `TestRegistry::runAllTests` after `setRunTestsInSeperateProcess()` (and `setRunIgnored()` when
    `ri`) over entries of both kinds -/
def runKindsFrom (call : IgnoredRunCall) (p : SepFlagPlacement) (ri : Bool) (idx : Nat) (groupStart : Bool) :
    List KTest → RunState → RunState
  | [], st => st
  | t :: ts, st =>
    match howRun call ri (sepFlag p groupStart) t.kind with
    | .forked =>
      if (runResultAt idx (runSeparate t.script) st).hung then runResultAt idx (runSeparate t.script) st
      else runKindsFrom call p ri (idx + 1) (endOfGroup t.group (ts.map (fun k => ⟨k.group, k.script⟩))) ts
             (runResultAt idx (runSeparate t.script) st)
    | .inRunner =>
      runKindsFrom call p ri (idx + 1) (endOfGroup t.group (ts.map (fun k => ⟨k.group, k.script⟩))) ts (runInRunnerAt idx st)
    | .notRun =>
      runKindsFrom call p ri (idx + 1) (endOfGroup t.group (ts.map (fun k => ⟨k.group, k.script⟩))) ts (notRunAt idx st)

/-- the registry as the source has it (flag placement and the ignored shell's call regenerated) -/
def runKinds (ri : Bool) (ts : List KTest) : RunState :=
  runKindsFrom ignoredRunCall sepFlagPlacement ri 0 true ts RunState.init

/-! ### the command-line path: `-p` reaches the registry through `initializeTestRun` -/

/-- which switches were given on the command line (`CommandLineArguments` getters) -/
structure CliArgs where
  verbose         : Bool
  veryVerbose     : Bool
  color           : Bool
  separateProcess : Bool
  runIgnored      : Bool
  crashOnFail     : Bool
deriving Repr, DecidableEq, Inhabited

def CliArgs.has (a : CliArgs) : CliSwitch → Bool
  | .verbose => a.verbose
  | .veryVerbose => a.veryVerbose
  | .color => a.color
  | .separateProcess => a.separateProcess
  | .runIgnored => a.runIgnored
  | .crashOnFail => a.crashOnFail

/-- the statement list of `initializeTestRun` executed in order: the switches whose action is
    performed.  `chainTaken`: a condition of the current `if / else if` chain was already true. -/
def execInit (a : CliArgs) (chainTaken : Bool) : List InitStmt → List CliSwitch
  | [] => []
  | s :: rest =>
    if s.isElse then
      (if !chainTaken && a.has s.switch then [s.switch] else []) ++ execInit a (chainTaken || a.has s.switch) rest
    else
      (if a.has s.switch then [s.switch] else []) ++ execInit a (a.has s.switch) rest

/-- `registry_->setRunTestsInSeperateProcess()` is called for these arguments -/
def separateModeOn (a : CliArgs) : Bool := (execInit a false initStatements).contains .separateProcess

/-- without separate-process mode every test runs inside the runner -/
def runInRunnerAll (idx : Nat) : List RegTest → RunState → RunState
  | [], st => st
  | _ :: ts, st => runInRunnerAll (idx + 1) ts (runInRunnerAt idx st)

/-- `registry_->setRunIgnored()` is called for these arguments -/
def runIgnoredOn (a : CliArgs) : Bool := (execInit a false initStatements).contains .runIgnored

/-- without separate-process mode nothing is forked (ignored entries run only with run-ignored) -/
def runKindsInRunner (ri : Bool) (idx : Nat) : List KTest → RunState → RunState
  | [], st => st
  | t :: ts, st =>
    if t.kind == .ignored && !ri then runKindsInRunner ri (idx + 1) ts (notRunAt idx st)
    else runKindsInRunner ri (idx + 1) ts (runInRunnerAt idx st)

/-- the command-line run over entries of both kinds: `-p` and `-ri` as `initializeTestRun` forwards them -/
def runCommandLineKinds (a : CliArgs) (ts : List KTest) : RunState :=
  if separateModeOn a then runKinds (runIgnoredOn a) ts else runKindsInRunner (runIgnoredOn a) 0 ts RunState.init

/-- `CommandLineTestRunner::runAllTestsMain` for one repetition, as far as `-p` is concerned -/
def runCommandLine (a : CliArgs) (ts : List RegTest) : RunState :=
  if separateModeOn a then runRegistry ts else runInRunnerAll 0 ts RunState.init

end SepProc
