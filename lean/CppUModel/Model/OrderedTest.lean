import CppUModel.Model.Registry
/-!
Model of `TEST_ORDERED` registration (src/CppUTestExt/OrderedTest.cpp), written from the C++ line
by line: `OrderedTestInstaller::OrderedTestInstaller`, `addOrderedTestInOrder`,
`addOrderedTestInOrderNotAtHeadPosition`, `OrderedTestShell::addOrderedTestToHead`,
`addOrderedTest`, `firstOrderedTest`, and the registry functions they call
(`TestRegistry::addTest`, `getFirstTest`, `getTestWithNext`).

An ordered shell is an ordinary `UtestShell` in the registry's `next_` list and, in addition, a
member of a second singly linked list (`_nextOrderedTest`, head in the static
`_orderedTestsHead`) that is kept sorted by level.  The installer links the new shell into BOTH
lists; the registry's run loop only ever follows `next_`.  The three decisions (front-of-registry
test in `addOrderedTestToHead`, `level < head level`, `next level > level`) are the REGENERATED
`Gen.Registry.ordered*` functions (translate/extract_registry.py).  Core Lean only.
-/
namespace Registry
open Text (Bytes)

/-- the registry plus the static state of OrderedTest.cpp -/
structure OReg where
  reg   : Reg := Reg.empty
  ohead : Option Nat := none          -- `OrderedTestShell::_orderedTestsHead`
  onext : Next := fun _ => none       -- `_nextOrderedTest` of every ordered shell
  level : Nat → Int := fun _ => 0     -- `_level`
deriving Inhabited

/-- a shell object comes into existence (a static instance) without being linked anywhere -/
def Reg.newShell (r : Reg) (group name file : Bytes) (line : Nat) : Reg :=
  { r with objs := r.objs.push { id := r.objs.size, group := group, name := name, ignored := false,
                                 file := file, line := line } }

/-- `TestRegistry::addTest(test)` for an existing shell: `tests_ = test->addTest(tests_)` -/
def Reg.linkFront (r : Reg) (i : Nat) : Reg :=
  { r with next := setNext r.next i r.head, head := some i }

/-- `TestRegistry::getTestWithNext(test)` on the shell ids of the list (the loop compares pointers):
    `while (current && current->getNext() != test) current = current->getNext(); return current;` -/
def prevId (target : Option Nat) : List Nat → Option Nat
  | [] => none
  | [t] => if target = none then some t else none
  | t :: n :: rest => if target = some n then some t else prevId target (n :: rest)

/-- `OrderedTestShell::addOrderedTestToHead(test)`:
    `if (NULL == reg->getFirstTest() || head == reg->getFirstTest()) reg->addTest(test);
     else { reg->getTestWithNext(head)->addTest(test); test->addTest(head); }
     test->_nextOrderedTest = getOrderedTestHead(); setOrderedTestHead(test);` -/
def OReg.addOrderedTestToHead (o : OReg) (i : Nat) : OReg :=
  { o with
    reg := (if Gen.Registry.orderedAddAtFront (o.reg.head == none) (o.ohead == o.reg.head) then o.reg.linkFront i
            else match prevId o.ohead o.reg.order with
              | some p => { o.reg with next := setNext (setNext o.reg.next p (some i)) i o.ohead }
              | none => o.reg),            -- NULL->addTest(...): not reachable from registrations alone
    onext := setNext o.onext i o.ohead,
    ohead := some i }

/-- `test->addOrderedTest(current->getNextOrderedTest()); current->addOrderedTest(test);`
    where `addOrderedTest(t)` is `UtestShell::addTest(t); _nextOrderedTest = t;` -/
def OReg.linkAfter (o : OReg) (cur i : Nat) : OReg :=
  { o with reg := { o.reg with next := setNext (setNext o.reg.next i (o.onext cur)) cur (some i) },
           onext := setNext (setNext o.onext i (o.onext cur)) cur (some i) }

/-- the loop of `addOrderedTestInOrderNotAtHeadPosition`; arguments: fuel, `current` -/
def OReg.insertLoop (o : OReg) (i : Nat) : Nat → Nat → OReg
  | 0, _ => o
  | f + 1, cur =>
    match o.onext cur with
    | some nx => if Gen.Registry.orderedStopBefore (o.level nx) (o.level i) then o.linkAfter cur i else o.insertLoop i f nx
    | none => o.linkAfter cur i

/-- the static shell instance exists and the installer has set its name, group, file, line, level -/
def OReg.created (o : OReg) (lvl : Int) (group name file : Bytes) (line : Nat) : OReg :=
  { o with reg := o.reg.newShell group name file line,
           level := fun k => if k = o.reg.objs.size then lvl else o.level k }

/-- the linking part of the installer, for the shell `i` just created:
    `if (firstOrderedTest()) addOrderedTestToHead(&test); else addOrderedTestInOrder(&test);` -/
def OReg.linkOrdered (o : OReg) (i : Nat) : OReg :=
  match o.ohead with
  | none => o.addOrderedTestToHead i
  | some h =>
    if Gen.Registry.orderedBeforeHead (o.level i) (o.level h) then o.addOrderedTestToHead i
    else o.insertLoop i o.reg.objs.size h

/-- `OrderedTestInstaller(test, group, name, file, line, level)` -/
def OReg.install (o : OReg) (lvl : Int) (group name file : Bytes) (line : Nat) : OReg :=
  (o.created lvl group name file line).linkOrdered o.reg.objs.size

/-- an ordinary `TestInstaller` (plain or ignored shell) -/
def OReg.addTest (o : OReg) (group name : Bytes) (ignored : Bool) (file : Bytes := []) (line : Nat := 0) : OReg :=
  { o with reg := o.reg.addTest group name ignored file line }

/-- the ordered shells in `_nextOrderedTest` order -/
def OReg.chain (o : OReg) : List Nat := walk o.onext o.reg.objs.size o.ohead

end Registry
