import CppUModel.Gen.FailableConstants
/-!
Model of `FailableMemoryAllocator` + `LocationToFailAllocNode`
(src/CppUTest/TestMemoryAllocator.cpp) and of the C-level out-of-memory countdown
(src/CppUTest/TestHarness_c.cpp), written from the C++ line by line.

* `Node` is one `LocationToFailAllocNode`; `id` is ghost (the sequence number of the
  designation = of the `allocMemoryLeakNode` call that created the node; the harness observes it
  by numbering those calls).
* `int` counters are `Nat` (no wrap: fewer than 2^31 allocations); designated numbers are `Int`
  (the API takes `int`, zero and negative numbers are legal arguments that never fire).
* The underlying `TestMemoryAllocator::alloc_memory` (real `malloc`) is assumed to succeed.
-/
namespace Failable

structure Node where
  id     : Nat              -- ghost
  number : Int              -- allocNumberToFail_
  actual : Nat              -- actualAllocNumber_
  file   : Option String    -- file_ (NULL = designation by global index); compared by content (StrCmp)
  line   : Nat              -- line_
deriving Repr, DecidableEq, Inhabited

structure State where
  nodes   : List Node       -- head_ first
  current : Nat             -- currentAllocNumber_
  nextId  : Nat             -- ghost: number of designations made so far
deriving Repr, DecidableEq, Inhabited

/-- the constructor -/
def init : State := { nodes := [], current := 0, nextId := 0 }

/-- `LocationToFailAllocNode::shouldFail`: the node after the call (its own counter may have
    been incremented) and the answer -/
def Node.visit (nd : Node) (cur : Nat) (file : String) (line : Nat) : Node × Bool :=
  match nd.file with
  | some f =>
    if file = f ∧ line = nd.line then
      ({ nd with actual := nd.actual + 1 }, decide (((nd.actual + 1 : Nat) : Int) = nd.number))
    else (nd, false)
  | none => (nd, decide ((cur : Int) = nd.number))

/-- the `while (current)` loop of `alloc_memory`: every node is visited; `.1` = the list that
    stays linked (order kept), `.2` = the nodes that fired (unlinked and freed, in list order) -/
def walk (cur : Nat) (file : String) (line : Nat) : List Node → List Node × List Node
  | [] => ([], [])
  | nd :: rest =>
    if (nd.visit cur file line).2 then
      ((walk cur file line rest).1, (nd.visit cur file line).1 :: (walk cur file line rest).2)
    else
      ((nd.visit cur file line).1 :: (walk cur file line rest).1, (walk cur file line rest).2)

/-- `failAllocNumber(number)` -/
def failAllocNumber (s : State) (n : Int) : State :=
  { s with nodes := { id := s.nextId, number := n, actual := 0, file := none, line := 0 } :: s.nodes,
           nextId := s.nextId + 1 }

/-- `failNthAllocAt(allocationNumber, file, line)` (file not NULL) -/
def failNthAllocAt (s : State) (n : Int) (file : String) (line : Nat) : State :=
  { s with nodes := { id := s.nextId, number := n, actual := 0, file := some file, line := line } :: s.nodes,
           nextId := s.nextId + 1 }

/-- state after `alloc_memory(size, file, line)` -/
def allocState (s : State) (file : String) (line : Nat) : State :=
  { s with nodes := (walk (s.current + 1) file line s.nodes).1, current := s.current + 1 }

/-- nodes fired (freed) by `alloc_memory(size, file, line)` -/
def allocFired (s : State) (file : String) (line : Nat) : List Node :=
  (walk (s.current + 1) file line s.nodes).2

/-- `alloc_memory` returns NULL -/
def allocFails (s : State) (file : String) (line : Nat) : Bool :=
  !(allocFired s file line).isEmpty

inductive CheckResult
  | ok
  | neverDoneAt (file : String) (line : Nat)    -- "Expected failing alloc at %s:%d was never done"
  | neverDoneNumber (n : Int)                   -- "Expected allocation number %d was never done"
deriving Repr, DecidableEq, Inhabited

/-- `checkAllFailedAllocsWereDone` (does not change the state) -/
def check (s : State) : CheckResult :=
  match s.nodes with
  | [] => .ok
  | nd :: _ =>
    match nd.file with
    | some f => .neverDoneAt f nd.line
    | none => .neverDoneNumber nd.number

/-- `clearFailedAllocs`: frees every node (head first), resets the global counter -/
def clear (s : State) : State := { s with nodes := [], current := 0 }
def clearFreed (s : State) : List Node := s.nodes

inductive Op
  | failNum (n : Int)
  | failAt (n : Int) (file : String) (line : Nat)
  | alloc (file : String) (line : Nat)
  | check
  | clear
deriving Repr, DecidableEq, Inhabited

def step (s : State) : Op → State
  | .failNum n => failAllocNumber s n
  | .failAt n f l => failNthAllocAt s n f l
  | .alloc f l => allocState s f l
  | .check => s
  | .clear => clear s

/-- a history (chronological) -/
def run (s : State) (h : List Op) : State := h.foldl step s

/-! ## C level: `cpputest_malloc_set_out_of_memory_countdown`, `countdown()`, `cpputest_malloc_location`,
`strdup/strndup/calloc` -/

/-- which allocator `getCurrentMallocAllocator()` yields: the default one (anything that really
    allocates), `NullUnknownAllocator`, or a `FailableMemoryAllocator` that the test installed with
    `setCurrentMallocAllocator` -/
inductive Alloc
  | normal
  | null
  | failable
deriving Repr, DecidableEq, Inhabited

structure CState where
  counter : Int            -- malloc_out_of_memory_counter
  count   : Nat            -- malloc_count
  cur     : Alloc          -- the current malloc allocator
  orig    : Option Alloc   -- originalAllocator (NULLPTR = none)
deriving Repr, DecidableEq, Inhabited

open Gen.Failable

def cinit : CState := { counter := noCountdown, count := 0, cur := .normal, orig := none }

/-- `cpputest_malloc_set_out_of_memory` -/
def setOutOfMemory (c : CState) : CState :=
  { c with orig := (match c.orig with | none => some c.cur | some o => some o), cur := .null }

/-- `cpputest_malloc_set_not_out_of_memory`: `setCurrentMallocAllocator(NULLPTR)` selects the default -/
def setNotOutOfMemory (c : CState) : CState :=
  { c with counter := noCountdown,
           cur := (match c.orig with | none => .normal | some o => o), orig := none }

/-- `cpputest_malloc_set_out_of_memory_countdown(count)` -/
def setCountdown (c : CState) (n : Int) : CState :=
  if n = outOfMemory then setOutOfMemory { c with counter := n } else { c with counter := n }

/-- `countdown()` -/
def countdown (c : CState) : CState :=
  if c.counter ≤ noCountdown then c
  else if c.counter = outOfMemory then c
  else if c.counter - 1 = outOfMemory then setOutOfMemory { c with counter := c.counter - 1 }
  else { c with counter := c.counter - 1 }

/-- state after `cpputest_malloc_location` -/
def mallocState (c : CState) : CState := { countdown c with count := (countdown c).count + 1 }

/-- `cpputest_malloc_location` returns NULL (the null allocator is current; the real allocator is
    assumed to succeed) -/
def mallocNull (c : CState) : Bool := decide ((countdown c).cur = .null)

/-- `cpputest_strdup_location`: content of the result (with terminator), `none` = NULL -/
def strdup (c : CState) (str : List UInt8) : CState × Option (List UInt8) :=
  (mallocState c, if mallocNull c then none else some (str ++ [0]))

/-- `cpputest_strndup_location` -/
def strndup (c : CState) (str : List UInt8) (n : Nat) : CState × Option (List UInt8) :=
  (mallocState c, if mallocNull c then none else some (str.take n ++ [0]))

/-- `cpputest_calloc_location` on 64-bit `size_t`: the overflow test comes before the malloc -/
def callocOverflows (num size : Nat) : Bool := decide (size ≠ 0 ∧ num > (2 ^ 64 - 1) / size)

def calloc (c : CState) (num size : Nat) : CState × Option (List UInt8) :=
  if callocOverflows num size then (c, none)
  else (mallocState c, if mallocNull c then none else some (List.replicate (num * size) 0))

/-! ### the C-level API on top of an installed `FailableMemoryAllocator`

`cpputest_malloc_location` asks `getCurrentMallocAllocator()` (through the leak detector, which hands size, file
and line to `alloc_memory` unchanged and returns NULL when the allocator does): the null allocator answers NULL
WITHOUT the failable allocator being called (its counters do not move); an installed failable allocator is
asked at `(file, line)`; the default allocator succeeds. -/

structure Both where
  c  : CState
  fa : State
deriving Repr, DecidableEq, Inhabited

structure MallocResult where
  st     : Both
  isNull : Bool
  fired  : List Node
deriving Repr, DecidableEq, Inhabited

def mallocOver (b : Both) (file : String) (line : Nat) : MallocResult :=
  match (mallocState b.c).cur with
  | .null => { st := { b with c := mallocState b.c }, isNull := true, fired := [] }
  | .failable => { st := { c := mallocState b.c, fa := allocState b.fa file line },
                   isNull := allocFails b.fa file line, fired := allocFired b.fa file line }
  | .normal => { st := { b with c := mallocState b.c }, isNull := false, fired := [] }

/-- `cpputest_strdup_location` / `cpputest_strndup_location` / `cpputest_calloc_location` over `mallocOver` -/
def strdupOver (b : Both) (str : List UInt8) (file : String) (line : Nat) : MallocResult × Option (List UInt8) :=
  (mallocOver b file line, if (mallocOver b file line).isNull then none else some (str ++ [0]))

def strndupOver (b : Both) (str : List UInt8) (n : Nat) (file : String) (line : Nat) : MallocResult × Option (List UInt8) :=
  (mallocOver b file line, if (mallocOver b file line).isNull then none else some (str.take n ++ [0]))

def callocOver (b : Both) (num size : Nat) (file : String) (line : Nat) : MallocResult × Option (List UInt8) :=
  if callocOverflows num size then ({ st := b, isNull := true, fired := [] }, none)
  else (mallocOver b file line, if (mallocOver b file line).isNull then none else some (List.replicate (num * size) 0))

inductive COp
  | setCountdown (n : Int)
  | setOOM
  | setNotOOM
  | malloc
  | strdup (str : List UInt8)
  | strndup (str : List UInt8) (n : Nat)
  | calloc (num size : Nat)
  | countReset
  | realloc (existing : Bool)     -- cpputest_realloc(ptr, n): ptr is a tracked block / NULL
  | free                          -- cpputest_free(ptr) of a tracked block
deriving Repr, DecidableEq, Inhabited

/-- What `cpputest_realloc` / `cpputest_free` do (they do NOT go through `countdown()` and do not
    touch `malloc_count`; they hand `getCurrentMallocAllocator()` to the leak detector):
    with the null allocator current, a tracked block is refused with the detector's
    "Allocation/deallocation type mismatch" failure (block allocated by malloc, released by
    "unknown"), and `realloc(NULL, n)` really allocates through the platform `realloc` and then
    dereferences the NULL bookkeeping node the null allocator returns (crash). -/
inductive ReleaseResult
  | ok
  | mismatch
  | crash
deriving Repr, DecidableEq, Inhabited

def reallocResult (c : CState) (existing : Bool) : ReleaseResult :=
  if c.cur = .null then (if existing then .mismatch else .crash) else .ok

def freeResult (c : CState) : ReleaseResult :=
  if c.cur = .null then .mismatch else .ok

def cstep (c : CState) : COp → CState
  | .setCountdown n => setCountdown c n
  | .setOOM => setOutOfMemory c
  | .setNotOOM => setNotOutOfMemory c
  | .malloc => mallocState c
  | .strdup s => (strdup c s).1
  | .strndup s n => (strndup c s n).1
  | .calloc a b => (calloc c a b).1
  | .countReset => { c with count := 0 }
  | .realloc _ => c
  | .free => c

/-! ## the `operator new` overloads in front of the allocator (src/CppUTest/MemoryLeakWarningPlugin.cpp)

`new`, `new[]`, their nothrow forms and the forms that carry file/line (the `new` macro) each call a function
pointer; `turnOnThreadSafeNewDeleteOverloads()` / `turnOnDefaultNotThreadSafeNewDeleteOverloads()` point them at the
`threadsafe_mem_leak_operator_new*` resp. `mem_leak_operator_new*` functions, which ask the current new / new[]
allocator and either hand its NULL to the caller or turn it into `std::bad_alloc`.  The three tables (form → pointer,
pointer → function per overload mode, function → throws on NULL) are regenerated (`Gen/FailableConstants.lean`). -/

/-- the `operator new` form an allocation family of the workload is compiled to (`none`: the malloc family and the direct
    call of `alloc_memory`, which hand NULL back): p = `new char`, q = `new char[n]`, t / u their nothrow forms,
    n / a = `operator new / new[] (size, file, line)`, W = `new char[n]` under the new macro -/
def familyForm : String → Option String
  | "p" => some "operator_new"
  | "t" => some "operator_new_nothrow"
  | "n" => some "operator_new_debug"
  | "q" => some "operator_new_array"
  | "u" => some "operator_new_array_nothrow"
  | "a" => some "operator_new_array_debug"
  | "W" => some "operator_new_array_debug"
  | _ => none

def newForms : List String :=
  ["operator_new", "operator_new_nothrow", "operator_new_debug", "operator_new_array", "operator_new_array_nothrow",
   "operator_new_array_debug"]

def lookupS {α : Type} (k : String) (t : List (String × α)) : Option α := (t.find? (fun e => e.1 == k)).map (·.2)

/-- the function behind an `operator new` form while the thread-safe (`ts = true`) resp. the default overloads are on -/
def installedNew (ts : Bool) (form : String) : Option String :=
  match lookupS form operatorFptr with
  | none => none
  | some fp => lookupS fp (if ts then threadSafeOverloads else plainOverloads)

/-- does the form turn a refused allocation into `std::bad_alloc` in that overload mode (by the regenerated tables) -/
def formThrows (ts : Bool) (form : String) : Bool :=
  match installedNew ts form with
  | none => false
  | some fn => (lookupS fn newThrowsOnNull).getD false

/-- what C++ promises for the form: the throwing forms throw, the nothrow forms return NULL -/
def formThrowsSpec : String → Bool
  | "operator_new" => true
  | "operator_new_debug" => true
  | "operator_new_array" => true
  | "operator_new_array_debug" => true
  | _ => false

inductive Outcome
  | ok
  | null
  | throws
deriving Repr, DecidableEq, Inhabited

/-- what the caller of an allocation of family `fam` sees when the allocator's answer is `fails` -/
def outcome (ts : Bool) (fam : String) (fails : Bool) : Outcome :=
  match fails, familyForm fam with
  | false, _ => .ok
  | true, none => .null
  | true, some form => if formThrows ts form then .throws else .null

/-- the way a designated allocation of the family has to fail (property: NULL, or `bad_alloc` for the throwing forms) -/
def failureKind (fam : String) : Outcome :=
  match familyForm fam with
  | none => .null
  | some form => if formThrowsSpec form then .throws else .null

end Failable
