import CppUModel.Model.LeakDetector
import CppUModel.Gen.LeakPluginCode
/-!
The detector-side effect of `MemoryLeakWarningPlugin::preTestAction` / `postTestAction` on the table model of the
detector (C04): the statement lists are the ones C07's translator regenerates from the source
(`Gen/LeakPluginCode.lean`, imported, not edited); only the steps that call into the detector change its state
(`startChecking`, `stopChecking`, `markCheckingPeriodLeaksAsNonCheckingPeriod`); counting, the verdict (which at most
calls `report`) and the plugin's own flags do not.
-/
namespace LeakDetector

def pluginDetStep (s : State) : LeakPlugin.PStep → State
  | .startChecking => startChecking s
  | .stopChecking => stopChecking s
  | .demote => markChecking s
  | _ => s

/-- `preTestAction` -/
def pluginPre (s : State) : State := Gen.LeakCode.preSteps.foldl pluginDetStep s
/-- `postTestAction` -/
def pluginPost (s : State) : State := Gen.LeakCode.postSteps.foldl pluginDetStep s
/-- the plugin's constructor: `memLeakDetector_->enable()` -/
def pluginCreate (s : State) : State := enable s

/-- the periods of C07's syntax are the detector's -/
def ofPluginPeriod : LeakPlugin.Period → Gen.LeakDetector.Period
  | .all => .all
  | .disabled => .disabled
  | .enabled => .enabled
  | .checking => .checking

/-- `FinalReport(toBeDeletedLeaks)`: `none` for the empty string, else the period whose report is returned —
    counted period and reported period as regenerated from the source -/
def pluginFinal (s : State) (toBeDeleted : Nat) : Option Gen.LeakDetector.Period :=
  if totalMemoryLeaks s (ofPluginPeriod Gen.LeakCode.finalCountPeriod) != toBeDeleted
  then some (ofPluginPeriod Gen.LeakCode.finalReportPeriod) else none

end LeakDetector
