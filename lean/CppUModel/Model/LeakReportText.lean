import CppUModel.Model.LeakDetector
import CppUModel.Model.Diagnostics
import CppUModel.Gen.DiagnosticsBuffer
/-!
The text of `MemoryLeakDetector::report(period)` as a function of the table: the records the
`getFirstLeak/getNextLeak` walk visits (detector model, C04) rendered by the report-buffer model of C14
(`Diag.OutBuf.report`: header, one entry with memory dump per leak, truncation at the lowered write limit,
footer with the total, malloc note).  `base` is the real address that the printed address 0 stands for;
`%p` is glibc's rendering (`0x` + lower-case hex).
-/
namespace LeakDetector

/-- glibc's `%p` of a non-NULL pointer -/
def ptrText (base addr : Nat) : Diag.Bytes := [48, 120] ++ Fmt.hexLower (base + addr)

/-- what `reportMemoryLeak(leak)` reads from a record (and from the block it describes) -/
def Node.toLeak (base : Nat) (n : Node) : Diag.Leak :=
  { number := n.number, size := n.size, file := Fmt.ofString n.file, line := n.line,
    allocName := Fmt.ofString n.allocator.allocName, ptr := ptrText base n.addr, content := n.user }

/-- the text `report(period)` returns when the detector's text buffer was empty before -/
def reportTextOf (s : State) (p : Gen.LeakDetector.Period) (base : Nat) : Diag.Bytes :=
  (Diag.OutBuf.init.report ((reportedLeaks s p).map (Node.toLeak base))).buf.text

/-- one entry: the formatted line and the memory dump of the block's user bytes -/
def fastEntry (l : Diag.Leak) : Diag.Bytes := Diag.leakText l ++ (Diag.dumpPieces l.content.length 0 l.content).flatten

/-- The same text in closed form (what the buffer fold computes, proved equal in `Props/C04x.lean` through C14's
    `report_total_true_when_cleared`): the drivers use it because it is linear in the size of the listing. -/
def fastReportText (leaks : List Diag.Leak) : Diag.Bytes :=
  if leaks = [] then Fmt.render Gen.Diag.noLeaksFmt []
  else
    (Diag.headerText ++ leaks.flatMap fastEntry).take (Gen.Diag.bufferLen - Gen.Diag.footerSizeWithMallocWarning)
    ++ (if Gen.Diag.bufferLen - Gen.Diag.footerSizeWithMallocWarning ≤ (Diag.headerText ++ leaks.flatMap fastEntry).length
        then Diag.tooMuchText else [])
    ++ Diag.footerLine leaks.length
    ++ (if leaks.any (fun l => l.allocName == Gen.Diag.mallocName) then Diag.mallocWarningText else [])

/-- the report text in closed form, from the table -/
def fastReportTextOf (s : State) (p : Gen.LeakDetector.Period) (base : Nat) : Diag.Bytes :=
  fastReportText ((reportedLeaks s p).map (Node.toLeak base))

/-! ### reports asked for again: the report builder's counters as state

`report()` does not empty the detector's text buffer (only `startChecking()` does), so a second `report()` /
`FinalReport()` appends to the text of the first and starts from the counters (`total_leaks_`,
`giveWarningOnUsingMalloc_`) the first one left — unless the function that begins a report resets them.  WHICH function
holds the two resets is read from the regenerated statement lists of `startMemoryLeakReporting` and
`MemoryLeakOutputStringBuffer::clear` (`Gen.DiagBuf`, regenerated from the source on every run). -/

open Gen.DiagBuf in
/-- the counter resets among the statements of a regenerated body, applied -/
def applyResets (body : List Gen.DiagBuf.Stmt) (o : Diag.OutBuf) : Diag.OutBuf :=
  { o with total := if body.contains (Stmt.simple (Simple.setTotal 0)) then 0 else o.total,
           mallocWarn := if body.contains (Stmt.simple (Simple.setMallocWarn false)) then false else o.mallocWarn }

/-- `startMemoryLeakReporting`: the write limit is lowered, the counters are reset if the body says so -/
def outStart (o : Diag.OutBuf) : Diag.OutBuf :=
  applyResets Gen.DiagBuf.startMemoryLeakReporting { o with buf := o.buf.setWriteLimit Diag.listLimitArg }

/-- `MemoryLeakOutputStringBuffer::clear` (what `startChecking()` does to the text) -/
def outClear (o : Diag.OutBuf) : Diag.OutBuf := applyResets Gen.DiagBuf.obClear o.clear

/-- the state in which `stopMemoryLeakReporting` finds the builder: after the start and one `reportMemoryLeak` per leak -/
def outBeforeStop (o : Diag.OutBuf) (leaks : List Diag.Leak) : Diag.OutBuf := leaks.foldl Diag.OutBuf.reportLeak (outStart o)

/-- `ConstructMemoryLeakReport` on the builder as the earlier calls left it -/
def outReport (o : Diag.OutBuf) (leaks : List Diag.Leak) : Diag.OutBuf := (outBeforeStop o leaks).stop

/-- a sequence of reports on one detector without a `startChecking()` in between: the builder after each -/
def outReports (o : Diag.OutBuf) : List (List Diag.Leak) → List Diag.OutBuf
  | [] => []
  | l :: rest => outReport o l :: outReports (outReport o l) rest

/-- the totals the footers of those reports state (`stopMemoryLeakReporting` prints `total_leaks_` as it finds it) -/
def statedTotals (o : Diag.OutBuf) : List (List Diag.Leak) → List Nat
  | [] => []
  | l :: rest => (outBeforeStop o l).total :: statedTotals (outReport o l) rest

/-- the text one more report appends to the detector's text -/
def appendedText (o : Diag.OutBuf) (leaks : List Diag.Leak) : Diag.Bytes :=
  (outReport o leaks).buf.text.drop o.buf.text.length

/-- FNV-1a (64 bit), used to compare long texts between harness and model -/
def fnv1a (bs : List UInt8) : UInt64 :=
  bs.foldl (fun h b => (h ^^^ b.toUInt64) * 0x100000001b3) 0xcbf29ce484222325

end LeakDetector
