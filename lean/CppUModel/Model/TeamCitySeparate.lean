import CppUModel.Model.TeamCity
import CppUModel.Model.SeparateProcess
/-!
# The TeamCity stream of a test run in a separate process (`-p`)  (C20; wait loop: C11's model, imported read-only)

With `-p` the runner forks for every test (`GccPlatformSpecificRunTestInASeperateProcess`, src/Platforms/Gcc/UtestPlatform.cpp).
Parent and child own a copy of the same `TeamCityTestOutput` (`currtest_` already set by `printCurrentTestStarted`) and write
to the same stdout:

* the parent has written `testStarted`; while it waits it reports what `waitpid` tells it as failures of the test
  (`SetTestFailureByStatusCode`: "Stopped in separate process - continuing", "Failed in separate process", …; the list is
  `SepProc.parentLoop`'s, C11's model of the `do … while` loop); when it leaves the loop it writes `testFinished`;
* the child runs the test body (`runOneTestInCurrentProcess`): its events are `OutEv.testInner`, written whenever it gets to
  them while it is alive.

What arrives on the pipe between `testStarted` and `testFinished` is therefore SOME interleaving of the child's events and the
parent's failures; child events that are written after the parent has left the wait loop arrive after `testFinished`
(`late`).  The parent leaving the loop only when the child is gone (`LoopEnd.childGone`: the last status was exited or
signaled, so the child writes nothing any more) is exactly what makes `late` empty.
-/
namespace TeamCity
open Text (Bytes)
open OutEv

/-- `c` is an interleaving of `a` and `b`, each in its own order (two processes writing whole messages to one pipe:
    every `printBuffer` is flushed at once, a service message is written by one callback) -/
inductive Interleave {α : Type} : List α → List α → List α → Prop
  | nil : Interleave [] [] []
  | left (x : α) {a b c : List α} : Interleave a b c → Interleave (x :: a) b (x :: c)
  | right (y : α) {a b c : List α} : Interleave a b c → Interleave a (y :: b) (y :: c)

/-- the failures the parent reports while it waits: `result->addFailure(TestFailure(shell, text))` for every entry of the
    wait loop's result (C11's model) -/
def parentEvs (t : TestInfo) (r : SepProc.LoopResult) : List Ev :=
  r.failures.map fun f => Ev.failure (msgFailure t (lit f.text))

/-- what one running test sends to the stream with `-p`: `mid` arrives while the parent waits, `late` are events of the child
    that arrive after the parent has written `testFinished` -/
def sepTestEvs (t : TestInfo) (mid : List Ev) (ms checks : Nat) (late : List Ev) : List Ev :=
  Ev.testStarted t :: (mid ++ Ev.testEnded ms checks :: late)

/-- the registry loop of a whole `-p` run as the stream sees it: as `OutEv.loop`, except that what a selected test sends is
    `blk t r` — for a running test a `sepTestEvs` block whose middle part the scheduler chose -/
def sepLoop (blk : Script → R → List Ev) (flt : Option Filter) : Bool → Nat → R → List Script → List Ev
  | _, _, r, [] => [.testsEnded r.summary]
  | gs, g0, r, t :: rest =>
    startEvs gs t ++ (if shouldRun flt t.info then blk t (countTest r) else []) ++
      endEvs t rest (if gs then r.clock else g0) (bodyR flt t r) ++
      sepLoop blk flt (endOfGroup t rest) (if gs then r.clock else g0) (bodyR flt t r) rest

def sepRunAll (blk : Script → R → List Ev) (flt : Option Filter) (tests : List Script) : List Ev :=
  .testsStarted :: sepLoop blk flt true 0 {} tests

/-- a block chooser for a `-p` run in which the parent always waits until the child is gone: running tests send a
    `sepTestEvs` block with nothing late, whose middle part is an interleaving of the child's events and the parent's
    wait-loop failures for some wait results; ignored tests are not forked -/
structure WaitingRun where
  blk  : Script → R → List Ev
  outs : Script → R → List SepProc.WaitOutcome
  mid  : Script → R → List Ev
  ms   : Script → R → Nat
  chk  : Script → R → Nat
  inter : ∀ t r, Interleave (testInner t.info t.acts) (parentEvs t.info (SepProc.parentLoop 0 (outs t r))) (mid t r)
  run  : ∀ t r, t.info.willRun = true → blk t r = sepTestEvs t.info (mid t r) (ms t r) (chk t r) []
  ign  : ∀ t r, t.info.willRun = false → blk t r = testEvs t r

end TeamCity
