import CppUModel.Gen.CacheConstants
/-!
Model of `SimpleStringInternalCache` (src/CppUTest/SimpleStringInternalCache.cpp), written from
the C++ line by line.  Underlying allocations are identified by ids handed in by the
environment (the harness numbers the blocks the real `TestMemoryAllocator` returns).
A `Block` is one `SimpleStringMemoryBlock`: `node` is the id of the list node allocation,
`mem` the id of the buffer; `msize` is ghost (the size the buffer was requested with).
-/
namespace Cache

structure Block where
  node  : Nat
  mem   : Nat
  msize : Nat
deriving Repr, DecidableEq, Inhabited

structure Class where
  size : Nat
  free : List Block
  used : List Block
deriving Repr, DecidableEq, Inhabited

structure State where
  table    : Option Nat          -- id of the array of cache nodes (constructor .. destructor)
  classes  : List Class
  uncached : List Block
  warned   : Bool
deriving Repr, DecidableEq, Inhabited

inductive Ev
  | ualloc (size id : Nat)       -- allocator_->alloc_memory(size) returned block `id`
  | ufree  (id size : Nat)       -- allocator_->free_memory(id, size)
  | ret    (id : Nat)            -- value returned by alloc()
  | warn                         -- the one-time warning was printed
deriving Repr, DecidableEq, Inhabited

def Ev.render : Ev → String
  | .ualloc s i => s!"ualloc {s} {i}"
  | .ufree i s  => s!"ufree {i} {s}"
  | .ret i      => s!"ret {i}"
  | .warn       => "warn"

open Gen.Cache

/-- constructor: `createInternalCacheNodes` -/
def create (tableId : Nat) : State × List Ev :=
  ({ table := some tableId,
     classes := classSizes.map (fun sz => { size := sz, free := [], used := [] }),
     uncached := [], warned := false },
   [.ualloc (nodeStructBytes * amountOfNodes) tableId])

def isCached (size : Nat) : Bool := size ≤ cachedLimit

/-- `getIndexForCache`: first class whose size fits, `return 0` when the loop runs out -/
def indexFor (cs : List Class) (size : Nat) : Nat :=
  match cs.findIdx? (fun c => decide (size ≤ c.size)) with
  | some i => i
  | none => 0

/-- events of `createSimpleStringMemoryBlock`: node first, then the buffer -/
def createEvs (size nodeId memId : Nat) : List Ev :=
  [.ualloc blockStructBytes nodeId, .ualloc size memId]

/-- `destroySimpleStringMemoryBlock` -/
def destroyBlock (b : Block) (size : Nat) : List Ev :=
  [.ufree b.mem size, .ufree b.node blockStructBytes]

def destroyList (bs : List Block) (size : Nat) : List Ev :=
  bs.flatMap (fun b => destroyBlock b size)

/-- cached branch of `alloc`, class `c` at index `i` -/
def allocCached (s : State) (i : Nat) (c : Class) (nodeId memId : Nat) : State × List Ev :=
  match c.free with
  | b :: rest =>                  -- reserveCachedBlockFrom
    ({ s with classes := s.classes.set i { c with free := rest, used := b :: c.used } },
     [.ret b.mem])
  | [] =>                         -- allocateNewCacheBlockFrom
    ({ s with classes := s.classes.set i { c with used := (Block.mk nodeId memId c.size) :: c.used } },
     createEvs c.size nodeId memId ++ [.ret memId])

/-- `alloc(size)`; `nodeId memId` are the next two ids the underlying allocator would return -/
def alloc (s : State) (size nodeId memId : Nat) : State × List Ev :=
  if isCached size then
    match s.classes[indexFor s.classes size]? with
    | none => (s, [])                 -- unreachable for a constructed cache (5 classes)
    | some c => allocCached s (indexFor s.classes size) c nodeId memId
  else
    ({ s with uncached := (Block.mk nodeId memId size) :: s.uncached },
     createEvs size nodeId memId ++ [.ret memId])

/-- the interior scan of `releaseCachedBlockFrom` / `releaseNonCachedMemory`:
    looks at `block->next_` of every node -/
def scanRemove : List Block → Nat → Option (Block × List Block)
  | [], _ => none
  | [_], _ => none
  | b :: n :: rest, m =>
    if n.mem = m then some (n, b :: rest)
    else match scanRemove (n :: rest) m with
      | some (x, l) => some (x, b :: l)
      | none => none

/-- head test followed by the interior scan -/
def unlink (l : List Block) (m : Nat) : Option (Block × List Block) :=
  match l with
  | [] => none
  | b :: rest => if b.mem = m then some (b, rest) else scanRemove (b :: rest) m

def warnOnce (s : State) : State × List Ev :=
  if s.warned then (s, []) else ({ s with warned := true }, [.warn])

def deallocCached (s : State) (i : Nat) (c : Class) (m : Nat) : State × List Ev :=
  match unlink c.used m with
  | some (b, used') =>
    ({ s with classes := s.classes.set i { c with used := used', free := b :: c.free } }, [])
  | none => warnOnce s

def deallocUncached (s : State) (m size : Nat) : State × List Ev :=
  match unlink s.uncached m with
  | some (b, rest) => ({ s with uncached := rest }, destroyBlock b size)
  | none => warnOnce s

/-- `dealloc(memory, size)` -/
def dealloc (s : State) (m size : Nat) : State × List Ev :=
  if isCached size then
    match s.classes[indexFor s.classes size]? with
    | none => (s, [])
    | some c => deallocCached s (indexFor s.classes size) c m
  else deallocUncached s m size

/-- `clearCache()` -/
def clearCache (s : State) : State × List Ev :=
  ({ s with classes := s.classes.map (fun c => { c with free := [] }) },
   s.classes.flatMap (fun c => destroyList c.free c.size))

/-- `clearAllIncludingCurrentlyUsedMemory()` -/
def clearAll (s : State) : State × List Ev :=
  ({ s with classes := s.classes.map (fun c => { c with free := [], used := [] }), uncached := [] },
   s.classes.flatMap (fun c => destroyList c.free c.size ++ destroyList c.used c.size)
     ++ destroyList s.uncached 0)

/-- destructor (`destroyInternalCacheNode`); the C++ destructor does not clear first -/
def destroy (s : State) : State × List Ev :=
  match s.table with
  | some t => ({ s with table := none }, [.ufree t (nodeStructBytes * amountOfNodes)])
  | none => (s, [])

/-- `~GlobalSimpleStringCache()`: the string allocator is switched back, the cache is cleared with the
    function the destructor calls (regenerated: `Gen.Cache.globalDtorClearsAll`), then the member
    cache is destroyed (its node table returned).  `GlobalSimpleStringCache`'s constructor is `create`
    followed by `setAllocator`; `SimpleStringCacheAllocator::alloc_memory/free_memory` are `alloc` /
    `dealloc` (shape-checked by the extractor). -/
def globalDestroy (s : State) : State × List Ev :=
  let r1 := if Gen.Cache.globalDtorClearsAll then clearAll s else clearCache s
  let r2 := destroy r1.1
  (r2.1, r1.2 ++ r2.2)

/-! ### the global cache object and its allocator adaptor

`GlobalSimpleStringCache()` saves SimpleString's current allocator as the adaptor's `originalAllocator_`,
makes it the cache's underlying allocator (`SimpleStringCacheAllocator` constructor: `cache_.setAllocator`)
and installs the adaptor as SimpleString's allocator.  The destructor re-installs the SAVED allocator
whatever the current one is, and the cache keeps returning blocks to the allocator it was given. -/

inductive AllocRef
  | orig      -- the allocator that was current when the global cache was constructed
  | cache     -- the global cache's SimpleStringCacheAllocator
  | other     -- any allocator installed later by somebody else
deriving Repr, DecidableEq, Inhabited

def AllocRef.render : AllocRef → String
  | .orig => "orig" | .cache => "cache" | .other => "other"

structure GState where
  cache      : State
  strAlloc   : AllocRef      -- SimpleString::getStringAllocator()
  saved      : AllocRef      -- SimpleStringCacheAllocator::originalAllocator_
  underlying : AllocRef      -- SimpleStringInternalCache::allocator_
deriving Repr, DecidableEq, Inhabited

def gcreate (current : AllocRef) (tableId : Nat) : GState :=
  { cache := (create tableId).1, strAlloc := .cache, saved := current, underlying := current }

/-- somebody installs another string allocator while the global cache exists -/
def gswap (g : GState) (a : AllocRef) : GState := { g with strAlloc := a }

/-- `~GlobalSimpleStringCache()`: restore, clear, delete the adaptor (cache_.setAllocator(NULL)), then the
    member cache's own destructor. Returns SimpleString's allocator afterwards, the cache state, the events. -/
def gdestroy (g : GState) : AllocRef × State × List Ev :=
  (g.saved, (globalDestroy g.cache).1, (globalDestroy g.cache).2)

/-- `SimpleStringCacheAllocator::name()`, `alloc_name()`, `free_name()` given the names of the saved allocator -/
def adaptorNames (origAllocName origFreeName : String) : List String :=
  [Gen.Cache.adaptorName, origAllocName, origFreeName]

/-- buffer size a `SimpleString` of `len` characters asks its allocator for (`StrLen + 1`) -/
def stringBufferSize (len : Nat) : Nat := len + 1

/-- `SimpleString::operator+=(const char*)`: the new buffer is obtained BEFORE the old one is released,
    so the old buffer is never the one that is reused -/
def stringAppend (s : State) (oldMem len k nodeId memId : Nat) : State × List Ev :=
  let r1 := alloc s (stringBufferSize (len + k)) nodeId memId
  let r2 := dealloc r1.1 oldMem (stringBufferSize len)
  (r2.1, r1.2 ++ r2.2)

/-- `hasFreeBlocksOfSize(size)` -/
def hasFree (s : State) (size : Nat) : Bool :=
  match s.classes[indexFor s.classes size]? with
  | some c => !c.free.isEmpty
  | none => false

inductive Op
  | alloc (size nodeId memId : Nat)
  | dealloc (mem size : Nat)
  | clearCache
  | clearAll
deriving Repr, DecidableEq, Inhabited

def step (s : State) : Op → State × List Ev
  | .alloc sz n m => alloc s sz n m
  | .dealloc m sz => dealloc s m sz
  | .clearCache => clearCache s
  | .clearAll => clearAll s

end Cache
