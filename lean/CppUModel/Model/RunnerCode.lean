import CppUModel.Model.Runner
import CppUModel.Gen.RunnerCode
/-!
Interpreters for the CODE of the runner that `translate/extract_runner_code.py` regenerates from the
source on every run (`Gen/RunnerCode.lean`):

* `utestRunGen`: executes the try blocks, statements and catch clauses of `Utest::run` (both build
  variants) as they stand in `Utest.cpp`; a C++ exception that leaves a `PlatformSpecificSetJmp`
  call is handed to the FIRST catch clause of the enclosing try block whose pattern matches it
  (C++ handler selection), and the statements of that clause are executed one by one — so a catch
  clause that no longer calls `PlatformSpecificRestoreJumpBuffer`, a reordered phase, a dropped
  `if (jumpResult)` guard … changes what this function computes;
* `runOneTestInCurrentProcessGen`: executes the statement list of
  `UtestShell::runOneTestInCurrentProcess`;
* `failureToksGen`: the strings `TestOutput::printFailure` prints, from the regenerated print
  sequences of the functions it calls, in both working-environment formats.

`Props/C01.lean` proves each of them EQUAL to the hand-written model of `Model/Runner.lean`, so every
theorem about the hand-written model is a theorem about what the source says at check time.
-/
namespace Runner
open Gen.Runner (RunOp RunStmt CatchPat CatchOp CatchClause TryBlock OneOp PItem FPart)

def phaseOfNat : Nat → Phase
  | 0 => .setup
  | 1 => .body
  | _ => .teardown

/-! ## Utest::run -/

/-- interpreter state: the test state, what was printed, the local `jumpResult` -/
structure ISt where
  st   : TSt
  evs  : List Ev
  jump : Bool
deriving Repr, DecidableEq, Inhabited

/-- how the statements of a block ended: normally, or with a C++ exception on its way out -/
structure BodyOut where
  s   : ISt
  esc : Option ExcKind
deriving Repr, DecidableEq, Inhabited

/-- the statements of a (try) block, in order.  A guarded statement sits inside `if (jumpResult)`. -/
def execStmts (cfg : Cfg) (t : Test) : List RunStmt → ISt → Except Stop BodyOut
  | [], s => .ok ⟨s, none⟩
  | ⟨g, .vv str⟩ :: rest, s =>
    if g && !s.jump then execStmts cfg t rest s
    else execStmts cfg t rest { s with evs := s.evs ++ vv cfg str }
  | ⟨g, .setJmp ph assign⟩ :: rest, s =>
    if g && !s.jump then execStmts cfg t rest s
    else
      match setJmp s.st (phaseFn cfg t (phaseOfNat ph)) with
      | .error f => .error f
      | .ok j =>
        match j.esc with
        | some k => .ok ⟨⟨j.st, s.evs ++ j.evs, s.jump⟩, some k⟩
        | none => execStmts cfg t rest ⟨j.st, s.evs ++ j.evs, if assign then j.ret else s.jump⟩

/-- does `catch (<pattern>)` handle an exception of this kind? -/
def patMatches : CatchPat → ExcKind → Bool
  | .failed, .failed => true
  | .std, .std => true
  | .any, _ => true
  | _, _ => false

/-- C++ handler selection: the first clause that matches -/
def findCatch : List CatchClause → ExcKind → Option CatchClause
  | [], _ => none
  | c :: rest, k => if patMatches c.pat k then some c else findCatch rest k

/-- the statements of a catch clause handling an exception of kind `k` -/
def execCatch (cfg : Cfg) (t : Test) (k : ExcKind) : List CatchOp → Acc → Except Stop Acc
  | [], a => .ok a
  | .addFailure withWhat :: rest, a =>
    execCatch cfg t k rest
      ⟨shellAddFailure a.st,
       a.evs ++ [.failure (mkRecAtTest cfg t (if withWhat then cfg.stdExcMsg else cfg.otherExcMsg))]⟩
  | .restore :: rest, a => execCatch cfg t k rest ⟨restoreJumpBuffer a.st, a.evs⟩
  | .rethrowIfMode :: rest, a =>
    if cfg.rethrow then .error (.propagated ⟨k, a.evs, a.st.depth, a.st.current⟩)
    else execCatch cfg t k rest a
  | .rethrow :: _, a => .error (.propagated ⟨k, a.evs, a.st.depth, a.st.current⟩)

/-- one try block with its handlers (no handlers: the statements are not inside a try block, an
    exception has nowhere to go) -/
def execBlock (cfg : Cfg) (t : Test) (b : TryBlock) (s : ISt) : Except Stop ISt :=
  match execStmts cfg t b.body s with
  | .error f => .error f
  | .ok o =>
    match o.esc with
    | none => .ok o.s
    | some k =>
      match findCatch b.catches k with
      | none => .error (.fault .uncaught)
      | some c =>
        match execCatch cfg t k c.ops ⟨o.s.st, o.s.evs⟩ with
        | .error f => .error f
        | .ok a => .ok ⟨a.st, a.evs, o.s.jump⟩

def execBlocks (cfg : Cfg) (t : Test) : List TryBlock → ISt → Except Stop ISt
  | [], s => .ok s
  | b :: rest, s =>
    match execBlock cfg t b s with
    | .error f => .error f
    | .ok s' => execBlocks cfg t rest s'

/-- the variant of `Utest::run` the build selects -/
def utestRunCode (cfg : Cfg) : List TryBlock :=
  if cfg.exceptions then Gen.Runner.utestRunExcCode else Gen.Runner.utestRunNoExcCode

/-- forget the local `jumpResult` -/
def accOf : Except Stop ISt → Except Stop Acc
  | .error f => .error f
  | .ok s => .ok ⟨s.st, s.evs⟩

/-- `Utest::run` as the source has it at check time (`int jumpResult = 0;` first) -/
def utestRunGen (cfg : Cfg) (t : Test) (st : TSt) : Except Stop Acc :=
  accOf (execBlocks cfg t (utestRunCode cfg) ⟨st, [], false⟩)

/-! ## UtestShell::runOneTestInCurrentProcess -/

structure OSt where
  st    : TSt
  evs   : List Ev
  saved : Option String          -- the local `savedTest`
deriving Repr, DecidableEq, Inhabited

/-- one statement.  The `TestResult` pointer and the `Utest` object have no counterpart in the model
    state (`saveResult`, `setResult`, `restoreResult`, `declTest`, `createTest`, `destroyTest` only keep
    their place in the order); `rethrow` is meaningful in the handler only. -/
def execOneOp (cfg : Cfg) (plugins : List Plugin) (t : Test) (s : OSt) : OneOp → Except Stop OSt
  | .vv str => .ok { s with evs := s.evs ++ vv cfg str }
  | .preActions => .ok { s with st := (runAllPre cfg t plugins s.st).st, evs := s.evs ++ (runAllPre cfg t plugins s.st).evs }
  | .postActions => .ok { s with st := (runAllPost cfg t plugins s.st).st, evs := s.evs ++ (runAllPost cfg t plugins s.st).evs }
  | .saveCurrent => .ok { s with saved := s.st.current }
  | .setCurrent => .ok { s with st := { s.st with current := some t.name } }
  | .restoreCurrent => .ok { s with st := { s.st with current := s.saved } }
  | .runTest =>
    match utestRunGen cfg t s.st with
    | .error f => .error (f.prepend s.evs)
    | .ok a => .ok { s with st := a.st, evs := s.evs ++ a.evs }
  | _ => .ok s

def execOneOps (cfg : Cfg) (plugins : List Plugin) (t : Test) : List OneOp → OSt → Except Stop OSt
  | [], s => .ok s
  | op :: rest, s =>
    match execOneOp cfg plugins t s op with
    | .error f => .error f
    | .ok s' => execOneOps cfg plugins t rest s'

/-- the handler `catch (...) { destroyTest(testToRun); throw; }` passes the exception on exactly when
    its last statement is `throw;` (nothing in it touches the modelled state) -/
def handlerRethrows (h : List OneOp) : Bool := h.getLast? == some .rethrow

/-- `UtestShell::runOneTestInCurrentProcess` as the source has it at check time -/
def runOneTestInCurrentProcessGen (cfg : Cfg) (plugins : List Plugin) (t : Test) (st : TSt) : Except Stop Frame :=
  match execOneOps cfg plugins t Gen.Runner.oneTestBefore ⟨st, [], none⟩ with
  | .error f => .error f
  | .ok s1 =>
    match execOneOps cfg plugins t Gen.Runner.oneTestTry s1 with
    | .error f => if handlerRethrows Gen.Runner.oneTestCatchAll then .error f else .error (.fault .uncaught)
    | .ok s2 =>
      match execOneOps cfg plugins t Gen.Runner.oneTestAfter s2 with
      | .error f => .error f
      | .ok s3 => .ok ⟨s3.st, s3.evs, .normal⟩

/-- `UtestShell::runOneTest` (in-process) around the regenerated `runOneTestInCurrentProcess` -/
def runOneTestGen (cfg : Cfg) (plugins : List Plugin) (t : Test) (st : TSt) : Except Stop JmpOut :=
  setJmp { st with hasFailed := false, res := st.res.countRun } (runOneTestInCurrentProcessGen cfg plugins t)

/-! ## TestOutput::printFailure -/

/-- a sequence of `print` calls with the arguments filled in -/
def renderItems (file : String) (line : Nat) (name msg : String) : List PItem → List String
  | [] => []
  | .lit s :: rest => s :: renderItems file line name msg rest
  | .file :: rest => file :: renderItems file line name msg rest
  | .line :: rest => toString line :: renderItems file line name msg rest
  | .name :: rest => name :: renderItems file line name msg rest
  | .msg :: rest => msg :: renderItems file line name msg rest

/-- `printErrorInFileOnLineFormattedForWorkingEnvironment` -/
def locItems (vs : Bool) : List PItem :=
  if Gen.Runner.usesVisualStudioForm vs then Gen.Runner.visualStudioLoc else Gen.Runner.eclipseLoc

def renderPart (vs : Bool) (r : FailRec) : FPart → List String
  | .testLoc => renderItems r.testFile r.testLine "" "" (locItems vs)
  | .failLoc => renderItems r.file r.line "" "" (locItems vs)
  | .inTest => renderItems "" 0 r.testName "" Gen.Runner.failureInTest

/-- `TestOutput::printFailure(failure)` as the list of strings given to `print`; `vs`: the working
    environment is visualStudio -/
def failureToksGen (vs : Bool) (r : FailRec) : List String :=
  ((if Gen.Runner.twoLocationLayout (Gen.Runner.isOutsideTestFile r.testFile r.file)
        (Gen.Runner.isInHelperFunction r.testLine r.line)
    then Gen.Runner.twoLocationParts else Gen.Runner.oneLocationParts).flatMap (renderPart vs r))
  ++ renderItems "" 0 "" r.msg Gen.Runner.failureMessage

/-- `TestOutput::getWorkingEnvironment()` is visualStudio?  `set`: what `setWorkingEnvironment` stored
    (`none` = detectEnvironment: the platform's answer) -/
def envIsVisualStudio (set : Option Bool) : Bool := set.getD Gen.Runner.detectedIsVisualStudio

/-! ## ConsoleTestOutput::printBuffer on a buffered stdio stream -/

/-- a stdio stream: what has reached the file descriptor, and what still sits in the buffer
    (the buffer is unbounded here: a full buffer that spills earlier only makes more visible) -/
structure Stream where
  visible : List String := []
  pending : List String := []
deriving Repr, DecidableEq, Inhabited

/-- what a reader of the file descriptor sees when the process ends with `_exit()` (as the child of
    `-p` does) or is killed: unflushed stdio data is discarded -/
def Stream.afterExit (s : Stream) : List String := s.visible

/-- what it sees when the process ends normally (`exit` flushes) -/
def Stream.afterNormalEnd (s : Stream) : List String := s.visible ++ s.pending

def Stream.flushed (s : Stream) : Stream := ⟨s.visible ++ s.pending, []⟩

/-- the statements of `ConsoleTestOutput::flush()` -/
def execFlushCode : List Gen.Runner.IoOp → Stream → Stream
  | [], s => s
  | .platformFlush :: rest, s => execFlushCode rest s.flushed
  | _ :: rest, s => execFlushCode rest s

/-- the statements of `ConsoleTestOutput::printBuffer(x)`, given the code of `flush()` -/
def execPrintBuffer (flushCode : List Gen.Runner.IoOp) (x : String) : List Gen.Runner.IoOp → Stream → Stream
  | [], s => s
  | .fputs :: rest, s => execPrintBuffer flushCode x rest { s with pending := s.pending ++ [x] }
  | .flush :: rest, s => execPrintBuffer flushCode x rest (execFlushCode flushCode s)
  | .platformFlush :: rest, s => execPrintBuffer flushCode x rest s.flushed

/-- one `print` of the console output, as the source has it at check time -/
def consolePrint (s : Stream) (x : String) : Stream :=
  execPrintBuffer Gen.Runner.consoleFlushCode x Gen.Runner.consolePrintBufferCode s

/-- a process prints `xs` on the console output -/
def consolePrintAll (s : Stream) (xs : List String) : Stream := xs.foldl consolePrint s

/-! ## CompositeTestOutput -/

/-- the receivers of a forwarded callback (the first entry of that name in the regenerated table) -/
def receiversOf (name : String) : List Gen.Runner.Receiver :=
  ((Gen.Runner.compositeReceivers.find? (fun e => e.1 == name)).map (·.2)).getD []

/-- a sequence of callbacks made on the composite, as the calls its two outputs receive, in order -/
def compositeForward {α} (calls : List (String × α)) : List (Gen.Runner.Receiver × String × α) :=
  calls.flatMap (fun c => (receiversOf c.1).map (fun r => (r, c.1, c.2)))

def receivedBy {α} (who : Gen.Runner.Receiver) (l : List (Gen.Runner.Receiver × String × α)) : List (String × α) :=
  (l.filter (fun x => x.1 == who)).map (·.2)

/-! ## CommandLineTestRunner::initializeTestRun: the static rethrow flag -/

/-- one regenerated statement of `initializeTestRun` that writes `UtestShell::rethrowExceptions_`:
    `opt` = `arguments_->isRethrowingExceptions()`, `flag` = the static before the statement -/
def execRethrowInit (opt : Bool) (flag : Bool) (s : Gen.Runner.RethrowInit) : Bool :=
  let taken := match s.guard with
    | .always => true
    | .ifOption => opt
    | .ifNotOption => !opt
  let value := match s.value with
    | .option => opt
    | .notOption => !opt
    | .lit b => b
  if taken then value else flag

/-- the static after the given statements -/
def execRethrowInits (opt : Bool) (code : List Gen.Runner.RethrowInit) (flag : Bool) : Bool :=
  code.foldl (execRethrowInit opt) flag

/-- `initializeTestRun` as the source has it at check time -/
def initializeTestRunGen (optRethrow : Bool) (pr : Process) : Process :=
  { pr with rethrowExceptions := execRethrowInits optRethrow Gen.Runner.initializeTestRunRethrowCode pr.rethrowExceptions }

end Runner
