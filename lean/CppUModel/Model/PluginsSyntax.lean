/-!
Syntax of the small statement language into which `translate/extract_plugincode.py` translates, from the
clang JSON AST on every check run, the three functions of `src/CppUTest/TestPlugin.cpp` that work on the
process-wide pointer table (`CppUTestStore`, `SetPointerPlugin::postTestAction`, the `SetPointerPlugin`
constructor), the `UT_PTR_SET` macro, and the bodies of `TestPlugin::runAllPreTestAction` /
`runAllPostTestAction`.  The interpreter is `Model/PluginsTable.lean`; the regenerated code is
`Gen/PluginCode.lean`.
-/
namespace Plugins.Code

/-- `int` expressions -/
inductive IExp
  | lit (n : Int)
  | idx                      -- `pointerTableIndex`
  | loopVar                  -- the variable of the enclosing `for`
  | add (a b : IExp)
  | sub (a b : IExp)
deriving Repr, DecidableEq, Inhabited

/-- `void**` expressions: a location -/
inductive PExp
  | param                    -- the parameter of `CppUTestStore`
  | origAt (e : IExp)        -- `setlist[e].orig`
deriving Repr, DecidableEq, Inhabited

/-- `void*` expressions: what a location holds -/
inductive VExp
  | deref (p : PExp)         -- `*p`
  | origValueAt (e : IExp)   -- `setlist[e].orig_value`
deriving Repr, DecidableEq, Inhabited

inductive Rel
  | ge | gt | le | lt | eq | ne
deriving Repr, DecidableEq, Inhabited

structure Cond where
  rel : Rel
  a : IExp
  b : IExp
deriving Repr, DecidableEq, Inhabited

/-- loop-free statements -/
inductive SStmt
  | failIf (c : Cond)                      -- `if (c) { FAIL("…"); }`  (FAIL leaves the function and the test body)
  | setOrigValue (i : IExp) (v : VExp)     -- `setlist[i].orig_value = v;`
  | setOrig (i : IExp) (p : PExp)          -- `setlist[i].orig = p;`
  | storeThrough (p : PExp) (v : VExp)     -- `*p = v;`
  | setIdx (e : IExp)                      -- `pointerTableIndex = e;` (also `++` / `--`)
deriving Repr, DecidableEq, Inhabited

inductive TStmt
  | simple (s : SStmt)
  | forDown (init lo : IExp) (body : List SStmt)   -- `for (int i = init; i >= lo; i--) body`
  | forUp (init hi : IExp) (body : List SStmt)     -- `for (int i = init; i < hi; i++) body`
deriving Repr, DecidableEq, Inhabited

/-- the statements of the `UT_PTR_SET(a, b)` macro -/
inductive MacroStep
  | callStore                -- `CppUTestStore((void**)&(a));`
  | assign                   -- `(a) = b;`
deriving Repr, DecidableEq, Inhabited

/-- the statements of `TestPlugin::runAllPreTestAction` / `runAllPostTestAction` -/
inductive WalkStep
  | ownIfEnabled             -- `if (enabled_) preTestAction(test, result);`  (resp. post)
  | own                      -- the own action without the guard
  | next                     -- `next_->runAllPreTestAction(test, result);`   (resp. post)
deriving Repr, DecidableEq, Inhabited

end Plugins.Code
