import CppUModel.Gen.LeakDetectorConstants
/-!
Model of the leak detector (`src/CppUTest/MemoryLeakDetector.cpp`, `include/CppUTest/MemoryLeakDetector.h`),
written from the C++ function by function: `MemoryLeakDetectorList` (one bucket), `MemoryLeakDetectorTable`
(`hash_prime` buckets), `MemoryLeakDetector` (period, stage, sequence number, type checking) and the
release wrappers of `MemoryLeakWarningPlugin.cpp`.

Conventions
* An address is a `Nat`; `0` is `NULL`.  Addresses returned by the underlying allocator /
  `PlatformSpecificRealloc` are inputs of the operations (`result`).
* A `Node` is one `MemoryLeakDetectorNode`.  A C++ node pointer is identified with the address of the
  block it describes (`memory_`): in a table without duplicate addresses (invariant `Inv`, which holds as
  long as the allocator never returns a live address) the two coincide.  `node->next_` is `Bucket.nextOf`.
* Two fields of `Node` are ghosts (not stored by the C++ node): `sepNode` remembers whether the node was
  obtained with `allocMemoryLeakNode` (separate bookkeeping layout) and `bytes` is the current content of
  the block the node describes, `[memory_, memory_ + size_ + memory_corruption_buffer_size)`.
* `allocationSequenceNumber_` is a `Nat` (no wrap below 2^32 allocations); the allocation stage is the
  C `unsigned char` (`BitVec 8`, wraps).  `hasBeenDestroyed()` allocators are not modelled.
* The text buffer of the detector (`MemoryLeakOutputStringBuffer`) is not part of this model; a misuse
  report is the event `Ev.fail` carrying the fields the message is built from.
-/
namespace LeakDetector
open Gen.LeakDetector (Period)

/-! ## allocators (`TestMemoryAllocator` and the wrappers that forward `actualAllocator()`) -/

inductive Allocator
  /-- a `TestMemoryAllocator` object: identity (the pointer), `name()`, `alloc_name()`, `free_name()` -/
  | plain (id : Nat) (name allocName freeName : String)
  /-- `MemoryLeakAllocator` / `AccountingTestMemoryAllocator` / `SimpleStringCacheAllocator` /
      `MemoryReportAllocator` around `orig` -/
  | wrap (id : Nat) (orig : Allocator)
deriving DecidableEq, Repr, Inhabited

namespace Allocator

/-- `actualAllocator()`: `return this` for a plain allocator, `originalAllocator_->actualAllocator()` for a wrapper -/
def actual : Allocator → Allocator
  | .plain i n a f => .plain i n a f
  | .wrap _ o => o.actual

def id : Allocator → Nat
  | .plain i _ _ _ => i
  | .wrap i _ => i

/-- `name()` (the wrappers return their own class name; it is never compared, only the actual allocator's is) -/
def name : Allocator → String
  | .plain _ n _ _ => n
  | .wrap _ _ => "wrapper"

/-- `alloc_name()`: the wrappers forward to the original allocator -/
def allocName : Allocator → String
  | .plain _ _ a _ => a
  | .wrap _ o => o.allocName

/-- `free_name()` -/
def freeName : Allocator → String
  | .plain _ _ _ f => f
  | .wrap _ o => o.freeName

/-- `NullUnknownAllocator::defaultAllocator()` (used as the allocating side of the non-allocated report) -/
def nullUnknown : Allocator := .plain 0 "Null Allocator" "unknown" "unknown"

end Allocator

/-! ## nodes -/

structure Node where
  addr      : Nat            -- memory_
  size      : Nat            -- size_
  number    : Nat            -- number_
  file      : String         -- file_
  line      : Nat            -- line_
  allocator : Allocator      -- allocator_
  period    : Period         -- period_
  stage     : BitVec 8       -- allocation_stage_
  sepNode   : Bool           -- ghost: node came from allocMemoryLeakNode
  bytes     : List UInt8     -- ghost: content of the user bytes followed by the guard bytes
deriving DecidableEq, Repr, Inhabited

/-- `MemoryLeakDetectorList::isInPeriod` (regenerated from the source) -/
def isInPeriod (p : Period) (n : Node) : Bool := Gen.LeakDetector.isInPeriod n.period p

/-- `MemoryLeakDetectorList::isInAllocationStage` -/
def isInStage (st : BitVec 8) (n : Node) : Bool := n.stage == st

/-! ## one bucket: `MemoryLeakDetectorList` -/

abbrev Bucket := List Node

namespace Bucket

/-- `addNewNode`: push at the head -/
def addNewNode (b : Bucket) (n : Node) : Bucket := n :: b

/-- `retrieveNode`: first node with that address -/
def retrieveNode : Bucket → Nat → Option Node
  | [], _ => none
  | n :: rest, a => if n.addr = a then some n else retrieveNode rest a

/-- the list `removeNode` leaves behind: the first node with that address unlinked -/
def unlinkNode : Bucket → Nat → Bucket
  | [], _ => []
  | n :: rest, a => if n.addr = a then rest else n :: unlinkNode rest a

/-- `clearAllAccounting(period)`: every node that is in the period is unlinked -/
def clearAllAccounting (p : Period) : Bucket → Bucket
  | [] => []
  | n :: rest => if isInPeriod p n then clearAllAccounting p rest else n :: clearAllAccounting p rest

/-- `getLeakFrom` / `getLeakForAllocationStageFrom`: first node from here on that satisfies the test -/
def getLeakFrom (q : Node → Bool) : Bucket → Option Node
  | [] => none
  | n :: rest => if q n then some n else getLeakFrom q rest

/-- `node->next_`: what follows the node (identified by its address) in the list -/
def nextOf : Bucket → Nat → Bucket
  | [], _ => []
  | n :: rest, a => if n.addr = a then rest else nextOf rest a

/-- `getFirstLeak` / `getFirstLeakForAllocationStage` -/
def getFirstLeak (q : Node → Bool) (b : Bucket) : Option Node := getLeakFrom q b

/-- `getNextLeak` / `getNextLeakForAllocationStage` -/
def getNextLeak (q : Node → Bool) (b : Bucket) (leak : Node) : Option Node := getLeakFrom q (nextOf b leak.addr)

/-- `getTotalLeaks` -/
def getTotalLeaks (p : Period) : Bucket → Nat
  | [] => 0
  | n :: rest => (if isInPeriod p n then 1 else 0) + getTotalLeaks p rest

/-- in-place update of the node with that address (`leak->period_ = …`, `memset` over its block) -/
def modifyNode (f : Node → Node) : Bucket → Nat → Bucket
  | [], _ => []
  | n :: rest, a => if n.addr = a then f n :: rest else n :: modifyNode f rest a

end Bucket

/-! ## the table: `MemoryLeakDetectorTable` -/

structure Table where
  hp      : Nat              -- hash_prime
  buckets : List Bucket      -- table_[hash_prime]
deriving DecidableEq, Repr, Inhabited

namespace Table

def empty (hp : Nat) : Table := { hp := hp, buckets := List.replicate hp [] }

/-- `hash` (regenerated from the source) -/
def hash (t : Table) (a : Nat) : Nat := Gen.LeakDetector.hash t.hp a

def bucket (t : Table) (i : Nat) : Bucket := t.buckets.getD i []

def setBucket (t : Table) (i : Nat) (b : Bucket) : Table := { t with buckets := t.buckets.set i b }

def addNewNode (t : Table) (n : Node) : Table :=
  t.setBucket (t.hash n.addr) ((t.bucket (t.hash n.addr)).addNewNode n)

def retrieveNode (t : Table) (a : Nat) : Option Node := (t.bucket (t.hash a)).retrieveNode a

/-- the table `removeNode` leaves behind -/
def unlinkNode (t : Table) (a : Nat) : Table :=
  t.setBucket (t.hash a) ((t.bucket (t.hash a)).unlinkNode a)

def modifyNode (t : Table) (f : Node → Node) (a : Nat) : Table :=
  t.setBucket (t.hash a) ((t.bucket (t.hash a)).modifyNode f a)

/-- `for (i = 0; i < hash_prime; i++) table_[i].clearAllAccounting(period)` -/
def clearAllAccounting (t : Table) (p : Period) : Table :=
  { t with buckets := t.buckets.map (Bucket.clearAllAccounting p) }

/-- `getTotalLeaks` -/
def totalIn (p : Period) : List Bucket → Nat
  | [] => 0
  | b :: bs => Bucket.getTotalLeaks p b + totalIn p bs

def getTotalLeaks (t : Table) (p : Period) : Nat := totalIn p t.buckets

/-- the `for` loop of `getFirstLeak` / the tail loop of `getNextLeak` over the remaining buckets -/
def firstLeakIn (q : Node → Bool) : List Bucket → Option Node
  | [] => none
  | b :: bs =>
    match Bucket.getFirstLeak q b with
    | some n => some n
    | none => firstLeakIn q bs

def getFirstLeak (t : Table) (q : Node → Bool) : Option Node := firstLeakIn q t.buckets

def getNextLeak (t : Table) (q : Node → Bool) (leak : Node) : Option Node :=
  match Bucket.getNextLeak q (t.bucket (t.hash leak.addr)) leak with
  | some n => some n
  | none => firstLeakIn q (t.buckets.drop (t.hash leak.addr + 1))

/-- number of nodes (only used as the fuel of the pointer-chasing loops) -/
def nodeCount (t : Table) : Nat := t.buckets.flatten.length

end Table

/-! ## the detector -/

structure State where
  table        : Table
  period       : Period      -- current_period_
  stage        : BitVec 8    -- current_allocation_stage_
  seq          : Nat         -- allocationSequenceNumber_
  typeChecking : Bool        -- doAllocationTypeChecking_
deriving DecidableEq, Repr, Inhabited

/-- the constructor -/
def State.init (hp : Nat) : State :=
  { table := Table.empty hp, period := .disabled, stage := 0, seq := 1, typeChecking := true }

inductive FailKind
  | nonAllocated       -- "Deallocating non-allocated memory"
  | mismatch           -- "Allocation/deallocation type mismatch"
  | corruption         -- "Memory corruption (written out of bounds?)"
deriving DecidableEq, Repr, Inhabited

/-- what the detector does to the outside world, in order -/
inductive Ev
  /-- `allocator->alloc_memory(reqSize, …)` -/
  | ualloc (reqSize : Nat)
  /-- `allocator->allocMemoryLeakNode(sizeof(MemoryLeakDetectorNode))` -/
  | nalloc
  /-- `allocator->freeMemoryLeakNode(node)`; `genuine` = the node had been obtained with `allocMemoryLeakNode` -/
  | nfree (genuine : Bool)
  /-- `allocator->free_memory(memory, size, …)`; `user` = the user bytes at that moment -/
  | ufree (allocator : Allocator) (addr size : Nat) (user : List UInt8)
  /-- `allocator->free_memory(memory, size, …)` of a block the caller never received (no record could be made) -/
  | ufreeRaw (allocator : Allocator) (addr size : Nat)
  /-- `PlatformSpecificRealloc(memory, reqSize)` -/
  | urealloc (addr reqSize : Nat)
  /-- `reporter_->fail(...)`: category, allocation location/size/type, deallocation location/type -/
  | fail (kind : FailKind) (allocFile : String) (allocLine allocSize : Nat) (allocType : String)
         (freeFile : String) (freeLine : Nat) (freeType : String)
  /-- value returned to the caller of `allocMemory` / `reallocMemory` -/
  | ret (addr : Nat)
deriving DecidableEq, Repr, Inhabited

/-! ### size arithmetic (`size_t`, LP64) -/

def wrap64 (x : Nat) : Nat := x % 2 ^ 64

/-- `calculateVoidPointerAlignedSize` -/
def alignedSize (size : Nat) : Nat :=
  wrap64 ((Gen.LeakDetector.pointerBytes - size % Gen.LeakDetector.pointerBytes) + size)

/-- `sizeOfMemoryWithCorruptionInfo` -/
def sizeWithCorruptionInfo (size : Nat) : Nat := alignedSize (wrap64 (size + Gen.LeakDetector.guardSize))

/-- `sizeOfMemoryWithCorruptionInfo(size) + sizeof(MemoryLeakDetectorNode) < size` -/
def sizeOverflows (size : Nat) : Bool :=
  decide (wrap64 (sizeWithCorruptionInfo size + Gen.LeakDetector.nodeStructBytes) < size)

/-- size passed to the underlying allocator (`allocateMemoryWithAccountingInformation`) -/
def requestSize (size : Nat) (sep : Bool) : Nat :=
  if sep then sizeWithCorruptionInfo size
  else wrap64 (sizeWithCorruptionInfo size + Gen.LeakDetector.nodeStructBytes)

/-! ### guard bytes -/

/-- the pattern `addMemoryCorruptionInformation` writes: `GuardBytes[i % sizeof(GuardBytes)]`, `i < memory_corruption_buffer_size` -/
def guardPattern : List UInt8 :=
  (List.range Gen.LeakDetector.guardSize).map
    (fun i => Gen.LeakDetector.guardBytes.getD (i % Gen.LeakDetector.guardBytes.length) 0)

/-- byte `i` behind the user bytes -/
def Node.guardAt (n : Node) (i : Nat) : UInt8 := n.bytes.getD (n.size + i) 0

/-- the loop of `validMemoryCorruptionInformation`, from index `i` for `k` more iterations -/
def validGuardFrom (n : Node) (i : Nat) : Nat → Bool
  | 0 => true
  | k + 1 =>
    if n.guardAt i != Gen.LeakDetector.guardBytes.getD (i % Gen.LeakDetector.guardBytes.length) 0 then false
    else validGuardFrom n (i + 1) k

/-- `validMemoryCorruptionInformation(node->memory_ + node->size_)` -/
def validGuard (n : Node) : Bool := validGuardFrom n 0 Gen.LeakDetector.guardSize

/-- content of a block right after (re)allocation: the client's fill, then the guard pattern -/
def freshBytes (size : Nat) (fill : UInt8) : List UInt8 := List.replicate size fill ++ guardPattern

/-- the user bytes -/
def Node.user (n : Node) : List UInt8 := n.bytes.take n.size

/-! ### allocation -/

/-- `storeLeakInformation` -/
def storeLeakInformation (s : State) (addr size : Nat) (a : Allocator) (file : String) (line : Nat)
    (sep : Bool) (fill : UInt8) : State :=
  { s with
    seq := s.seq + 1,
    table := s.table.addNewNode
      { addr := addr, size := size, number := s.seq, file := file, line := line, allocator := a,
        period := s.period, stage := s.stage, sepNode := sep, bytes := freshBytes size fill } }

def nodeAllocEvs (sep : Bool) : List Ev := if sep then [.nalloc] else []

/-- `allocMemory(allocator, size, file, line, allocatNodesSeperately)`; `result` is what
    `allocator->alloc_memory` returned (0 = NULL), `nodeOk` whether `allocMemoryLeakNode` returned memory
    (only asked in the separate layout), `fill` the byte the client fills the block with -/
def alloc (s : State) (a : Allocator) (size : Nat) (file : String) (line : Nat) (sep : Bool)
    (result : Nat) (nodeOk : Bool) (fill : UInt8) : State × List Ev :=
  if sizeOverflows size then (s, [.ret 0])
  else if result = 0 then (s, [.ualloc (requestSize size sep), .ret 0])
  else if sep && !nodeOk then
    -- no memory for the accounting node: the block goes back, nothing is tracked
    (s, [.ualloc (requestSize size sep), .nalloc, .ufreeRaw a result size, .ret 0])
  else (storeLeakInformation s result size a file line sep fill,
        [.ualloc (requestSize size sep)] ++ nodeAllocEvs sep ++ [.ret result])

/-! ### release -/

/-- `matchingAllocation(node->allocator_->actualAllocator(), allocator->actualAllocator())` -/
def matching (typeChecking : Bool) (allocA freeA : Allocator) : Bool :=
  Gen.LeakDetector.matchingAllocation
    (allocA.actual.id == freeA.actual.id) typeChecking (freeA.actual.name == allocA.actual.name)

def failEv (k : FailKind) (n : Node) (file : String) (line : Nat) (freeA : Allocator) : Ev :=
  .fail k n.file n.line n.size n.allocator.allocName file line freeA.freeName

/-- `checkForCorruption`: mismatch first, then the guard bytes, then the separately allocated node is freed -/
def checkForCorruption (typeChecking : Bool) (n : Node) (file : String) (line : Nat) (a : Allocator)
    (sep : Bool) : List Ev :=
  if !matching typeChecking n.allocator a then [failEv .mismatch n file line a.actual]
  else if !validGuard n then [failEv .corruption n file line a.actual]
  else if sep then [.nfree n.sepNode]
  else []

/-- `reportDeallocateNonAllocatedMemoryFailure` -/
def nonAllocatedEv (file : String) (line : Nat) (a : Allocator) : Ev :=
  .fail .nonAllocated "<unknown>" 0 0 Allocator.nullUnknown.allocName file line a.freeName

/-- `deallocMemory(allocator, memory, file, line, allocatNodesSeperately)` -/
def dealloc (s : State) (a : Allocator) (addr : Nat) (file : String) (line : Nat) (sep : Bool) :
    State × List Ev :=
  if addr = 0 then (s, [])
  else
    match s.table.retrieveNode addr with
    | none => (s, [nonAllocatedEv file line a])
    | some n =>
      ({ s with table := s.table.unlinkNode addr },
       checkForCorruption s.typeChecking n file line a sep ++ [.ufree a addr n.size n.user])

/-! ### reallocation -/

/-- the part of `reallocMemory` after the old record has been taken out: `PlatformSpecificRealloc`, then either a
    new record or (failure) the old record tracked again -/
def reallocTail (s : State) (a : Allocator) (addr size : Nat) (file : String) (line : Nat) (sep : Bool)
    (result : Nat) (fill : UInt8) (old : Option Node) : State × List Ev :=
  if result = 0 then
    match old with
    | some o =>
      ({ s with table := s.table.addNewNode { o with sepNode := sep } },
       [.urealloc addr (requestSize size sep)] ++ nodeAllocEvs sep ++ [.ret 0])
    | none => (s, [.urealloc addr (requestSize size sep), .ret 0])
  else
    (storeLeakInformation s result size a file line sep fill,
     [.urealloc addr (requestSize size sep)] ++ nodeAllocEvs sep ++ [.ret result])

def prependEvs (evs : List Ev) (r : State × List Ev) : State × List Ev := (r.1, evs ++ r.2)

/-- `reallocMemory(allocator, memory, size, file, line, allocatNodesSeperately)` -/
def realloc (s : State) (a : Allocator) (addr size : Nat) (file : String) (line : Nat) (sep : Bool)
    (result : Nat) (fill : UInt8) : State × List Ev :=
  if sizeOverflows size then (s, [.ret 0])
  else if addr = 0 then reallocTail s a addr size file line sep result fill none
  else
    match s.table.retrieveNode addr with
    | none => (s, [nonAllocatedEv file line a, .ret 0])
    | some n =>
      prependEvs (checkForCorruption s.typeChecking n file line a sep)
        (reallocTail { s with table := s.table.unlinkNode addr } a addr size file line sep result fill (some n))

/-! ### periods, stages, clearing -/

def startChecking (s : State) : State := { s with period := .checking }
def stopChecking (s : State) : State := { s with period := .enabled }
def enable (s : State) : State := { s with period := .enabled }
def disable (s : State) : State := { s with period := .disabled }
def enableTypeChecking (s : State) : State := { s with typeChecking := true }
def disableTypeChecking (s : State) : State := { s with typeChecking := false }
def increaseStage (s : State) : State := { s with stage := s.stage + 1 }
def decreaseStage (s : State) : State := { s with stage := s.stage - 1 }

def clearAllAccounting (s : State) (p : Period) : State := { s with table := s.table.clearAllAccounting p }

/-- file/line the stage release passes to `deallocMemory` (`__FILE__`, `__LINE__` of the detector source) -/
def stageFile : String := "<stage>"

/-- the `while (node)` loop of `deallocAllMemoryInCurrentAllocationStage`: the successor is fetched before
    the current block is released -/
def stageLoop : Nat → State → Option Node → State × List Ev
  | 0, s, _ => (s, [])
  | _, s, none => (s, [])
  | fuel + 1, s, some node =>
    prependEvs (dealloc s node.allocator node.addr stageFile 0 false).2
      (stageLoop fuel (dealloc s node.allocator node.addr stageFile 0 false).1
        (s.table.getNextLeak (isInStage s.stage) node))

/-- `deallocAllMemoryInCurrentAllocationStage` -/
def deallocStage (s : State) : State × List Ev :=
  stageLoop (s.table.nodeCount + 1) s (s.table.getFirstLeak (isInStage s.stage))

def demote (n : Node) : Node := if n.period = .checking then { n with period := .enabled } else n

/-- the loop of `markCheckingPeriodLeaksAsNonCheckingPeriod` -/
def markLoop : Nat → Table → Option Node → Table
  | 0, t, _ => t
  | _, t, none => t
  | fuel + 1, t, some leak =>
    markLoop fuel (t.modifyNode demote leak.addr)
      ((t.modifyNode demote leak.addr).getNextLeak (isInPeriod .checking) leak)

/-- `markCheckingPeriodLeaksAsNonCheckingPeriod` -/
def markChecking (s : State) : State :=
  { s with table := markLoop (s.table.nodeCount + 1) s.table (s.table.getFirstLeak (isInPeriod .checking)) }

/-! ### queries -/

/-- `getCurrentAllocationNumber()`: the number the next successful allocation gets -/
def getCurrentAllocationNumber (s : State) : Nat := s.seq

/-- `getCurrentAllocationStage()` -/
def getCurrentAllocationStage (s : State) : BitVec 8 := s.stage

/-- `totalMemoryLeaks(period)` -/
def totalMemoryLeaks (s : State) (p : Period) : Nat := s.table.getTotalLeaks p

/-- the `while (leak)` loop of `ConstructMemoryLeakReport`: the nodes handed to `reportMemoryLeak`, in order -/
def reportLoop (t : Table) (p : Period) : Nat → Option Node → List Node
  | 0, _ => []
  | _, none => []
  | fuel + 1, some leak => leak :: reportLoop t p fuel (t.getNextLeak (isInPeriod p) leak)

/-- the leaks `report(period)` lists, in the order it lists them -/
def reportedLeaks (s : State) (p : Period) : List Node :=
  reportLoop s.table p (s.table.nodeCount + 1) (s.table.getFirstLeak (isInPeriod p))

/-! ### memory contents: the client's writes and `invalidateMemory` -/

def setByte (bs : List UInt8) (off : Nat) (b : UInt8) : List UInt8 := bs.set off b

/-- the client stores `b` at `memory + off` of the block at `addr` (user bytes and guard bytes only) -/
def writeByte (s : State) (addr off : Nat) (b : UInt8) : State :=
  { s with table := s.table.modifyNode (fun n => { n with bytes := setByte n.bytes off b }) addr }

def poison (n : Node) : Node :=
  { n with bytes := List.replicate n.size Gen.LeakDetector.poisonByte ++ n.bytes.drop n.size }

/-- `invalidateMemory(memory)`: `retrieveNode`, and `memset(memory, 0xCD, node->size_)` if it is tracked -/
def invalidateMemory (s : State) (addr : Nat) : State :=
  match s.table.retrieveNode addr with
  | some _ => { s with table := s.table.modifyNode poison addr }
  | none => s

/-! ### the release wrappers of MemoryLeakWarningPlugin.cpp -/

inductive Family | new | newArray | malloc
deriving DecidableEq, Repr, Inhabited

/-- `getCurrentNewAllocator()`, `getCurrentNewArrayAllocator()`, `getCurrentMallocAllocator()` -/
structure Current where
  newA      : Allocator
  newArrayA : Allocator
  mallocA   : Allocator
deriving DecidableEq, Repr, Inhabited

def Current.of (c : Current) : Family → Allocator
  | .new => c.newA
  | .newArray => c.newArrayA
  | .malloc => c.mallocA

/-- `operator delete` / `operator delete[]` / `cpputest_free_location`: `invalidateMemory`, then `deallocMemory`
    with the family's current allocator (`free` passes file/line and uses separately allocated nodes) -/
def release (c : Current) (f : Family) (s : State) (addr : Nat) (file : String) (line : Nat) : State × List Ev :=
  match f with
  | .malloc => dealloc (invalidateMemory s addr) c.mallocA addr file line true
  | .new => dealloc (invalidateMemory s addr) c.newA addr "<unknown>" 0 false
  | .newArray => dealloc (invalidateMemory s addr) c.newArrayA addr "<unknown>" 0 false

/-- the current allocator a release wrapper asks for -/
def Current.byGetter (c : Current) (getter : String) : Allocator :=
  if getter == "getCurrentMallocAllocator" then c.mallocA
  else if getter == "getCurrentNewArrayAllocator" then c.newArrayA
  else c.newA

/-- A release wrapper of MemoryLeakWarningPlugin.cpp executed as the REGENERATED description says (plain and
    thread-safe variants; the scoped lock of the latter is not modelled): the two detector calls in the order they
    have in the source, with the wrapper's current allocator, location arguments and layout flag. -/
def releaseBy (w : Gen.LeakDetector.ReleaseWrapper) (c : Current) (s : State) (addr : Nat) (file : String) (line : Nat) :
    State × List Ev :=
  if w.invalidateThenDealloc then
    dealloc (invalidateMemory s addr) (c.byGetter w.getter) addr (if w.withLocation then file else "<unknown>")
      (if w.withLocation then line else 0) w.separateNode
  else
    ((invalidateMemory (dealloc s (c.byGetter w.getter) addr (if w.withLocation then file else "<unknown>")
        (if w.withLocation then line else 0) w.separateNode).1 addr),
     (dealloc s (c.byGetter w.getter) addr (if w.withLocation then file else "<unknown>")
        (if w.withLocation then line else 0) w.separateNode).2)

/-- the family a release wrapper serves -/
def familyOfGetter (getter : String) : Family :=
  if getter == "getCurrentMallocAllocator" then .malloc
  else if getter == "getCurrentNewArrayAllocator" then .newArray
  else .new

/-- An acquiring function of MemoryLeakWarningPlugin.cpp (`mem_leak_operator_new…`, `mem_leak_malloc`, their thread-safe
    variants) executed as the REGENERATED description says: `allocMemory` with the function's current allocator, its
    location arguments and its layout flag. -/
def acquireBy (w : Gen.LeakDetector.AcquireWrapper) (c : Current) (s : State) (size : Nat) (file : String) (line : Nat)
    (result : Nat) (nodeOk : Bool) (fill : UInt8) : State × List Ev :=
  alloc s (c.byGetter w.getter) size (if w.withLocation then file else "<unknown>") (if w.withLocation then line else 0)
    w.separateNode result nodeOk fill

/-- the forms of the global overloads (names used by the harness) and the C++ signature each stands for;
    `malloc` / `free` are `cpputest_malloc_location` / `cpputest_free_location` -/
def formKey : String → Option String
  | "new" => some "new(size_t)"
  | "new_fi" => some "new(size_t,const char*,int)"
  | "new_fs" => some "new(size_t,const char*,size_t)"
  | "new_nt" => some "new(size_t,const std::nothrow_t&)"
  | "newa" => some "new[](size_t)"
  | "newa_fi" => some "new[](size_t,const char*,int)"
  | "newa_fs" => some "new[](size_t,const char*,size_t)"
  | "newa_nt" => some "new[](size_t,const std::nothrow_t&)"
  | "del" => some "delete(void*)"
  | "del_fi" => some "delete(void*,const char*,int)"
  | "del_fs" => some "delete(void*,const char*,size_t)"
  | "del_sz" => some "delete(void*,size_t)"
  | "del_nt" => some "delete(void*,const std::nothrow_t&)"
  | "dela" => some "delete[](void*)"
  | "dela_fi" => some "delete[](void*,const char*,int)"
  | "dela_fs" => some "delete[](void*,const char*,size_t)"
  | "dela_sz" => some "delete[](void*,size_t)"
  | "dela_nt" => some "delete[](void*,const std::nothrow_t&)"
  | "malloc" => some "malloc"
  | "free" => some "free"
  | _ => none

/-- the function pointer an overload form goes through (regenerated forwarding of every operator) -/
def formFptr (form : String) : Option String :=
  match formKey form with
  | some "malloc" => some "malloc_fptr"
  | some "free" => some "free_fptr"
  | some k => (Gen.LeakDetector.overloads.find? (fun o => o.key == k)).map (·.fptr)
  | none => none

/-- the function behind it when the plain / the thread-safe overloads are switched on (regenerated tables) -/
def formFunction (threadSafe : Bool) (form : String) : Option String :=
  (formFptr form).bind (fun p =>
    (if threadSafe then Gen.LeakDetector.threadSafeTable else Gen.LeakDetector.plainTable).lookup p)

def acquireWrapperOf (threadSafe : Bool) (form : String) : Option Gen.LeakDetector.AcquireWrapper :=
  (formFunction threadSafe form).bind (fun n => Gen.LeakDetector.acquireWrappers.find? (fun w => w.name == n))

def releaseWrapperOf (threadSafe : Bool) (form : String) : Option Gen.LeakDetector.ReleaseWrapper :=
  (formFunction threadSafe form).bind (fun n => Gen.LeakDetector.releaseWrappers.find? (fun w => w.name == n))

/-- `operator new` / `operator new[]` / `cpputest_malloc_location` -/
def acquire (c : Current) (f : Family) (s : State) (size : Nat) (file : String) (line : Nat)
    (result : Nat) (nodeOk : Bool) (fill : UInt8) : State × List Ev :=
  match f with
  | .malloc => alloc s c.mallocA size file line true result nodeOk fill
  | .new => alloc s c.newA size file line false result nodeOk fill
  | .newArray => alloc s c.newArrayA size file line false result nodeOk fill

/-! ### the report allocators of `MemoryReporterPlugin` (CppUTestExt) around a test -/

/-- `getRealAllocator()` of a report allocator (what a wrapper wraps) -/
def Allocator.real : Allocator → Allocator
  | .wrap _ o => o
  | a => a

/-- `setRealAllocator(real)`: the same object now wraps `real` -/
def Allocator.rewrap (a real : Allocator) : Allocator := .wrap a.id real

/-- the plugin's three `MemoryReportAllocator` members -/
structure ReportAllocs where
  mallocR   : Allocator
  newR      : Allocator
  newArrayR : Allocator
deriving DecidableEq, Repr, Inhabited

def ReportAllocs.get (r : ReportAllocs) (member : String) : Allocator :=
  if member == "mallocAllocator" then r.mallocR else if member == "newArrayAllocator" then r.newArrayR else r.newR

def ReportAllocs.set (r : ReportAllocs) (member : String) (a : Allocator) : ReportAllocs :=
  if member == "mallocAllocator" then { r with mallocR := a }
  else if member == "newArrayAllocator" then { r with newArrayR := a } else { r with newR := a }

/-- `setCurrent…Allocator(a)` -/
def Current.bySetter (c : Current) (setter : String) (a : Allocator) : Current :=
  if setter == "setCurrentMallocAllocator" then { c with mallocA := a }
  else if setter == "setCurrentNewArrayAllocator" then { c with newArrayA := a } else { c with newA := a }

/-- `A.setRealAllocator(G()); S(&B);` -/
def installStep (st : ReportAllocs × Current) (e : String × String × String × String) : ReportAllocs × Current :=
  ((st.1.set e.1 ((st.1.get e.1).rewrap (st.2.byGetter e.2.1))),
   st.2.bySetter e.2.2.1 ((st.1.set e.1 ((st.1.get e.1).rewrap (st.2.byGetter e.2.1))).get e.2.2.2))

/-- `if (G() == &A) S(B.getRealAllocator());` -/
def removeStep (r : ReportAllocs) (c : Current) (e : String × String × String × String) : Current :=
  if (c.byGetter e.1).id == (r.get e.2.1).id then c.bySetter e.2.2.1 (r.get e.2.2.2).real else c

/-- `setGlobalMemoryReportAllocators()` as regenerated (the pre-test action of the plugin) -/
def reportPre (r : ReportAllocs) (c : Current) : ReportAllocs × Current :=
  Gen.LeakDetector.reportInstall.foldl installStep (r, c)

/-- `removeGlobalMemoryReportAllocators()` as regenerated (the post-test action) -/
def reportPost (r : ReportAllocs) (c : Current) : Current :=
  Gen.LeakDetector.reportRemove.foldl (removeStep r) c

/-- a record's allocator is a pointer: when the object `a` changes what it wraps, every record that names it sees that -/
def rebindNode (a : Allocator) (n : Node) : Node := if n.allocator.id = a.id then { n with allocator := a } else n

def State.rebind (s : State) (a : Allocator) : State :=
  { s with table := { s.table with buckets := s.table.buckets.map (fun b => b.map (rebindNode a)) } }

/-! ## operations as data (histories) -/

inductive Op
  | alloc (a : Allocator) (size : Nat) (file : String) (line : Nat) (sep : Bool) (result : Nat) (nodeOk : Bool) (fill : UInt8)
  | dealloc (a : Allocator) (addr : Nat) (file : String) (line : Nat) (sep : Bool)
  | realloc (a : Allocator) (addr size : Nat) (file : String) (line : Nat) (sep : Bool) (result : Nat) (fill : UInt8)
  | startChecking | stopChecking | enable | disable
  | typeCheckingOn | typeCheckingOff
  | incStage | decStage | deallocStage
  | clear (p : Period)
  | markChecking
  | invalidate (addr : Nat)
  | write (addr off : Nat) (b : UInt8)
deriving DecidableEq, Repr, Inhabited

def step (s : State) : Op → State × List Ev
  | .alloc a size file line sep result nodeOk fill => alloc s a size file line sep result nodeOk fill
  | .dealloc a addr file line sep => dealloc s a addr file line sep
  | .realloc a addr size file line sep result fill => realloc s a addr size file line sep result fill
  | .startChecking => (startChecking s, [])
  | .stopChecking => (stopChecking s, [])
  | .enable => (enable s, [])
  | .disable => (disable s, [])
  | .typeCheckingOn => (enableTypeChecking s, [])
  | .typeCheckingOff => (disableTypeChecking s, [])
  | .incStage => (increaseStage s, [])
  | .decStage => (decreaseStage s, [])
  | .deallocStage => deallocStage s
  | .clear p => (clearAllAccounting s p, [])
  | .markChecking => (markChecking s, [])
  | .invalidate addr => (invalidateMemory s addr, [])
  | .write addr off b => (writeByte s addr off b, [])

/-- run a history -/
def run : State → List Op → State × List Ev
  | s, [] => (s, [])
  | s, op :: ops => prependEvs (step s op).2 (run (step s op).1 ops)

end LeakDetector
