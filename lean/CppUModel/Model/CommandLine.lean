import CppUModel.Spec.CommandLine
import CppUModel.Model.JUnit
/-!
# Model of `CommandLineArguments::parse` (src/CppUTest/CommandLineArguments.cpp)

Written from the C++ line by line over `Text.Bytes` (arguments are NUL-free byte strings
without terminator) with the textbook string functions of `Spec/Text.lean`
(`==`, `startsWith`, `subString`, `subStringFromTill`, `split`); that `SimpleString` computes
those functions is property C13.

* `table`/`dispatch`: the `if / else if` chain of `parse`, in source order, as a table
  (literal, exact-vs-`startsWith`, handler).  `Gen/ParseDispatch.lean` is regenerated from the
  source on every run and `Props/C12.lean` proves it equal to `table`.
* `runHandler`: the body of each branch (`setRepeatCount`, `setShuffle`, `add…Filter`,
  `addGroupDotNameFilter`, `addTestToRunBasedOnVerboseOutput`, `setOutputType`,
  `setPackageName`, the plugin call).
* `go`: the `for (int i = 1; i < ac_; i++)` loop.  `i++` inside a handler (the value was taken
  from the next argument) is the `consumed` flag: the next element of the list is skipped.
  The recursion is structural on the argument list, so the model is total for every argument
  vector by Lean's termination checker, and it uses total list operations only
  (`drop`, `take`, `head?`, `find?`, `isPrefixOf`, …; no indexing that could fail).

The state at the moment of rejection is kept (`ParseResult.reject cfg`): it is observable
through the getters (`needHelp()` decides between help and usage).
-/
namespace CommandLine
open Text

/-! ## dispatch table -/

inductive Handler
  | help | verbose | veryVerbose | color | separateProcess | reversing
  | listGroups | listNames | listLocations | runIgnored | crashOnFail | noRethrow
  | repeatCount
  | groupFilter
  | dotName (lit : Bytes) (strict exclude : Bool)
  | strictGroup | exclGroup | exclStrictGroup
  | nameFilter | strictName | exclName | exclStrictName
  | shuffle
  | testForm (lit : Bytes)
  | outputType
  | plugin
  | packageName
deriving DecidableEq, Repr

structure Entry where
  lit   : Bytes
  exact : Bool        -- `argument == lit`  /  `argument.startsWith(lit)`
  h     : Handler
deriving DecidableEq, Repr

def litTEST : Bytes := [84, 69, 83, 84, 40]                                     -- TEST(
def litIGNORE : Bytes := [73, 71, 78, 79, 82, 69, 95, 84, 69, 83, 84, 40]       -- IGNORE_TEST(

/-- the chain of `CommandLineArguments::parse`, in source order -/
def table : List Entry := [
  ⟨[45, 104], true, .help⟩,                          -- -h
  ⟨[45, 118], true, .verbose⟩,                       -- -v
  ⟨[45, 118, 118], true, .veryVerbose⟩,              -- -vv
  ⟨[45, 99], true, .color⟩,                          -- -c
  ⟨[45, 112], true, .separateProcess⟩,               -- -p
  ⟨[45, 98], true, .reversing⟩,                      -- -b
  ⟨[45, 108, 103], true, .listGroups⟩,               -- -lg
  ⟨[45, 108, 110], true, .listNames⟩,                -- -ln
  ⟨[45, 108, 108], true, .listLocations⟩,            -- -ll
  ⟨[45, 114, 105], true, .runIgnored⟩,               -- -ri
  ⟨[45, 102], true, .crashOnFail⟩,                   -- -f
  ⟨[45, 101], true, .noRethrow⟩,                     -- -e
  ⟨[45, 99, 105], true, .noRethrow⟩,                 -- -ci
  ⟨[45, 114], false, .repeatCount⟩,                  -- -r
  ⟨[45, 103], false, .groupFilter⟩,                  -- -g
  ⟨[45, 116], false, .dotName [45, 116] false false⟩,                 -- -t
  ⟨[45, 115, 116], false, .dotName [45, 115, 116] true false⟩,        -- -st
  ⟨[45, 120, 116], false, .dotName [45, 120, 116] false true⟩,        -- -xt
  ⟨[45, 120, 115, 116], false, .dotName [45, 120, 115, 116] true true⟩, -- -xst
  ⟨[45, 115, 103], false, .strictGroup⟩,             -- -sg
  ⟨[45, 120, 103], false, .exclGroup⟩,               -- -xg
  ⟨[45, 120, 115, 103], false, .exclStrictGroup⟩,    -- -xsg
  ⟨[45, 110], false, .nameFilter⟩,                   -- -n
  ⟨[45, 115, 110], false, .strictName⟩,              -- -sn
  ⟨[45, 120, 110], false, .exclName⟩,                -- -xn
  ⟨[45, 120, 115, 110], false, .exclStrictName⟩,     -- -xsn
  ⟨[45, 115], false, .shuffle⟩,                      -- -s
  ⟨litTEST, false, .testForm litTEST⟩,               -- TEST(
  ⟨litIGNORE, false, .testForm litIGNORE⟩,           -- IGNORE_TEST(
  ⟨[45, 111], false, .outputType⟩,                   -- -o
  ⟨[45, 112], false, .plugin⟩,                       -- -p
  ⟨[45, 107], false, .packageName⟩                   -- -k
]

def Entry.hits (e : Entry) (arg : Bytes) : Bool :=
  if e.exact then arg == e.lit else startsWith arg e.lit

/-- first branch of the chain whose condition holds; `none` = the final `else` -/
def dispatch (arg : Bytes) : Option Handler := (table.find? (·.hits arg)).map (·.h)

/-! ## handlers -/

/-- value of `getParameterField` and whether it advanced `i` -/
structure Field where
  val      : Bytes
  consumed : Bool
deriving DecidableEq, Repr

/-- `getParameterField(ac, av, i, parameterName)` with `len = parameterName.size()`:
    the rest of the argument if it is longer than the name, else the next argument (and `i++`),
    else `""` -/
def getParameterField (len : Nat) (arg : Bytes) (next : Option Bytes) : Field :=
  if arg.length > len then ⟨arg.drop len, false⟩
  else match next with
    | some n => ⟨n, true⟩
    | none => ⟨[], false⟩

/-- what one iteration of the loop body did -/
structure StepOut where
  cfg      : Config
  good     : Bool      -- `correctParameters`
  consumed : Bool      -- the handler advanced `i` over the next argument
deriving DecidableEq, Repr

/-- `repeat_` before the final `if (0 == repeat_) repeat_ = 2` -/
def repeatRaw (arg : Bytes) (next : Option Bytes) : Nat :=
  if arg.length > 2 then atoiSizeT (arg.drop 2)
  else match next with
    | some n => atoiSizeT n
    | none => 0

def repeatConsumed (arg : Bytes) (next : Option Bytes) : Bool :=
  if arg.length > 2 then false
  else match next with
    | some n => atoiSizeT n != 0
    | none => false

/-- `setRepeatCount` -/
def setRepeatCount (c : Config) (arg : Bytes) (next : Option Bytes) : StepOut :=
  ⟨{ c with repeatCount := if repeatRaw arg next = 0 then 2 else repeatRaw arg next },
   true, repeatConsumed arg next⟩

def shuffleSeedOf (env : Env) (arg : Bytes) (next : Option Bytes) : Nat :=
  if arg.length > 2 then atou (arg.drop 2)
  else match next with
    | some n => if atou n != 0 then atou n else timeSeed env.time
    | none => timeSeed env.time

def shuffleConsumed (arg : Bytes) (next : Option Bytes) : Bool :=
  if arg.length > 2 then false
  else match next with
    | some n => atou n != 0
    | none => false

/-- `setShuffle` -/
def setShuffle (env : Env) (c : Config) (arg : Bytes) (next : Option Bytes) : StepOut :=
  ⟨{ c with shuffling := true, shuffleSeed := shuffleSeedOf env arg next },
   shuffleSeedOf env arg next != 0, shuffleConsumed arg next⟩

/-- `add[Strict|Exclude|ExcludeStrict]GroupFilter` -/
def addGroup (len : Nat) (strict invert : Bool) (c : Config) (arg : Bytes) (next : Option Bytes) : StepOut :=
  ⟨{ c with groupFilters := ⟨(getParameterField len arg next).val, strict, invert⟩ :: c.groupFilters },
   true, (getParameterField len arg next).consumed⟩

/-- `add[Strict|Exclude|ExcludeStrict]NameFilter` -/
def addName (len : Nat) (strict invert : Bool) (c : Config) (arg : Bytes) (next : Option Bytes) : StepOut :=
  ⟨{ c with nameFilters := ⟨(getParameterField len arg next).val, strict, invert⟩ :: c.nameFilters },
   true, (getParameterField len arg next).consumed⟩

/-- the two filters of `addGroupDotNameFilter` once `split(".")` gave exactly two tokens:
    `collection[0].subString(0, collection[0].size()-1)` and `collection[1]` -/
def dotNameFilters (strict exclude : Bool) (c : Config) : List Bytes → Option Config
  | [g, n] => some { c with
      groupFilters := ⟨subString g 0 (g.length - 1), strict, exclude⟩ :: c.groupFilters,
      nameFilters := ⟨n, strict, exclude⟩ :: c.nameFilters }
  | _ => none

/-- `addGroupDotNameFilter` -/
def addGroupDotName (lit : Bytes) (strict exclude : Bool) (c : Config) (arg : Bytes) (next : Option Bytes) : StepOut :=
  match dotNameFilters strict exclude c (splitCode (getParameterField lit.length arg next).val [46]) with
  | some c' => ⟨c', true, (getParameterField lit.length arg next).consumed⟩
  | none => ⟨c, false, (getParameterField lit.length arg next).consumed⟩

/-- `wholename.subStringFromTill(wholename.at(0), ',')`; `at(0)` of the empty string is the
    terminator, which `find` never finds -/
def testFormGroup : Bytes → Bytes
  | [] => []
  | c :: t => subStringFromTill (c :: t) c 44

/-- `wholename.subStringFromTill(',', ')').subString(2)` -/
def testFormName (whole : Bytes) : Bytes := subStringFrom (subStringFromTill whole 44 41) 2

/-- `addTestToRunBasedOnVerboseOutput` -/
def addTestForm (lit : Bytes) (c : Config) (arg : Bytes) (next : Option Bytes) : StepOut :=
  ⟨{ c with
      groupFilters := ⟨testFormGroup (getParameterField lit.length arg next).val, true, false⟩ :: c.groupFilters,
      nameFilters := ⟨testFormName (getParameterField lit.length arg next).val, true, false⟩ :: c.nameFilters },
   true, (getParameterField lit.length arg next).consumed⟩

def litNormal : Bytes := [110, 111, 114, 109, 97, 108]
def litEclipse : Bytes := [101, 99, 108, 105, 112, 115, 101]
def litJunit : Bytes := [106, 117, 110, 105, 116]
def litTeamcity : Bytes := [116, 101, 97, 109, 99, 105, 116, 121]

def outputOf (v : Bytes) : Option OutputType :=
  if v.length = 0 then none
  else if v == litNormal || v == litEclipse then some .eclipse
  else if v == litJunit then some .junit
  else if v == litTeamcity then some .teamcity
  else none

/-- `setOutputType` -/
def setOutputType (c : Config) (arg : Bytes) (next : Option Bytes) : StepOut :=
  match outputOf (getParameterField 2 arg next).val with
  | some o => ⟨{ c with output := o }, true, (getParameterField 2 arg next).consumed⟩
  | none => ⟨c, false, (getParameterField 2 arg next).consumed⟩

/-- `setPackageName` -/
def setPackageName (c : Config) (arg : Bytes) (next : Option Bytes) : StepOut :=
  ⟨if (getParameterField 2 arg next).val.length = 0 then c
   else { c with packageName := (getParameterField 2 arg next).val },
   true, (getParameterField 2 arg next).consumed⟩

def runHandler (env : Env) (h : Handler) (c : Config) (arg : Bytes) (next : Option Bytes) : StepOut :=
  match h with
  | .help            => ⟨{ c with needHelp := true }, false, false⟩
  | .verbose         => ⟨{ c with verbose := true }, true, false⟩
  | .veryVerbose     => ⟨{ c with veryVerbose := true }, true, false⟩
  | .color           => ⟨{ c with color := true }, true, false⟩
  | .separateProcess => ⟨{ c with separateProcess := true }, true, false⟩
  | .reversing       => ⟨{ c with reversing := true }, true, false⟩
  | .listGroups      => ⟨{ c with listGroups := true }, true, false⟩
  | .listNames       => ⟨{ c with listNames := true }, true, false⟩
  | .listLocations   => ⟨{ c with listLocations := true }, true, false⟩
  | .runIgnored      => ⟨{ c with runIgnored := true }, true, false⟩
  | .crashOnFail     => ⟨{ c with crashOnFail := true }, true, false⟩
  | .noRethrow       => ⟨{ c with rethrow := false }, true, false⟩
  | .repeatCount     => setRepeatCount c arg next
  | .groupFilter     => addGroup 2 false false c arg next
  | .dotName l s x   => addGroupDotName l s x c arg next
  | .strictGroup     => addGroup 3 true false c arg next
  | .exclGroup       => addGroup 3 false true c arg next
  | .exclStrictGroup => addGroup 4 true true c arg next
  | .nameFilter      => addName 2 false false c arg next
  | .strictName      => addName 3 true false c arg next
  | .exclName        => addName 3 false true c arg next
  | .exclStrictName  => addName 4 true true c arg next
  | .shuffle         => setShuffle env c arg next
  | .testForm l      => addTestForm l c arg next
  | .outputType      => setOutputType c arg next
  | .plugin          => ⟨c, env.plugin arg, false⟩      -- `index` is passed by value: nothing consumed
  | .packageName     => setPackageName c arg next

/-- one iteration of the loop: `argument = av_[i]`, `next = av_[i+1]` if `i + 1 < ac_` -/
def step (env : Env) (c : Config) (arg : Bytes) (next : Option Bytes) : StepOut :=
  match dispatch arg with
  | some h => runHandler env h c arg next
  | none => ⟨c, false, false⟩

/-! ## the loop -/

inductive ParseResult
  | ok (c : Config)         -- `parse` returned true
  | reject (c : Config)     -- `parse` returned false; `c` is the state it left behind
deriving DecidableEq, Repr

def ParseResult.cfg : ParseResult → Config
  | .ok c => c
  | .reject c => c

def ParseResult.isOk : ParseResult → Bool
  | .ok _ => true
  | .reject _ => false

/-- the loop from index `i` on; `skip` = the previous handler consumed this argument -/
def go (env : Env) : Config → Bool → List Bytes → ParseResult
  | c, _, [] => .ok c
  | c, true, _ :: rest => go env c false rest
  | c, false, a :: rest =>
    if (step env c a rest.head?).good
    then go env (step env c a rest.head?).cfg (step env c a rest.head?).consumed rest
    else .reject (step env c a rest.head?).cfg

/-- `CommandLineArguments(ac, av).parse(plugin)`; `argv.head` is the program name -/
def parse (env : Env) (argv : List Bytes) : ParseResult := go env {} false argv.tail

/-! ## the runner applies the configuration (`CommandLineTestRunner::runAllTestsMain`)

`parseArguments`, `initializeTestRun` and `runAllTests` of src/CppUTest/CommandLineTestRunner.cpp over a
registry of probe tests that never fail.  Observables: outputs created, what the console
output was told, calls made to the registry, which tests ran (in order), the return value. -/


structure ProbeTest where
  group   : Bytes
  name    : Bytes
  ignored : Bool          -- an `IGNORE_TEST`: its body runs only with `-ri`
deriving DecidableEq, Repr

inductive OutEv | console | junit (pkg : Bytes) | teamcity | composite
deriving DecidableEq, Repr

inductive RegCall
  | separateProcess | listGroups | listNames | listLocations | reverse | shuffle (seed : Nat) | runAll
  | install (name : String) | remove (name : String)      -- `installPlugin` / `removePluginByName`
deriving DecidableEq, Repr

def nameMemLeak : String := "MemoryLeakPlugin"          -- DEF_PLUGIN_MEM_LEAK
def nameSetPointer : String := "SetPointerPlugin"       -- DEF_PLUGIN_SET_POINTER

inductive Printed | help | usage | other
deriving DecidableEq, Repr

structure RunnerTrace where
  rc          : Nat
  outputs     : List OutEv
  verbosity   : Option Nat      -- of the console output, if one was created: 0 quiet, 1 -v, 2 -vv
  color       : Option Bool
  printed     : Printed
  calls       : List RegCall
  ran         : List Nat        -- indices of the probe tests whose body ran, in order
  crashOnFail : Bool            -- `UtestShell::setCrashOnFail()` was called
  rethrow     : Bool            -- `UtestShell::isRethrowingExceptions()` afterwards (static default: false)
deriving DecidableEq, Repr

/-- `parseArguments`: which outputs are created for an accepted configuration -/
def outputsOf (c : Config) : List OutEv :=
  match c.output with
  | .junit => if c.verbose || c.veryVerbose then [.junit c.packageName, .console, .composite] else [.junit c.packageName]
  | .teamcity => [.teamcity]
  | .eclipse => [.console]

def hasConsole (c : Config) : Bool :=
  match c.output with
  | .junit => c.verbose || c.veryVerbose
  | .teamcity => false
  | .eclipse => true

def verbosityOf (c : Config) : Nat := if c.veryVerbose then 2 else if c.verbose then 1 else 0

/-- indices (in registry order) of the tests that count as run or ignored in one `runAllTests` -/
def passing (c : Config) (ps : List ProbeTest) : List Nat :=
  (List.range ps.length).filter fun i =>
    match ps[i]? with
    | some p => selects c p.group p.name
    | none => false

/-- indices of the tests whose body runs in one `runAllTests`, in registry order -/
def bodiesRun (c : Config) (ps : List ProbeTest) : List Nat :=
  (List.range ps.length).filter fun i =>
    match ps[i]? with
    | some p => selects c p.group p.name && (!p.ignored || c.runIgnored)
    | none => false

def oneRun (c : Config) (ps : List ProbeTest) : List Nat :=
  if c.reversing then (bodiesRun c ps).reverse else bodiesRun c ps

def loopCalls (c : Config) : Nat → List RegCall
  | 0 => []
  | n + 1 => (if c.shuffling then [.shuffle c.shuffleSeed, .runAll] else [.runAll]) ++ loopCalls c n

def loopRan (c : Config) (ps : List ProbeTest) : Nat → List Nat
  | 0 => []
  | n + 1 => oneRun c ps ++ loopRan c ps n

def initCalls (c : Config) : List RegCall := if c.separateProcess then [.separateProcess] else []

/-- `runAllTestsMain` for the outcome of `parse`: `SetPointerPlugin` is installed before the
    arguments are parsed and removed before returning, whatever happens in between -/
def runner (ps : List ProbeTest) : ParseResult → RunnerTrace
  | .reject c =>
    { rc := 1, outputs := [.console], verbosity := some 0, color := some false,
      printed := if c.needHelp then .help else .usage,
      calls := [.install nameSetPointer, .remove nameSetPointer], ran := [],
      crashOnFail := false, rethrow := false }
  | .ok c =>
    { rc := if c.listGroups || c.listNames || c.listLocations then 0
            else if (passing c ps).isEmpty then c.repeatCount else 0,
      outputs := outputsOf c,
      verbosity := if hasConsole c then some (verbosityOf c) else none,
      color := if hasConsole c then some c.color else none,
      printed := .other,
      calls := [.install nameSetPointer] ++ initCalls c ++
        (if c.listGroups then [.listGroups]
         else if c.listNames then [.listNames]
         else if c.listLocations then [.listLocations]
         else (if c.reversing then [.reverse] else []) ++ loopCalls c c.repeatCount) ++ [.remove nameSetPointer],
      ran := if c.listGroups || c.listNames || c.listLocations then [] else loopRan c ps c.repeatCount,
      crashOnFail := c.crashOnFail, rethrow := c.rethrow }

/-! ## the plugins' `parseArguments`

`TestPlugin::parseArguments` (include/CppUTest/TestPlugin.h) returns false; `SetPointerPlugin`,
`MemoryLeakWarningPlugin` and `MockSupportPlugin` do not override it.  The only override in the
tree is `MemoryReporterPlugin::parseArguments` (src/CppUTestExt/MemoryReporterPlugin.cpp):
`argument.contains("-pmemoryreport=")`. -/

/-- `TestPlugin::parseArguments`: the default says no -/
def defaultParseArguments : Bytes → Bool := fun _ => false

def litMemoryReport : Bytes :=
  [45, 112, 109, 101, 109, 111, 114, 121, 114, 101, 112, 111, 114, 116, 61]       -- -pmemoryreport=

/-- `MemoryReporterPlugin::parseArguments` -/
def memoryReporterParseArguments : Bytes → Bool := fun a => isInfix a litMemoryReport

/-- the chain `CommandLineTestRunner::runAllTestsMain` hands to `parse`: `SetPointerPlugin` is
    installed in front of whatever the registry holds -/
def runnerChain (registryPlugins : List (Bytes → Bool)) : List (Bytes → Bool) :=
  defaultParseArguments :: registryPlugins

/-- the chain under the static `CommandLineTestRunner::RunAllTests`: `MemoryLeakWarningPlugin`
    is installed first, then `runAllTestsMain` adds `SetPointerPlugin` -/
def runAllTestsChain (registryPlugins : List (Bytes → Bool)) : List (Bytes → Bool) :=
  defaultParseArguments :: defaultParseArguments :: registryPlugins

/-! ## `CommandLineTestRunner::RunAllTests(ac, av)` — the glue around the run

```
MemoryLeakWarningPlugin memLeakWarn(DEF_PLUGIN_MEM_LEAK);  …installPlugin(&memLeakWarn);
{ CommandLineTestRunner runner(ac, av, registry); result = runner.runAllTestsMain(); }
if (result == 0) backupOutput << memLeakWarn.FinalReport(0);
…removePluginByName(DEF_PLUGIN_MEM_LEAK); return result;
```
and `runAllTestsMain` installs `SetPointerPlugin` before parsing and removes it afterwards.
Plugins are names here (`installPlugin` = cons; `removePluginByName` = erase). -/

structure GlueTrace where
  rc           : Nat
  calls        : List RegCall     -- calls made to the registry, in order
  pluginsAfter : List String      -- names of the plugins in the registry when `RunAllTests` returns, head first
  run          : RunnerTrace      -- what `runAllTestsMain` did
deriving Repr

/-- `TestRegistry::removePluginByName` on names -/
def removePlugin (name : String) (ps : List String) : List String := ps.filter (· != name)

/-- names of the plugins in the registry while the arguments are parsed and the tests run -/
def pluginsDuring (registryPlugins : List String) : List String :=
  nameSetPointer :: nameMemLeak :: registryPlugins

def runAllTestsGlue (ps : List ProbeTest) (registryPlugins : List String) (r : ParseResult) : GlueTrace :=
  { rc := (runner ps r).rc,
    calls := [.install nameMemLeak] ++ (runner ps r).calls ++ [.remove nameMemLeak],
    pluginsAfter := removePlugin nameMemLeak (removePlugin nameSetPointer (pluginsDuring registryPlugins)),
    run := runner ps r }

/-! ## what the created outputs show of the configuration

`runAllTests` prints the shuffle seed once before the loop and `printTestRun(i, n)` at every repetition
(`TestOutput::printTestRun`: only when `n > 1`); `createJUnitOutput(packageName)` hands the `-k` package to the
JUnit writer, which puts it into every file name (`JUnitTestOutput::createFileName`, model and constants of C16:
`JUnit.createFileName`); `createTeamCityOutput` makes the TeamCity writer, a console output that prints service
messages. -/

def listing (c : Config) : Bool := c.listGroups || c.listNames || c.listLocations

/-- a console-like output exists in the REAL runner (`ConsoleTestOutput`, or `TeamCityTestOutput` which derives from
    it, or the console half of the composite) — `JUnitTestOutput::printBuffer` drops everything -/
def printsToStdout (c : Config) : Bool :=
  match c.output with
  | .junit => c.verbose || c.veryVerbose
  | .teamcity => true
  | .eclipse => true

/-- the number printed after "Test order shuffling enabled with seed: ", if that line is printed on an output that
    shows text (`shows` = `hasConsole` for the recording runner, `printsToStdout` for the real one) -/
def seedLine (c : Config) (shows : Bool) : Option Nat :=
  if c.shuffling && !listing c && shows then some c.shuffleSeed else none

/-- the `(i, n)` of every "Test run i of n" line -/
def runHeadersFrom (n : Nat) : Nat → Nat → List (Nat × Nat)
  | _, 0 => []
  | i, k + 1 => (i, n) :: runHeadersFrom n (i + 1) k

def runHeaders (c : Config) (shows : Bool) : List (Nat × Nat) :=
  if !listing c && shows && c.repeatCount > 1 then runHeadersFrom c.repeatCount 1 c.repeatCount else []

/-- lexicographic order on byte strings (unsigned bytes), as `std::string::compare` -/
def bytesLt : Bytes → Bytes → Bool
  | [], [] => false
  | [], _ :: _ => true
  | _ :: _, [] => false
  | x :: xs, y :: ys => if x < y then true else if y < x then false else bytesLt xs ys

def insertBytes (x : Bytes) : List Bytes → List Bytes
  | [] => [x]
  | y :: ys => if x == y then y :: ys else if bytesLt x y then x :: y :: ys else y :: insertBytes x ys

/-- sorted, without duplicates -/
def sortUniqueBytes (l : List Bytes) : List Bytes := l.foldr insertBytes []

/-- group blocks of the registry in run order (`TestRegistry::runAllTests`: group start/end events do not depend on
    the filters); the JUnit writer learns the group name when a test of the block STARTS (`printCurrentTestStarted`,
    also for ignored tests), so a block without a selected test is written under the empty name.
    `cur` = group of the current block and whether one of its tests was selected so far. -/
def blockNames (c : Config) : Option (Bytes × Bool) → List ProbeTest → List Bytes
  | none, [] => []
  | some (g, any), [] => [if any then g else []]
  | none, p :: ps => blockNames c (some (p.group, selects c p.group p.name)) ps
  | some (g, any), p :: ps =>
    if p.group == g then blockNames c (some (g, any || selects c p.group p.name)) ps
    else (if any then g else []) :: blockNames c (some (p.group, selects c p.group p.name)) ps

/-- groups that have a selected test -/
def selectedGroups (c : Config) (ps : List ProbeTest) : List Bytes :=
  (ps.filter fun p => selects c p.group p.name).map (·.group)

/-- names of the files the JUnit writer opens over one or more runs of the registry, each carrying the `-k`
    package name; sorted, unique.  When the order is shuffled the blocks are `rand()`'s business: only the files of
    groups with a selected test are listed (the harness drops the empty-name files in that case). -/
def junitFiles (c : Config) (ps : List ProbeTest) : List Bytes :=
  if c.output == .junit && !listing c && c.repeatCount > 0
  then sortUniqueBytes ((if c.shuffling then selectedGroups c ps else blockNames c none ps).map
         (JUnit.createFileName c.packageName))
  else []

/-- TeamCity service messages appear iff the TeamCity writer was created and the registry was run -/
def teamcityMessages (c : Config) : Bool := c.output == .teamcity && !listing c && c.repeatCount > 0

/-! ### `MemoryReporterPlugin::parseArguments`: `-pmemoryreport=<type>` -/

inductive MemFormatter | normal | code | none
deriving DecidableEq, Repr

/-- `argument.replace("-pmemoryreport=", "")` -/
def memFormatterType (a : Bytes) : Bytes := replaceAll a litMemoryReport []

/-- `createMemoryFormatter(type)` -/
def memFormatterKind (ty : Bytes) : MemFormatter :=
  if ty == [110, 111, 114, 109, 97, 108] then .normal          -- normal
  else if ty == [99, 111, 100, 101] then .code                  -- code
  else .none

end CommandLine
