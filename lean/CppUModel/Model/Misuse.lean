import CppUModel.Model.LeakDetector
import CppUModel.Gen.MisuseCode
/-!
C06: the misuse path of the detector EXECUTED FROM THE REGENERATED DESCRIPTION of the source
(`Gen/MisuseCode.lean`, written by `translate/extract_misuse.py` on every run):

* `checkGen`      interprets the if / else-if chain of `MemoryLeakDetector::checkForCorruption`,
* `deallocGen`    interprets the statement list of `MemoryLeakDetector::deallocMemory` (incl. the
                  `hasBeenDestroyed()` guard, which the hand model `LeakDetector.dealloc` does not have),
* `invalidateGen` interprets `MemoryLeakDetector::invalidateMemory`,
* `failText`      builds the text handed to `MemoryLeakFailure::fail` from the regenerated message strings,
                  the statement order of `reportFailure` and the two regenerated printf formats,
* the allocator objects the library creates itself: the three default allocators, `NullUnknownAllocator`,
  `CrashOnAllocationAllocator`, and the forwarding of `MemoryLeakAllocator::alloc_memory / free_memory`.

`Props/C06.lean` proves that these interpreters EQUAL the hand model the C06 theorems are stated about, so an
edit of the source that changes one of the lists breaks a proof obligation.  Core Lean only.
-/
namespace LeakDetector.Misuse
open LeakDetector Gen.Misuse

/-! ## the categories, as the property names them -/

/-- first line of the text of each category -/
def categoryLine : FailKind → String
  | .nonAllocated => "Deallocating non-allocated memory\n"
  | .mismatch => "Allocation/deallocation type mismatch\n"
  | .corruption => "Memory corruption (written out of bounds?)\n"

/-- the category a first line stands for -/
def kindOfMessage (m : String) : Option FailKind :=
  if m == categoryLine .nonAllocated then some .nonAllocated
  else if m == categoryLine .mismatch then some .mismatch
  else if m == categoryLine .corruption then some .corruption
  else none

def reportFn (fn : String) : Option ReportFn := reportFns.find? (fun r => r.name == fn)

/-! ## allocator objects created by the library (names regenerated) -/

def plainOf (id : Nat) (names : String × String × String) : Allocator := .plain id names.1 names.2.1 names.2.2

/-- `NullUnknownAllocator::defaultAllocator()` with the regenerated name strings -/
def nullUnknownGen : Allocator := plainOf 0 nullUnknownNames

/-- `defaultNewAllocator()`, `defaultNewArrayAllocator()`, `defaultMallocAllocator()` (identities 0, 1, 2 as in the harness registry) -/
def defaultNew : Allocator := plainOf 0 defaultNewNames
def defaultNewArray : Allocator := plainOf 1 defaultNewArrayNames
def defaultMalloc : Allocator := plainOf 2 defaultMallocNames

/-- a `CrashOnAllocationAllocator` object: the base class default names -/
def crashAllocator (id : Nat) : Allocator := plainOf id genericNames

/-! ## `checkForCorruption` from the regenerated chain -/

/-- `outputBuffer_.<fn>(node, file, line, freeAllocator, reporter_)` -/
def reportEv (fn : String) (n : Option Node) (file : String) (line : Nat) (freeA : Allocator) : List Ev :=
  match reportFn fn with
  | none => []
  | some r =>
    match kindOfMessage r.message with
    | none => []
    | some k =>
      if r.allocFromNode then
        match n with
        | some n => [.fail k n.file n.line n.size n.allocator.allocName file line freeA.freeName]
        | none => []
      else [.fail k "<unknown>" 0 0 nullUnknownGen.allocName file line freeA.freeName]

def condHolds (tc : Bool) (n : Node) (a : Allocator) (sep : Bool) : CondAtom → Bool
  | .matching => matching tc n.allocator a
  | .validGuard => validGuard n
  | .separate => sep

def actEvs (n : Node) (file : String) (line : Nat) (a : Allocator) : Act → List Ev
  | .report fn actual => reportEv fn (some n) file line (if actual then a.actual else a)
  | .freeNode => [.nfree n.sepNode]

/-- an if / else-if chain: the first branch whose condition holds is taken -/
def runChain (tc : Bool) (n : Node) (file : String) (line : Nat) (a : Allocator) (sep : Bool) : List Branch → List Ev
  | [] => []
  | b :: rest =>
    if (condHolds tc n a sep b.atom != b.negated) then actEvs n file line a b.act
    else runChain tc n file line a sep rest

/-- `checkForCorruption(node, file, line, allocator, allocateNodesSeperately)` as the source has it at check time -/
def checkGen (tc : Bool) (n : Node) (file : String) (line : Nat) (a : Allocator) (sep : Bool) : List Ev :=
  runChain tc n file line a sep checkChain

/-! ## `deallocMemory` from the regenerated statement list -/

/-- the locals of `deallocMemory` while it runs -/
structure DM where
  st       : State
  node     : Option Node := none
  size     : Option Nat := none
  evs      : List Ev := []
  returned : Bool := false

def bodyStep (a : Allocator) (addr : Nat) (file : String) (line : Nat) (sep : Bool) (m : DM) : DBody → DM
  | .readSize => { m with size := m.node.map (·.size) }
  | .check =>
    match m.node with
    | some n => { m with evs := m.evs ++ checkGen m.st.typeChecking n file line a sep }
    | none => m
  | .freeMemory =>
    match m.node with
    | some n => { m with evs := m.evs ++ [.ufree a addr (m.size.getD 0) n.user] }
    | none => m

def stmtStep (destroyed : Bool) (a : Allocator) (addr : Nat) (file : String) (line : Nat) (sep : Bool) (m : DM) (st : DStmt) : DM :=
  if m.returned then m
  else
    match st with
    | .returnIfNull => if addr = 0 then { m with returned := true } else m
    | .removeNode =>
      match m.st.table.retrieveNode addr with
      | some n => { m with node := some n, st := { m.st with table := m.st.table.unlinkNode addr } }
      | none => { m with node := none }
    | .ifMissingReportReturn fn actual =>
      match m.node with
      | none => { m with evs := m.evs ++ reportEv fn none file line (if actual then a.actual else a), returned := true }
      | some _ => m
    | .ifDestroyedIs v body => if destroyed == v then body.foldl (bodyStep a addr file line sep) m else m

/-- `deallocMemory(allocator, memory, file, line, allocatNodesSeperately)` as the source has it at check time;
    `destroyed` is what `allocator->hasBeenDestroyed()` answers -/
def deallocGen (destroyed : Bool) (s : State) (a : Allocator) (addr : Nat) (file : String) (line : Nat) (sep : Bool) :
    State × List Ev :=
  ((deallocStmts.foldl (stmtStep destroyed a addr file line sep) { st := s }).st,
   (deallocStmts.foldl (stmtStep destroyed a addr file line sep) { st := s }).evs)

/-! ## `invalidateMemory` from the regenerated fill byte and length -/

def poisonLen (n : Node) : Nat := (Int.ofNat n.size + invalidateLenDelta).toNat

def poisonGen (n : Node) : Node :=
  { n with bytes := List.replicate (poisonLen n) invalidateFill ++ n.bytes.drop (poisonLen n) }

def invalidateGen (s : State) (addr : Nat) : State :=
  match s.table.retrieveNode addr with
  | some _ => { s with table := s.table.modifyNode poisonGen addr }
  | none => s

/-! ## type checking switch -/

def enableTypeCheckingGen (s : State) : State := { s with typeChecking := typeCheckingAfterEnable }
def disableTypeCheckingGen (s : State) : State := { s with typeChecking := typeCheckingAfterDisable }

/-! ## the text handed to the reporter -/

/-- `(int) x` of a `size_t` (LP64, two's complement) -/
def toInt32 (x : Nat) : Int := if x % 2 ^ 32 < 2 ^ 31 then Int.ofNat (x % 2 ^ 32) else Int.ofNat (x % 2 ^ 32) - 2 ^ 32

def argText (file : String) (line size : Nat) (allocN freeN : String) : FArg → String
  | .file => file
  | .lineInt => toString (toInt32 line)
  | .sizeULong => toString (size % 2 ^ 64)
  | .allocName => allocN
  | .freeName => freeN

/-- `printf` for the conversions the two location formats use (`%s`, `%d`, `%lu`): each takes the next argument -/
def fmtGo : List Char → List String → List Char
  | [], _ => []
  | '%' :: 'l' :: 'u' :: rest, a :: as => a.toList ++ fmtGo rest as
  | '%' :: 'd' :: rest, a :: as => a.toList ++ fmtGo rest as
  | '%' :: 's' :: rest, a :: as => a.toList ++ fmtGo rest as
  | c :: rest, as => c :: fmtGo rest as

def format (f : String) (args : List String) : String := String.ofList (fmtGo f.toList args)

/-- the message line of a category: the regenerated report function whose message stands for it -/
def messageOf (k : FailKind) : Option String :=
  (reportFns.find? (fun r => kindOfMessage r.message == some k)).map (·.message)

/-- one part of the text per statement of `reportFailure`; nothing after the reporter has been called is seen by it -/
def textParts (msg : String) (af : String) (al asz : Nat) (aty ff : String) (fl : Nat) (fty : String) : List ReportStep → List String
  | [] => []
  | .message :: rest => msg :: textParts msg af al asz aty ff fl fty rest
  | .allocLocation :: rest =>
    format allocLocationFormat (allocLocationArgs.map (argText af al asz aty fty)) :: textParts msg af al asz aty ff fl fty rest
  | .freeLocation :: rest =>
    format freeLocationFormat (freeLocationArgs.map (argText ff fl 0 aty fty)) :: textParts msg af al asz aty ff fl fty rest
  | .fail :: _ => []

/-- the parts (lines) of the text `reporter_->fail` receives for a report event -/
def failLines : Ev → List String
  | .fail k af al asz aty ff fl fty =>
    match messageOf k with
    | some msg => textParts msg af al asz aty ff fl fty reportSteps
    | none => []
  | _ => []

def failText (e : Ev) : String := String.join (failLines e)

/-! ## `MemoryLeakAllocator`: its `alloc_memory` / `free_memory` forward to the global detector -/

def forwarder (name : String) : Option Forwarder := forwarders.find? (fun f => f.name == name)

/-- `MemoryLeakAllocator(orig).free_memory(memory, size, file, line)`; `s` is the state of the global detector -/
def mlaFree (self orig : Allocator) (s : State) (addr : Nat) (file : String) (line : Nat) : State × List Ev :=
  match forwarder "mlaFree" with
  | some f =>
    dealloc s (if f.usesOriginal then orig else self) addr (if f.withLocation then file else "<unknown>")
      (if f.withLocation then line else 0) f.separateNode
  | none => (s, [])

/-- `MemoryLeakAllocator(orig).alloc_memory(size, file, line)` -/
def mlaAlloc (self orig : Allocator) (s : State) (size : Nat) (file : String) (line : Nat) (result : Nat) (fill : UInt8) :
    State × List Ev :=
  match forwarder "mlaAlloc" with
  | some f =>
    alloc s (if f.usesOriginal then orig else self) size (if f.withLocation then file else "<unknown>")
      (if f.withLocation then line else 0) f.separateNode result true fill
  | none => (s, [.ret 0])

/-! ## `NullUnknownAllocator` and `CrashOnAllocationAllocator` as releasing / acquiring objects -/

def isUfree : Ev → Bool
  | .ufree .. => true
  | .ufreeRaw .. => true
  | .nfree _ => true          -- `freeMemoryLeakNode` is `free_memory` too
  | _ => false

def isUalloc : Ev → Bool
  | .ualloc .. => true
  | _ => false

/-- a release THROUGH the `NullUnknownAllocator`: its `free_memory` does nothing, so the underlying allocator never sees the block
    (nor a separately allocated record) -/
def nullRelease (s : State) (addr : Nat) (file : String) (line : Nat) (sep : Bool) : State × List Ev :=
  ((dealloc s nullUnknownGen addr file line sep).1, (dealloc s nullUnknownGen addr file line sep).2.filter (fun e => !isUfree e))

/-- an acquisition THROUGH the `NullUnknownAllocator`: `alloc_memory` answers NULL without asking anybody -/
def nullAcquire (s : State) (size : Nat) (file : String) (line : Nat) (sep : Bool) : State × List Ev :=
  ((alloc s nullUnknownGen size file line sep 0 true 0).1, (alloc s nullUnknownGen size file line sep 0 true 0).2.filter (fun e => !isUalloc e))

/-- `CrashOnAllocationAllocator::alloc_memory`: does `UT_CRASH()` run before the allocation?  `seq` is the global detector's
    current allocation number, `n` the number set with `setNumberToCrashOn` -/
def crashes (seq n : Nat) : Bool :=
  if crashCompare == "==" then seq % 2 ^ 32 == n % 2 ^ 32
  else if crashCompare == "!=" then seq % 2 ^ 32 != n % 2 ^ 32
  else if crashCompare == "<" then seq % 2 ^ 32 < n % 2 ^ 32
  else if crashCompare == "<=" then seq % 2 ^ 32 ≤ n % 2 ^ 32
  else if crashCompare == ">" then seq % 2 ^ 32 > n % 2 ^ 32
  else seq % 2 ^ 32 ≥ n % 2 ^ 32

end LeakDetector.Misuse
