import CppUModel.Model.Mock
import CppUModel.Spec.MockValue
import CppUModel.Gen.MockEquals
/-!
Composition of the C08 matching model with the C09 value model.

The C08 model compares parameter values structurally (`p.val == v` in `Exp.hasInput`).  That is
the code's `MockNamedValue::equals` — regenerated as `Gen.MockEquals.equalsGen` — provided
values are stored in the normal form `paramKey`: all six integer types are stored as the
mathematical integer they denote (`denote?` of C09), everything else as it is.  The driver builds
the typed value (`MVal`) from the scenario text and stores `paramKey` of it; `Props/C08.lean`
proves `equalsGen a b ↔ paramKey a = paramKey b` for integers from C09's `equals_int_iff`.
-/
namespace Mock

/-- normal form of a parameter value for the matching model -/
def paramKey (m : MVal) : Val :=
  match denote? m with
  | some z => .int z
  | none =>
    match m with
    | .bool b => .bool b
    | .str s => .str (cstrContent s)
    | .ptr a => .ptr a
    | .cptr a => .cptr a
    | .mem b => .mem b
    | _ => .mem []          -- doubles, function pointers, custom objects: not generated for C08

end Mock
