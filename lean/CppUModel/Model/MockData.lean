import CppUModel.Model.MockEntry
import CppUModel.Model.MockNamedValueList
/-!
# One `MockNamedValue` object written more than once, and the data store of `MockSupport`
# (`setData` / `setDataObject` / `setDataConstObject` / `getData`, C++ and C interface)

A setter of `MockNamedValue` assigns `type_` and one union member and NOTHING else: `size_` is assigned by
`setMemoryBuffer` only, `comparator_` / `copier_` by the two object setters only — and by those only when a default
repository exists.  `Cell` is therefore the value `equals` and the getters see (`val`, as in `MVal`) plus the three
members that survive a later setter.  `MockSupport::setData` re-writes the value of an existing name IN PLACE
(`retrieveDataFromStore`), so the data store is a `MockNamedValueList` of cells.

Which setter call every `setData` overload makes is read from the REGENERATED `Gen.MockEquals.dataSetters`; the C
functions `set…Data` are followed through C19's REGENERATED `Gen.CMock` (struct member ↦ initialiser ↦ forwarder).
Tied to the code by the `h_c09` ops `dset dget deq dlist dinstall dremove dclear` and `cell`.
-/
namespace Mock

/-- a `MockNamedValue` object: what it holds now, and the members that are not touched by the plain setters -/
structure Cell where
  val : MVal
  size : Nat            -- `size_`
  cmp : Option Nat      -- `comparator_` (identity of the comparator object)
  cop : Option Nat      -- `copier_`

/-- `MockNamedValue(name)`: type "int", 0, `size_(0)`, no comparator, no copier -/
def Cell.fresh : Cell := { val := .int 0, size := 0, cmp := none, cop := none }

/-- any `setValue` overload: type name and union member only -/
def Cell.setPlain (v : MVal) (c : Cell) : Cell := { c with val := v }

/-- `setMemoryBuffer(value, size)`: also `size_` -/
def Cell.setMem (b : Bytes) (c : Cell) : Cell := { c with val := .mem b, size := b.length }

/-- `setObjectPointer` / `setConstObjectPointer`: type and pointer; comparator and copier are looked up ONLY when a default
    repository exists, otherwise the old ones stay (`sem` = behaviour of a comparator object) -/
def Cell.setObject (repo : Option Repo) (sem : Nat → Nat → Nat → Bool) (ty : String) (p : Nat) (c : Cell) : Cell :=
  match repo with
  | none => { c with val := .obj ty p (c.cmp.map sem) }
  | some r => { c with val := .obj ty p ((r.getComparatorForType ty).map sem),
                       cmp := r.getComparatorForType ty, cop := r.getCopierForType ty }

/-- one setter call, as a value token of the harness describes it -/
inductive SetOp where
  | plain (v : MVal)                 -- `setValue(<typed value>)` / `setValue(double, tolerance)`
  | mem (b : Bytes)                  -- `setMemoryBuffer`
  | obj (ty : String) (p : Nat)      -- `setObjectPointer` / `setConstObjectPointer`

def Cell.apply (repo : Option Repo) (sem : Nat → Nat → Nat → Bool) (c : Cell) : SetOp → Cell
  | .plain v => c.setPlain v
  | .mem b => c.setMem b
  | .obj ty p => c.setObject repo sem ty p

/-- a whole history of setter calls on one fresh object (the repository may change in between) -/
def Cell.run (sem : Nat → Nat → Nat → Bool) : Cell → List (Option Repo × SetOp) → Cell
  | c, [] => c
  | c, (repo, op) :: rest => Cell.run sem (c.apply repo sem op) rest

/-! ## the data store -/

abbrev Store := NList Cell

/-- `retrieveDataFromStore(name)` followed by a setter `f` on the value returned: the FIRST value of that name is written
    in place; when there is none a fresh value is appended (`data_.add`) and written -/
def Store.update : Store → Bytes → (Cell → Cell) → Store
  | [], name, f => [(name, f Cell.fresh)]
  | (n, c) :: t, name, f => if simpleStringEq n name then (n, f c) :: t else (n, c) :: Store.update t name f

/-- `getData(name)`: a copy of the first value of that name, `MockNamedValue("")` when there is none -/
def Store.getData (s : Store) (name : Bytes) : Cell :=
  match s.getValueByName name with
  | some c => c
  | none => Cell.fresh

/-- every name in the store is a C string (no NUL inside) -/
def Store.NamesOk (s : Store) : Prop := ∀ x ∈ s, (∀ c ∈ x.1, c ≠ 0)

/-- a history of `setData`-style calls: (name, what the setter does to the value) -/
def Store.run : Store → List (Bytes × (Cell → Cell)) → Store
  | s, [] => s
  | s, (n, f) :: rest => Store.run (s.update n f) rest

/-- the specification of the store: the value of `name` after a history is the fresh value with every write to that name
    applied in order (writes to other names do not matter) -/
def lastWrites (name : Bytes) : Cell → List (Bytes × (Cell → Cell)) → Cell
  | c, [] => c
  | c, (n, f) :: rest => lastWrites name (if n = name then f c else c) rest

/-! ## which setter an entry point of the data API reaches -/

/-- argument list of a data setter -/
inductive DArg where
  | int (k : String) (v : Int)       -- `int` / `unsigned int` (kinds "int", "uint")
  | x (a : XArg)                     -- bool (C: `cint`), double, string, the three pointer kinds
  | obj (ty : String) (p : Nat)      -- `setDataObject`
  | cobj (ty : String) (p : Nat)     -- `setDataConstObject`

def DArg.kind : DArg → String
  | .int k _ => k
  | .x a => a.kind
  | .obj _ _ => "obj"
  | .cobj _ _ => "cobj"

/-- what the setter call `setter` (text as in the source) does to the stored value for the argument list `d`;
    `repo` = the default repository at that moment -/
def dataWrite (repo : Option Repo) (sem : Nat → Nat → Nat → Bool) (setter : String) (d : DArg) : Option (Cell → Cell) :=
  match d with
  | .int k v => if setter == "setValue(value)" then (mkInt k v).map Cell.setPlain else none
  | .x a => (storeX setter a).map Cell.setPlain
  | .obj ty p => if setter == "setObjectPointer(type,value)" then some (Cell.setObject repo sem ty p) else none
  | .cobj ty p => if setter == "setConstObjectPointer(type,value)" then some (Cell.setObject repo sem ty p) else none

/-- C++ method of `MockSupport` for an argument list of kind `k` (overload resolution by the static type) -/
def dataMethod (k : String) : String :=
  if k == "obj" then "setDataObject" else if k == "cobj" then "setDataConstObject" else "setData"

/-- the setter call the C++ method `m` makes for an argument list of kind `k` -/
def dataSetterCpp (m k : String) : Option String := lookup3 Gen.MockEquals.dataSetters m k

/-- name of the C struct member for an argument list of kind `k` -/
def cDataField (k : String) : Option String :=
  if k == "cint" then some "setBoolData" else if k == "int" then some "setIntData" else if k == "uint" then some "setUnsignedIntData"
  else if k == "double" then some "setDoubleData" else if k == "string" then some "setStringData"
  else if k == "ptr" then some "setPointerData" else if k == "cptr" then some "setConstPointerData"
  else if k == "fptr" then some "setFunctionPointerData" else if k == "obj" then some "setDataObject"
  else if k == "cobj" then some "setDataConstObject" else none

/-- what a C data forwarder does with its arguments: the `MockSupport` method called and the converted argument list -/
def cDataApply (body : MockC.Body) (d : DArg) : Option (String × DArg) :=
  match body, d with
  | .void_ .sup m [.param "name" "string", .neZero "value"], .x (.cint v) => some (m, .x (.bool (v != 0)))
  | .void_ .sup m [.param "name" "string", .param "value" "int"], .int "int" v => some (m, .int "int" v)
  | .void_ .sup m [.param "name" "string", .param "value" "uint"], .int "uint" v => some (m, .int "uint" v)
  | .void_ .sup m [.param "name" "string", .param "value" "double"], .x (.dbl v) => some (m, .x (.dbl v))
  | .void_ .sup m [.param "name" "string", .param "value" "string"], .x (.str s) => some (m, .x (.str s))
  | .void_ .sup m [.param "name" "string", .param "value" "ptr"], .x (.ptr a) => some (m, .x (.ptr a))
  | .void_ .sup m [.param "name" "string", .param "value" "cptr"], .x (.cptr a) => some (m, .x (.cptr a))
  | .void_ .sup m [.param "name" "string", .fnCast "value"], .x (.fptr a) => some (m, .x (.fptr a))
  | .void_ .sup m [.param "name" "string", .param "type" "string", .param "value" "ptr"], .obj ty p => some (m, .obj ty p)
  | .void_ .sup m [.param "name" "string", .param "type" "string", .param "value" "cptr"], .cobj ty p => some (m, .cobj ty p)
  | _, _ => none

def cDataForwarder (d : DArg) : Option MockC.Fwd :=
  (cDataField d.kind).bind fun field =>
    (zipLookup Gen.CMock.supportFields Gen.CMock.supportInit field).bind fun fn =>
      Gen.CMock.forwarders.find? fun f => f.name == fn

/-- the write an entry of the data API (`cpp` = `mock().setData…`, `c` = `mock_c()->set…Data`) performs; `none` = no such
    entry or wiring not of the modelled shape -/
def dataEntry (repo : Option Repo) (sem : Nat → Nat → Nat → Bool) (api : String) (d : DArg) : Option (Cell → Cell) :=
  if api == "cpp" then
    (dataSetterCpp (dataMethod d.kind) d.kind).bind fun s => dataWrite repo sem s d
  else if api == "c" then
    ((cDataForwarder d).bind fun f => cDataApply f.body d).bind fun r =>
      if r.1 == dataMethod r.2.kind then (dataSetterCpp r.1 r.2.kind).bind fun s => dataWrite repo sem s r.2 else none
  else none

/-- the table the data API must have -/
def requiredDataSetters : List (String × String × String) :=
  [ ("setData", "bool", "setValue(value)"), ("setData", "uint", "setValue(value)"), ("setData", "int", "setValue(value)"),
    ("setData", "string", "setValue(value)"), ("setData", "double", "setValue(value)"), ("setData", "ptr", "setValue(value)"),
    ("setData", "cptr", "setValue(value)"), ("setData", "fptr", "setValue(value)"),
    ("setDataObject", "obj", "setObjectPointer(type,value)"), ("setDataConstObject", "cobj", "setConstObjectPointer(type,value)") ]

end Mock
