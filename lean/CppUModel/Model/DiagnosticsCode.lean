import CppUModel.Model.Diagnostics
import CppUModel.Gen.DiagnosticsBuffer
import CppUModel.Gen.DiagnosticsFailure
/-!
# Interpreter for the regenerated code of the report builder (C14)

`Gen/DiagnosticsBuffer.lean` holds, regenerated from the clang AST of `src/CppUTest/MemoryLeakDetector.cpp` on every
run, (a) the `SimpleStringBuffer` member functions as functions on the two `size_t` counters with their effects, and
(b) the bodies of `MemoryLeakOutputStringBuffer::{startMemoryLeakReporting, reportMemoryLeak, stopMemoryLeakReporting,
reportFailure, clear}` as statement lists.  This file gives the statement lists their meaning over the buffer model of
`Model/Diagnostics.lean`; `Props/C14.lean` proves that running the regenerated lists IS `OutBuf.start / reportLeak /
stop / reportFailure / clear`, and that the regenerated counter functions ARE `Buf.add / setWriteLimit / …`.
Core Lean only.
-/
namespace Diag.Code
open Fmt Gen.DiagBuf

/-- what the argument expressions of the report builder refer to -/
structure Env where
  leak   : Leak
  misuse : Misuse
deriving Inhabited

/-- interpreter state: the object, the `bool` local of `stopMemoryLeakReporting`, "returned", and the text handed
    to `reporter->fail` -/
structure CS where
  o       : OutBuf
  reached : Bool := false
  done    : Bool := false
  failed  : Option Bytes := none
deriving Inhabited

/-- value of an argument expression -/
def word (env : Env) (o : OutBuf) : Word → Arg
  | .leakNumber => .nat env.leak.number
  | .leakSize => .nat env.leak.size
  | .leakFile => .str env.leak.file
  | .leakLineAsInt => .int (castInt32 env.leak.line)
  | .leakAllocName => .str env.leak.allocName
  | .leakMemory => .str env.leak.ptr
  | .message => .str env.misuse.message
  | .allocFile => .str env.misuse.allocFile
  | .allocLineAsInt => .int (castInt32 env.misuse.allocLine)
  | .allocSize => .nat env.misuse.allocSize
  | .allocAllocName => .str env.misuse.allocName
  | .freeFile => .str env.misuse.freeFile
  | .freeLineAsInt => .int (castInt32 env.misuse.freeLine)
  | .freeFreeName => .str env.misuse.freeName
  | .totalAsInt => .int (castInt32 o.total)
  | .lit b => .str b

/-- a call on `outputBuffer_` -/
def call (env : Env) (o : OutBuf) : Call → OutBuf
  | .add fmt args => { o with buf := o.buf.add (render fmt (args.map (word env o))) }
  | .addMemoryDump => { o with buf := o.buf.addMemoryDump env.leak.content }
  | .setWriteLimit => { o with buf := o.buf.setWriteLimit startLimitArg.toNat }
  | .resetWriteLimit => { o with buf := o.buf.resetWriteLimit }
  | .clear => { o with buf := o.buf.clear }

def evalCond (env : Env) (st : CS) : Cond → Bool
  | .totalIsZero => decide (st.o.total = 0)
  | .mallocWarn => st.o.mallocWarn
  | .reachedFlag => st.reached
  | .allocNameIs s => env.leak.allocName == s

def runSimple (env : Env) (st : CS) : Simple → CS
  | .buf c => { st with o := call env st.o c }
  | .setMallocWarn b => { st with o := { st.o with mallocWarn := b } }
  | .setTotal n => { st with o := { st.o with total := n } }
  | .incTotal => { st with o := { st.o with total := st.o.total + 1 } }
  | .letReached => { st with reached := st.o.buf.reached }
  | .fail => { st with failed := some st.o.buf.text }
  | .ret => { st with done := true }

/-- statements after a `return` are not executed -/
def stepSimple (env : Env) (st : CS) (s : Simple) : CS := if st.done then st else runSimple env st s

def runStmt (env : Env) (st : CS) : Stmt → CS
  | .simple s => stepSimple env st s
  | .ite c t e => if st.done then st else if evalCond env st c then t.foldl (stepSimple env) st else e.foldl (stepSimple env) st

/-- a member function body run on the object `o` -/
def run (env : Env) (o : OutBuf) (body : List Stmt) : CS := body.foldl (runStmt env) { o := o }

end Diag.Code

/-! ## the scan loops with a regenerated condition -/
namespace Diag.Code
open Diag

/-- `for (i = 0; c(A[i], E[i]); i++);` with the loop condition as a parameter (the conditions regenerated from the
    source are in `Gen/DiagnosticsFailure.lean`); reads through `rd`, fuel as in `Diag.scan` -/
def scanBy (c : UInt8 → UInt8 → Bool) : Nat → Bytes → Bytes → Nat → Except Err Nat
  | 0, _, _, _ => .error .oob
  | fuel + 1, A, E, i =>
    match rd A i, rd E i with
    | .ok x, .ok y => if c x y then scanBy c fuel A E (i + 1) else .ok i
    | _, _ => .error .oob

/-- `for (i = 0; c(A[i], E[i], i, size); i++);` of the binary class: the condition is evaluated first on the index
    (`i < size`), the bytes are read only when it holds (C's `&&`) -/
def scanBinBy (inRange : Nat → Nat → Bool) (same : UInt8 → UInt8 → Bool) : Nat → Nat → Bytes → Bytes → Nat → Except Err Nat
  | 0, _, _, _, _ => .error .oob
  | fuel + 1, size, A, E, i =>
    if inRange i size then
      match rd A i, rd E i with
      | .ok x, .ok y => if same x y then scanBinBy inRange same fuel size A E (i + 1) else .ok i
      | _, _ => .error .oob
    else .ok i

/-- the two scans of a string class with the regenerated conditions `cRaw` (raw operands) and `cPrint` (printable
    forms): `Diag.stringScans` with the loop conditions as parameters -/
def stringScansBy (cRaw cPrint : UInt8 → UInt8 → Bool) (expected actual : Bytes) : Except Err (Nat × Nat) :=
  match scanBy cRaw (actual.length + 1) (cstr actual) (cstr expected) 0 with
  | .error e => .error e
  | .ok failStart =>
    match scanBy cPrint ((printable actual).length + 1) (cstr (printable actual)) (cstr (printable expected)) 0 with
    | .error e => .error e
    | .ok failStartPrintable => .ok (failStart, failStartPrintable)

/-- `SimpleString::ToLower` on the machine representation -/
def lowerBV (x : BitVec 8) : BitVec 8 := (toLower (UInt8.ofBitVec x)).toBitVec

/-- the index test of the regenerated binary-scan condition (bytes equal, so only `i < size` decides) -/
def binInRange (i size : Nat) : Bool := Gen.DiagFail.binaryEqualCond 0#8 0#8 (BitVec.ofNat 64 i) (BitVec.ofNat 64 size)
/-- the byte test of the regenerated binary-scan condition (index 0 of a 1-byte array, so only the bytes decide) -/
def binSame (x y : UInt8) : Bool := Gen.DiagFail.binaryEqualCond x.toBitVec y.toBitVec 0#64 1#64

/-- a regenerated string-scan condition on model bytes -/
def condOf (g : (BitVec 8 → BitVec 8) → BitVec 8 → BitVec 8 → Bool) (x y : UInt8) : Bool := g lowerBV x.toBitVec y.toBitVec

end Diag.Code
