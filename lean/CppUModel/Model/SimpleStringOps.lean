import CppUModel.Base.Proto
import CppUModel.Model.SimpleString
/-!
# Operation scripts over `SimpleString` objects (the histories of C13)

A script is a list of `Op`s acting on a store of live objects referred to by labels — the same
operation lines the harness `h_c13` interprets on real objects.  `step` is the model of one
operation: it calls the model functions of `Model/SimpleString.lean` and logs the observation
lines (`val`, `ret`, `buf`, `tok` …) between the allocator events, in program order.
-/
namespace SStr
open CStr

abbrev Store := List (String × Obj)

def Store.get? (st : Store) (l : String) : Option Obj := (st.find? (·.1 == l)).map (·.2)
def Store.has (st : Store) (l : String) : Bool := st.any (·.1 == l)
def Store.put (st : Store) (l : String) (o : Obj) : Store :=
  if st.has l then st.map (fun p => if p.1 == l then (l, o) else p) else st ++ [(l, o)]
def Store.del (st : Store) (l : String) : Store := st.filter (·.1 != l)

/-- what `asCharString()` shows: the bytes before the first NUL -/
def cview (b : Buf) : Buf := b.takeWhile (· != 0)

def out (s : String) : M Unit := emit (.out s)
def outVal (o : Obj) : M Unit := out ("val " ++ Proto.hex (cview o.buf))
def outNat (n : Nat) : M Unit := out (if n = npos then "ret npos" else s!"ret {n}")
def outBool (b : Bool) : M Unit := out (if b then "ret 1" else "ret 0")
def outInt (i : Int) : M Unit := out s!"ret {i}"

inductive Fmt
  | plain                                   -- StringFromFormat and everything that is only that
  | vplain                                  -- VStringFromFormat called directly
  | cstr (h : Buf)                          -- SimpleString(const char*)
  | orNull (h : Option Buf)
  | printableOrNull (h : Option Buf)
  | copyOf (a : String)
  | pointer
  | hexSC (negative : Bool)
  | brackets
  | bracketsSC (negative : Bool)
  | bracketsStr (a : String)
  | binary (n : Nat)
  | binaryOrNull (isNull : Bool) (n : Nat)
  | binarySize (n : Nat)
  | binarySizeOrNull (isNull : Bool) (n : Nat)
  | masked (v m k : Nat)
deriving Repr, Inhabited

/-- one action on a `SimpleStringCollection` inside a `coll` operation -/
inductive CollAct
  | alloc (n : Nat)                 -- col.allocate(n)
  | set (i : Nat) (a : String)      -- col[i] = *a
  | get (i : Nat)                   -- col[i]  (printed)
  | size                            -- col.size()
deriving Repr, Inhabited

inductive Op
  | junk (b : UInt8)
  | new (l : String) (h : Buf)
  | newnull (l : String)
  | rep (l : String) (h : Buf) (k : Nat)
  | copy (l a : String)
  | assign (l a : String)
  | plus (l a b : String)
  | pluseq (l a : String)
  | pluseqc (l : String) (h : Buf)
  | del (l : String)
  | delall
  | eq (a b : String) | ne (a b : String) | eqnc (a b : String)
  | contains (a b : String) | containsnc (a b : String)
  | starts (a b : String) | ends (a b : String) | count (a b : String)
  | find (a : String) (c : UInt8) | findfrom (a : String) (p : Nat) (c : UInt8)
  | at (a : String) (p : Nat) | size (a : String) | isempty (a : String) | cstr (a : String)
  | substr (l a : String) (p n : Nat) | substr1 (l a : String) (p : Nat)
  | fromtill (l a : String) (c1 c2 : UInt8)
  | lower (l a : String) | printable (l a : String)
  | split (a d : String)
  | replc (a : String) (c1 c2 : UInt8) | repl (a : String) (h1 h2 : Buf)
  | pad (a b : String) (c : UInt8)
  | copybuf (a : String) (n : Nat) | copybufnull (a : String) (n : Nat)
  | strlen (h : Buf) | strcmp (h1 h2 : Buf) | strncmp (h1 h2 : Buf) (n : Nat)
  | strncpy (d : Option Buf) (s : Buf) (n : Nat)
  | strstr (h1 h2 : Buf) | memcmp (h1 h2 : Buf) (n : Nat)
  | atoi (h : Buf) | atou (h : Buf) | tolower (c : UInt8)
  | fmt (l : String) (f : Fmt)
  | coll (acts : List CollAct)             -- a collection is constructed, used by `acts`, destroyed
  | selfassignc (l : String)               -- *l = l->asCharString()   (temporary made from the own buffer)
  | selfrepl (l : String) (h : Buf)        -- l->replace(l->asCharString(), h)
  | selfreplw (l : String) (h : Buf)       -- l->replace(h, l->asCharString())
  | skip
deriving Repr, Inhabited

def bad : M Store := liftE (.error .env)

/-- create object `l` from a computation (label must be free) -/
def create (st : Store) (l : String) (m : M Obj) : M Store :=
  if st.has l then bad
  else do
    let o ← m
    outVal o
    pure (st.put l o)

def outTokens : List Obj → Nat → M Unit
  | [], _ => pure ()
  | o :: rest, i => do
    out (s!"tok {i} " ++ Proto.hex (cview o.buf))
    outTokens rest (i + 1)

def delAll : List (String × Obj) → M Unit
  | [] => pure ()
  | p :: rest => do dtor p.2; delAll rest

def runFmt (st : Store) : Fmt → M Obj
  | .plain => stringFromFormat
  | .vplain => vStringFromFormat
  | .cstr h => ctorCStr h 0
  | .orNull h => stringFromOrNull h
  | .printableOrNull h => printableStringFromOrNull h
  | .copyOf a =>
    match st.get? a with
    | some o => ctorCopy o
    | none => liftE (.error .env)
  | .pointer => stringFromPointer
  | .hexSC neg => hexStringFromSignedChar neg
  | .brackets => do
    let h ← stringFromFormat
    let r ← bracketsFormattedHexString h
    dtor h
    pure r
  | .bracketsSC neg => do
    let h ← hexStringFromSignedChar neg
    let r ← bracketsFormattedHexString h
    dtor h
    pure r
  | .bracketsStr a =>
    match st.get? a with
    | some o => do
      let h ← ctorCopy o
      let r ← bracketsFormattedHexString h
      dtor h
      pure r
    | none => liftE (.error .env)
  | .binary n => stringFromBinary n
  | .binaryOrNull isNull n => stringFromBinaryOrNull isNull n
  | .binarySize n => stringFromBinaryWithSize false n
  | .binarySizeOrNull isNull n => stringFromBinaryWithSizeOrNull isNull n
  | .masked v m k => stringFromMaskedBits v m k

/-- the actions of a `coll` operation on a live collection; `none` from the store = unknown label -/
def runColl (st : Store) : List CollAct → Coll → M Coll
  | [], col => pure col
  | .alloc n :: rest, col => do
    let col' ← collAllocate col n
    runColl st rest col'
  | .set i a :: rest, col =>
    match st.get? a with
    | some x => do
      let col' ← collAssign col i x
      runColl st rest col'
    | none => liftE (.error .env)
  | .get i :: rest, col => do
    let r ← collGet col i
    out ("cval " ++ Proto.hex (cview r.2.buf))
    runColl st rest r.1
  | .size :: rest, col => do
    out s!"csize {col.items.length}"
    runColl st rest col

def query2 (st : Store) (a b : String) (f : Obj → Obj → M Unit) : M Store :=
  match st.get? a, st.get? b with
  | some x, some y => do f x y; pure st
  | _, _ => bad

def step (st : Store) : Op → M Store
  | .junk b => fun w => .ok (st, { w with junk := b })
  | .new l h => create st l (ctorCStr h 0)
  | .newnull l => create st l ctorNull
  | .rep l h k => create st l (ctorRepeat h 0 k)
  | .copy l a =>
    match st.get? a with
    | some o => create st l (ctorCopy o)
    | none => bad
  | .assign l a =>
    match st.get? l, st.get? a with
    | some x, some y =>
      if l == a then do outVal x; pure st            -- `this == &other`
      else do
        let r ← assign x y
        outVal r
        pure (st.put l r)
    | _, _ => bad
  | .plus l a b =>
    match st.get? a, st.get? b with
    | some x, some y => create st l (plus x y)
    | _, _ => bad
  | .pluseq l a =>
    match st.get? l, st.get? a with
    | some x, some y => do
      let r ← appendC x y.buf 0
      outVal r
      pure (st.put l r)
    | _, _ => bad
  | .pluseqc l h =>
    match st.get? l with
    | some x => do
      let r ← appendC x h 0
      outVal r
      pure (st.put l r)
    | none => bad
  | .del l =>
    match st.get? l with
    | some x => do dtor x; pure (st.del l)
    | none => bad
  | .delall => do
    delAll (st.mergeSort (fun a b => decide (a.1 ≤ b.1)))
    pure []
  | .eq a b => query2 st a b fun x y => do let r ← liftE (equals x y); outBool r
  | .ne a b => query2 st a b fun x y => do let r ← liftE (equals x y); outBool (!r)
  | .eqnc a b => query2 st a b fun x y => do let r ← equalsNoCase x y; outBool r
  | .contains a b => query2 st a b fun x y => do let r ← liftE (contains x y); outBool r
  | .containsnc a b => query2 st a b fun x y => do let r ← containsNoCase x y; outBool r
  | .starts a b => query2 st a b fun x y => do let r ← liftE (startsWith x y); outBool r
  | .ends a b => query2 st a b fun x y => do let r ← liftE (endsWith x y); outBool r
  | .count a b => query2 st a b fun x y => do let r ← liftE (count x y); outNat r
  | .find a c =>
    match st.get? a with
    | some x => do let r ← liftE (find x c); outNat r; pure st
    | none => bad
  | .findfrom a p c =>
    match st.get? a with
    | some x => do let r ← liftE (findFrom x p c); outNat r; pure st
    | none => bad
  | .at a p =>
    match st.get? a with
    | some x => do let r ← liftE (at_ x p); out ("ret " ++ Proto.hex [r]); pure st
    | none => bad
  | .size a =>
    match st.get? a with
    | some x => do let r ← liftE (size x); outNat r; pure st
    | none => bad
  | .isempty a =>
    match st.get? a with
    | some x => do let r ← liftE (size x); outBool (r == 0); pure st
    | none => bad
  | .cstr a =>
    match st.get? a with
    | some x => do outVal x; pure st
    | none => bad
  | .substr l a p n =>
    match st.get? a with
    | some x => create st l (subString x p n)
    | none => bad
  | .substr1 l a p =>
    match st.get? a with
    | some x => create st l (subString1 x p)
    | none => bad
  | .fromtill l a c1 c2 =>
    match st.get? a with
    | some x => create st l (subStringFromTill x c1 c2)
    | none => bad
  | .lower l a =>
    match st.get? a with
    | some x => create st l (lowerCase x)
    | none => bad
  | .printable l a =>
    match st.get? a with
    | some x => create st l (printable x)
    | none => bad
  | .split a d =>
    query2 st a d fun x y => do
      let col ← collCtor
      let col ← split x y col
      outTokens col.items 0
      out s!"ntok {col.items.length}"
      let r ← collGet col col.items.length
      out ("oobtok " ++ Proto.hex (cview r.2.buf))
      collDtor r.1
  | .replc a c1 c2 =>
    match st.get? a with
    | some x => do
      let r ← liftE (replaceChar x c1 c2)
      outVal r
      pure (st.put a r)
    | none => bad
  | .repl a h1 h2 =>
    match st.get? a with
    | some x => do
      let r ← replaceStr x h1 0 h2 0
      outVal r
      pure (st.put a r)
    | none => bad
  | .pad a b c =>
    match st.get? a, st.get? b with
    | some x, some y =>
      if a == b then do
        -- both references name the same object: sizes are equal, `str1 = SimpleString(pad, 0) + str1`
        let r ← padFirst x 0 c
        outVal r; outVal r
        pure (st.put a r)
      else do
        let r ← padStringsToSameLength x y c
        outVal r.1; outVal r.2
        pure ((st.put a r.1).put b r.2)
    | _, _ => bad
  | .copybuf a n =>
    match st.get? a with
    | some x => do
      let r ← liftE (copyToBuffer x (some (List.replicate n 0xEE)) n)
      out ("buf " ++ Proto.hex (r.getD []))
      pure st
    | none => bad
  | .copybufnull a n =>
    match st.get? a with
    | some x => do
      let _ ← liftE (copyToBuffer x none n)
      out "buf null"
      pure st
    | none => bad
  | .strlen h => do let r ← liftE (StrLen h 0); outNat r; pure st
  | .strcmp h1 h2 => do let r ← liftE (StrCmp h1 0 h2 0); outInt r; pure st
  | .strncmp h1 h2 n => do let r ← liftE (StrNCmp h1 0 h2 0 n); outInt r; pure st
  | .strncpy d s n =>
    match d with
    | none => do out "ret null"; pure st
    | some d => do let r ← liftE (StrNCpy d 0 s 0 n); out ("buf " ++ Proto.hex r); pure st
  | .strstr h1 h2 => do
    let r ← liftE (StrStr h1 0 h2 0)
    out (match r with | some i => s!"ret {i}" | none => "ret null")
    pure st
  | .memcmp h1 h2 n => do let r ← liftE (MemCmp h1 0 h2 0 n); outInt r; pure st
  | .atoi h => do let r ← liftE (AtoI h 0); outInt r; pure st
  | .atou h => do let r ← liftE (AtoU h 0); outNat r; pure st
  | .tolower c => do out ("ret " ++ Proto.hex [ToLower c]); pure st
  | .fmt l f => create st l (runFmt st f)
  | .coll acts => do
    let col ← collCtor
    let col ← runColl st acts col
    collDtor col
    pure st
  | .selfassignc l =>
    match st.get? l with
    | some x => do
      let t ← ctorCStr x.buf 0
      let r ← assign x t
      dtor t
      outVal r
      pure (st.put l r)
    | none => bad
  | .selfrepl l h =>
    match st.get? l with
    | some x => do
      let r ← replaceStr x x.buf 0 h 0
      outVal r
      pure (st.put l r)
    | none => bad
  | .selfreplw l h =>
    match st.get? l with
    | some x => do
      let r ← replaceStr x h 0 x.buf 0
      outVal r
      pure (st.put l r)
    | none => bad
  | .skip => pure st

end SStr
