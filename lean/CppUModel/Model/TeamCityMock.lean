import CppUModel.Model.OutputEvents
/-!
# Failures found by the mock plugin's post-test action (C20)

`MockSupportPlugin::postTestAction(test, result)` (src/CppUTestExt/MockSupportPlugin.cpp) installs a
`MockSupportPluginReporter(test, result)` and, when `!test.hasFailed()`, calls `mock().checkExpectations()`.
An expectation the test left unfulfilled (and never checked itself) becomes a
`MockExpectedCallsDidntHappenFailure(activeReporter_->getTestToFail(), expectations)` — a `TestFailure(test, message)`
(the constructor without a location) whose message is replaced — handed to `reporter.failTest` = `result_.addFailure`.

At that moment `UtestShell::runOneTestInCurrentProcess` has ALREADY put the saved current test back
(`UtestShell::setCurrentTest(savedTest)` precedes `runAllPostTestAction`): `UtestShell::getCurrent()` is NOT the test
the plugin was called for (at top level it is the "outside test runner" placeholder).  The reporter therefore takes the
test from the plugin's own argument (`getTestToFail() { return &test_; }`); this is what `testToFail` writes down.

Scenario of the harness (`mockleft <name>`): the body starts with `mock().expectOneCall(name)` (which counts one check
on the running test) and never calls the function.  Core Lean only.
-/
namespace TeamCityMock
open OutEv
open Text (Bytes)

/-- `message_` of `MockExpectedCallsDidntHappenFailure` for ONE unfulfilled expectation of a function without
    parameters (`addExpectationsAndCallHistory`, `MockCheckedExpectedCall::callToString`) -/
def mockMessage (name : Bytes) : Bytes :=
  lit "Mock Failure: Expected call WAS NOT fulfilled.\n\tEXPECTED calls that WERE NOT fulfilled:\n\t\t" ++ name ++
  lit " -> no parameters (expected 1 call, called 0 times)\n\tEXPECTED calls that WERE fulfilled:\n\t\t<none>"

/-- what `MockSupportPlugin::postTestAction(test, result)` can see -/
structure PostCall where
  test      : TestInfo      -- its argument `test`
  current   : TestInfo      -- `UtestShell::getCurrent()` at that moment: already the saved one, not `test`
  hasFailed : Bool          -- `test.hasFailed()`
deriving Repr, DecidableEq, Inhabited

/-- `MockSupportPluginReporter::getTestToFail`: `return &test_;` (the plugin's own reference, not the current test) -/
def testToFail (c : PostCall) : TestInfo := c.test

/-- the callbacks the output receives from `MockSupportPlugin::postTestAction`; `left` = the function the test
    expected and never called -/
def postTestAction (c : PostCall) (left : Option Bytes) : List Ev :=
  match left with
  | none => []
  | some name => if c.hasFailed then [] else [.failure (msgFailure (testToFail c) (mockMessage name))]

/-- `UtestShell::hasFailed()` after the body: set by `UtestShell::addFailure`, i.e. by the body's own failures only
    (a plugin's `result.addFailure` does not set it) -/
def bodyHasFailed (acts : List Act) : Bool := actFailures acts != 0

/-- the scripted test with the mock scenario folded in: the body starts with `expectOneCall` (one check); the mock
    plugin is installed last, so its post-test action runs after the scripted plugin's -/
def withMock (left : Option Bytes) (s : Script) : Script :=
  match left with
  | none => s
  | some name =>
    if bodyHasFailed s.acts then { s with acts := .checks 1 :: s.acts }
    else { s with acts := .checks 1 :: (s.acts ++ [.postFail (mockMessage name)]) }

/-- `mocks`: (index of the test in definition order, function name), the first entry for an index counts -/
def applyMocks (scripts : List Script) (mocks : List (Nat × Bytes)) : List Script :=
  (scripts.zip (List.range scripts.length)).map fun p => withMock (mocks.lookup p.2) p.1

end TeamCityMock
