import CppUModel.Spec.Text
/-!
# Remaining textbook definitions for the string operations (C13)

Continues `Spec/Text.lean` (DESIGN.md appendix A).  Byte strings are `List UInt8` without
terminator.  Nothing here mentions buffers, offsets or loops over memory: these are the plain
list definitions the bounded-buffer model of `SimpleString.cpp` is proved equal to, and the
definitions the driver's specification oracle evaluates on the implementation's operands.
-/
namespace TextExt
open Text

/-- no NUL byte inside: what a C string can hold -/
def NulFree (a : Bytes) : Prop := ∀ c ∈ a, c ≠ 0

instance (a : Bytes) : Decidable (NulFree a) := by unfold NulFree; infer_instance

/-- the C view of a byte operand: everything before the first NUL -/
def cut (a : Bytes) : Bytes := a.takeWhile (· != 0)

/-- the NUL-terminated image -/
def cz (a : Bytes) : Bytes := a ++ [0]

/-- `StrStr`: least `i` with `b` a prefix of `a.drop i` (`b = []` ↦ 0) -/
def strStr : Bytes → Bytes → Option Nat
  | [], b => if b.isEmpty then some 0 else none
  | a@(_ :: t), b => if b.isPrefixOf a then some 0 else (strStr t b).map (· + 1)

/-- `MemCmp`: difference at the first differing index `< n` -/
def memCmp : Nat → Bytes → Bytes → Int
  | 0, _, _ => 0
  | n + 1, x :: xs, y :: ys => if x = y then memCmp n xs ys else (x.toNat : Int) - (y.toNat : Int)
  | _ + 1, _, _ => 0

/-- `StrNCpy dst src n`: `(cz src).take n` over the front of `dst`, nothing else touched -/
def strNCpy (dst src : Bytes) (n : Nat) : Bytes :=
  (cz src).take n ++ dst.drop (min n (src.length + 1))

/-- `SimpleString(s, k)`: `s` repeated `k` times -/
def repeatStr (a : Bytes) (k : Nat) : Bytes := (List.replicate k a).flatten

/-! ### numbers -/

def isBlank (c : UInt8) : Bool := c == 32 || (9 ≤ c && c ≤ 13)
def isDigit (c : UInt8) : Bool := 48 ≤ c && c ≤ 57

/-- value of a decimal digit string (most significant first), on top of `acc` -/
def digitsVal (acc : Nat) (ds : Bytes) : Nat := ds.foldl (fun r d => r * 10 + (d.toNat - 48)) acc

/-- leading decimal digits of `a` as a number -/
def leadingNumber (a : Bytes) : Nat := digitsVal 0 (a.takeWhile isDigit)

/-- `AtoU`: blanks, then digits (a sign gives 0); value mod 2^32 -/
def atou (a : Bytes) : Nat := leadingNumber (a.dropWhile isBlank) % 4294967296

/-- `AtoI`: blanks, one optional sign, digits (as a mathematical integer) -/
def atoi (a : Bytes) : Int :=
  match a.dropWhile isBlank with
  | 45 :: r => - (leadingNumber r : Int)
  | 43 :: r => (leadingNumber r : Int)
  | s => (leadingNumber s : Int)

/-- the magnitude `AtoI` accumulates (must fit `int`) -/
def atoiMagnitude (a : Bytes) : Nat :=
  match a.dropWhile isBlank with
  | 45 :: r => leadingNumber r
  | 43 :: r => leadingNumber r
  | s => leadingNumber s

/-- decimal digits of a natural number -/
def dec (n : Nat) : Bytes := (Nat.toDigits 10 n).map fun c => UInt8.ofNat c.toNat
def decInt (i : Int) : Bytes := if i < 0 then 45 :: dec i.natAbs else dec i.toNat
/-- lower-case hexadecimal digits (`%x`) -/
def hexLower (n : Nat) : Bytes := (Nat.toDigits 16 n).map fun c => UInt8.ofNat c.toNat

/-! ### printable -/

def hexDigitUpper (n : Nat) : UInt8 := if n < 10 then UInt8.ofNat (48 + n) else UInt8.ofNat (55 + n)
/-- two upper-case hex digits of a byte (`%02X`) -/
def hex2 (c : UInt8) : Bytes := [hexDigitUpper (c.toNat / 16), hexDigitUpper (c.toNat % 16)]

/-- second character of the C escapes `\a \b \t \n \v \f \r` (bytes 7 … 13) -/
def shortEscapeLetter (c : UInt8) : UInt8 :=
  match c.toNat with
  | 7 => 97 | 8 => 98 | 9 => 116 | 10 => 110 | 11 => 118 | 12 => 102 | _ => 114

def printableByte (c : UInt8) : Bytes :=
  if 7 ≤ c ∧ c ≤ 13 then [92, shortEscapeLetter c]
  else if c < 32 ∨ c = 127 ∨ 128 ≤ c then [92, 120] ++ hex2 c
  else [c]

/-- `printable()`: C escapes for 7…13, `\xHH` for the other control bytes, 0x7F and (signed
    `char`) bytes ≥ 0x80, everything else unchanged -/
def printable (a : Bytes) : Bytes := a.flatMap printableByte

/-! ### padding, copy-out -/

/-- `k` copies of the pad character in front (a NUL pad character pads nothing) -/
def padLeft (k : Nat) (c : UInt8) (a : Bytes) : Bytes := (if c = 0 then [] else List.replicate k c) ++ a

/-- `padStringsToSameLength`: the shorter one is left-padded to the other's length -/
def padToSameLength (s t : Bytes) (c : UInt8) : Bytes × Bytes :=
  if s.length > t.length then (s, padLeft (s.length - t.length) c t)
  else (padLeft (t.length - s.length) c s, t)

/-- `copyToBuffer(buf, n)` with `n = old.length`: `cz (a.take (n-1))` over the front, nothing beyond -/
def copyOut (a old : Bytes) : Bytes :=
  if old.isEmpty then old
  else a.take (old.length - 1) ++ [0] ++ old.drop (min (old.length - 1) a.length + 1)

/-! ### split, stated through first occurrences, with its corner cases as the code has them -/

/-- how far the scan advances past an occurrence that starts at the scan position: the
    delimiter's length, one byte for the empty delimiter -/
def delimStep (d : Bytes) : Nat := if d.length ≠ 0 then d.length else 1

/-- scan left to right for non-overlapping occurrences of `d` (`strStr` = first occurrence):
    the tokens, each ending with its delimiter, and how many bytes they cover; fuel = length -/
def splitScan (d : Bytes) : Nat → Bytes → List Bytes × Nat
  | 0, _ => ([], 0)
  | _ + 1, [] => ([], 0)
  | n + 1, x :: t =>
    match strStr (x :: t) d with
    | none => ([], 0)
    | some i =>
      ((x :: t).take (i + delimStep d) :: (splitScan d n ((x :: t).drop (i + delimStep d))).1,
       i + delimStep d + (splitScan d n ((x :: t).drop (i + delimStep d))).2)

/-- `split(d)`: the delimiter-terminated tokens, then the remainder if it is non-empty.
    Corners as the code has them: the empty string gives one empty token for a non-empty
    delimiter (and none for the empty one); the empty delimiter gives one token per byte.
    For non-empty `a` and `d` this is `Text.split a d` (theorem `split_eq_text_split`). -/
def split (a d : Bytes) : List Bytes :=
  (splitScan d (a.length + 1) a).1 ++
    (if (splitScan d (a.length + 1) a).2 < a.length then [a.drop (splitScan d (a.length + 1) a).2]
     else if a.isEmpty ∧ ¬ d.isEmpty then [[]] else [])

/-! ### binary, masked bits, ordinal -/

def joinSp : List Bytes → Bytes
  | [] => []
  | [x] => x
  | x :: rest => x ++ 32 :: joinSp rest

/-- `StringFromBinary`: two upper-case hex digits per byte, single spaces between -/
def binary (x : Bytes) : Bytes := joinSp (x.map hex2)

/-- the header `printf("Size = %u | HexContents = ", (unsigned) n)` prints (explicit ASCII bytes) -/
def sizeHeader (n : Nat) : Bytes :=
  [83, 105, 122, 101, 32, 61, 32] ++ dec (n % 4294967296) ++
    [32, 124, 32, 72, 101, 120, 67, 111, 110, 116, 101, 110, 116, 115, 32, 61, 32]

/-- `StringFromBinaryWithSize`: the header, at most 128 bytes as hex pairs, `" ..."` when cut -/
def binaryWithSize (x : Bytes) : Bytes :=
  sizeHeader x.length ++ binary (x.take 128) ++ (if x.length > 128 then [32, 46, 46, 46] else [])

def nullText : Bytes := [40, 110, 117, 108, 108, 41]      -- "(null)"

/-- `StringFromMaskedBits v m k`, `k ≥ 1`: the low `min k 8` bytes, most significant bit first -/
def maskedBits (v m k : Nat) : Bytes :=
  (List.range (min k 8 * 8)).flatMap fun i =>
    (if m.testBit (min k 8 * 8 - 1 - i) then (if v.testBit (min k 8 * 8 - 1 - i) then [49] else [48]) else [120]) ++
    (if i % 8 = 7 ∧ i ≠ min k 8 * 8 - 1 then [32] else [])

/-- `th` for 11, 12, 13 (mod 100), otherwise `st` / `nd` / `rd` / `th` by the last digit
    (bytes of the ASCII letters) -/
def ordinalSuffix (n : Nat) : Bytes :=
  if 11 ≤ n % 100 ∧ n % 100 ≤ 13 then [116, 104]      -- "th"
  else if n % 10 = 3 then [114, 100]                    -- "rd"
  else if n % 10 = 2 then [110, 100]                    -- "nd"
  else if n % 10 = 1 then [115, 116]                    -- "st"
  else [116, 104]

/-- `StringFromOrdinalNumber` -/
def ordinal (n : Nat) : Bytes := dec n ++ ordinalSuffix n

end TextExt
