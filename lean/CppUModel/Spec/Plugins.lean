import CppUModel.Model.Plugins
/-! Vocabulary of the C17 theorems. -/
namespace Plugins

/-- the chain after installing `ps` one after the other into an empty registry -/
def installAll (ps : List Plugin) : Chain := ps.foldl install []

/-- plugin names in the chain are pairwise different -/
def UniqueNames (c : Chain) : Prop := (c.map (·.name)).Nodup

/-- an enabled `SetPointerPlugin` is installed -/
def HasActiveSet (c : Chain) : Prop := ∃ p ∈ c, p.enabled = true ∧ p.kind = .setPointer

def hasActiveSetB (c : Chain) : Bool := c.any (fun p => p.enabled && p.kind == .setPointer)

/-- the redirections of a body that consists of redirections only -/
def setsOf (ss : List (Loc × Val)) : List Stmt := ss.map (fun p => Stmt.set p.1 p.2)

/-- memory after carrying out redirections in order (no limit) -/
def applySets (m : Loc → Val) : List (Loc × Val) → (Loc → Val)
  | [] => m
  | (l, v) :: rest => applySets (update m l v) rest

end Plugins
