import CppUModel.Model.MockC
/-!
# C19 — REQUIRED wiring of the C mocking interface, written by hand from the documented meaning of
`include/CppUTestExt/MockSupport_c.h`, and the translation of a C scenario into the C++ program it stands for.

Nothing in this file is generated.  `Props/C19.lean` proves (by evaluation of closed terms) that the tables
regenerated from the source are equal to the ones below.

Reading of the header: a member `withXParameters` of an expected/actual call passes a parameter of C type X to the
call; `andReturnXValue` sets a return value of type X; `xReturnValue` / `returnXValueOrDefault` read the return value
as X (default iff there is no return value); `setXData` stores X in the data store; `bool` travels as `int` in C and is
converted with `!= 0`; function pointers are cast to the C++ function pointer type.
-/
namespace MockC.Req
open MockC

/-- the twelve value kinds: name stem as in `withBoolParameters`, stem as in `boolReturnValue`, short type of the
    C parameter, short type of the C++ overload -/
structure Kind where
  stem  : String
  lstem : String
  cty   : String
  xty   : String
deriving DecidableEq, Repr

def kinds : List Kind := [
  ⟨"Bool", "bool", "int", "bool"⟩,
  ⟨"Int", "int", "int", "int"⟩,
  ⟨"UnsignedInt", "unsignedInt", "uint", "uint"⟩,
  ⟨"LongInt", "longInt", "long", "long"⟩,
  ⟨"UnsignedLongInt", "unsignedLongInt", "ulong", "ulong"⟩,
  ⟨"LongLongInt", "longLongInt", "llong", "llong"⟩,
  ⟨"UnsignedLongLongInt", "unsignedLongLongInt", "ullong", "ullong"⟩,
  ⟨"Double", "double", "double", "double"⟩,
  ⟨"String", "string", "string", "string"⟩,
  ⟨"Pointer", "pointer", "ptr", "ptr"⟩,
  ⟨"ConstPointer", "constPointer", "cptr", "cptr"⟩,
  ⟨"FunctionPointer", "functionPointer", "fptr", "fptr"⟩]

/-- how a C value of kind `k` in parameter `p` becomes the C++ argument -/
def conv (k : Kind) (p : String) : ArgExpr :=
  if k.xty = "bool" then .neZero p
  else if k.xty = "fptr" then .fnCast p
  else .param p k.cty

/-- result conversion of a plain getter of kind `k` -/
def postOf (k : Kind) : Post :=
  if k.xty = "bool" then .boolToInt else if k.xty = "fptr" then .fnCastBack else .id

def nameP : ArgExpr := .param "name" "string"
def nameParam : String × String := ("name", "string")

/-! ## which function each table member must point to -/

/-- members of the actual-call table whose forwarder carries `Actual` in its name -/
def actualRenames : List (String × String) :=
  kinds.map (fun k => ("with" ++ k.stem ++ "Parameters", "withActual" ++ k.stem ++ "Parameters_c")) ++
  [("withMemoryBufferParameter", "withActualMemoryBufferParameters_c"),
   ("withParameterOfType", "withActualParameterOfType_c"),
   ("withOutputParameter", "withActualOutputParameter_c"),
   ("withOutputParameterOfType", "withActualOutputParameterOfType_c")]

/-- member ↦ forwarder of the same meaning -/
def fwdName (tbl : Ptr) (field : String) : String :=
  match tbl with
  | .exp => if field = "withMemoryBufferParameter" then "withMemoryBufferParameters_c" else field ++ "_c"
  | .act => match actualRenames.lookup field with
            | some n => n
            | none => field ++ "_c"
  | .sup => field ++ "_c"

/-! ## what each forwarder must do -/

def withFwds (pfx : String) (p : Ptr) : List Fwd :=
  kinds.map (fun k =>
    { name := pfx ++ k.stem ++ "Parameters_c", params := [nameParam, ("value", k.cty)],
      body := .chain p p "withParameter" [nameP, conv k "value"] p }) ++
  [{ name := pfx ++ "MemoryBufferParameters_c", params := [nameParam, ("value", "membuf"), ("size", "size")],
     body := .chain p p "withParameter" [nameP, .param "value" "membuf", .param "size" "size"] p },
   { name := pfx ++ "ParameterOfType_c", params := [("type", "string"), nameParam, ("value", "cptr")],
     body := .chain p p "withParameterOfType" [.param "type" "string", nameP, .param "value" "cptr"] p }]

def expectedOnly : List Fwd := [
  { name := "withDoubleParametersAndTolerance_c", params := [nameParam, ("value", "double"), ("tolerance", "double")],
    body := .chain .exp .exp "withParameter" [nameP, .param "value" "double", .param "tolerance" "double"] .exp },
  { name := "withOutputParameterReturning_c", params := [nameParam, ("value", "cptr"), ("size", "size")],
    body := .chain .exp .exp "withOutputParameterReturning" [nameP, .param "value" "cptr", .param "size" "size"] .exp },
  { name := "withOutputParameterOfTypeReturning_c", params := [("type", "string"), nameParam, ("value", "cptr")],
    body := .chain .exp .exp "withOutputParameterOfTypeReturning" [.param "type" "string", nameP, .param "value" "cptr"] .exp },
  { name := "withUnmodifiedOutputParameter_c", params := [nameParam],
    body := .chain .exp .exp "withUnmodifiedOutputParameter" [nameP] .exp },
  { name := "ignoreOtherParameters_c", params := [], body := .chain .exp .exp "ignoreOtherParameters" [] .exp }]

def andReturnFwds : List Fwd :=
  kinds.map (fun k =>
    { name := "andReturn" ++ k.stem ++ "Value_c", params := [("value", k.cty)],
      body := .chain .exp .exp "andReturnValue" [conv k "value"] .exp })

def actualOnly : List Fwd := [
  { name := "withActualOutputParameter_c", params := [nameParam, ("value", "ptr")],
    body := .chain .act .act "withOutputParameter" [nameP, .param "value" "ptr"] .act },
  { name := "withActualOutputParameterOfType_c", params := [("type", "string"), nameParam, ("value", "ptr")],
    body := .chain .act .act "withOutputParameterOfType" [.param "type" "string", nameP, .param "value" "ptr"] .act }]

/-- the return-value forwarders (shared by the actual-call table and the support table, as in the source):
    the plain getter reads the C actual call, `has` asks the current `MockSupport`, `...OrDefault` combines them -/
def getterFwds : List Fwd :=
  [{ name := "hasReturnValue_c", params := [], body := .ret .sup "hasReturnValue" [] .id },
   { name := "returnValue_c", params := [], body := .ret .act "returnValue" [] .toCValue }] ++
  kinds.flatMap (fun k =>
    [{ name := k.lstem ++ "ReturnValue_c", params := [], body := .ret .act ("return" ++ k.stem ++ "Value") [] (postOf k) },
     { name := "return" ++ k.stem ++ "ValueOrDefault_c", params := [("defaultValue", k.cty)],
       body := .orDefault "hasReturnValue_c" (k.lstem ++ "ReturnValue_c") }])

def dataKinds : List Kind := kinds.filter (fun k => k.stem ∈ ["Bool", "Int", "UnsignedInt", "String", "Double", "Pointer", "ConstPointer", "FunctionPointer"])

def supportFwds : List Fwd := [
  { name := "strictOrder_c", params := [], body := .void_ .sup "strictOrder" [] },
  { name := "expectOneCall_c", params := [nameParam], body := .chain .exp .sup "expectOneCall" [nameP] .exp },
  { name := "expectNoCall_c", params := [nameParam], body := .void_ .sup "expectNoCall" [nameP] },
  { name := "expectNCalls_c", params := [("number", "uint"), nameParam],
    body := .chain .exp .sup "expectNCalls" [.param "number" "uint", nameP] .exp },
  { name := "actualCall_c", params := [nameParam], body := .chain .act .sup "actualCall" [nameP] .act }] ++
  dataKinds.map (fun k =>
    { name := "set" ++ k.stem ++ "Data_c", params := [nameParam, ("value", k.cty)],
      body := .void_ .sup "setData" [nameP, conv k "value"] }) ++ [
  { name := "setDataObject_c", params := [nameParam, ("type", "string"), ("value", "ptr")],
    body := .void_ .sup "setDataObject" [nameP, .param "type" "string", .param "value" "ptr"] },
  { name := "setDataConstObject_c", params := [nameParam, ("type", "string"), ("value", "cptr")],
    body := .void_ .sup "setDataConstObject" [nameP, .param "type" "string", .param "value" "cptr"] },
  { name := "getData_c", params := [nameParam], body := .ret .sup "getData" [nameP] .toCValue },
  { name := "disable_c", params := [], body := .void_ .sup "disable" [] },
  { name := "enable_c", params := [], body := .void_ .sup "enable" [] },
  { name := "ignoreOtherCalls_c", params := [], body := .void_ .sup "ignoreOtherCalls" [] },
  { name := "checkExpectations_c", params := [], body := .void_ .sup "checkExpectations" [] },
  { name := "expectedCallsLeft_c", params := [], body := .ret .sup "expectedCallsLeft" [] .id },
  { name := "clear_c", params := [], body := .void_ .sup "clear" [] },
  { name := "crashOnFailure_c", params := [("shouldCrash", "uint")], body := .void_ .sup "crashOnFailure" [.neZero "shouldCrash"] },
  { name := "installComparator_c", params := [("typeName", "string"), ("isEqual", "equalfn"), ("valueToString", "tostringfn")],
    body := .install "comparatorList_" "MockCFunctionComparatorNode" [.param "isEqual" "equalfn", .param "valueToString" "tostringfn"]
              "installComparator" [.param "typeName" "string", .newNode "comparatorList_"] },
  { name := "installCopier_c", params := [("typeName", "string"), ("copier", "copyfn")],
    body := .install "copierList_" "MockCFunctionCopierNode" [.param "copier" "copyfn"]
              "installCopier" [.param "typeName" "string", .newNode "copierList_"] },
  { name := "removeAllComparatorsAndCopiers_c", params := [], body := .removeAll },
  { name := "mock_c", params := [], body := .mock none },
  { name := "mock_scope_c", params := [("scope", "string")], body := .mock (some "scope") }]

/-- every forwarder, as a set (the order in the source file is irrelevant) -/
def forwarders : List Fwd :=
  withFwds "with" .exp ++ expectedOnly ++ andReturnFwds ++ withFwds "withActual" .act ++ actualOnly ++ getterFwds ++ supportFwds

def findFwd (name : String) : Option Fwd := findFwdIn forwarders name

/-- the required forwarder behind `table->field` (independent of any order in the source) -/
def forwarderOf (tbl : Ptr) (field : String) : Option Fwd := findFwd (fwdName tbl field)

/-! ## the value conversion `MockNamedValue` → `MockValue_c` -/

/-- C++ type string ↦ enum constant, union member, getter, conversion (documented by the enum and union names) -/
def valueTags : List TagRow := [
  ⟨some "bool", "MOCKVALUETYPE_BOOL", "boolValue", "getBoolValue", .boolToInt⟩,
  ⟨some "int", "MOCKVALUETYPE_INTEGER", "intValue", "getIntValue", .id⟩,
  ⟨some "unsigned int", "MOCKVALUETYPE_UNSIGNED_INTEGER", "unsignedIntValue", "getUnsignedIntValue", .id⟩,
  ⟨some "long int", "MOCKVALUETYPE_LONG_INTEGER", "longIntValue", "getLongIntValue", .id⟩,
  ⟨some "unsigned long int", "MOCKVALUETYPE_UNSIGNED_LONG_INTEGER", "unsignedLongIntValue", "getUnsignedLongIntValue", .id⟩,
  ⟨some "long long int", "MOCKVALUETYPE_LONG_LONG_INTEGER", "longLongIntValue", "getLongLongIntValue", .id⟩,
  ⟨some "unsigned long long int", "MOCKVALUETYPE_UNSIGNED_LONG_LONG_INTEGER", "unsignedLongLongIntValue", "getUnsignedLongLongIntValue", .id⟩,
  ⟨some "double", "MOCKVALUETYPE_DOUBLE", "doubleValue", "getDoubleValue", .id⟩,
  ⟨some "const char*", "MOCKVALUETYPE_STRING", "stringValue", "getStringValue", .id⟩,
  ⟨some "void*", "MOCKVALUETYPE_POINTER", "pointerValue", "getPointerValue", .id⟩,
  ⟨some "const void*", "MOCKVALUETYPE_CONST_POINTER", "constPointerValue", "getConstPointerValue", .id⟩,
  ⟨some "void (*)()", "MOCKVALUETYPE_FUNCTIONPOINTER", "functionPointerValue", "getFunctionPointerValue", .fnCastBack⟩,
  ⟨some "const unsigned char*", "MOCKVALUETYPE_MEMORYBUFFER", "memoryBufferValue", "getMemoryBuffer", .id⟩,
  ⟨none, "MOCKVALUETYPE_OBJECT", "objectValue", "getObjectPointer", .id⟩]

/-- the type of the union member each row writes must be the C type of that kind of value -/
def memberTypes : List (String × String) := [
  ("boolValue", "int"), ("intValue", "int"), ("unsignedIntValue", "uint"), ("longIntValue", "long"),
  ("unsignedLongIntValue", "ulong"), ("longLongIntValue", "llong"), ("unsignedLongLongIntValue", "ullong"),
  ("doubleValue", "double"), ("stringValue", "string"), ("pointerValue", "ptr"), ("constPointerValue", "cptr"),
  ("functionPointerValue", "fptr"), ("memoryBufferValue", "membuf"), ("objectValue", "ptr")]

/-- the documented conversion, as a function -/
def toCValue (nv : NamedVal) : CVal := toCValueWith valueTags nv

/-! ## C++ side: support-level getter ↔ actual-call getter of the same meaning -/

/-- (method of `MockSupport`, method of `MockActualCall`) that read the same thing of the last actual call -/
def bridgePairs : List (String × String) :=
  [("hasReturnValue", "hasReturnValue"), ("returnValue", "returnValue")] ++
  kinds.map (fun k => (k.lstem ++ "ReturnValue", "return" ++ k.stem ++ "Value"))

def supNameOf (actMethod : String) : Option String :=
  (bridgePairs.find? (fun p => p.2 = actMethod)).map (·.1)

/-- the C++ getter shapes the bridge relies on: both read `returnValue()` with the same `MockNamedValue` getter, and
    both `...OrDefault` use the default iff `!hasReturnValue()` -/
def supGetters : List (String × GetterShape) :=
  kinds.flatMap (fun k => [(k.lstem ++ "ReturnValue", .plain ("get" ++ k.stem ++ "Value")),
                            ("return" ++ k.stem ++ "ValueOrDefault", .orDefault (k.lstem ++ "ReturnValue"))])
def actGetters : List (String × GetterShape) :=
  kinds.flatMap (fun k => [("return" ++ k.stem ++ "Value", .plain ("get" ++ k.stem ++ "Value")),
                            ("return" ++ k.stem ++ "ValueOrDefault", .orDefault ("return" ++ k.stem ++ "Value"))])

/-- bodies that are pinned literally (adaptor nodes; C reporter and terminator vs. the C++ ones; `MockSupport`'s and
    `MockCheckedActualCall`'s `returnValue` / `hasReturnValue`) -/
def shapes : List (String × String) := [
  ("comparatorIsEqual", "return equal_(object1,object2)!=0;"),
  ("comparatorValueToString", "return SimpleString(toString_(object));"),
  ("copierCopy", "copier_(dst,src);"),
  ("cReporterFailTest", "if(!getTestToFail()->hasFailed())getTestToFail()->failWith(failure,MockFailureReporterTestTerminatorForInCOnlyCode(crashOnFailure_));"),
  ("cTerminatorExit", "if(crashOnFailure_)UT_CRASH();UtestShell::getCurrentTestTerminatorWithoutExceptions().exitCurrentTest();"),
  ("cppReporterFailTest", "if(!getTestToFail()->hasFailed())getTestToFail()->failWith(failure,MockFailureReporterTestTerminator(crashOnFailure_));"),
  ("cppTerminatorExit", "if(crashOnFailure_)UT_CRASH();UtestShell::getCurrentTestTerminator().exitCurrentTest();"),
  ("supReturnValue", "if(lastActualFunctionCall_)return lastActualFunctionCall_->returnValue();return MockNamedValue(\"\");"),
  ("supHasReturnValue", "if(lastActualFunctionCall_)return lastActualFunctionCall_->hasReturnValue();return false;"),
  ("actReturnValue", "checkExpectations();if(matchingExpectation_)return matchingExpectation_->returnValue();return MockNamedValue(\"no return value\");"),
  ("actHasReturnValue", "return!returnValue().getName().isEmpty();")]

/-- the adaptor nodes pass the C++ core's operands on in the same order: `isEqual(object1, object2)` calls
    `equal_(object1, object2)` (the core passes (expected, actual), so a C comparator sees (expected, actual) like a C++
    comparator does), `copy(dst, src)` calls `copier_(dst, src)` -/
def adaptors : List AdaptorCall := [
  { method := "isEqual", callee := "equal_", order := [0, 1], wrap := "!=0" },
  { method := "valueToString", callee := "toString_", order := [0], wrap := "SimpleString" },
  { method := "copy", callee := "copier_", order := [0, 1], wrap := "" }]

/-! ## argument order -/

/-- (parameter passed, C++ type it is passed as) for every argument of the forwarder's C++ call -/
def passedArgs (as : List ArgExpr) : List (String × String) :=
  as.filterMap (fun a => match a with
    | .param n t => some (n, t)
    | .neZero n => some (n, "bool")
    | .fnCast n => some (n, "fptr")
    | _ => none)

def callArgs : Body → List (String × String)
  | .chain _ _ _ as _ => passedArgs as
  | .void_ _ _ as => passedArgs as
  | .ret _ _ as _ => passedArgs as
  | .install _ _ _ _ as => passedArgs as
  | _ => []

/-- the C++ call has two arguments of one type: the compiler cannot notice if they are exchanged -/
def hasRepeatedType (l : List (String × String)) : Bool :=
  l.any (fun p => decide ((l.filter (fun q => q.2 == p.2)).length ≥ 2))

/-- for every forwarder whose C++ call takes two arguments of the same type: the order in which it must pass its
    parameters (from the parameter names of MockSupport_c.h and the C++ signatures: (name, value, tolerance),
    (typeName, name, value), setDataObject(name, type, value), ...) -/
def argumentOrder : List (String × List String) := [
  ("withDoubleParametersAndTolerance_c", ["name", "value", "tolerance"]),
  ("withStringParameters_c", ["name", "value"]),
  ("withParameterOfType_c", ["type", "name", "value"]),
  ("withOutputParameterOfTypeReturning_c", ["type", "name", "value"]),
  ("withActualStringParameters_c", ["name", "value"]),
  ("withActualParameterOfType_c", ["type", "name", "value"]),
  ("withActualOutputParameterOfType_c", ["type", "name", "value"]),
  ("setStringData_c", ["name", "value"]),
  ("setDataObject_c", ["name", "type", "value"]),
  ("setDataConstObject_c", ["name", "type", "value"])]

/-! ## the C++ program a C scenario stands for -/

def kindOfStore : Ptr → XKind
  | .exp => .toExp
  | .act => .toAct
  | .sup => .void_

/-- how the C++ caller reads the result, given how the C forwarder converts it -/
def kindOfPost : Post → XKind
  | .boolToInt => .boolValue
  | .toCValue => .named
  | _ => .value

/-- a getter forwarder reached through the support table: it reads through `actualCall` -/
def isStaticCallGetter (tbl recv : Ptr) (as : List ArgExpr) : Bool := tbl == .sup && recv == .act && as.isEmpty

/-- `hasReturnValue_c` reached through the actual-call table: it asks `currentMockSupport` -/
def isScopeHas (tbl recv : Ptr) (meth : String) (as : List ArgExpr) : Bool :=
  tbl == .act && recv == .sup && meth == "hasReturnValue" && as.isEmpty

/-- `hasReturnValue_c` -/
def isHasBody (b : Body) : Bool := b == .ret .sup "hasReturnValue" [] .id

/-- a plain getter forwarder: the method of the actual call it reads, and its result conversion -/
def getterOf : Body → Option (String × Post)
  | .ret .act meth [] post => some (meth, post)
  | _ => none

/-- the default as the C++ `...OrDefault` takes it: a `bool` default is the C `int` converted with `!= 0` -/
def defaultX (post : Post) (d : Val) : Val := if post = .boolToInt then neZero d else d

/-- the receiver a table's own object is -/
def selfOf : Ptr → Ptr
  | .sup => .sup
  | _ => .act

/-- the documented C++ statement for `tbl->member(args)`, given the member's forwarder description -/
def meaning (tbl : Ptr) (fw : Fwd) (args : List Val) : XStmt :=
  match fw.body with
  | .chain store recv meth as _ => .call recv (signature meth as) (as.map (evalArg fw.params args)) (kindOfStore store)
  | .void_ recv meth as => .call recv (signature meth as) (as.map (evalArg fw.params args)) .void_
  | .ret recv meth as post =>
    if isStaticCallGetter tbl recv as then
      -- `mock_c()->xReturnValue()` means `mock().xReturnValue()`
      match supNameOf meth with
      | some n => .call .sup (signature n []) [] (kindOfPost post)
      | none => .invalid "no C++ getter of that meaning"
    else if isScopeHas tbl recv meth as then
      -- `call->hasReturnValue()` means `call.hasReturnValue()`
      .call .act (signature "hasReturnValue" []) [] (kindOfPost post)
    else .call recv (signature meth as) (as.map (evalArg fw.params args)) (kindOfPost post)
  | .orDefault hasFn getFn =>
    match findFwd hasFn, findFwd getFn with
    | some h, some g =>
      if isHasBody h.body then
        match getterOf g.body with
        | some (meth, post) =>
          if tbl = .sup then
            match supNameOf meth with
            | some n => .orDefault .sup n (kindOfPost post) (defaultX post (argOf fw.params args "defaultValue"))
            | none => .invalid "no C++ getter of that meaning"
          else .orDefault .act meth (kindOfPost post) (defaultX post (argOf fw.params args "defaultValue"))
        | none => .invalid "orDefault: not a getter"
      else .invalid "orDefault: not has"
    | _, _ => .invalid "orDefault: forwarder not found"
  | .install _ _ _ meth as => .call .sup (signature meth as) (as.map (evalArg fw.params args)) .void_
  | .removeAll => .call .sup "removeAllComparatorsAndCopiers()" [] .void_
  | .mock none => .mock ""
  | .mock (some p) => match argOf fw.params args p with
                      | .tok s => .mock s
                      | _ => .invalid "scope"
  | .other t => .invalid ("body:" ++ t)

/-- C statement ↦ C++ statement -/
def toCpp : CStmt → XStmt
  | .mockC => .mock ""
  | .mockScope s => .mock s
  | .call tbl field args =>
    match forwarderOf tbl field with
    | some fw => meaning tbl fw args
    | none => .invalid "no such member"

/-! ## the documented meaning once more, as a flat table written member by member:
    (table, member) ↦ (receiver, C++ method with overload).  `Props/C19.lean` checks `toCpp` against it. -/

def documented : List ((Ptr × String) × (Ptr × String)) :=
  -- expected call
  kinds.map (fun k => ((.exp, "with" ++ k.stem ++ "Parameters"), (.exp, "withParameter(string," ++ k.xty ++ ")"))) ++
  [((.exp, "withDoubleParametersAndTolerance"), (.exp, "withParameter(string,double,double)")),
   ((.exp, "withMemoryBufferParameter"), (.exp, "withParameter(string,membuf,size)")),
   ((.exp, "withParameterOfType"), (.exp, "withParameterOfType(string,string,cptr)")),
   ((.exp, "withOutputParameterReturning"), (.exp, "withOutputParameterReturning(string,cptr,size)")),
   ((.exp, "withOutputParameterOfTypeReturning"), (.exp, "withOutputParameterOfTypeReturning(string,string,cptr)")),
   ((.exp, "withUnmodifiedOutputParameter"), (.exp, "withUnmodifiedOutputParameter(string)")),
   ((.exp, "ignoreOtherParameters"), (.exp, "ignoreOtherParameters()"))] ++
  kinds.map (fun k => ((.exp, "andReturn" ++ k.stem ++ "Value"), (.exp, "andReturnValue(" ++ k.xty ++ ")"))) ++
  -- actual call
  kinds.map (fun k => ((.act, "with" ++ k.stem ++ "Parameters"), (.act, "withParameter(string," ++ k.xty ++ ")"))) ++
  [((.act, "withMemoryBufferParameter"), (.act, "withParameter(string,membuf,size)")),
   ((.act, "withParameterOfType"), (.act, "withParameterOfType(string,string,cptr)")),
   ((.act, "withOutputParameter"), (.act, "withOutputParameter(string,ptr)")),
   ((.act, "withOutputParameterOfType"), (.act, "withOutputParameterOfType(string,string,ptr)")),
   ((.act, "hasReturnValue"), (.act, "hasReturnValue()")),
   ((.act, "returnValue"), (.act, "returnValue()"))] ++
  kinds.flatMap (fun k => [((.act, k.lstem ++ "ReturnValue"), (.act, "return" ++ k.stem ++ "Value()")),
                            ((.act, "return" ++ k.stem ++ "ValueOrDefault"), (.act, "return" ++ k.stem ++ "Value()"))]) ++
  -- MockSupport
  [((.sup, "strictOrder"), (.sup, "strictOrder()")),
   ((.sup, "expectOneCall"), (.sup, "expectOneCall(string)")),
   ((.sup, "expectNoCall"), (.sup, "expectNoCall(string)")),
   ((.sup, "expectNCalls"), (.sup, "expectNCalls(uint,string)")),
   ((.sup, "actualCall"), (.sup, "actualCall(string)")),
   ((.sup, "hasReturnValue"), (.sup, "hasReturnValue()")),
   ((.sup, "returnValue"), (.sup, "returnValue()"))] ++
  kinds.flatMap (fun k => [((.sup, k.lstem ++ "ReturnValue"), (.sup, k.lstem ++ "ReturnValue()")),
                            ((.sup, "return" ++ k.stem ++ "ValueOrDefault"), (.sup, k.lstem ++ "ReturnValue()"))]) ++
  dataKinds.map (fun k => ((.sup, "set" ++ k.stem ++ "Data"), (.sup, "setData(string," ++ k.xty ++ ")"))) ++
  [((.sup, "setDataObject"), (.sup, "setDataObject(string,string,ptr)")),
   ((.sup, "setDataConstObject"), (.sup, "setDataConstObject(string,string,cptr)")),
   ((.sup, "getData"), (.sup, "getData(string)")),
   ((.sup, "disable"), (.sup, "disable()")),
   ((.sup, "enable"), (.sup, "enable()")),
   ((.sup, "ignoreOtherCalls"), (.sup, "ignoreOtherCalls()")),
   ((.sup, "checkExpectations"), (.sup, "checkExpectations()")),
   ((.sup, "expectedCallsLeft"), (.sup, "expectedCallsLeft()")),
   ((.sup, "clear"), (.sup, "clear()")),
   ((.sup, "crashOnFailure"), (.sup, "crashOnFailure(bool)")),
   ((.sup, "installComparator"), (.sup, "installComparator(string,comparator)")),
   ((.sup, "installCopier"), (.sup, "installCopier(string,copier)")),
   ((.sup, "removeAllComparatorsAndCopiers"), (.sup, "removeAllComparatorsAndCopiers()"))]

/-- receiver and method of a C++ statement (for `...OrDefault`: the plain getter it falls back on) -/
def headOf : XStmt → Option (Ptr × String)
  | .call r m _ _ => some (r, m)
  | .orDefault r g _ _ => some (r, signature g [])
  | _ => none

end MockC.Req

/-! ## vocabulary of the refinement theorem -/
namespace MockC

/-- A returned value as the property compares it: a C `int` that stands for a `bool` counts as its truth value; a
    tagged C value counts as (type tag, payload); why something is undefined does not matter. -/
def canonC : CRes → XRes
  | .none => .none
  | .val v => .val v
  | .valB v => .val (neZero v)
  | .cval c => .named ⟨c.tag, c.payload⟩
  | .undefined _ => .undefined ""

/-- the C++ result seen the same way: a `MockNamedValue` counts as the type tag and payload the documented
    conversion gives it -/
def canonX : XRes → XRes
  | .named nv => .named ⟨(Req.toCValue nv).tag, (Req.toCValue nv).payload⟩
  | .undefined _ => .undefined ""
  | r => r

/-- what the property compares of a finished run: the whole C++ world (verdict, failure text, output-parameter
    memory are functions of it) and every returned value -/
def observeC {K : CppMock} (st : CState K) : K.M × List XRes := (st.core.m, st.obs.map canonC)
def observeX {K : CppMock} (st : XState K) : K.M × List XRes := (st.core.m, st.obs.map canonX)

/-- The two facts about the C++ side the bridge between "getter of the scope" and "getter of the call" rests on
    (source: `MockSupport::xReturnValue()` and `MockCheckedActualCall::returnXValue()` are both
    `returnValue().getX()`, `MockSupport::returnValue()/hasReturnValue()` delegate to `lastActualFunctionCall_`;
    these shapes are regenerated and checked in `Props/C19.lean`). -/
structure Lawful (K : CppMock) : Prop where
  bridge : ∀ (m : K.M) (s : String) (a : K.AC) (p : String × String), p ∈ Req.bridgePairs →
    K.last m s = some a → K.sup m s (signature p.1 []) [] = K.ac m a (signature p.2 []) []
  has_keeps_last : ∀ (m : K.M) (s : String),
    K.stopped (K.sup m s (signature "hasReturnValue" []) []).1 = false →
    K.last (K.sup m s (signature "hasReturnValue" []) []).1 s = K.last m s

/-- the static `actualCall` is the last actual call of the scope `currentMockSupport` points to -/
def AlignedAt (K : CppMock) (st : Core K) : Prop :=
  ∃ s a, st.cur = some s ∧ st.a = some a ∧ K.last st.m s = some a

/-- forwarders that reach across: a getter of the call asked through the support table, `has` of the scope asked
    through the actual-call table, and every `...OrDefault` (it combines the two) -/
def needsAlign (tbl : Ptr) (fw : Fwd) : Bool :=
  match fw.body with
  | .ret recv meth as _ => Req.isStaticCallGetter tbl recv as || Req.isScopeHas tbl recv meth as
  | .orDefault _ _ => true
  | _ => false

/-- the statement is one the theorem speaks about: a member of its table, and asked while aligned if it reaches
    across -/
def StepOk (K : CppMock) (st : Core K) : CStmt → Prop
  | .call tbl field _ =>
    field ∈ fieldsOf tbl ∧
    match Req.forwarderOf tbl field with
    | some fw => needsAlign tbl fw = true → AlignedAt K st
    | none => True
  | _ => True

/-- every statement of the run is ok in the state it is executed in (the aligned class of scenarios) -/
def RunOk (K : CppMock) : CState K → List CStmt → Prop
  | _, [] => True
  | st, s :: rest => K.stopped st.core.m = false → StepOk K st.core s ∧ RunOk K (stepC K st s) rest

/-- side conditions of the generic simulation step which hold for every required forwarder (checked by `decide`) -/
def postOk : Post → Bool
  | .other _ => false
  | _ => true

def wf (tbl : Ptr) (fw : Fwd) : Bool :=
  match fw.body with
  | .ret recv meth as post =>
    postOk post && (if Req.isStaticCallGetter tbl recv as then (Req.bridgePairs.any (fun p => p.2 == meth)) else true)
  | .orDefault hasFn getFn =>
    match Req.findFwd hasFn, Req.findFwd getFn with
    | some h, some g =>
      Req.isHasBody h.body &&
      (match Req.getterOf g.body with
       | some (meth, post) => postOk post && (if tbl = .sup then Req.bridgePairs.any (fun p => p.2 == meth) else tbl == .act)
       | none => false)
    | _, _ => false
  | _ => true

/-! ## a syntactic sufficient condition for `RunOk` -/

/-- what is known about the pointers from the scenario text alone: the scope selected last, and the scope on which
    the static actual call was made (while that call is known to be still the scope's last one) -/
structure Sym where
  cur : Option String
  act : Option String
deriving DecidableEq, Repr, Inhabited

def sigActualCall : String := "actualCall(string)"
def sigClear : String := "clear()"
def sigDisable : String := "disable()"
def sigIgnoreOtherCalls : String := "ignoreOtherCalls()"

/-- effect of one C++ statement on that knowledge; `none` = the statement leaves the class (it switches checking off,
    so the next actual call need not become the scope's last call) -/
def symStepX (sy : Sym) : XStmt → Option Sym
  | .mock s => some { sy with cur := some s }
  | .call .sup sig _ kind =>
    if sig = sigDisable ∨ sig = sigIgnoreOtherCalls then none
    else if sig = sigActualCall then (if kind = .toAct then some { sy with act := sy.cur } else none)
    else if kind = .toAct then none
    else if sig = sigClear then some { sy with act := none }
    else some sy
  | .call .exp _ _ kind => if kind = .toAct then none else some sy
  | .call .act _ _ _ => some sy
  | .orDefault .exp _ _ _ => none
  | .orDefault .act _ _ _ => some sy
  | .orDefault .sup g _ _ =>
    if signature g [] = sigActualCall ∨ signature g [] = sigClear ∨ signature g [] = sigDisable ∨
       signature g [] = sigIgnoreOtherCalls then none else some sy
  | .invalid _ => some sy

/-- the statement is a member of its table and, if it reaches across, it is asked while the scope selected last is
    the scope of the last actual call -/
def stmtOk (sy : Sym) : CStmt → Bool
  | .call tbl field _ =>
    (fieldsOf tbl).contains field &&
    (match Req.forwarderOf tbl field with
     | some fw => !needsAlign tbl fw || (sy.act.isSome && sy.act == sy.cur)
     | none => true)
  | _ => true

def alignedFrom (sy : Sym) : List CStmt → Bool
  | [] => true
  | s :: rest =>
    stmtOk sy s &&
    (match symStepX sy (Req.toCpp s) with
     | some sy' => alignedFrom sy' rest
     | none => false)

/-- **The aligned class, decidable from the scenario text**: every table call is a member of its table; every
    return-value getter of the support table, and `hasReturnValue` / `...OrDefault` of the actual-call table, is asked
    while the scope selected last is the one the last `actualCall` was made on, with no `clear` in between; checking is
    never switched off (`disable`, `ignoreOtherCalls`). -/
def Aligned (ss : List CStmt) : Bool := alignedFrom ⟨none, none⟩ ss

/-- What the syntactic condition relies on about the C++ side (all true of MockSupport.cpp / MockActualCall.cpp; proved
    for the C08 model in `Props/C19x.lean`): while checking is on (`plain`), `actualCall` creates the scope's last call
    and hands it out; nothing but `actualCall` and `clear` (and a failure, which ends the test) changes which call is a
    scope's last one; the `with...` members of a call return the call itself. -/
structure ScopeLaws (K : CppMock) where
  plain : K.M → Prop
  plain_mock : ∀ m s, plain m → plain (K.mock m s)
  plain_sup : ∀ m s sig args, sig ≠ sigDisable → sig ≠ sigIgnoreOtherCalls → plain m → plain (K.sup m s sig args).1
  plain_ec : ∀ m e sig args, plain m → plain (K.ec m e sig args).1
  plain_ac : ∀ m a sig args, plain m → plain (K.ac m a sig args).1
  last_mock : ∀ m s s0, K.last (K.mock m s) s0 = K.last m s0
  actual_sets_last : ∀ m s args, plain m → K.stopped (K.sup m s sigActualCall args).1 = false →
    ∃ a, (K.sup m s sigActualCall args).2 = .ac a ∧ K.last (K.sup m s sigActualCall args).1 s = some a
  last_sup : ∀ m s sig args s0, sig ≠ sigActualCall → sig ≠ sigClear → K.stopped (K.sup m s sig args).1 = false →
    K.last (K.sup m s sig args).1 s0 = K.last m s0
  last_ec : ∀ m e sig args s0, K.stopped (K.ec m e sig args).1 = false → K.last (K.ec m e sig args).1 s0 = K.last m s0
  last_ac : ∀ m a sig args s0, K.stopped (K.ac m a sig args).1 = false → K.last (K.ac m a sig args).1 s0 = K.last m s0
  ac_self : ∀ m a sig args a', (K.ac m a sig args).2 = .ac a' → a' = a

/-- the knowledge `sy` is true of the pointers `st` -/
structure SymInv (K : CppMock) (sl : ScopeLaws K) (sy : Sym) (st : Core K) : Prop where
  cur : sy.cur = st.cur
  plain : sl.plain st.m
  act : ∀ s, sy.act = some s → ∃ a, st.a = some a ∧ K.last st.m s = some a

end MockC
