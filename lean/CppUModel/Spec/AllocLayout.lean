import CppUModel.Model.AllocLayout
/-!
Vocabulary of the C05 theorems: the unbounded (`Nat`) meaning of the size arithmetic, byte
intervals of a block, the environment contracts, and the observables of a state.
-/
namespace AllocLayout

/-! ## the size arithmetic without wrap-around -/

/-- `calculateVoidPointerAlignedSize` over the naturals: `(8 - x % 8) + x` (adds 8 when `x` is
    already aligned); when the corruption check is compiled out: `x`, but never 0 (a zero-byte
    request would let `realloc(p, 0)` free a block that stays tracked) -/
def alignNat (c : Cfg) (x : Nat) : Nat := if c.check then (8 - x % 8) + x else (if x = 0 then 1 else x)

/-- `sizeOfMemoryWithCorruptionInfo` over the naturals -/
def swciNat (c : Cfg) (size : Nat) : Nat := alignNat c (size + c.guard.toNat)

/-- the size once all bookkeeping is added: user bytes + guard bytes + padding + record -/
def extNat (c : Cfg) (size : Nat) : Nat := swciNat c size + c.node.toNat

def two64 : Nat := 18446744073709551616

/-- admissible `sizeof(MemoryLeakDetectorNode)`: a multiple of the pointer size, far from 2^64 -/
structure NodeOk (c : Cfg) : Prop where
  aligned : c.node.toNat % 8 = 0
  small   : c.node.toNat < 4294967296

/-! ## byte intervals `[lo, hi)` inside an underlying block -/

abbrev Iv := Nat × Nat

def Iv.disjoint (a b : Iv) : Prop := a.2 ≤ b.1 ∨ b.2 ≤ a.1
def Iv.inside (a : Iv) (len : Nat) : Prop := a.1 ≤ a.2 ∧ a.2 ≤ len

/-- the bytes handed to the caller -/
def userIv (size : W) : Iv := (0, size.toNat)
/-- the guard bytes written by `addMemoryCorruptionInformation(memory + size)` -/
def guardIv (c : Cfg) (size : W) : Iv := (size.toNat, size.toNat + c.guard.toNat)
/-- the inline record at `getNodeFromMemoryPointer(memory, size)` -/
def nodeIv (c : Cfg) (size : W) : Iv := ((nodeOff c size).toNat, (nodeOff c size).toNat + c.node.toNat)

/-! ## environment contracts -/

/-- the platform allocator's answer is NULL / a failure, or a block of exactly the requested length -/
def Ans.Ok (len : Nat) : Ans → Prop
  | .block _ bytes => bytes.length = len
  | _ => True

/-- an answer that is not a block -/
def Ans.isNull : Ans → Bool
  | .block _ _ => false
  | _ => true

/-- the platform realloc contract: NULL, or a block of the requested length whose first
    `min (old length) (requested length)` bytes are the old block's -/
def RAns.Ok (old : List UInt8) (req : Nat) : RAns → Prop
  | .moved _ bytes => bytes.length = req ∧ bytes.take (min old.length req) = old.take (min old.length req)
  | .null => True

/-- every node image has the size of the record -/
def ImgOk (c : Cfg) (img : NodeImage) : Prop := ∀ r, (img r).length = c.node.toNat

/-! ## observables -/

/-- the first `n` bytes of block `id` -/
def userView (s : State) (id n : Nat) : Option (List UInt8) :=
  (findBlock s.mem id).map (fun b => b.bytes.take n)

/-- what the detector knows about its blocks: address and size of every record -/
def State.trackedSet (s : State) : List (Nat × W) := s.tracked.map (fun r => (r.id, r.size))

/-- a clean way to fail: NULL, `std::bad_alloc`, or the default allocator's test failure -/
def Outcome.cleanFailure : Outcome → Bool
  | .null => true
  | .badAlloc => true
  | .testFail => true
  | _ => false

def Outcome.isUb : Outcome → Bool
  | .ub _ => true
  | _ => false

/-- the C string held by a buffer: the bytes before the first NUL -/
def cstrOf (buf : List UInt8) : List UInt8 := buf.takeWhile (· != 0)

end AllocLayout
