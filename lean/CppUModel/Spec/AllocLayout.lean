import CppUModel.Model.AllocLayout
/-!
Vocabulary of the C05 theorems: the unbounded (`Nat`) meaning of the size arithmetic, byte
intervals of a block, the environment contracts, and the observables of a state.
-/
namespace AllocLayout

/-! ## the size arithmetic without wrap-around -/

/-- `calculateVoidPointerAlignedSize` over the naturals: `(8 - x % 8) + x` (adds 8 when `x` is
    already aligned); when the corruption check is compiled out: `x`, but never 0 (a zero-byte
    request would let `realloc(p, 0)` free a block that stays tracked) -/
def alignNat (c : Cfg) (x : Nat) : Nat := if c.check then (8 - x % 8) + x else (if x = 0 then 1 else x)

/-- `sizeOfMemoryWithCorruptionInfo` over the naturals -/
def swciNat (c : Cfg) (size : Nat) : Nat := alignNat c (size + c.guard.toNat)

/-- the size once all bookkeeping is added: user bytes + guard bytes + padding + record -/
def extNat (c : Cfg) (size : Nat) : Nat := swciNat c size + c.node.toNat

def two64 : Nat := 18446744073709551616

/-- admissible `sizeof(MemoryLeakDetectorNode)`: a multiple of the pointer size, far from 2^64 -/
structure NodeOk (c : Cfg) : Prop where
  aligned : c.node.toNat % 8 = 0
  small   : c.node.toNat < 4294967296

/-! ## byte intervals `[lo, hi)` inside an underlying block -/

abbrev Iv := Nat × Nat

def Iv.disjoint (a b : Iv) : Prop := a.2 ≤ b.1 ∨ b.2 ≤ a.1
def Iv.inside (a : Iv) (len : Nat) : Prop := a.1 ≤ a.2 ∧ a.2 ≤ len

/-- the bytes handed to the caller -/
def userIv (size : W) : Iv := (0, size.toNat)
/-- the guard bytes written by `addMemoryCorruptionInformation(memory + size)` -/
def guardIv (c : Cfg) (size : W) : Iv := (size.toNat, size.toNat + c.guard.toNat)
/-- the inline record at `getNodeFromMemoryPointer(memory, size)` -/
def nodeIv (c : Cfg) (size : W) : Iv := ((nodeOff c size).toNat, (nodeOff c size).toNat + c.node.toNat)

/-! ## environment contracts -/

/-- the platform allocator's answer is NULL / a failure, or a block of exactly the requested length -/
def Ans.Ok (len : Nat) : Ans → Prop
  | .block _ bytes => bytes.length = len
  | _ => True

/-- an answer that is not a block -/
def Ans.isNull : Ans → Bool
  | .block _ _ => false
  | _ => true

/-- the platform realloc contract: NULL, or a block of the requested length whose first
    `min (old length) (requested length)` bytes are the old block's -/
def RAns.Ok (old : List UInt8) (req : Nat) : RAns → Prop
  | .moved _ bytes => bytes.length = req ∧ bytes.take (min old.length req) = old.take (min old.length req)
  | .null => True

/-- every node image has the size of the record -/
def ImgOk (c : Cfg) (img : NodeImage) : Prop := ∀ r, (img r).length = c.node.toNat

/-! ## observables -/

/-- the first `n` bytes of block `id` -/
def userView (s : State) (id n : Nat) : Option (List UInt8) :=
  (findBlock s.mem id).map (fun b => b.bytes.take n)

/-- what the detector knows about its blocks: address and size of every record -/
def State.trackedSet (s : State) : List (Nat × W) := s.tracked.map (fun r => (r.id, r.size))

/-- a clean way to fail: NULL, `std::bad_alloc`, or the default allocator's test failure -/
def Outcome.cleanFailure : Outcome → Bool
  | .null => true
  | .badAlloc => true
  | .testFail => true
  | _ => false

def Outcome.isUb : Outcome → Bool
  | .ub _ => true
  | _ => false

/-- the C string held by a buffer: the bytes before the first NUL -/
def cstrOf (buf : List UInt8) : List UInt8 := buf.takeWhile (· != 0)

/-! ## the whole-history invariant -/

/-- the blocks a record owns: its data block and, in the separate-node layout, its node block -/
def Rec.owned (r : Rec) : List Nat := if r.sep then [r.id, r.nodeId] else [r.id]

def owned (t : List Rec) : List Nat := t.flatMap Rec.owned

/-- the layout the public wrappers choose: malloc-family records keep their node separately, and
    so does every record of the build without guard bytes -/
def sepOf (c : Cfg) (fam : Nat) : Bool := forcedSep c (fam == famMalloc)

/-- what the detector's record says about memory is true: the size had been accepted, the data
    block is live and exactly as long as it was requested, the guard bytes behind the user bytes are
    intact, and the record lives where the layout says (inline: inside the data block, which
    `layout_sound` places behind the guard bytes; separate: in a live block of its own) -/
structure RecOk (c : Cfg) (m : List Block) (r : Rec) : Prop where
  acc   : rejectsAlloc c r.size = false
  lay   : r.sep = sepOf c r.fam
  blk   : ∃ b, findBlock m r.id = some b ∧ b.bytes.length = (allocReq c r.sep r.size).toNat ∧
            (b.bytes.drop r.size.toNat).take c.guard.toNat = guardImage c
  node  : (r.sep = true → r.nodeId ≠ r.id ∧ ∃ nb, findBlock m r.nodeId = some nb ∧ nb.bytes.length = c.node.toNat) ∧
          (r.sep = false → r.nodeId = 0)

/-- **The invariant**: every record is true of the memory, and no block is owned twice (tracked
    blocks are pairwise different blocks, no node block is a data block or another record's node) -/
structure InvTM (c : Cfg) (t : List Rec) (m : List Block) : Prop where
  recs  : ∀ r ∈ t, RecOk c m r
  nodup : (owned t).Nodup

def Inv (c : Cfg) (s : State) : Prop := InvTM c s.tracked s.mem

/-- the platform never hands out a block that is still live -/
def Fresh (m : List Block) (id : Nat) : Prop := ∀ b ∈ m, b.id ≠ id

def Ans.Fresh (m : List Block) : Ans → Prop
  | .block id _ => AllocLayout.Fresh m id
  | _ => True

/-- contract of the two allocator calls of one allocation -/
structure AllocEnvOk (c : Cfg) (m : List Block) (sep : Bool) (size : W) (a1 a2 : Ans) : Prop where
  len1   : a1.Ok (allocReq c sep size).toNat
  len2   : a2.Ok c.node.toNat
  fresh1 : a1.Fresh m
  fresh2 : a2.Fresh m
  differ : a2.isNull = true ∨ a2.id ≠ a1.id

/-- contract of `PlatformSpecificRealloc(old, req)`: NULL, or a block of `req` bytes — at a fresh
    address or in place — that starts with the common prefix of the old block -/
def RAns.EnvOk (m : List Block) (ptr : Option Nat) (req : Nat) : RAns → Prop
  | .null => True
  | .moved nid nb =>
    nb.length = req ∧ (AllocLayout.Fresh m nid ∨ ptr = some nid) ∧
    ∀ oid b, ptr = some oid → findBlock m oid = some b →
      nb.take (min b.bytes.length req) = b.bytes.take (min b.bytes.length req)

/-- the node block handed out during a realloc is not the block the platform realloc returned -/
def RAns.differs (a2 : Ans) : RAns → Prop
  | .moved nid _ => a2.isNull = true ∨ a2.id ≠ nid
  | .null => True

/-- the pointer a well-behaved client passes to a release/realloc of family `fam`: NULL, a pointer
    the detector does not track (reported, nothing else happens), or a block of that family -/
def PtrOk (s : State) (fam : Nat) (ptr : Option Nat) : Prop :=
  ∀ id, ptr = some id → ∀ r ∈ s.tracked, r.id = id → r.fam = fam

/-- environment and client contract of one operation.  The two listed findings are excluded
    explicitly: a NULL accounting node during `realloc` (c05-node-alloc-null) and a test failure
    raised inside a nothrow `operator new` (c05-nothrow-new-terminate). -/
def OpOk (c : Cfg) (s : State) : Op → Prop
  | .new v size a1 a2 =>
    v ∈ Gen.AllocLayout.newVariants ∧ AllocEnvOk c s.mem (forcedSep c false) size a1 a2 ∧
    (v.nothrow = false ∨ (a1 ≠ .fail ∧ a2 ≠ .fail))
  | .malloc size a1 a2 => AllocEnvOk c s.mem true size a1 a2
  | .calloc num size a1 a2 => AllocEnvOk c s.mem true (Gen.AllocLayout.callocRequest num size) a1 a2
  | .strdup buf a1 a2 =>
    (0 : UInt8) ∈ buf ∧ buf.length < 2 ^ 62 ∧
    AllocEnvOk c s.mem true (Gen.AllocLayout.strdupLength (BitVec.ofNat 64 (cstrOf buf).length)) a1 a2
  | .strndup buf n a1 a2 =>
    (0 : UInt8) ∈ buf ∧ buf.length < 2 ^ 62 ∧
    AllocEnvOk c s.mem true (Gen.AllocLayout.strndupLength (BitVec.ofNat 64 (cstrOf buf).length) n) a1 a2
  | .realloc ptr size ar a2 =>
    PtrOk s famMalloc ptr ∧ ar.EnvOk s.mem ptr (reallocReq c true size).toNat ∧
    a2.Ok c.node.toNat ∧ a2.Fresh s.mem ∧ ar.differs a2 ∧ a2 ≠ .null
  | .free ptr => PtrOk s famMalloc ptr
  | .delete array ptr => PtrOk s (if array then famNewArray else famNew) ptr
  | .write id off src => ∃ r ∈ s.tracked, r.id = id ∧ off + src.length ≤ r.size.toNat

/-- every step of a history meets its contract in the state it is applied to -/
def OpsOk (c : Cfg) (img : NodeImage) : State → List Op → Prop
  | _, [] => True
  | s, op :: ops => OpOk c s op ∧ OpsOk c img (step c img s op).1 ops

/-- the block the platform answered with in this operation (0 = none) -/
def Op.platformBlock : Op → Nat
  | .new _ _ a1 _ => a1.id
  | .malloc _ a1 _ => a1.id
  | .calloc _ _ a1 _ => a1.id
  | .strdup _ a1 _ => a1.id
  | .strndup _ _ a1 _ => a1.id
  | .realloc _ _ ar _ => ar.id
  | _ => 0

end AllocLayout
