import CppUModel.Model.OutputEvents
/-!
# JUnit XML — the vocabulary of C16

Written from the XML rules and the JUnit report layout, not from the code: the reference
encoding of the characters with XML meaning, decoding of character/entity references, scanners
for an attribute value and for element text, the structured report (`Suite`, `Case`) and its
rendering, and a small independent tokenizer/reader for the report layout (used by the oracle in
the driver; Python's expat is the standards-conforming judge on top of it).  Core Lean only.
-/
namespace JUnit
open Text (Bytes)
open OutEv (dec lit digit)

/-! ## reference encoding -/

def encByteRef (c : UInt8) : Bytes :=
  if c = 38 then lit "&amp;"
  else if c = 34 then lit "&quot;"
  else if c = 60 then lit "&lt;"
  else if c = 62 then lit "&gt;"
  else if c = 13 then lit "&#13;"
  else if c = 10 then lit "&#10;"
  else [c]

def encodeRef (s : Bytes) : Bytes := s.flatMap encByteRef

/-! ## decoding of references (`&name;`, `&#N;`, `&#xH;`) -/

def hexDigitVal (c : UInt8) : Option Nat :=
  if 48 ≤ c ∧ c ≤ 57 then some (c.toNat - 48)
  else if 97 ≤ c ∧ c ≤ 102 then some (c.toNat - 87)
  else if 65 ≤ c ∧ c ≤ 70 then some (c.toNat - 55)
  else none

def numVal (base : Nat) (ds : Bytes) : Option Nat :=
  if ds.isEmpty then none else
  ds.foldl (fun (acc : Option Nat) (c : UInt8) =>
    match acc, hexDigitVal c with
    | some n, some d => if d < base then some (n * base + d) else none
    | _, _ => none) (some 0)

/-- the byte a reference body (between `&` and `;`) stands for; only values below 256 are bytes -/
def refValue (body : Bytes) : Option UInt8 :=
  if body = lit "amp" then some 38
  else if body = lit "quot" then some 34
  else if body = lit "lt" then some 60
  else if body = lit "gt" then some 62
  else if body = lit "apos" then some 39
  else
    match body with
    | 35 :: 120 :: ds => (numVal 16 ds).bind fun n => if n < 256 ∧ n ≠ 0 then some (UInt8.ofNat n) else none
    | 35 :: ds => (numVal 10 ds).bind fun n => if n < 256 ∧ n ≠ 0 then some (UInt8.ofNat n) else none
    | _ => none

/-- decoding as a scanner; `pend = some body` while inside a reference (body reversed).
    Text that is not a well-formed reference is kept as it is. -/
def decodeAux : Option Bytes → Bytes → Bytes
  | none, [] => []
  | some body, [] => 38 :: body.reverse
  | none, c :: rest => if c = 38 then decodeAux (some []) rest else c :: decodeAux none rest
  | some body, c :: rest =>
    if c = 59 then
      match refValue body.reverse with
      | some v => v :: decodeAux none rest
      | none => 38 :: body.reverse ++ 59 :: decodeAux none rest
    else decodeAux (some (c :: body)) rest

def decodeXml (s : Bytes) : Bytes := decodeAux none s

/-! ## safety scanners -/

/-- the references the encoder emits -/
def emittedRefs : List Bytes :=
  [lit "&amp;", lit "&quot;", lit "&lt;", lit "&gt;", lit "&#13;", lit "&#10;"]

def startsWithAny (s : Bytes) : List Bytes → Option Bytes
  | [] => none
  | r :: rs => if r.isPrefixOf s then some r else startsWithAny s rs

/-- no raw `< > "` and no raw line break; every `&` starts one of the emitted references.
    `skip` = bytes of a recognised reference still to pass over. -/
def safeAux : Nat → Bytes → Bool
  | _, [] => true
  | skip + 1, _ :: rest => safeAux skip rest
  | 0, c :: rest =>
    if c = 38 then
      match startsWithAny (c :: rest) emittedRefs with
      | some r => safeAux (r.length - 1) rest
      | none => false
    else if c = 60 ∨ c = 62 ∨ c = 34 ∨ c = 13 ∨ c = 10 then false
    else safeAux 0 rest

def attrAndTextSafe (s : Bytes) : Bool := safeAux 0 s

/-- what an XML reader does with a `"`-delimited attribute value: read up to the closing quote,
    replacing references; a raw `<`, a `&` that does not start a reference, or a reference to
    something that is not a byte make the document ill-formed (`none`).
    Result = (value, what follows the closing quote). -/
def scanAttr : Option Bytes → Bytes → Bytes → Option (Bytes × Bytes)
  | _, [], _ => none
  | none, c :: rest, acc =>
    if c = 34 then some (acc.reverse, rest)
    else if c = 38 then scanAttr (some []) rest acc
    else if c = 60 then none
    else scanAttr none rest (c :: acc)
  | some body, c :: rest, acc =>
    if c = 59 then
      match refValue body.reverse with
      | some v => scanAttr none rest (v :: acc)
      | none => none
    else if c = 34 ∨ c = 60 ∨ c = 38 then none
    else scanAttr (some (c :: body)) rest acc

/-- element text up to the next `<` (which stays in the rest) -/
def scanText : Option Bytes → Bytes → Bytes → Option (Bytes × Bytes)
  | none, [], acc => some (acc.reverse, [])
  | some _, [], _ => none
  | none, c :: rest, acc =>
    if c = 60 then some (acc.reverse, c :: rest)
    else if c = 38 then scanText (some []) rest acc
    else scanText none rest (c :: acc)
  | some body, c :: rest, acc =>
    if c = 59 then
      match refValue body.reverse with
      | some v => scanText none rest (v :: acc)
      | none => none
    else if c = 60 ∨ c = 38 then none
    else scanText (some (c :: body)) rest acc

/-! ## the structured report and its rendering -/

/-- `%d` of a signed number -/
def showInt (z : Int) : Bytes := if z < 0 then 45 :: dec z.natAbs else dec z.natAbs

/-- seconds with three decimals, from the whole seconds (as printed) and the milliseconds part -/
def showTime (secs : Int) (millis : Nat) : Bytes :=
  showInt secs ++ [46] ++ [digit (millis / 100), digit (millis / 10), digit millis]

structure Case where
  classname  : Bytes
  name       : Bytes
  assertions : Int
  secs       : Int
  millis     : Nat
  file       : Bytes
  line       : Int
  failure    : Option Bytes      -- the `message` of the failure element
  skipped    : Bool              -- a `<skipped />` element (only looked at when there is no failure)
deriving Repr, DecidableEq, Inhabited

structure Suite where
  failures  : Int
  name      : Bytes
  tests     : Int
  secs      : Int
  millis    : Nat
  timestamp : Bytes              -- written as given by the platform (not encoded)
  cases     : List Case
  stdout    : Bytes
deriving Repr, DecidableEq, Inhabited

def Case.render (c : Case) : Bytes :=
  lit "<testcase classname=\"" ++ encodeRef c.classname ++ lit "\" name=\"" ++ encodeRef c.name ++
  lit "\" assertions=\"" ++ showInt c.assertions ++ lit "\" time=\"" ++ showTime c.secs c.millis ++
  lit "\" file=\"" ++ encodeRef c.file ++ lit "\" line=\"" ++ showInt c.line ++ lit "\">\n" ++
  (match c.failure with
   | some m => lit "<failure message=\"" ++ encodeRef m ++ lit "\" type=\"AssertionFailedError\">\n" ++ lit "</failure>\n"
   | none => if c.skipped then lit "<skipped />\n" else []) ++
  lit "</testcase>\n"

def Suite.render (s : Suite) : Bytes :=
  lit "<?xml version=\"1.0\" encoding=\"UTF-8\" ?>\n" ++
  lit "<testsuite errors=\"0\" failures=\"" ++ showInt s.failures ++ lit "\" hostname=\"localhost\" name=\"" ++
  encodeRef s.name ++ lit "\" tests=\"" ++ showInt s.tests ++ lit "\" time=\"" ++ showTime s.secs s.millis ++
  lit "\" timestamp=\"" ++ s.timestamp ++ lit "\">\n" ++
  lit "<properties>\n" ++ lit "</properties>\n" ++
  s.cases.flatMap Case.render ++
  lit "<system-out>" ++ encodeRef s.stdout ++ lit "</system-out>\n" ++
  lit "<system-err></system-err>\n" ++ lit "</testsuite>\n"

/-! ## file names -/

def forbiddenInFileNames : List UInt8 := [47, 92, 63, 37, 42, 58, 124, 34, 60, 62]    -- / \ ? % * : | " < >

def sanitize (s : Bytes) : Bytes := s.map fun c => if forbiddenInFileNames.contains c then 95 else c

/-- `cpputest_[package_]group.xml` with the characters illegal in file names replaced by `_` -/
def expectedFileName (package group : Bytes) : Bytes :=
  sanitize (lit "cpputest_" ++ (if package.isEmpty then [] else package ++ lit "_") ++ group) ++ lit ".xml"

/-! ## an independent reader of the report layout (oracle) -/

inductive Tok
  | pi                                            -- `<?…?>`
  | open_ (name : Bytes) (attrs : List (Bytes × Bytes)) (selfClose : Bool)
  | close (name : Bytes)
  | text (t : Bytes)
deriving Repr, DecidableEq, Inhabited

def isNameByte (c : UInt8) : Bool :=
  (97 ≤ c && c ≤ 122) || (65 ≤ c && c ≤ 90) || (48 ≤ c && c ≤ 57) || c == 45 || c == 95 || c == 46 || c == 58

def isSpace (c : UInt8) : Bool := c == 32 || c == 10 || c == 13 || c == 9

def takeName : Bytes → Bytes → Bytes × Bytes
  | [], acc => (acc.reverse, [])
  | c :: rest, acc => if isNameByte c then takeName rest (c :: acc) else (acc.reverse, c :: rest)

def dropSpace : Bytes → Bytes
  | [] => []
  | c :: rest => if isSpace c then dropSpace rest else c :: rest

/-- after the element name: attributes, then `>` or `/>` -/
def readAttrs : Nat → Bytes → List (Bytes × Bytes) → Except String (List (Bytes × Bytes) × Bool × Bytes)
  | 0, _, _ => .error "too many attributes"
  | fuel + 1, s, acc =>
    match dropSpace s with
    | [] => .error "tag not closed"
    | c :: rest =>
      if c = 62 then .ok (acc.reverse, false, rest)
      else if c = 47 then
        match rest with
        | [] => .error "tag not closed"
        | d :: rest' => if d = 62 then .ok (acc.reverse, true, rest') else .error "malformed empty-element tag"
      else if (c :: rest).length = s.length then .error "white space required between attributes"
      else
        match takeName (c :: rest) [] with
        | (key, more) =>
          match more with
          | e :: q :: value =>
            if e = 61 ∧ q = 34 then
              if key.isEmpty then .error "attribute name expected"
              else if acc.any (fun p => p.1 == key) then .error "duplicate attribute"
              else
                match scanAttr none value [] with
                | some (v, after) => readAttrs fuel after ((key, v) :: acc)
                | none => .error "attribute value is not well formed (raw <, bad reference, or not closed)"
            else .error "malformed attribute"
          | _ => .error "malformed attribute"

/-- what follows the first `?>` -/
def dropUntilPiEnd : Bytes → Option Bytes
  | [] => none
  | c :: rest =>
    if c = 63 then
      match rest with
      | [] => none
      | d :: rest' => if d = 62 then some rest' else dropUntilPiEnd rest
    else dropUntilPiEnd rest

def tokenize : Nat → Bytes → List Tok → Except String (List Tok)
  | 0, _, _ => .error "out of fuel"
  | fuel + 1, s, acc =>
    match s with
    | [] => .ok acc.reverse
    | c :: rest =>
      if c = 60 then
        match rest with
        | [] => .error "tag not closed"
        | d :: rest' =>
          if d = 63 then
            match dropUntilPiEnd rest' with
            | some after => tokenize fuel after (.pi :: acc)
            | none => .error "processing instruction not closed"
          else if d = 47 then
            match takeName rest' [] with
            | (name, more) =>
              match dropSpace more with
              | [] => .error "end tag not closed"
              | e :: after =>
                if e = 62 then
                  if name.isEmpty then .error "element name expected" else tokenize fuel after (.close name :: acc)
                else .error "end tag not closed"
          else
            match takeName rest [] with
            | (name, more) =>
              if name.isEmpty then .error "element name expected after <" else
              match readAttrs (more.length + 1) more [] with
              | .ok (attrs, sc, after) => tokenize fuel after (.open_ name attrs sc :: acc)
              | .error e => .error e
      else
        match scanText none s [] with
        | some (t, after) => if after.length < s.length then tokenize fuel after (.text t :: acc) else .error "no progress"
        | none => .error "text is not well formed (bad reference)"

def isBlank (t : Bytes) : Bool := t.all isSpace

def dropBlank : List Tok → List Tok
  | .text t :: rest => if isBlank t then rest else .text t :: rest
  | ts => ts

def getAttr (as : List (Bytes × Bytes)) (k : String) : Except String Bytes :=
  match as.find? (fun p => p.1 == lit k) with
  | some p => .ok p.2
  | none => .error ("attribute missing: " ++ k)

def digitStep (acc : Option Nat) (c : UInt8) : Option Nat :=
  match acc with
  | some n => if 48 ≤ c ∧ c ≤ 57 then some (n * 10 + (c.toNat - 48)) else none
  | none => none

/-- value of a non-empty string of decimal digits -/
def digitsVal? (ds : Bytes) : Option Nat := if ds.isEmpty then none else ds.foldl digitStep (some 0)

def intOfBytes? (b : Bytes) : Option Int :=
  match b with
  | [] => none
  | c :: ds => if c = 45 then (digitsVal? ds).map fun n => - (n : Int) else (digitsVal? (c :: ds)).map fun n => (n : Int)

def getInt (as : List (Bytes × Bytes)) (k : String) : Except String Int :=
  match getAttr as k with
  | .error e => .error e
  | .ok v =>
    match intOfBytes? v with
    | some z => .ok z
    | none => .error ("attribute is not a number: " ++ k)

/-- bytes before the first `.`, and what follows it -/
def splitAtDot : Bytes → Bytes → Option (Bytes × Bytes)
  | [], _ => none
  | c :: rest, acc => if c = 46 then some (acc.reverse, rest) else splitAtDot rest (c :: acc)

/-- `S.mmm` -/
def getTime (as : List (Bytes × Bytes)) (k : String) : Except String (Int × Nat) :=
  match getAttr as k with
  | .error e => .error e
  | .ok v =>
    match splitAtDot v [] with
    | some (a, b) =>
      match intOfBytes? a, digitsVal? b with
      | some s, some m => if b.length = 3 then .ok (s, m) else .error "time: three decimals expected"
      | _, _ => .error "time is not a number"
    | none => .error "time has no decimal point"

/-- a `Case` from the attributes of a `<testcase …>` tag and what its children said -/
def caseOfAttrs (attrs : List (Bytes × Bytes)) (f : Option Bytes) (sk : Bool) : Except String Case :=
  match getAttr attrs "classname" with
  | .error e => .error e
  | .ok classname =>
    match getAttr attrs "name" with
    | .error e => .error e
    | .ok nm =>
      match getInt attrs "assertions" with
      | .error e => .error e
      | .ok assertions =>
        match getTime attrs "time" with
        | .error e => .error e
        | .ok (secs, millis) =>
          match getAttr attrs "file" with
          | .error e => .error e
          | .ok file =>
            match getInt attrs "line" with
            | .error e => .error e
            | .ok line =>
              .ok { classname := classname, name := nm, assertions := assertions, secs := secs, millis := millis,
                    file := file, line := line, failure := f, skipped := sk }

/-- the children of a `<testcase>` up to and including `</testcase>`:
    (failure message, skipped marker, tokens that follow) -/
def readCaseBody (ts : List Tok) : Except String (Option Bytes × Bool × List Tok) :=
  match dropBlank ts with
  | .close n :: rest => if n = lit "testcase" then .ok (none, false, rest) else .error "testcase not closed"
  | .open_ n as sc :: rest =>
    if n = lit "skipped" ∧ sc = true then
      match dropBlank rest with
      | .close n2 :: rest' => if n2 = lit "testcase" then .ok (none, true, rest') else .error "testcase not closed"
      | _ => .error "testcase not closed after skipped"
    else if n = lit "failure" ∧ sc = false then
      match getAttr as "message" with
      | .error e => .error e
      | .ok m =>
        match dropBlank rest with
        | .close n2 :: rest' =>
          if n2 = lit "failure" then
            match dropBlank rest' with
            | .close n3 :: rest'' => if n3 = lit "testcase" then .ok (some m, false, rest'') else .error "testcase not closed"
            | _ => .error "testcase not closed after failure"
          else .error "failure not closed"
        | _ => .error "failure element not closed"
    else .error "unexpected element inside testcase"
  | _ => .error "unexpected content inside testcase"

/-- test cases up to `<system-out>` -/
def readCases : Nat → List Tok → List Case → Except String (List Case × List Tok)
  | 0, _, _ => .error "out of fuel"
  | fuel + 1, ts, acc =>
    match dropBlank ts with
    | .open_ name attrs sc :: rest =>
      if name = lit "testcase" ∧ sc = false then
        match readCaseBody rest with
        | .error e => .error e
        | .ok (f, sk, rest') =>
          match caseOfAttrs attrs f sk with
          | .error e => .error e
          | .ok c => readCases fuel rest' (c :: acc)
      else .ok (acc.reverse, .open_ name attrs sc :: rest)
    | other => .ok (acc.reverse, other)

/-- the `<testsuite …>` attributes -/
def suiteOfAttrs (attrs : List (Bytes × Bytes)) (cases : List Case) (out : Bytes) : Except String Suite :=
  match getInt attrs "failures" with
  | .error e => .error e
  | .ok failures =>
    match getAttr attrs "name" with
    | .error e => .error e
    | .ok nm =>
      match getInt attrs "tests" with
      | .error e => .error e
      | .ok tests =>
        match getTime attrs "time" with
        | .error e => .error e
        | .ok (secs, millis) =>
          match getAttr attrs "timestamp" with
          | .error e => .error e
          | .ok timestamp =>
            .ok { failures := failures, name := nm, tests := tests, secs := secs, millis := millis,
                  timestamp := timestamp, cases := cases, stdout := out }

/-- `<system-out>text</system-out> <system-err></system-err> </testsuite>` and nothing else -/
def readEnding (ts : List Tok) : Except String Bytes :=
  match ts with
  | .open_ so _ false :: rest5 =>
    if so ≠ lit "system-out" then .error "system-out expected" else
    let out : Bytes := match rest5 with
      | .text t :: _ => t
      | _ => []
    let rest6 : List Tok := match rest5 with
      | .text _ :: r => r
      | r => r
    match rest6 with
    | .close so2 :: rest7 =>
      if so2 ≠ lit "system-out" then .error "system-out not closed" else
      match dropBlank rest7 with
      | .open_ se _ false :: .close se2 :: rest8 =>
        if se ≠ lit "system-err" ∨ se2 ≠ lit "system-err" then .error "system-err expected" else
        match dropBlank rest8 with
        | [.close r] => if r = lit "testsuite" then .ok out else .error "testsuite not closed"
        | [.close r, .text t] =>
          if r = lit "testsuite" ∧ isBlank t then .ok out else .error "content after the root element"
        | _ => .error "testsuite not closed"
      | _ => .error "system-err expected"
    | _ => .error "system-out not closed (markup inside the captured output?)"
  | _ => .error "system-out expected after the test cases"

def readSuite (ts : List Tok) : Except String Suite :=
  match ts with
  | .pi :: rest =>
    match dropBlank rest with
    | .open_ name attrs false :: rest1 =>
      if name ≠ lit "testsuite" then .error "root element is not testsuite" else
      match dropBlank rest1 with
      | .open_ p _ false :: rest2 =>
        if p ≠ lit "properties" then .error "properties expected" else
        match dropBlank rest2 with
        | .close p2 :: rest3 =>
          if p2 ≠ lit "properties" then .error "properties not closed" else
          match readCases (rest3.length + 1) rest3 [] with
          | .error e => .error e
          | .ok (cases, rest4) =>
            match readEnding rest4 with
            | .error e => .error e
            | .ok out => suiteOfAttrs attrs cases out
        | _ => .error "properties not closed"
      | _ => .error "properties expected"
    | _ => .error "testsuite element expected"
  | _ => .error "XML declaration expected"

def parseReport (s : Bytes) : Except String Suite :=
  match tokenize (s.length + 1) s [] with
  | .ok ts => readSuite ts
  | .error e => .error e

end JUnit
