import CppUModel.Model.LeakDetector
/-!
Vocabulary of the C04 / C06 theorems: the abstraction of the hash table to a finite map
`address ⇀ record`, the invariant, the environment hypothesis, and the finite-map specification of every
operation.
-/
namespace LeakDetector
open Gen.LeakDetector (Period)

/-! ## abstraction -/

/-- all records of the table, bucket by bucket (the order `report` and the stage release visit them in) -/
def Table.flat (t : Table) : List Node := t.buckets.flatten

/-- the records the detector holds -/
def State.nodes (s : State) : List Node := s.table.flat

/-- the address is the address of an outstanding tracked block -/
def isLive (s : State) (a : Nat) : Bool := s.nodes.any (fun n => n.addr == a)

/-- The invariant: the table has `hash_prime > 0` buckets, every record sits in the bucket of its address,
    no two records have the same address, and `NULL` is not tracked. -/
structure Table.Inv (t : Table) : Prop where
  pos : 0 < t.hp
  len : t.buckets.length = t.hp
  placed : ∀ (i : Nat) (h : i < t.buckets.length), ∀ n ∈ t.buckets[i], t.hash n.addr = i
  distinct : (t.flat.map (·.addr)).Nodup
  nonnull : ∀ n ∈ t.flat, n.addr ≠ 0

def State.Inv (s : State) : Prop := s.table.Inv

/-- Environment hypothesis of one operation (decidable on a history): the underlying allocator /
    `PlatformSpecificRealloc` never answers with the address of a block that is still outstanding
    (`realloc` may answer with the block it was given). -/
def FreshAddr (s : State) : Op → Prop
  | .alloc _ _ _ _ _ result _ _ => result = 0 ∨ isLive s result = false
  | .realloc _ addr _ _ _ _ result _ => result = 0 ∨ result = addr ∨ isLive s result = false
  | _ => True

instance (s : State) (op : Op) : Decidable (FreshAddr s op) := by
  cases op <;> simp only [FreshAddr] <;> infer_instance

/-- the environment hypothesis along a whole history -/
def FreshAll : State → List Op → Prop
  | _, [] => True
  | s, op :: ops => FreshAddr s op ∧ FreshAll (step s op).1 ops

/-! ## the finite-map specification -/

namespace Spec

/-- a finite map from addresses to records -/
abbrev Map := Nat → Option Node

def Map.insert (m : Map) (n : Node) : Map := fun a => if a = n.addr then some n else m a
def Map.erase (m : Map) (a0 : Nat) : Map := fun a => if a = a0 then none else m a
def Map.filter (m : Map) (q : Node → Bool) : Map := fun a => (m a).filter q
def Map.mapVals (m : Map) (f : Node → Node) : Map := fun a => (m a).map f
def Map.update (m : Map) (a0 : Nat) (f : Node → Node) : Map := fun a => if a = a0 then (m a).map f else m a

/-- which records a period query sees, as documented: `all` sees everything, `disabled` and `checking`
    the records stamped with that period, `enabled` everything except what was allocated while disabled -/
def inPeriod (p : Period) (n : Node) : Bool :=
  match p with
  | .all => true
  | .disabled => n.period == .disabled
  | .enabled => n.period != .disabled
  | .checking => n.period == .checking

structure State where
  map          : Map
  period       : Period
  stage        : BitVec 8
  seq          : Nat
  typeChecking : Bool

def newNode (s : State) (addr size : Nat) (a : Allocator) (file : String) (line : Nat) (sep : Bool) (fill : UInt8) : Node :=
  { addr := addr, size := size, number := s.seq, file := file, line := line, allocator := a,
    period := s.period, stage := s.stage, sepNode := sep, bytes := freshBytes size fill }

/-- the specification of every operation on the finite map -/
def step (s : State) : Op → State
  | .alloc a size file line sep result nodeOk fill =>
    if sizeOverflows size ∨ result = 0 ∨ (sep = true ∧ nodeOk = false) then s
    else { s with map := s.map.insert (newNode s result size a file line sep fill), seq := s.seq + 1 }
  | .dealloc _ addr _ _ _ =>
    if addr = 0 then s else { s with map := s.map.erase addr }
  | .realloc a addr size file line sep result fill =>
    if sizeOverflows size then s
    else if addr = 0 then
      if result = 0 then s
      else { s with map := s.map.insert (newNode s result size a file line sep fill), seq := s.seq + 1 }
    else if s.map addr = none then s
    else if result = 0 then
      -- a failing realloc leaves the block outstanding (only the ghost layout flag follows the new bookkeeping)
      { s with map := s.map.update addr (fun o => { o with sepNode := sep }) }
    else { s with map := (s.map.erase addr).insert (newNode s result size a file line sep fill), seq := s.seq + 1 }
  | .startChecking => { s with period := .checking }
  | .stopChecking => { s with period := .enabled }
  | .enable => { s with period := .enabled }
  | .disable => { s with period := .disabled }
  | .typeCheckingOn => { s with typeChecking := true }
  | .typeCheckingOff => { s with typeChecking := false }
  | .incStage => { s with stage := s.stage + 1 }
  | .decStage => { s with stage := s.stage - 1 }
  | .deallocStage => { s with map := s.map.filter (fun n => !isInStage s.stage n) }
  | .clear p => { s with map := s.map.filter (fun n => !inPeriod p n) }
  | .markChecking => { s with map := s.map.mapVals demote }
  | .invalidate addr => { s with map := s.map.update addr poison }
  | .write addr off b => { s with map := s.map.update addr (fun n => { n with bytes := setByte n.bytes off b }) }

def run : State → List Op → State
  | s, [] => s
  | s, op :: ops => run (step s op) ops

end Spec

/-- the abstraction function: the table as a finite map (lookup by address), the scalars unchanged -/
def abs (s : State) : Spec.State :=
  { map := fun a => s.table.retrieveNode a, period := s.period, stage := s.stage, seq := s.seq,
    typeChecking := s.typeChecking }

/-! ## C06 vocabulary -/

/-- the family an allocator releases/allocates for: the name of its actual allocator -/
def family (a : Allocator) : String := a.actual.name

/-- two allocator objects with one identity are one object (so they carry one name) -/
def ConsistentIds (a b : Allocator) : Prop := a.actual.id = b.actual.id → a.actual = b.actual

/-- all guard bytes behind the user bytes still hold the pattern -/
def GuardIntact (n : Node) : Prop := ∀ i, i < Gen.LeakDetector.guardSize →
  n.guardAt i = Gen.LeakDetector.guardBytes.getD (i % Gen.LeakDetector.guardBytes.length) 0

/-- the failure category an operation reported first (`none`: no report) -/
def firstFail : List Ev → Option FailKind
  | [] => none
  | .fail k _ _ _ _ _ _ _ :: _ => some k
  | _ :: rest => firstFail rest

/-- the `(memory, user bytes)` pairs handed back to the underlying allocator -/
def freedBytes : List Ev → List (Nat × List UInt8)
  | [] => []
  | .ufree _ a _ u :: rest => (a, u) :: freedBytes rest
  | _ :: rest => freedBytes rest

/-! ## the global overloads: which family each form belongs to (C++: `new` ↔ `delete`, `new[]` ↔ `delete[]`, `malloc` ↔ `free`) -/

def acquireForms : List String := ["new", "new_fi", "new_fs", "new_nt", "newa", "newa_fi", "newa_fs", "newa_nt", "malloc"]
def releaseForms : List String :=
  ["del", "del_fi", "del_fs", "del_sz", "del_nt", "dela", "dela_fi", "dela_fs", "dela_sz", "dela_nt", "free"]

/-- the family a form must work with, whatever extra arguments (file/line, size, `std::nothrow`) it takes -/
def requiredFamily : String → Family
  | "malloc" | "free" => .malloc
  | "newa" | "newa_fi" | "newa_fs" | "newa_nt" | "dela" | "dela_fi" | "dela_fs" | "dela_sz" | "dela_nt" => .newArray
  | _ => .new

/-- does the form hand file and line to the detector (the `(size, file, line)` forms and `malloc` / `free`) -/
def requiredLocation : String → Bool
  | "new_fi" | "new_fs" | "newa_fi" | "newa_fs" | "malloc" | "free" => true
  | _ => false

/-- every acquiring form, in both overload modes, ends in an `allocMemory` with the current allocator of its family,
    passing the location iff the form has one, with the family's bookkeeping layout -/
def acquireFormsWiredCorrectly : Bool :=
  [false, true].all (fun ts =>
    acquireForms.all (fun f =>
      match acquireWrapperOf ts f with
      | some w => familyOfGetter w.getter == requiredFamily f && !w.isRealloc && w.withLocation == requiredLocation f
                  && w.separateNode == (requiredFamily f == .malloc)
      | none => false))

/-- every releasing form, in both overload modes, ends in a release wrapper of its family -/
def releaseFormsWiredCorrectly : Bool :=
  [false, true].all (fun ts =>
    releaseForms.all (fun f =>
      match releaseWrapperOf ts f with
      | some w => familyOfGetter w.getter == requiredFamily f && w.separateNode == (requiredFamily f == .malloc)
      | none => false))

def overloadsWiredCorrectly : Bool := acquireFormsWiredCorrectly && releaseFormsWiredCorrectly

/-- the family a member / getter / setter name of the memory-report plugin belongs to -/
def wiringFamily : String → Option Family
  | "mallocAllocator" | "getCurrentMallocAllocator" | "setCurrentMallocAllocator" => some .malloc
  | "newAllocator" | "getCurrentNewAllocator" | "setCurrentNewAllocator" => some .new
  | "newArrayAllocator" | "getCurrentNewArrayAllocator" | "setCurrentNewArrayAllocator" => some .newArray
  | _ => none

/-- every install statement pair and every remove statement of `MemoryReporterPlugin` stays inside one family, and the
    three families are each handled once -/
def reportWiringOk : Bool :=
  let one (e : String × String × String × String) : Option Family :=
    match wiringFamily e.1, wiringFamily e.2.1, wiringFamily e.2.2.1, wiringFamily e.2.2.2 with
    | some a, some b, some c, some d => if a == b && b == c && c == d then some a else none
    | _, _, _, _ => none
  let fams (l : List (String × String × String × String)) : List (Option Family) := l.map one
  let ok (l : List (Option Family)) : Bool :=
    l.length == 3 && l.contains (some .malloc) && l.contains (some .new) && l.contains (some .newArray)
  ok (fams Gen.LeakDetector.reportInstall) && ok (fams Gen.LeakDetector.reportRemove)

/-- number of allocations / reallocations that returned memory to the caller -/
def successes : List Ev → Nat
  | [] => 0
  | .ret a :: rest => (if a = 0 then 0 else 1) + successes rest
  | _ :: rest => successes rest

/-- the period an operation switches to, if it is a period switch (`startChecking`, `stopChecking`, `enable`, `disable`) -/
def periodSwitch : Op → Option Period
  | .startChecking => some .checking
  | .stopChecking => some .enabled
  | .enable => some .enabled
  | .disable => some .disabled
  | _ => none

/-- `increaseAllocationStage()` called `k` times -/
def increaseStageTimes : Nat → State → State
  | 0, s => s
  | k + 1, s => increaseStage (increaseStageTimes k s)

/-- the allocation numbers of the records are pairwise distinct and all below the next number -/
def NumInv (s : State) : Prop :=
  (∀ n ∈ s.nodes, n.number < s.seq) ∧ (s.nodes.map (·.number)).Nodup

end LeakDetector
