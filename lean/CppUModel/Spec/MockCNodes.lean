import CppUModel.Model.MockCNodes
/-!
# C19 — what the node lists of the C mocking layer must do (hand-written; nothing here is generated)

A linked list with a file-static head: the constructor links the new node in front of the old head, and the freeing
loop reads `next_` BEFORE it deletes the node and advances AFTER it.
-/
namespace MockC.Nodes.Req
open MockC MockC.Nodes

def loopBody (L : String) : List NStmt := [.loadNext L "next_", .delete L, .advance L]

def removeAllLoops : List NLoop :=
  [⟨"comparatorList_", loopBody "comparatorList_"⟩, ⟨"copierList_", loopBody "copierList_"⟩]

def nodeCtors : List NodeCtor := [
  ⟨"MockCFunctionComparatorNode", ["next", "equal", "toString"], [("next_", "next"), ("equal_", "equal"), ("toString_", "toString")]⟩,
  ⟨"MockCFunctionCopierNode", ["next", "copier"], [("next_", "next"), ("copier_", "copier")]⟩]

def listHeads : List (String × String × String) :=
  [("comparatorList_", "MockCFunctionComparatorNode", "NULLPTR"), ("copierList_", "MockCFunctionCopierNode", "NULLPTR")]

end MockC.Nodes.Req

namespace MockC.Nodes

/-- the list is what its head reaches: every live node is on the chain, in allocation order, and nothing went wrong -/
structure LInv (s : LState) : Prop where
  chain_live : s.chain = s.live
  ok : s.bad = false

structure NInv (s : NState) : Prop where
  cmp : LInv s.cmp
  cpy : LInv s.cpy
  /-- every node ever allocated is either still on its list or has been deleted exactly once -/
  account : (s.freed ++ s.live).Perm (List.range s.fresh)

def Holder.scope : Holder → String
  | .repo s => s
  | .exp s => s

/-- every pointer the C++ core holds is to a live node; expectations hold pointers only while `pending` -/
structure WInv (w : World) (d : Disc) : Prop where
  nodes : NInv w.nodes
  cur : d.cur = w.cur
  glob : "" ∈ w.scopes
  refs_live : ∀ r ∈ w.refs, r.2 ∈ w.nodes.live
  exp_pending : d.pending = false → ∀ r ∈ w.refs, isRepo r = true
  cur_known : ∀ s, w.cur = some s → s ∈ w.scopes
  holder_known : ∀ r ∈ w.refs, r.1.scope ∈ w.scopes

end MockC.Nodes
