import CppUModel.Model.CacheHeap
import CppUModel.Spec.Cache
/-! Representation relation between the pointer-level state (`Cache.Heap.HState`, on which the
regenerated member functions run) and the list-level state (`Cache.State`) of the C18 theorems. -/
namespace Cache.Heap
open Cache

/-- `p` is the head of a NULL-terminated chain of cells that spells out `bs`
    (node id = address of the `SimpleStringMemoryBlock`, `mem` = its `memory_`) -/
def IsList (cells : Nat → Option Cell) : Nat → List Block → Prop
  | p, [] => p = 0
  | p, b :: bs => p ≠ 0 ∧ p = b.node ∧ ∃ nx, cells p = some ⟨nx, b.mem⟩ ∧ IsList cells nx bs

/-- the pointer-level state represents the list-level state -/
structure Rep (hs : HState) (s : State) : Prop where
  len    : hs.nodes.length = s.classes.length
  cls    : ∀ (i : Nat) (nd : HNode) (c : Class), hs.nodes[i]? = some nd → s.classes[i]? = some c →
             nd.size = c.size ∧ IsList hs.cells nd.free c.free ∧ IsList hs.cells nd.used c.used
  unc    : IsList hs.cells hs.nonCached s.uncached
  warned : hs.warned = s.warned

/-- environment hypothesis at the pointer level: the allocator never returns NULL for the list node
    (the code dereferences it unchecked) -/
def FreshH (s : State) : Op → Prop
  | .alloc sz n m => Fresh s (.alloc sz n m) ∧ n ≠ 0
  | _ => True

end Cache.Heap
