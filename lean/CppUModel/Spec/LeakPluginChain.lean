import CppUModel.Model.LeakPluginChain
import CppUModel.Spec.LeakPlugin
/-!
Vocabulary of the C07 theorems about a test run under several plugins, on the HISTORY (plain lists of block
ids; no detector, no periods, no chain walk).

The plugins installed AFTER the leak plugin (`outer`, nearer to the head of the chain) act outside the window:
their pre actions before the leak plugin's pre action, their post actions after its post action.  The plugins
installed BEFORE it (`inner`) act inside the window, their pre actions in chain order before the test object is
created, their post actions in reverse chain order after it is destroyed.
-/
namespace LeakPlugin
namespace Hist

/-- a command of a plugin action inside the window: memory operations count like anywhere in the window, a
    failure the plugin adds is a failure of this test -/
def hAct (h : HState) : Cmd → HState
  | .fail => { h with own := h.own + 1 }
  | .alloc id size => hMem h (.alloc id size)
  | .free id => hMem h (.free id)
  | .realloc id newId size => hMem h (.realloc id newId size)
  | .reallocFail _ _ => h
  | .envSeq _ => h
  | .expectLeaks _ => h
  | .ignoreLeaks => h

def hRunAct (h : HState) (cs : List Cmd) : HState := cs.foldl hAct h

/-- a command of a plugin action outside the window: only the set of outstanding blocks changes -/
def hOutAct (live : List Nat) : Cmd → List Nat
  | .alloc id size => hOutside live (.alloc id size)
  | .free id => hOutside live (.free id)
  | .realloc id newId _ =>
    if id ∉ live then live else if newId ≠ id ∧ newId ∈ live then live
    else hOutside (hOutside live (.free id)) (.alloc newId 0)
  | _ => live

def liveOut (live : List Nat) (cs : List Cmd) : List Nat := cs.foldl hOutAct live

/-- the commands the pre actions of the enabled plugins of `l` perform, in the order they are performed -/
def preCmds (l : List Other) : List Cmd := l.flatMap (fun o => if o.enabled then o.pre else [])

/-- the same for the post actions: last plugin of the chain first -/
def postCmds (l : List Other) : List Cmd := l.reverse.flatMap (fun o => if o.enabled then o.post else [])

/-- a test under a chain with exactly one (enabled) leak plugin: the plugins in front of it and behind it -/
structure ChainSpec where
  outer : List Other := []     -- installed after the leak plugin
  inner : List Other := []     -- installed before the leak plugin
  obj   : TestObj := {}
deriving Repr, Inhabited

def ChainSpec.toTest (t : ChainSpec) : ChainTest :=
  { chain := t.outer.map .other ++ .leak true :: t.inner.map .other, obj := t.obj }

/-- outstanding blocks at the leak plugin's pre action -/
def liveAtLeakPre (live : List Nat) (t : ChainSpec) : List Nat :=
  liveOut (liveAtStart live t.obj.test) (preCmds t.outer)

/-- the history of the window: from the leak plugin's pre action to its post action -/
def atEndChain (live : List Nat) (t : ChainSpec) : HState :=
  hRunAct (hRunMem (throughPhases (hRunMem (hRunAct (start (liveAtLeakPre live t)) (preCmds t.inner)) t.obj.ctor)
    t.obj.test) t.obj.dtor) (postCmds t.inner)

def blocksOfChain (live : List Nat) (t : ChainSpec) : List Nat := (atEndChain live t).mine

/-- the condition of the property statement -/
def shouldFailChain (live : List Nat) (t : ChainSpec) : Bool := verdictAt (atEndChain live t)

/-- outstanding blocks after the last post action -/
def liveAfterChain (live : List Nat) (t : ChainSpec) : List Nat :=
  liveOut (atEndChain live t).live (postCmds t.outer)

def chainVerdicts : List Nat → List ChainSpec → List Bool
  | _, [] => []
  | live, t :: ts => shouldFailChain live t :: chainVerdicts (liveAfterChain live t) ts

end Hist
end LeakPlugin
