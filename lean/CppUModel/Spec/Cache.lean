import CppUModel.Model.Cache
/-! Observables and invariants the C18 theorems are stated with. -/
namespace Cache

def Block.ids (b : Block) : List Nat := [b.node, b.mem]
def Class.blocks (c : Class) : List Block := c.free ++ c.used
def State.blocks (s : State) : List Block := s.classes.flatMap Class.blocks ++ s.uncached

/-- ids of all underlying allocations the cache currently holds -/
def State.liveIds (s : State) : List Nat := s.table.toList ++ s.blocks.flatMap Block.ids

/-- buffers currently handed out to callers (the used lists and the uncached list) -/
def State.usedMems (s : State) : List Nat :=
  (s.classes.flatMap (·.used) ++ s.uncached).map (·.mem)

def State.freeMems (s : State) : List Nat := (s.classes.flatMap (·.free)).map (·.mem)

def allocd (evs : List Ev) : List Nat :=
  evs.filterMap (fun e => match e with | .ualloc _ i => some i | _ => none)
def freed (evs : List Ev) : List Nat :=
  evs.filterMap (fun e => match e with | .ufree i _ => some i | _ => none)
def returned (evs : List Ev) : List Nat :=
  evs.filterMap (fun e => match e with | .ret i => some i | _ => none)

/-- Every block of a size class has a buffer of the class size; class sizes are the table. -/
def SizesOk (s : State) : Prop :=
  s.classes.map (·.size) = Gen.Cache.classSizes ∧
  ∀ c ∈ s.classes, ∀ b ∈ c.blocks, b.msize = c.size

/-- the invariant: no underlying allocation is referenced twice -/
def Inv (s : State) : Prop := s.liveIds.Nodup ∧ SizesOk s

/-- environment hypothesis of an operation: the ids the underlying allocator hands out are
    not ids of allocations that are still live, and differ from each other -/
def Fresh (s : State) : Op → Prop
  | .alloc _ n m => n ∉ s.liveIds ∧ m ∉ s.liveIds ∧ n ≠ m
  | _ => True

/-- run a history -/
def run : State → List Op → State × List Ev
  | s, [] => (s, [])
  | s, op :: ops =>
    let (s1, e1) := step s op
    let (s2, e2) := run s1 ops
    (s2, e1 ++ e2)

/-- the environment hypothesis along a whole history -/
def FreshAll : State → List Op → Prop
  | _, [] => True
  | s, op :: ops => Fresh s op ∧ FreshAll (step s op).1 ops

end Cache
