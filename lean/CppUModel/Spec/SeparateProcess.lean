import CppUModel.Model.SeparateProcess
/-!
Vocabulary of the C11 theorems and of the specification oracle.

`classify` is the textbook reading of a wait status word (POSIX / Linux `wait(2)`): the low seven
bits are the terminating signal (0 = exited, 0x7f = not terminated), bit 7 is the core-dump flag,
bits 8–15 are the exit status or the stop signal.  It is written with `%` and `/`, independently
of the glibc macro definitions that the model uses.
-/
namespace SepProc

inductive StatusClass
  | exited (code : Nat)           -- the child called _exit(code) / returned
  | signaled (sig : Nat)          -- the child was killed by signal `sig` (1 … 126)
  | stopped (sig : Nat)           -- the child is stopped by signal `sig` (reported because of WUNTRACED)
  | other                         -- none of the three (e.g. 0xffff = continued)
deriving Repr, DecidableEq, Inhabited

def classify (s : BitVec 32) : StatusClass :=
  if s.toNat % 128 = 0 then .exited (s.toNat / 256 % 256)
  else if s.toNat % 128 = 127 then
    (if s.toNat % 256 = 127 then .stopped (s.toNat / 256 % 256) else .other)
  else .signaled (s.toNat % 128)

/-- the child is gone: nothing more to wait for -/
def StatusClass.terminal : StatusClass → Bool
  | .exited _ => true
  | .signaled _ => true
  | _ => false

def StatusClass.isStopped : StatusClass → Bool
  | .stopped _ => true
  | _ => false

/-- the failure classes the property asks for, per status class: one per death event, none for a
    normal exit -/
def StatusClass.expected : StatusClass → List FailClass
  | .exited 0 => []
  | .exited _ => [.exitedNonZero]
  | .signaled n => [.killedBySignal n]
  | .stopped _ => [.stopped]
  | .other => []

/-- a wait result after which the parent has to keep waiting -/
def WaitOutcome.nonFinal : WaitOutcome → Bool
  | .eintr => true
  | .error => false
  | .status s => !(classify s).terminal

def WaitOutcome.isEintr : WaitOutcome → Bool
  | .eintr => true
  | _ => false

def WaitOutcome.isStop : WaitOutcome → Bool
  | .status s => (classify s).isStopped
  | _ => false

def eintrCount (outs : List WaitOutcome) : Nat := outs.countP WaitOutcome.isEintr
def stopCount (outs : List WaitOutcome) : Nat := outs.countP WaitOutcome.isStop

/-- the failure classes the property asks for, for one wait result that is not an EINTR giving-up -/
def WaitOutcome.expected : WaitOutcome → List FailClass
  | .eintr => []
  | .error => [.waitFailed]
  | .status s => (classify s).expected

def classes (fs : List Failure) : List FailClass := fs.map (·.cls)

/-- the script contains something that ends the waiting: the child's death or a waitpid error -/
def HasFinal (outs : List WaitOutcome) : Prop := ∃ o ∈ outs, o.nonFinal = false

/-- the parent's wait for this test comes back (it is not left blocked in `waitpid`) -/
def TestScript.returns (t : TestScript) : Prop := (runSeparate t).ended ≠ .starved

end SepProc
