import CppUModel.Model.Registry
/-!
Vocabulary the C02 theorems are stated with: the documented ("textbook") meaning of filters and
selection, projections of the callback stream, the balanced-notifications automaton, the
"is the linked list" predicate, and well-formedness of a registry.
-/
namespace Registry
open Text (Bytes)

/-! ## documented meaning of filters -/

/-- the filter's text occurs in `s` (substring filter) or equals `s` (strict filter) -/
def Filter.hit (f : Filter) (s : Bytes) : Prop :=
  (f.strict = true ∧ s = f.text) ∨ (f.strict = false ∧ f.text <:+: s)

/-- a filter accepts by substring, by exact match, or by the negation of either as requested -/
def Filter.accepts (f : Filter) (s : Bytes) : Prop :=
  (f.invert = false ∧ f.hit s) ∨ (f.invert = true ∧ ¬ f.hit s)

/-- accepted by at least one filter of the kind, when any are given -/
def kindAccepts (fs : List Filter) (s : Bytes) : Prop :=
  fs = [] ∨ ∃ f ∈ fs, f.accepts s

/-- group accepted by the group filters AND name accepted by the name filters -/
def Selected (cfg : Cfg) (t : Test) : Prop :=
  kindAccepts cfg.groupFilters t.group ∧ kindAccepts cfg.nameFilters t.name

/-- a selected test's body is executed: it is a normal test, or run-ignored is on in the
    registry, or the shell itself was told to run (`shell->setRunIgnored()`) -/
def willRun (cfg : Cfg) (t : Test) : Bool := !t.ignored || cfg.runIgnored || t.flag

/-! ## projections of the callback stream -/

def started (evs : List Ev) : List Nat :=
  evs.filterMap (fun e => match e with | .testStart i => some i | _ => none)
def executed (evs : List Ev) : List Nat :=
  evs.filterMap (fun e => match e with | .exec i => some i | _ => none)
def ended (evs : List Ev) : List Nat :=
  evs.filterMap (fun e => match e with | .testEnd i => some i | _ => none)
def groupStarts (evs : List Ev) : List Nat :=
  evs.filterMap (fun e => match e with | .groupStart i => some i | _ => none)
def groupEnds (evs : List Ev) : List Nat :=
  evs.filterMap (fun e => match e with | .groupEnd i => some i | _ => none)

/-! ## balanced notifications: `S (gs (ts x? te)* ge)* E` -/

inductive Phase
  | init | closed | opened | inTest (id : Nat) (ran : Bool) | done
deriving DecidableEq, Repr

def balStep : Phase → Ev → Option Phase
  | .init, .testsStarted => some .closed
  | .closed, .groupStart _ => some .opened
  | .opened, .testStart i => some (.inTest i false)
  | .inTest i false, .exec j => if i = j then some (.inTest i true) else none
  | .inTest i _, .testEnd j => if i = j then some .opened else none
  | .opened, .groupEnd _ => some .closed
  | .closed, .testsEnded => some .done
  | _, _ => none

def balRun : Phase → List Ev → Option Phase
  | p, [] => some p
  | p, e :: es =>
    match balStep p e with
    | some q => balRun q es
    | none => none

/-- the whole callback stream of one `runAllTests` is balanced -/
def Balanced (evs : List Ev) : Prop := balRun .init evs = some .done

/-! ## group blocks: the tests visited between a group start and its group end -/

/-- splits a test list where `endOfGroup` fires (maximal runs of equal group names) -/
def groupBlocks : List Test → List (List Test)
  | [] => []
  | t :: rest =>
    if endOfGroup t rest then [t] :: groupBlocks rest
    else match groupBlocks rest with
      | [] => [[t]]
      | b :: bs => (t :: b) :: bs

/-! ## the linked list -/

/-- following `next_` from `h` visits exactly `l` and then reaches NULL -/
inductive Linked (nx : Next) : Option Nat → List Nat → Prop
  | nil : Linked nx none []
  | cons {i : Nat} {l : List Nat} : Linked nx (nx i) l → Linked nx (some i) (i :: l)

/-- a registry whose list is a proper NULL-terminated list of distinct existing shells
    (shells removed by `unDoLastAddTest` still exist but are not in the list) -/
structure Reg.WF (r : Reg) : Prop where
  linked : Linked r.next r.head r.order
  nodup  : r.order.Nodup
  bound  : ∀ i ∈ r.order, i < r.objs.size
  ids    : ∀ (i : Nat) (t : Test), r.objs[i]? = some t → t.id = i

/-- every shell that was ever created is in the list (no `unDoLastAddTest` happened) -/
def Reg.Complete (r : Reg) : Prop := r.order.Perm (List.range r.objs.size)

/-- the part of a shell that decides what a run does with it -/
def Test.key (cfg : Cfg) (t : Test) : Nat × Bool × Bool := (t.id, shouldRun cfg t, Registry.willRun cfg t)

/-- ids of the shells a run executes: selected and willing to run -/
def Reg.selectedRunIds (r : Reg) : List Nat :=
  (r.tests.filter (fun t => shouldRun r.cfg t && willRun r.cfg t)).map (·.id)

/-! ## list modes -/

/-- the accumulation both list loops perform on delimited entries `#...#`: an entry is appended
    (followed by a space) unless it already occurs in what was accumulated -/
def accLoop : List Bytes → Bytes → Bytes
  | [], acc => acc
  | e :: es, acc => if Text.isInfix acc e then accLoop es acc else accLoop es (acc ++ e ++ [space])

def groupEntry (t : Test) : Bytes := [hash] ++ t.group ++ [hash]

/-- entries followed by their separating space -/
def encEntries (ds : List Bytes) : Bytes := ds.flatMap (fun e => e ++ [space])

abbrev Key := Nat × Bool × Bool

/-- from the keys of the shells of a list: which bodies a run executes, which tests it starts,
    and what it counts -/
def execOfKeys (K : List Key) : List Nat := (K.filter (fun k => k.2.1 && k.2.2)).map (·.1)
def startOfKeys (K : List Key) : List Nat := (K.filter (fun k => k.2.1)).map (·.1)
def countersOfKeys (K : List Key) : Counters :=
  { testCount := K.length,
    runCount := (K.filter (fun k => k.2.1 && k.2.2)).length,
    ignoredCount := (K.filter (fun k => k.2.1 && !k.2.2)).length,
    filteredOutCount := (K.filter (fun k => !k.2.1)).length }

def Reg.keys (r : Reg) : List Key := r.tests.map (Test.key r.cfg)

/-- one repetition did exactly what the keys say: every selected test started once, every
    selected and willing body executed once (as multisets: the order may be shuffled), the
    counters are the documented ones, the notifications are balanced -/
def RunOf (K : List Key) (ce : Counters × List Ev) : Prop :=
  ce.1 = countersOfKeys K ∧ (executed ce.2).Perm (execOfKeys K) ∧
  (started ce.2).Perm (startOfKeys K) ∧ Balanced ce.2

def runsOf (out : List ROut) : List (Counters × List Ev) :=
  out.filterMap (fun o => match o with | .run c e => some (c, e) | _ => none)

end Registry
