import CppUModel.Model.Asserts
/-!
Vocabulary of the C03 theorems: what "the mathematical predicate named by the check" is.

* integers: an operand is a mathematical integer `v : Int`; `asType t v` is the value it has
  after the C conversion to the integer type `t` (what the macro's cast / the parameter
  passing does); `InRange t v` says the conversion does not change the value.
* strings: equality / prefix equality / `List.IsInfix` on NUL-free byte lists, `Text.lower`.
* doubles: `SameInf` on the class model.
-/
namespace Asserts
open Text

def tyLong : CTy := { w := 64, signed := true }
def tyULong : CTy := { w := 64, signed := false }
def tySChar : CTy := { w := 8, signed := true }
def tyUChar : CTy := { w := 8, signed := false }
def tyUInt : CTy := { w := 32, signed := false }

/-- the value of `v` after conversion to the integer type `t` -/
def asType (t : CTy) (v : Int) : Int := valueAt t.signed (conv t.w v)

/-- `v` is representable in `t` -/
def InRange (t : CTy) (v : Int) : Prop :=
  if t.signed then -(2 : Int) ^ (t.w - 1) ≤ v ∧ v < (2 : Int) ^ (t.w - 1)
  else 0 ≤ v ∧ v < (2 : Int) ^ t.w

instance (t : CTy) (v : Int) : Decidable (InRange t v) := by unfold InRange; exact inferInstance

/-- a C string has no interior NUL -/
def NulFree (b : Bytes) : Prop := ∀ c ∈ b, c ≠ 0

instance (b : Bytes) : Decidable (NulFree b) := by unfold NulFree; exact inferInstance

/-- both operands of a string/block check, `none` = NULL: "NULL equals only NULL", and two
    non-NULL operands are related by `p` -/
def NullOrRel (p : Bytes → Bytes → Prop) : Option Bytes → Option Bytes → Prop
  | none, none => True
  | some e, some a => p e a
  | _, _ => False

/-- the mathematical predicate a compound condition over two integers names -/
def CondOp.Holds : CondOp → Int → Int → Prop
  | .or, a, b => a ≠ 0 ∨ b ≠ 0
  | .and, a, b => a ≠ 0 ∧ b ≠ 0
  | .eq, a, b => a = b
  | .ne, a, b => a ≠ b
  | .lt, a, b => a < b
  | .cond, a, b => a ≠ 0 ∧ b ≠ 0

namespace D
variable {F : Type}

/-- both are the same infinity -/
def SameInf : D F → D F → Prop
  | inf n, inf m => n = m
  | _, _ => False

end D

end Asserts
