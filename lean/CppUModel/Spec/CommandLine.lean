import CppUModel.Spec.Text
/-!
# C12 — vocabulary: configuration, documented options, their rendering and their meaning

Everything here is written from the *help text* (`CommandLineArguments::help()/usage()`) and
DESIGN.md appendix B, not from the parser: `Config` is what the getters of
`CommandLineArguments` expose (plus the two filter lists), `Opt` the documented options with
identifier-like values, `render` their attached / separated spelling, `meaning` what the help
text says they do (last writer wins for scalars, filters accumulate, most recent first).

Also defined here (own file, as DESIGN appendix A asks): the reference meaning of `AtoI`/`AtoU`
with the wrap-around of the C code stated, and `splitCode`, the exact variant of `Text.split`
for the one corner where `SimpleString::split` differs from the textbook definition
(`"".split(d)` yields one empty token, `Text.split [] d = []`).  The link from
`SimpleString`'s C++ to the `Text` functions is property C13's job.
-/
namespace CommandLine
open Text

/-! ## configuration -/

inductive OutputType | eclipse | junit | teamcity
deriving DecidableEq, Repr, Inhabited

/-- one `TestFilter`: text, `strictMatching_`, `invertMatching_` -/
structure Filter where
  text   : Bytes
  strict : Bool
  invert : Bool
deriving DecidableEq, Repr, Inhabited

/-- all getters of `CommandLineArguments` + the two filter lists (head = most recently added,
    as `TestFilter::add` builds the chain) -/
structure Config where
  needHelp        : Bool := false
  verbose         : Bool := false
  veryVerbose     : Bool := false
  color           : Bool := false
  separateProcess : Bool := false
  listGroups      : Bool := false
  listNames       : Bool := false
  listLocations   : Bool := false
  runIgnored      : Bool := false
  reversing       : Bool := false
  crashOnFail     : Bool := false
  rethrow         : Bool := true
  shuffling       : Bool := false
  repeatCount     : Nat := 1
  shuffleSeed     : Nat := 0
  groupFilters    : List Filter := []
  nameFilters     : List Filter := []
  output          : OutputType := .eclipse
  packageName     : Bytes := []
deriving DecidableEq, Repr, Inhabited

/-- `TestPlugin::parseAllArguments(ac, av, index)` over a plugin chain (head = first plugin):
    `if (parseArguments(…)) return true; if (next_) return next_->parseAllArguments(…); return false;`
    — the plugins are asked in chain order until the first one accepts; a plugin's
    `parseArguments` is represented by its answer for the argument `av[index]` -/
def chainAnswer : List (Bytes → Bool) → Bytes → Bool
  | [], _ => false
  | p :: ps, a => if p a then true else chainAnswer ps a

/-- how many plugins of the chain are asked about the argument -/
def chainAsked : List (Bytes → Bool) → Bytes → Nat
  | [], _ => 0
  | p :: ps, a => if p a then 1 else 1 + chainAsked ps a

/-- environment of one `parse` call: the millisecond clock read by `setShuffle` and the plugin
    chain that `-p<x>` arguments are handed to -/
structure Env where
  time    : Nat
  plugins : List (Bytes → Bool)

/-- the answer of the plugin chain for an argument that starts with `-p` -/
def Env.plugin (env : Env) (a : Bytes) : Bool := chainAnswer env.plugins a

/-- `shuffleSeed_ = (unsigned int) GetPlatformSpecificTimeInMillis(); if (shuffleSeed_ == 0) shuffleSeed_++` -/
def timeSeed (t : Nat) : Nat := if t % 2 ^ 32 = 0 then 1 else t % 2 ^ 32

/-! ## filters: the documented substring / strict / exclude meaning -/

def Filter.accepts (f : Filter) (s : Bytes) : Bool :=
  (if f.strict then s == f.text else isInfix s f.text) != f.invert

/-- no filter of a kind: everything passes; otherwise at least one filter must accept -/
def anyAccepts (fs : List Filter) (s : Bytes) : Bool := fs.isEmpty || fs.any (·.accepts s)

def selects (c : Config) (group name : Bytes) : Bool :=
  anyAccepts c.groupFilters group && anyAccepts c.nameFilters name

/-- `TestFilter::asString()` -/
def Filter.asString (f : Filter) : Bytes :=
  -- TestFilter: "
  [84, 101, 115, 116, 70, 105, 108, 116, 101, 114, 58, 32, 34] ++ f.text ++ [34] ++
  (if f.strict && f.invert then
     -- " with strict, invert matching"
     [32, 119, 105, 116, 104, 32, 115, 116, 114, 105, 99, 116, 44, 32, 105, 110, 118, 101, 114, 116,
      32, 109, 97, 116, 99, 104, 105, 110, 103]
   else if f.strict then
     -- " with strict matching"
     [32, 119, 105, 116, 104, 32, 115, 116, 114, 105, 99, 116, 32, 109, 97, 116, 99, 104, 105, 110, 103]
   else if f.invert then
     -- " with invert matching"
     [32, 119, 105, 116, 104, 32, 105, 110, 118, 101, 114, 116, 32, 109, 97, 116, 99, 104, 105, 110, 103]
   else [])

/-! ## AtoI / AtoU (DESIGN appendix A), on byte strings without terminator -/

/-- `isSpace(char)`: blank or 9..13 (bytes ≥ 0x80 are negative `char`s, hence no blanks) -/
def isSpaceB (c : UInt8) : Bool := c == 32 || (8 < c && c < 14)
def isDigitB (c : UInt8) : Bool := 48 ≤ c && c ≤ 57

def skipSpaces : Bytes → Bytes
  | [] => []
  | c :: t => if isSpaceB c then skipSpaces t else c :: t

/-- the digit loop `result *= 10; result += *str - '0'` in 32-bit arithmetic: `acc` and the
    result are the bit pattern as a number below 2^32 (for `int` this is two's complement
    wrap-around, which is what the compiled code does; C leaves the signed case undefined) -/
def digitsAcc : Nat → Bytes → Nat
  | acc, [] => acc
  | acc, c :: t => if isDigitB c then digitsAcc ((acc * 10 + (c.toNat - 48)) % 2 ^ 32) t else acc

/-- `AtoU`: blanks, then digits only; value mod 2^32 -/
def atou (s : Bytes) : Nat := digitsAcc 0 (skipSpaces s)

/-- `AtoI` as the 32-bit pattern of the returned `int` -/
def atoiBits (s : Bytes) : Nat :=
  match skipSpaces s with
  | [] => 0
  | c :: t =>
    if c == 45 then (2 ^ 32 - digitsAcc 0 t) % 2 ^ 32
    else if c == 43 then digitsAcc 0 t
    else digitsAcc 0 (c :: t)

/-- `(size_t) int` on LP64: sign extension -/
def intBitsToSizeT (b : Nat) : Nat := if b < 2 ^ 31 then b else 2 ^ 64 - 2 ^ 32 + b

/-- `(size_t) AtoI(s)` -/
def atoiSizeT (s : Bytes) : Nat := intBitsToSizeT (atoiBits s)

/-- textbook value of a decimal digit string (Horner) -/
def decVal (ds : Bytes) : Nat := ds.foldl (fun acc c => acc * 10 + (c.toNat - 48)) 0

/-! ## `split` as `SimpleString::split` does it

`Text.split a d` for `a ≠ ""`; the empty string yields ONE empty token in the code
(`extraEndToken` is set because `num == 0 && !endsWith(delimiter)`). -/
def splitCode (a d : Bytes) : List Bytes := if a.isEmpty then [[]] else split a d

/-! ## documented options -/

def isIdentStart (c : UInt8) : Bool := (65 ≤ c && c ≤ 90) || (97 ≤ c && c ≤ 122) || c == 95
def isIdentChar (c : UInt8) : Bool := isIdentStart c || isDigitB c

/-- `[A-Za-z_][A-Za-z0-9_]*` -/
def isIdent : Bytes → Bool
  | [] => false
  | c :: t => isIdentStart c && t.all isIdentChar

structure Ident where
  val : Bytes
  ok  : isIdent val = true

/-- a decimal number as written on the command line: non-empty digit string (leading zeros
    allowed) -/
def isNumber (ds : Bytes) : Bool := !ds.isEmpty && ds.all isDigitB

/-- repeat count: `1 ≤ n < 2^31` (the documented range of an `int` count) -/
structure Count where
  digits : Bytes
  num    : isNumber digits = true
  pos    : 1 ≤ decVal digits
  small  : decVal digits < 2 ^ 31

/-- shuffle seed: `1 ≤ s < 2^32` ("must be greater than 0", an `unsigned int`) -/
structure Seed where
  digits : Bytes
  num    : isNumber digits = true
  pos    : 1 ≤ decVal digits
  small  : decVal digits < 2 ^ 32

inductive Flag
  | v | vv | c | p | b | ri | f | e | ci | lg | ln | ll
deriving DecidableEq, Repr

/-- the four kinds of a filter option: `-g`, `-sg`, `-xg`, `-xsg` (and the same for n / t) -/
inductive FKind | sub | strict | excl | exclStrict
deriving DecidableEq, Repr

inductive OutKind | normal | eclipse | junit | teamcity
deriving DecidableEq, Repr

inductive Opt
  | flag (fl : Flag)
  | repeatDefault                      -- `-r`
  | repeatN (n : Count)                -- `-r<n>` / `-r <n>`
  | shuffle                            -- `-s`
  | shuffleSeed (s : Seed)             -- `-s<s>` / `-s <s>`
  | group (k : FKind) (v : Ident)      -- `-g -sg -xg -xsg`
  | name (k : FKind) (v : Ident)       -- `-n -sn -xn -xsn`
  | test (k : FKind) (g n : Ident)     -- `-t -st -xt -xst  g.n`
  | testForm (ignored : Bool) (g n : Ident)   -- `TEST(g, n)` / `IGNORE_TEST(g, n)`
  | output (o : OutKind)               -- `-o<kind>` / `-o <kind>`
  | package (v : Ident)                -- `-k<v>` / `-k <v>`

inductive Form | attached | separated
deriving DecidableEq, Repr

/-! ### spelling -/

def Flag.lit : Flag → Bytes
  | .v  => [45, 118]          -- -v
  | .vv => [45, 118, 118]     -- -vv
  | .c  => [45, 99]           -- -c
  | .p  => [45, 112]          -- -p
  | .b  => [45, 98]           -- -b
  | .ri => [45, 114, 105]     -- -ri
  | .f  => [45, 102]          -- -f
  | .e  => [45, 101]          -- -e
  | .ci => [45, 99, 105]      -- -ci
  | .lg => [45, 108, 103]     -- -lg
  | .ln => [45, 108, 110]     -- -ln
  | .ll => [45, 108, 108]     -- -ll

/-- `-` + kind letters + option letter (`g`, `n` or `t`) -/
def FKind.lit (k : FKind) (letter : UInt8) : Bytes :=
  match k with
  | .sub        => [45, letter]
  | .strict     => [45, 115, letter]          -- -s?
  | .excl       => [45, 120, letter]          -- -x?
  | .exclStrict => [45, 120, 115, letter]     -- -xs?

def OutKind.lit : OutKind → Bytes
  | .normal   => [110, 111, 114, 109, 97, 108]                 -- normal
  | .eclipse  => [101, 99, 108, 105, 112, 115, 101]            -- eclipse
  | .junit    => [106, 117, 110, 105, 116]                     -- junit
  | .teamcity => [116, 101, 97, 109, 99, 105, 116, 121]        -- teamcity

/-- option name and value as one argument or as two -/
def spell (fm : Form) (name value : Bytes) : List Bytes :=
  match fm with
  | .attached  => [name ++ value]
  | .separated => [name, value]

def testPrefix (ignored : Bool) : Bytes :=
  if ignored then [73, 71, 78, 79, 82, 69, 95, 84, 69, 83, 84, 40]   -- IGNORE_TEST(
  else [84, 69, 83, 84, 40]                                          -- TEST(

def render1 : Opt × Form → List Bytes
  | (.flag fl, _)         => [fl.lit]
  | (.repeatDefault, _)   => [[45, 114]]                              -- -r
  | (.repeatN n, fm)       => spell fm [45, 114] n.digits
  | (.shuffle, _)         => [[45, 115]]                              -- -s
  | (.shuffleSeed s, fm)   => spell fm [45, 115] s.digits
  | (.group k v, fm)       => spell fm (k.lit 103) v.val
  | (.name k v, fm)        => spell fm (k.lit 110) v.val
  | (.test k g n, fm)      => spell fm (k.lit 116) (g.val ++ [46] ++ n.val)      -- g.n
  | (.testForm i g n, _)  => [testPrefix i ++ g.val ++ [44, 32] ++ n.val ++ [41]]   -- g, n)
  | (.output o, fm)        => spell fm [45, 111] o.lit
  | (.package v, fm)       => spell fm [45, 107] v.val

def render (os : List (Opt × Form)) : List Bytes := os.flatMap render1

/-! ### meaning (the help text) -/

def FKind.filter (k : FKind) (text : Bytes) : Filter :=
  match k with
  | .sub        => ⟨text, false, false⟩   -- "contains"
  | .strict     => ⟨text, true, false⟩    -- "exactly matches"
  | .excl       => ⟨text, false, true⟩    -- "exclude ... contains"
  | .exclStrict => ⟨text, true, true⟩     -- "exclude ... exactly matches"

def Flag.apply (fl : Flag) (c : Config) : Config :=
  match fl with
  | .v  => { c with verbose := true }
  | .vv => { c with veryVerbose := true }
  | .c  => { c with color := true }
  | .p  => { c with separateProcess := true }
  | .b  => { c with reversing := true }
  | .ri => { c with runIgnored := true }
  | .f  => { c with crashOnFail := true }
  | .e  => { c with rethrow := false }
  | .ci => { c with rethrow := false }
  | .lg => { c with listGroups := true }
  | .ln => { c with listNames := true }
  | .ll => { c with listLocations := true }

def OutKind.type : OutKind → OutputType
  | .normal => .eclipse      -- "-oeclipse  - equivalent to -onormal"
  | .eclipse => .eclipse
  | .junit => .junit
  | .teamcity => .teamcity

/-- what one documented option does to the configuration -/
def applyOpt (env : Env) (c : Config) : Opt → Config
  | .flag fl         => fl.apply c
  | .repeatDefault   => { c with repeatCount := 2 }
  | .repeatN n       => { c with repeatCount := decVal n.digits }
  | .shuffle         => { c with shuffling := true, shuffleSeed := timeSeed env.time }
  | .shuffleSeed s   => { c with shuffling := true, shuffleSeed := decVal s.digits }
  | .group k v       => { c with groupFilters := k.filter v.val :: c.groupFilters }
  | .name k v        => { c with nameFilters := k.filter v.val :: c.nameFilters }
  | .test k g n      => { c with groupFilters := k.filter g.val :: c.groupFilters,
                                 nameFilters := k.filter n.val :: c.nameFilters }
  | .testForm _ g n  => { c with groupFilters := FKind.strict.filter g.val :: c.groupFilters,
                                 nameFilters := FKind.strict.filter n.val :: c.nameFilters }
  | .output o        => { c with output := o.type }
  | .package v       => { c with packageName := v.val }

/-- the documented configuration of a sequence of options, applied left to right -/
def meaning (env : Env) (os : List Opt) : Config := os.foldl (applyOpt env) {}

/-! ## every string the parser stores is a contiguous part of an argument -/

/-- `t` is empty or a contiguous part of one of the arguments -/
def FromArgs (args : List Bytes) (t : Bytes) : Prop := t = [] ∨ ∃ a ∈ args, t <:+: a

/-- all filter texts and the package name come out of the arguments -/
def StringsFromArgs (args : List Bytes) (c : Config) : Prop :=
  (∀ f ∈ c.groupFilters, FromArgs args f.text) ∧ (∀ f ∈ c.nameFilters, FromArgs args f.text) ∧
  FromArgs args c.packageName

end CommandLine
