import CppUModel.Model.Failable
/-!
Vocabulary of the C15 theorems: what "designated" means, stated on the HISTORY of calls only
(no reference to the allocator's list).

* the *epoch* of a history is what happened since construction or the last `clearFailedAllocs`;
* the *global index* of an allocation is its 1-based position among the allocations of the
  epoch (`allocs e + 1` for the next one);
* the *local index* of an allocation at location `(file, line)` relative to a designation
  `failNthAllocAt(n, file, line)` is its 1-based position among the allocations AT THAT LOCATION
  made since that designation (`allocsAt file line post + 1` for the next one, `post` being the
  calls after the designation).
-/
namespace Failable

def Op.isAlloc : Op → Bool
  | .alloc _ _ => true
  | _ => false

def Op.isAllocAt (file : String) (line : Nat) : Op → Bool
  | .alloc f l => decide (f = file ∧ l = line)
  | _ => false

def Op.isDesignation : Op → Bool
  | .failNum _ => true
  | .failAt _ _ _ => true
  | _ => false

/-- the calls since construction / the last `clear` (chronological) -/
def epoch (h : List Op) : List Op :=
  h.foldl (fun e op => if op = .clear then [] else e ++ [op]) []

/-- number of allocations in a piece of history -/
def allocs (e : List Op) : Nat := e.countP Op.isAlloc

/-- number of allocations at one location in a piece of history -/
def allocsAt (file : String) (line : Nat) (e : List Op) : Nat := e.countP (Op.isAllocAt file line)

/-- `k ∈ G`: the epoch contains `failAllocNumber(k)` -/
def GlobalDesignated (e : List Op) (k : Nat) : Prop := Op.failNum (k : Int) ∈ e

/-- `(loc, j) ∈ L` for the NEXT allocation at `loc`: the epoch contains a `failNthAllocAt(n, loc)`
    such that the next allocation at `loc` is the `n`-th one at `loc` since that call -/
def LocDesignated (e : List Op) (file : String) (line : Nat) : Prop :=
  ∃ pre n post, e = pre ++ Op.failAt n file line :: post ∧ n = ((allocsAt file line post + 1 : Nat) : Int)

/-- the allocation at `(file, line)` made after history `h` is a designated one -/
def Designated (h : List Op) (file : String) (line : Nat) : Prop :=
  GlobalDesignated (epoch h) (allocs (epoch h) + 1) ∨ LocDesignated (epoch h) file line

/-- decidable form of `LocDesignated` (recursion over the suffixes) -/
def locDesignatedB (file : String) (line : Nat) : List Op → Bool
  | [] => false
  | .failAt n f l :: post =>
    decide (f = file ∧ l = line ∧ n = ((allocsAt file line post + 1 : Nat) : Int)) || locDesignatedB file line post
  | _ :: post => locDesignatedB file line post

def designatedB (h : List Op) (file : String) (line : Nat) : Bool :=
  (epoch h).contains (Op.failNum ((allocs (epoch h) + 1 : Nat) : Int)) || locDesignatedB file line (epoch h)

/-- Has the designation already fired?  `before` = allocations of the epoch before the
    designation was made, `post` = the calls after it. -/
def firedNum (before : Nat) (n : Int) (post : List Op) : Bool :=
  decide ((before : Int) < n ∧ n ≤ ((before + allocs post : Nat) : Int))

def firedAt (n : Int) (file : String) (line : Nat) (post : List Op) : Bool :=
  decide (1 ≤ n ∧ n ≤ ((allocsAt file line post : Nat) : Int))

/-- the designations of a piece of history that have not fired by its end (chronological);
    `before` = number of allocations of the epoch that precede the piece -/
def unfiredFrom (before : Nat) : List Op → List Op
  | [] => []
  | .failNum n :: post =>
    (if firedNum before n post then [] else [.failNum n]) ++ unfiredFrom before post
  | .failAt n f l :: post =>
    (if firedAt n f l post then [] else [.failAt n f l]) ++ unfiredFrom before post
  | .alloc _ _ :: post => unfiredFrom (before + 1) post
  | _ :: post => unfiredFrom before post

def unfired (h : List Op) : List Op := unfiredFrom 0 (epoch h)

/-- what `checkAllFailedAllocsWereDone` has to say about a designation -/
def reportOf : Op → CheckResult
  | .failNum n => .neverDoneNumber n
  | .failAt _ f l => .neverDoneAt f l
  | _ => .ok

/-- the designation a node stands for -/
def Node.desig (nd : Node) : Op :=
  match nd.file with
  | some f => .failAt nd.number f nd.line
  | none => .failNum nd.number

/-- does a designation (with its own counter value) fire at global index `cur`, location `(file, line)`? -/
def Node.fires (nd : Node) (cur : Nat) (file : String) (line : Nat) : Bool := (nd.visit cur file line).2

/-- ids of all nodes that fired along a history (model events), chronological -/
def firedIds : State → List Op → List Nat
  | _, [] => []
  | s, .alloc f l :: rest => (allocFired s f l).map (·.id) ++ firedIds (allocState s f l) rest
  | s, op :: rest => firedIds (step s op) rest

/-- ids of all nodes released by `clear` along a history -/
def clearedIds : State → List Op → List Nat
  | _, [] => []
  | s, .clear :: rest => (clearFreed s).map (·.id) ++ clearedIds (clear s) rest
  | s, op :: rest => clearedIds (step s op) rest

/-- the results (true = NULL) of all allocations of a history executed from state `s`, chronological -/
def outcomes : State → List Op → List Bool
  | _, [] => []
  | s, .alloc f l :: rest => allocFails s f l :: outcomes (allocState s f l) rest
  | s, op :: rest => outcomes (step s op) rest

/-- what the property demands of them, computed from the calls alone: `pre` = the calls made before -/
def designatedOutcomes (pre : List Op) : List Op → List Bool
  | [] => []
  | .alloc f l :: rest => designatedB pre f l :: designatedOutcomes (pre ++ [.alloc f l]) rest
  | op :: rest => designatedOutcomes (pre ++ [op]) rest

/-- well-formed state: ids of linked nodes are distinct and below `nextId` -/
def WF (s : State) : Prop := (s.nodes.map (·.id)).Nodup ∧ ∀ nd ∈ s.nodes, nd.id < s.nextId

/-! ### C level -/

/-- the state right after `cpputest_malloc_set_out_of_memory_countdown(n)` on a fresh state, followed by
    `k` allocating calls -/
def afterMallocs (c : CState) : Nat → CState
  | 0 => c
  | k + 1 => mallocState (afterMallocs c k)

/-- reachable C-level states: either no simulation is active (nothing saved, the normal allocator is
    current) or the null allocator is current and the normal one is saved -/
def CInv (c : CState) : Prop :=
  (c.orig = none ∧ c.cur = .normal) ∨ (c.orig = some .normal ∧ c.cur = .null)

def crun (c : CState) (ops : List COp) : CState := ops.foldl cstep c


/-- does a C-level call count as an allocating call (one `malloc_count` increment, one tick of the
    countdown)?  Every malloc, strdup, strndup and every calloc whose product does not overflow —
    whether it succeeds or fails; realloc, free and the control calls do not. -/
def COp.allocating : COp → Bool
  | .malloc => true
  | .strdup _ => true
  | .strndup _ _ => true
  | .calloc a b => !callocOverflows a b
  | _ => false

/-- `malloc_count` as a function of the history: allocating calls since the last reset -/
def expectedCountFrom (k : Nat) : List COp → Nat
  | [] => k
  | .countReset :: rest => expectedCountFrom 0 rest
  | op :: rest => expectedCountFrom (if op.allocating then k + 1 else k) rest

end Failable
