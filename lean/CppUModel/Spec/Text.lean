/-!
# Reference ("textbook") semantics of the string operations — shared vocabulary

Byte strings are `List UInt8` WITHOUT terminator.  These are the plain definitions the C13
theorems relate the bounded-buffer model of `SimpleString.cpp` to (DESIGN.md appendix A), and
the definitions other properties' models use when the code calls a `SimpleString` operation
(C02 filters, C03 string checks, C12 parser, C16/C20 escaping).  Core Lean only.
-/
namespace Text

abbrev Bytes := List UInt8

def ofString (s : String) : Bytes := s.toUTF8.toList
def toStringLossy (b : Bytes) : String := String.ofList (b.map fun c => Char.ofNat c.toNat)

/-- `b` occurs in `a` starting at some position (`contains`); `[]` occurs everywhere -/
def isInfix : Bytes → Bytes → Bool
  | [], b => b.isEmpty
  | a@(_ :: t), b => b.isPrefixOf a || isInfix t b

/-- ASCII lower-casing of one byte (`ToLower`): only `A`–`Z` change -/
def lowerByte (c : UInt8) : UInt8 := if 65 ≤ c ∧ c ≤ 90 then c + 32 else c
def lower (a : Bytes) : Bytes := a.map lowerByte

def equalsNoCase (a b : Bytes) : Bool := lower a == lower b
def containsNoCase (a b : Bytes) : Bool := isInfix (lower a) (lower b)
def startsWith (a b : Bytes) : Bool := b.isPrefixOf a
def endsWith (a b : Bytes) : Bool := b.reverse.isPrefixOf a.reverse

/-- `StrCmp`: difference (as unsigned bytes) at the first position where the NUL-terminated
    strings differ, 0 if none -/
def cmp : Bytes → Bytes → Int
  | [], [] => 0
  | [], y :: _ => - (y.toNat : Int)
  | x :: _, [] => (x.toNat : Int)
  | x :: xs, y :: ys => if x = y then cmp xs ys else (x.toNat : Int) - (y.toNat : Int)

/-- `StrNCmp`: the same over the first `n` positions -/
def ncmp : Nat → Bytes → Bytes → Int
  | 0, _, _ => 0
  | _ + 1, [], [] => 0
  | _ + 1, [], y :: _ => - (y.toNat : Int)
  | _ + 1, x :: _, [] => (x.toNat : Int)
  | n + 1, x :: xs, y :: ys => if x = y then ncmp n xs ys else (x.toNat : Int) - (y.toNat : Int)

/-- number of start positions `i < a.length` at which `b` occurs (occurrences may overlap) -/
def count : Bytes → Bytes → Nat
  | [], _ => 0
  | a@(_ :: t), b => (if b.isPrefixOf a then 1 else 0) + count t b

/-- least index `≥ from` holding byte `c` -/
def findFrom (a : Bytes) (start : Nat) (c : UInt8) : Option Nat :=
  ((a.drop start).findIdx? (· == c)).map (· + start)
def find (a : Bytes) (c : UInt8) : Option Nat := findFrom a 0 c

/-- `subString(p, n)` -/
def subString (a : Bytes) (p n : Nat) : Bytes := if p ≥ a.length then [] else (a.drop p).take n
def subStringFrom (a : Bytes) (p : Nat) : Bytes := a.drop p

/-- `subStringFromTill(s, e)` -/
def subStringFromTill (a : Bytes) (s e : UInt8) : Bytes :=
  match find a s with
  | none => []
  | some i =>
    match findFrom a i e with
    | none => a.drop i
    | some j => (a.drop i).take (j - i)

/-- leftmost, non-overlapping replace-all (`to ≠ []`); fuel = length of the input -/
def replaceAllAux : Nat → Bytes → Bytes → Bytes → Bytes
  | 0, a, _, _ => a
  | _ + 1, [], _, _ => []
  | n + 1, a@(x :: t), pat, rep =>
    if pat.isPrefixOf a then rep ++ replaceAllAux n (a.drop pat.length) pat rep
    else x :: replaceAllAux n t pat rep
def replaceAll (a pat rep : Bytes) : Bytes :=
  if pat.isEmpty then a else replaceAllAux (a.length + 1) a pat rep

/-- replace every byte `c1` by `c2` -/
def replaceByte (a : Bytes) (c1 c2 : UInt8) : Bytes := a.map fun c => if c = c1 then c2 else c

/-- `split(d)`, `d ≠ []`: scan left to right for non-overlapping occurrences of `d`; each token
    ends with its delimiter; a non-empty remainder is the last token -/
def splitAux : Nat → Bytes → Bytes → Bytes → List Bytes
  | 0, _, _, cur => if cur.isEmpty then [] else [cur.reverse]
  | _ + 1, [], _, cur => if cur.isEmpty then [] else [cur.reverse]
  | n + 1, a@(x :: t), d, cur =>
    if d.isPrefixOf a then (cur.reverse ++ d) :: splitAux n (a.drop d.length) d []
    else splitAux n t d (x :: cur)
def split (a d : Bytes) : List Bytes := splitAux (a.length + 1) a d []

end Text
