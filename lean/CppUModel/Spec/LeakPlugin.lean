import CppUModel.Model.LeakPlugin
/-!
Vocabulary of the C07 theorems: the property statement on the HISTORY.

Nothing here mentions the detector, periods, allocation numbers or the plugin: a history is a
list of scripted tests, its meaning is given with plain sets (lists) of block ids.
`blocksOf live t` is "the tracked blocks allocated between the test's start (before setup) and
its end (after teardown) and still outstanding", `shouldFail` is the condition of the property
statement.
-/
namespace LeakPlugin
namespace Hist

structure HState where
  live     : List Nat      -- ids of all outstanding blocks
  mine     : List Nat      -- outstanding blocks allocated since this test's start
  aborted  : Bool          -- the current phase has been left by a failing check
  own      : Nat           -- the test's own failing checks so far
  ignore   : Bool          -- the test asked to ignore leaks
  expected : Nat           -- the number of leaks the test declared (default zero)
deriving Repr, Inhabited

/-- a new block: outstanding, and a block of the running test -/
def hAlloc (h : HState) (id : Nat) : HState :=
  if id ∈ h.live then h else { h with live := id :: h.live, mine := id :: h.mine }

/-- a block is released, whoever allocated it -/
def hFree (h : HState) (id : Nat) : HState :=
  { h with live := h.live.filter (· != id), mine := h.mine.filter (· != id) }

/-- meaning of one performed command.  A successful realloc releases the old block and is a new
    allocation of the test that performs it (the resulting block belongs to THAT test, whoever
    allocated the old one); a failed realloc changes nothing. -/
def hexec (h : HState) : Cmd → HState
  | .alloc id _ => hAlloc h id
  | .free id => hFree h id
  | .realloc id newId _ =>
    if id ∉ h.live then h else if newId ≠ id ∧ newId ∈ h.live then h else hAlloc (hFree h id) newId
  | .reallocFail _ _ => h
  | .expectLeaks n => { h with expected := n }
  | .ignoreLeaks => { h with ignore := true }
  | .fail => { h with own := h.own + 1, aborted := true }
  | .envSeq _ => h

/-- a failing check ends its phase: later commands of the phase are not performed -/
def hstep (h : HState) (c : Cmd) : HState := if h.aborted then h else hexec h c

def hrun (h : HState) (cs : List Cmd) : HState := cs.foldl hstep h

/-- setup, then the body only if the setup completed, then the teardown in any case -/
def hEnter (h : HState) : Phase → HState
  | .setup => { h with aborted := false }
  | .body => h
  | .teardown => { h with aborted := false }

def hPhase (h : HState) (ph : Phase) (cs : List Cmd) : HState := hrun (hEnter h ph) cs

/-- memory operations between two tests -/
def hOutside (live : List Nat) : Cmd → List Nat
  | .alloc id _ => if id ∈ live then live else id :: live
  | .free id => live.filter (· != id)
  | _ => live

/-- outstanding blocks when test `t` starts, `live` being those after the previous test -/
def liveAtStart (live : List Nat) (t : Test) : List Nat := t.before.foldl hOutside live

def start (live : List Nat) : HState :=
  { live := live, mine := [], aborted := false, own := 0, ignore := false, expected := 0 }

/-- the history of one test, from its start to its end -/
def atEnd (live : List Nat) (t : Test) : HState :=
  hPhase (hPhase (hPhase (start (liveAtStart live t)) .setup t.setup) .body t.body) .teardown t.teardown

/-- blocks allocated between the test's start and end and still outstanding at its end -/
def blocksOf (live : List Nat) (t : Test) : List Nat := (atEnd live t).mine
def ownFailures (live : List Nat) (t : Test) : Nat := (atEnd live t).own
def ignores (live : List Nat) (t : Test) : Bool := (atEnd live t).ignore
def expected (live : List Nat) (t : Test) : Nat := (atEnd live t).expected
def liveAfterTest (live : List Nat) (t : Test) : List Nat := (atEnd live t).live

/-- outstanding blocks after a sequence of tests -/
def liveAfter (live : List Nat) (ts : List Test) : List Nat := ts.foldl liveAfterTest live

/-- the condition of the property statement -/
def shouldFail (live : List Nat) (t : Test) : Bool :=
  ownFailures live t == 0 && !ignores live t && (blocksOf live t).length != expected live t

/-! ### a test whose object allocates in its constructor / destructor -/

/-- memory operations of a constructor / destructor (no checks, no declarations there) -/
def hMem (h : HState) : Cmd → HState
  | .alloc id _ => hAlloc h id
  | .free id => hFree h id
  | .realloc id newId size => hexec h (.realloc id newId size)
  | _ => h

def hRunMem (h : HState) (cs : List Cmd) : HState := cs.foldl hMem h

/-- setup, body, teardown from a given state -/
def throughPhases (h : HState) (t : Test) : HState :=
  hPhase (hPhase (hPhase h .setup t.setup) .body t.body) .teardown t.teardown

/-- the history of one test from its start (before the constructor of its object) to its end
    (after the destructor): the window of the leak check -/
def atEndObj (live : List Nat) (t : TestObj) : HState :=
  hRunMem (throughPhases (hRunMem (start (liveAtStart live t.test)) t.ctor) t.test) t.dtor

def blocksOfObj (live : List Nat) (t : TestObj) : List Nat := (atEndObj live t).mine
def liveAfterTestObj (live : List Nat) (t : TestObj) : List Nat := (atEndObj live t).live

/-- the condition of the property statement, on a history state at the end of a test -/
def verdictAt (h : HState) : Bool := h.own == 0 && !h.ignore && h.mine.length != h.expected

def shouldFailObj (live : List Nat) (t : TestObj) : Bool := verdictAt (atEndObj live t)

/-- which tests of a sequence must get a leak failure, by the property statement -/
def verdicts : List Nat → List Test → List Bool
  | _, [] => []
  | live, t :: ts => shouldFail live t :: verdicts (liveAfterTest live t) ts

/-- the test's commands with every `free id` removed -/
def dropFrees (id : Nat) (cs : List Cmd) : List Cmd := cs.filter (· != .free id)

def Test.dropFrees (t : Test) (id : Nat) : Test :=
  { t with setup := Hist.dropFrees id t.setup, body := Hist.dropFrees id t.body, teardown := Hist.dropFrees id t.teardown }

def isReallocFail : Cmd → Bool
  | .reallocFail _ _ => true
  | _ => false

/-- the test with every failed realloc deleted from its phases -/
def Test.dropReallocFails (t : Test) : Test :=
  { t with setup := t.setup.filter (fun c => !isReallocFail c), body := t.body.filter (fun c => !isReallocFail c),
           teardown := t.teardown.filter (fun c => !isReallocFail c) }

/-- the command neither allocates `id` nor reallocs it (as source or as result) -/
def leavesAlone (id : Nat) : Cmd → Bool
  | .alloc x _ => x != id
  | .realloc x y _ => x != id && y != id
  | _ => true

/-- apart from freeing it, the commands do nothing with block `id`: they never allocate it and
    never realloc it (neither as the old nor as the resulting block) -/
def neverAllocs (id : Nat) (cs : List Cmd) : Prop := ∀ c ∈ cs, leavesAlone id c = true

end Hist

/-! ## observables of the model the theorems speak about -/

/-- ids of the outstanding blocks in the detector table -/
def World.liveIds (w : World) : List Nat := w.det.recs.map (·.id)

/-- A state between tests, as the plugin constructor leaves it and every post action
    re-establishes it: no record carries the checking stamp, the detector is not in the checking
    period, allocation numbers of the records are below the next number, ids are distinct,
    the per-test flags have their default values. -/
structure Clean (w : World) : Prop where
  noChecking : ∀ r ∈ w.det.recs, r.period ≠ .checking
  notChecking : w.det.cur ≠ .checking
  numsBelow : ∀ r ∈ w.det.recs, r.num < w.det.seq
  ignoreOff : w.plg.ignoreAll = false
  expectedZero : w.plg.expected = 0

end LeakPlugin
