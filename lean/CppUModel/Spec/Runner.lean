import CppUModel.Model.Runner
/-!
Vocabulary of the C01 theorems and of the specification oracle.

Everything here is the *textbook* reading of the property, written without looking at how the
runner is implemented: which statements of a phase execute, which phases run, which failures
a test must record, what the counters of a repetition must be, and how the printed text is
read back (failure records, summary line).
-/
namespace Runner

/-! ## programs -/

/-- a compare with run-time length 0 holds whatever the buffers contain -/
def CheckKind.zeroLength : CheckKind → Bool
  | .memcmp0 => true
  | .cMemcmp0 => true
  | _ => false

/-- does `checkKind k pass|fail` fail?  only when violating operands were chosen and the kind
    compares anything at all -/
def CheckKind.failsWhen (k : CheckKind) (pass : Bool) : Bool := !pass && !k.zeroLength

/-- the documented counting rule: every executed check counts one, except `CHECK_COMPARE`, which
    calls an assert function (and so counts) only when the comparison does not hold -/
def CheckKind.countsWhen (k : CheckKind) (pass : Bool) : Nat :=
  if k = .compare ∧ pass = true then 0 else 1

/-- the statement ends its phase (a failing check, TEST_EXIT, or — where the build has
    exceptions — a throw) -/
def Stmt.terminates (exc : Bool) : Stmt → Bool
  | .failCpp _ _ => true
  | .failC _ _ => true
  | .exitTest => true
  | .exitTestC => true
  | .throwStd => exc
  | .throwOther => exc
  | .mark _ => false
  | .checkPass => false
  | .check k pass _ _ => k.failsWhen pass

/-- the statements of a phase that execute: everything up to and including the first one that
    terminates -/
def executed (exc : Bool) : List Stmt → List Stmt
  | [] => []
  | s :: rest => if s.terminates exc then [s] else s :: executed exc rest

/-- the phase reaches its end -/
def completes (exc : Bool) (p : List Stmt) : Bool := !(p.any (·.terminates exc))

def Stmt.markNo : Stmt → Option Nat
  | .mark n => some n
  | _ => none

def marksOf (p : List Stmt) : List Nat := p.filterMap Stmt.markNo

/-- how many checks the statement counts (documented rule) -/
def Stmt.checkCount : Stmt → Nat
  | .checkPass => 1
  | .failCpp _ _ => 1
  | .failC _ _ => 1
  | .check k pass _ _ => k.countsWhen pass
  | _ => 0

def checksOf (p : List Stmt) : Nat := (p.map Stmt.checkCount).sum

/-- what property C03's model of the check macros (`Model/Asserts.lean`) says the statement does:
    the outcome of the macro on its operands (`none`: the statement is not a check) -/
def Stmt.c03Outcome : Stmt → Option Asserts.Outcome
  | .checkPass => some (Asserts.CHECK true)
  | .failCpp _ _ => some Asserts.FAIL
  | .failC _ _ => some Asserts.FAIL_C
  | .check k pass _ _ => some (k.outcome pass)
  | _ => none

/-- how often the statement calls `countCheck()` according to C03's model -/
def Stmt.c03Counted (s : Stmt) : Nat := (s.c03Outcome.map (·.counted)).getD 0

/-- the failure a statement must record: a failing check at its own file:line, an escaping
    exception at the test's file:line (the only location known for it) -/
def Stmt.failure (cfg : Cfg) (t : Test) : Stmt → Option FailRec
  | .failCpp loc msg => some (mkRec cfg t loc msg)
  | .failC loc msg => some (mkRec cfg t loc msg)
  | .throwStd => if cfg.exceptions then some (mkRecAtTest cfg t cfg.stdExcMsg) else none
  | .throwOther => if cfg.exceptions then some (mkRecAtTest cfg t cfg.otherExcMsg) else none
  | .check k pass loc msg => if k.failsWhen pass then some (mkRec cfg t loc msg) else none
  | _ => none

def phaseFailures (cfg : Cfg) (t : Test) (p : List Stmt) : List FailRec :=
  (executed cfg.exceptions p).filterMap (Stmt.failure cfg t)

/-- the phases that run: setup; body only if setup completed; teardown always -/
def phasesRun (cfg : Cfg) (t : Test) : List Phase :=
  [.setup] ++ (if completes cfg.exceptions t.setup then [.body] else []) ++ [.teardown]

/-- marks a test must produce, tagged with their phase -/
def testMarks (cfg : Cfg) (t : Test) : List (Phase × Nat) :=
  (phasesRun cfg t).flatMap (fun ph => (marksOf (executed cfg.exceptions (stmtsOf t ph))).map (fun n => (ph, n)))

def testChecks (cfg : Cfg) (t : Test) : Nat :=
  ((phasesRun cfg t).map (fun ph => checksOf (executed cfg.exceptions (stmtsOf t ph)))).sum

/-- checks of a test as the sum of C03's per-statement counts over the statements that execute -/
def c03ChecksOfTest (cfg : Cfg) (t : Test) : Nat :=
  ((phasesRun cfg t).map (fun ph => ((executed cfg.exceptions (stmtsOf t ph)).map Stmt.c03Counted).sum)).sum

/-- failures of the three phases, in order -/
def testPhaseFailures (cfg : Cfg) (t : Test) : List FailRec :=
  (phasesRun cfg t).flatMap (fun ph => phaseFailures cfg t (stmtsOf t ph))

def pluginErrs (cfg : Cfg) (t : Test) (errs : List PErr) : List FailRec :=
  (errs.filter (·.applies t)).map (fun e => mkRec cfg t e.loc e.msg)

/-- errors reported by the pre actions (chain order) -/
def preFailures (cfg : Cfg) (plugins : List Plugin) (t : Test) : List FailRec :=
  (plugins.filter (·.enabled)).flatMap (fun p => pluginErrs cfg t p.pre)

/-- errors reported by the post actions (reverse chain order) -/
def postFailures (cfg : Cfg) (plugins : List Plugin) (t : Test) : List FailRec :=
  (plugins.reverse.filter (·.enabled)).flatMap (fun p => pluginErrs cfg t p.post)

/-- every failing event of one test, in the order in which it happens -/
def testFailures (cfg : Cfg) (plugins : List Plugin) (t : Test) : List FailRec :=
  preFailures cfg plugins t ++ testPhaseFailures cfg t ++ postFailures cfg plugins t

/-! ## progress output without `-v` -/

/-- "." for a test that runs, "!" for an ignored one -/
def indicatorOf (cfg : Cfg) (t : Test) : String := if willRun cfg t then "." else "!"

/-- the progress line: one indicator per test, a line break after every 50th (`dots` printed so far) -/
def progressToks : List String → Nat → List String
  | [], _ => []
  | i :: rest, dots => (if (dots + 1) % 50 = 0 then [i, "\n"] else [i]) ++ progressToks rest (dots + 1)

/-! ## rethrow mode: the exception that leaves the run -/

/-- the std / foreign exception that leaves the phase -/
def throwsOut (exc : Bool) : List Stmt → Option ExcKind
  | [] => none
  | .throwStd :: rest => if exc then some .std else throwsOut exc rest
  | .throwOther :: rest => if exc then some .other else throwsOut exc rest
  | s :: rest => if s.terminates exc then none else throwsOut exc rest

def Phase.idx : Phase → Nat
  | .setup => 0
  | .body => 1
  | .teardown => 2

/-- the first phase of the test (among those that run) that a std / foreign exception leaves -/
def firstThrow (cfg : Cfg) (t : Test) : Option (Phase × ExcKind) :=
  ((phasesRun cfg t).filterMap (fun ph => (throwsOut cfg.exceptions (stmtsOf t ph)).map (fun k => (ph, k)))).head?

/-- the phases entered before the exception of phase `ph` leaves the test -/
def phasesUpTo (cfg : Cfg) (t : Test) (ph : Phase) : List Phase :=
  (phasesRun cfg t).filter (fun q => q.idx ≤ ph.idx)

/-- in rethrow mode: what the throwing test did before the exception left it -/
def marksUpTo (cfg : Cfg) (t : Test) (ph : Phase) : List (Phase × Nat) :=
  (phasesUpTo cfg t ph).flatMap (fun q => (marksOf (executed cfg.exceptions (stmtsOf t q))).map (fun n => (q, n)))

def failuresUpTo (cfg : Cfg) (plugins : List Plugin) (t : Test) (ph : Phase) : List FailRec :=
  preFailures cfg plugins t ++ (phasesUpTo cfg t ph).flatMap (fun q => phaseFailures cfg t (stmtsOf t q))

/-! ## `-p`: what the parent records for a test that ran in a child -/

/-- the one record the parent adds for a child that recorded any failure -/
def sepRec (cfg : Cfg) (t : Test) : FailRec := mkRecAtTest cfg t separateProcessMsg

/-- everything printed for one test, in order: the failing events (printed once, by the process that
    ran the test) and — with `-p` — one "Failed in separate process" record if there was any -/
def testRecords (cfg : Cfg) (plugins : List Plugin) (t : Test) : List FailRec :=
  testFailures cfg plugins t ++
    (if cfg.separate && !(testFailures cfg plugins t).isEmpty then [sepRec cfg t] else [])

/-- what the run's `TestResult` counts as failures of the test: every failing event, or — with `-p`,
    where the child's counters are lost — one per failed child -/
def testFailCount (cfg : Cfg) (plugins : List Plugin) (t : Test) : Nat :=
  if cfg.separate then (if (testFailures cfg plugins t).isEmpty then 0 else 1)
  else (testFailures cfg plugins t).length

/-- checks the run's `TestResult` counts for the test: with `-p` the checks are made (and counted)
    in the child only and never reach the parent's summary -/
def testChecksCounted (cfg : Cfg) (t : Test) : Nat := if cfg.separate then 0 else testChecks cfg t

/-- tests selected by the filters, and those of them that run (not ignored, or `-ri`) -/
def selected (cfg : Cfg) (tests : List Test) : List Test := tests.filter (shouldRun cfg)
def running (cfg : Cfg) (tests : List Test) : List Test := (selected cfg tests).filter (willRun cfg)

/-- all failing events of a repetition, in order -/
def expectedFailures (cfg : Cfg) (plugins : List Plugin) (tests : List Test) : List FailRec :=
  (running cfg tests).flatMap (testFailures cfg plugins)

/-- all printed records of a repetition, in order (with `-p`: including the parents' records) -/
def expectedRecords (cfg : Cfg) (plugins : List Plugin) (tests : List Test) : List FailRec :=
  (running cfg tests).flatMap (testRecords cfg plugins)

/-- the true counts of a repetition -/
def expectedCounts (cfg : Cfg) (plugins : List Plugin) (tests : List Test) : Result :=
  { testCount := tests.length,
    runCount := (running cfg tests).length,
    checkCount := ((running cfg tests).map (testChecksCounted cfg)).sum,
    failureCount := ((running cfg tests).map (testFailCount cfg plugins)).sum,
    filteredOutCount := tests.length - (selected cfg tests).length,
    ignoredCount := (selected cfg tests).length - (running cfg tests).length }

/-- a repetition is fine: no failure, and at least one test ran or was ignored -/
def Result.ok (r : Result) : Prop := r.failureCount = 0 ∧ 0 < r.runCount + r.ignoredCount

instance (r : Result) : Decidable r.ok := by unfold Result.ok; exact inferInstance

/-! ## projections of an event list -/

def Ev.failure? : Ev → Option FailRec
  | .failure r => some r
  | _ => none

/-- any printed failure record: of a failing event, or the parent's record of a failed child -/
def Ev.record? : Ev → Option FailRec
  | .failure r => some r
  | .sepFailure r => some r
  | _ => none

def Ev.mark? : Ev → Option (Phase × Nat)
  | .mark ph n _ => some (ph, n)
  | _ => none

def Ev.enter? : Ev → Option Phase
  | .enter ph _ => some ph
  | _ => none

def Ev.summary? : Ev → Option (Result × Nat)
  | .summary r time => some (r, time)
  | _ => none

def Ev.clock? : Ev → Option Nat
  | .clock v => some v
  | _ => none

/-- a plain console string (one `print` call outside failure records and the summary) -/
def Ev.tok? : Ev → Option String
  | .tok s => some s
  | _ => none

def Ev.ended? : Ev → Option (Int × Option String × Bool)
  | .ended d c f => some (d, c, f)
  | _ => none

def failuresOf (evs : List Ev) : List FailRec := evs.filterMap Ev.failure?
def recordsOf (evs : List Ev) : List FailRec := evs.filterMap Ev.record?
def marksIn (evs : List Ev) : List (Phase × Nat) := evs.filterMap Ev.mark?
def entersOf (evs : List Ev) : List Phase := evs.filterMap Ev.enter?
def summariesOf (evs : List Ev) : List (Result × Nat) := evs.filterMap Ev.summary?
def clocksOf (evs : List Ev) : List Nat := evs.filterMap Ev.clock?
def plainToksOf (evs : List Ev) : List String := evs.filterMap Ev.tok?
def endedOf (evs : List Ev) : List (Int × Option String × Bool) := evs.filterMap Ev.ended?

/-! ## reading the printed text back -/

/-- a printed failure record as a reader of the console sees it -/
structure Printed where
  file     : String      -- where the failure happened
  line     : String
  testName : String
  msg      : String
  testLoc  : Option (String × String)   -- the extra "test at file:line" prefix, when printed
deriving Repr, DecidableEq, Inhabited

/-- `\n<file>:<line>: error:` -/
def parseLoc : List String → Option ((String × String) × List String)
  | nl :: f :: c1 :: l :: c2 :: e :: rest =>
    if nl = "\n" ∧ c1 = ":" ∧ c2 = ":" ∧ e = " error:" then some ((f, l), rest) else none
  | _ => none

def parseTail (loc : String × String) (name : String) (testLoc : Option (String × String)) :
    List String → Option Printed
  | "\n" :: "\t" :: msg :: "\n\n" :: _ => some ⟨loc.1, loc.2, name, msg, testLoc⟩
  | _ => none

/-- every failure record contains this string exactly once, right after its (first) location -/
def failureMarker : String := " Failure in "

/-- read the record around a `" Failure in "`: `before` = the strings printed before it, most
    recent first; `after` = the strings printed after it -/
def readRecord (before after : List String) : Option Printed :=
  match before, after with
  | e :: c2 :: l :: c1 :: f :: nl :: _, name :: rest =>
    if nl = "\n" ∧ c1 = ":" ∧ c2 = ":" ∧ e = " error:" then
      (match parseLoc rest with
       | some (loc2, rest2) => parseTail loc2 name (some (f, l)) rest2
       | none => parseTail (f, l) name none rest)
    else none
  | _, _ => none

/-- the reader of the whole console text: every `" Failure in "` is read with its surroundings -/
def scanFrom : List String → List String → List Printed
  | _, [] => []
  | before, t :: rest =>
    if t = failureMarker then (readRecord before rest).toList ++ scanFrom (t :: before) rest
    else scanFrom (t :: before) rest

/-- all failure records in a console text (given as the list of printed strings) -/
def scanFailures (toks : List String) : List Printed := scanFrom [] toks

/-- what a record must look like on the console -/
def FailRec.printed (r : FailRec) : Printed :=
  { file := r.file, line := toString r.line, testName := r.testName, msg := r.msg,
    testLoc := if r.twoLocations then some (r.testFile, toString r.testLine) else none }

/-- a printed summary line -/
structure PrintedSummary where
  ok        : Bool                 -- reads "OK (" rather than "Errors ("
  failures  : Option String        -- the number in "Errors (N failures, " when present
  tests     : String
  ran       : String
  checks    : String
  ignored   : String
  filtered  : String
  time      : String
deriving Repr, DecidableEq, Inhabited

def parseCounts (ok : Bool) (failures : Option String) : List String → Option PrintedSummary
  | tc :: " tests, " :: rc :: " ran, " :: cc :: " checks, " :: ic :: " ignored, " :: fc :: " filtered out, " :: tm :: " ms)" :: _ =>
    some ⟨ok, failures, tc, rc, cc, ic, fc, tm⟩
  | _ => none

/-- a summary that starts at the head of the token list -/
def parseErrorsHead (x : String) (rest : List String) : Option PrintedSummary :=
  if x = "ran nothing, " then parseCounts false none rest
  else
    match rest with
    | " failures, " :: rest' => parseCounts false (some x) rest'
    | _ => none

def parseSummaryAt : List String → Option PrintedSummary
  | "OK (" :: rest => parseCounts true none rest
  | "Errors (" :: x :: rest => parseErrorsHead x rest
  | _ => none

def scanSummaries : List String → List PrintedSummary
  | [] => []
  | t :: rest =>
    match parseSummaryAt (t :: rest) with
    | some p => p :: scanSummaries rest
    | none => scanSummaries rest

/-- the summary a repetition with counts `r` and elapsed time `time` must print -/
def Result.printedSummary (r : Result) (time : Nat) : PrintedSummary :=
  { time := toString time,
    ok := decide r.ok,
    failures := if r.failureCount = 0 then none else some (toString r.failureCount),
    tests := toString r.testCount, ran := toString r.runCount, checks := toString r.checkCount,
    ignored := toString r.ignoredCount, filtered := toString r.filteredOutCount }

/-- the strings the reader keys on -/
def markers : List String := [" Failure in ", "OK (", "Errors ("]

/-- a failure record whose free strings (message, file names, test name) cannot be mistaken for a
    marker; a message that is a lone ":" is excluded because the reader could not tell it from the
    start of a second location -/
def FailRec.clean (r : FailRec) : Prop :=
  r.msg ≠ ":" ∧ r.msg ∉ markers ∧ r.file ∉ markers ∧ r.testFile ∉ markers ∧ r.testName ∉ markers

/-- the console text of an event list: the strings handed to `print`, in order -/
def Ev.toks (color : Bool) : Ev → List String
  | .tok s => [s]
  | .failure r => failureToks r
  | .sepFailure r => failureToks r
  | .summary r time => summaryToks color r time
  | _ => []

def toksOf (color : Bool) (evs : List Ev) : List String := evs.flatMap (Ev.toks color)

/-! ## the Visual Studio working environment (`TestOutput::setWorkingEnvironment(visualStudio)`) -/

/-- `printVisualStudioErrorInFileOnLine` -/
def locToksVS (file : String) (line : Nat) : List String :=
  ["\n", file, "(", toString line, "):", " error:"]

/-- `TestOutput::printFailure` in the Visual Studio environment -/
def failureToksVS (r : FailRec) : List String :=
  (if r.twoLocations then
    locToksVS r.testFile r.testLine ++ [" Failure in ", r.testName] ++ locToksVS r.file r.line
   else
    locToksVS r.file r.line ++ [" Failure in ", r.testName])
  ++ ["\n", "\t", r.msg, "\n\n"]

/-- `\n<file>(<line>): error:` -/
def parseLocVS : List String → Option ((String × String) × List String)
  | nl :: f :: c1 :: l :: c2 :: e :: rest =>
    if nl = "\n" ∧ c1 = "(" ∧ c2 = "):" ∧ e = " error:" then some ((f, l), rest) else none
  | _ => none

def readRecordVS (before after : List String) : Option Printed :=
  match before, after with
  | e :: c2 :: l :: c1 :: f :: nl :: _, name :: rest =>
    if nl = "\n" ∧ c1 = "(" ∧ c2 = "):" ∧ e = " error:" then
      (match parseLocVS rest with
       | some (loc2, rest2) => parseTail loc2 name (some (f, l)) rest2
       | none => parseTail (f, l) name none rest)
    else none
  | _, _ => none

/-- the reader of a console text written in the Visual Studio format -/
def scanFromVS : List String → List String → List Printed
  | _, [] => []
  | before, t :: rest =>
    if t = failureMarker then (readRecordVS before rest).toList ++ scanFromVS (t :: before) rest
    else scanFromVS (t :: before) rest

def scanFailuresVS (toks : List String) : List Printed := scanFromVS [] toks

/-- as `FailRec.clean`; the lone string that could be mistaken for the start of a second location is "(" -/
def FailRec.cleanVS (r : FailRec) : Prop :=
  r.msg ≠ "(" ∧ r.msg ∉ markers ∧ r.file ∉ markers ∧ r.testFile ∉ markers ∧ r.testName ∉ markers

/-- the console text of an event list in the chosen working environment -/
def Ev.toksEnv (vs color : Bool) : Ev → List String
  | .tok s => [s]
  | .failure r => if vs then failureToksVS r else failureToks r
  | .sepFailure r => if vs then failureToksVS r else failureToks r
  | .summary r time => summaryToks color r time
  | _ => []

def toksOfEnv (vs color : Bool) (evs : List Ev) : List String := evs.flatMap (Ev.toksEnv vs color)

end Runner
