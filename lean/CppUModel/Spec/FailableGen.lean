import CppUModel.Spec.Failable
import CppUModel.Gen.FailableCode
/-!
Histories executed by the REGENERATED code (`Gen/FailableCode.lean`, translated from the function bodies
of `/repo` on every run).  `raw` stands for the uninitialised memory of a freshly allocated node.
-/
namespace Failable

/-- one call of the allocator's API, executed by the regenerated definitions -/
def genStep (raw : Node) (s : State) : Op → State
  | .failNum n => Gen.Failable.failAllocNumber raw s n
  | .failAt n f l => Gen.Failable.failNthAllocAt raw s n f l
  | .alloc f l => (Gen.Failable.allocMemory s f l).1
  | .check => s
  | .clear => Gen.Failable.clear s

def genRun (raw : Node) (s : State) (h : List Op) : State := h.foldl (genStep raw) s

/-- `alloc_memory` returns NULL, by the regenerated code -/
def genFails (s : State) (file : String) (line : Nat) : Bool := (Gen.Failable.allocMemory s file line).2.2

/-- one C-level call, executed by the regenerated definitions -/
def genCstep (c : CState) : COp → CState
  | .setCountdown n => Gen.Failable.setCountdown c n
  | .setOOM => Gen.Failable.setOutOfMemory c
  | .setNotOOM => Gen.Failable.setNotOutOfMemory c
  | .malloc => Gen.Failable.mallocState c
  | .strdup s => (Gen.Failable.strdup c s).1
  | .strndup s n => (Gen.Failable.strndup c s n).1
  | .calloc a b => (Gen.Failable.calloc c a b).1
  | .countReset => Gen.Failable.countReset c
  | .realloc _ => Gen.Failable.reallocState c
  | .free => Gen.Failable.freeState c

def genCrun (c : CState) (ops : List COp) : CState := ops.foldl genCstep c

def genAfterMallocs (c : CState) : Nat → CState
  | 0 => c
  | k + 1 => Gen.Failable.mallocState (genAfterMallocs c k)

/-- `(int) x` for a `size_t` x on LP64 -/
def int32 (n : Nat) : Int := if n % 2 ^ 32 < 2 ^ 31 then ((n % 2 ^ 32 : Nat) : Int) else ((n % 2 ^ 32 : Nat) : Int) - 2 ^ 32

/-- the text of the failure raised by `checkAllFailedAllocsWereDone`: the regenerated format strings filled the way
    `StringFromFormat` fills them (`%s` = the file, `%d` = `(int) line`, resp. the designated number) -/
def checkText : CheckResult → Option String
  | .ok => none
  | .neverDoneAt f l => some ((Gen.Failable.checkFormatAt.replace "%s" f).replace "%d" (toString (int32 l)))
  | .neverDoneNumber n => some (Gen.Failable.checkFormatNumber.replace "%d" (toString n))

/-- `mallocOver` and the three functions on top of it, executed by the regenerated definitions -/
def genMallocOver (b : Both) (file : String) (line : Nat) : MallocResult :=
  match (Gen.Failable.mallocState b.c).cur with
  | .null => { st := { b with c := Gen.Failable.mallocState b.c }, isNull := true, fired := [] }
  | .failable => { st := { c := Gen.Failable.mallocState b.c, fa := (Gen.Failable.allocMemory b.fa file line).1 },
                   isNull := (Gen.Failable.allocMemory b.fa file line).2.2,
                   fired := (Gen.Failable.allocMemory b.fa file line).2.1 }
  | .normal => { st := { b with c := Gen.Failable.mallocState b.c }, isNull := false, fired := [] }

def genStrdupOver (b : Both) (str : List UInt8) (file : String) (line : Nat) : MallocResult × Option (List UInt8) :=
  (genMallocOver b file line, if (genMallocOver b file line).isNull then none else some (str ++ [0]))

def genStrndupOver (b : Both) (str : List UInt8) (n : Nat) (file : String) (line : Nat) : MallocResult × Option (List UInt8) :=
  (genMallocOver b file line, if (genMallocOver b file line).isNull then none else some (str.take n ++ [0]))

def genCallocOver (b : Both) (num size : Nat) (file : String) (line : Nat) : MallocResult × Option (List UInt8) :=
  if Gen.Failable.callocOverflows num size then ({ st := b, isNull := true, fired := [] }, none)
  else (genMallocOver b file line, if (genMallocOver b file line).isNull then none else some (List.replicate (num * size) 0))

end Failable
