import CppUModel.Model.ThreadSafe
import CppUModel.Gen.ThreadSafeWiring
/-!
Vocabulary of C10.

* `WiringComplete`: the decidable statement about the REGENERATED switch table
  (`Gen/ThreadSafeWiring.lean`, from `MemoryLeakWarningPlugin.cpp`) that justifies treating a
  schedule as an interleaving of whole wrappers: every allocation entry point goes through a
  pointer of the table, `turnOnThreadSafeNewDeleteOverloads` assigns every pointer exactly once,
  each function it assigns constructs the scoped lock as its first statement, touches the detector
  only through the same operations as the unlocked function of the same pointer.
* `LockFreeAfter`: the lock-discipline claim of the property for one operation.
-/
namespace ThreadSafe
open Gen.ThreadSafe

def funcOf (n : String) : Option Func := funcs.find? (·.name == n)

def assignedTo (tbl : List (String × String)) (p : String) : List String :=
  (tbl.filter (·.1 == p)).map (·.2)

/-- every externally visible entry point calls through a pointer of the table -/
def entriesCovered : Bool := entries.all (fun e => fptrs.any (·.1 == e.2))

/-- a switch assigns every pointer of the table exactly once and nothing else -/
def switchTotal (tbl : List (String × String)) : Bool :=
  fptrs.all (fun p => (assignedTo tbl p.1).length == 1) && tbl.all (fun a => fptrs.any (·.1 == a.1))

/-- every function the thread-safe switch installs takes the scoped lock as its first statement -/
def locksFirstAll : Bool :=
  threadSafeOn.all (fun a => match funcOf a.2 with | some f => f.locksFirst | none => false)

/-- ... and performs the same detector operations as the unlocked function of the same pointer -/
def sameOperations : Bool :=
  threadSafeOn.all (fun a =>
    match funcOf a.2, (assignedTo defaultOn a.1).head? with
    | some f, some g => (match funcOf g with | some gf => f.calls == gf.calls && !f.calls.isEmpty | none => false)
    | _, _ => false)

/-- no function installed by the thread-safe switch is shared with the unlocked modes, and no
    pointer is used by an entry point without being in the table -/
def noUnlockedFunctionInstalled : Bool :=
  threadSafeOn.all (fun a => !(defaultOn.any (·.2 == a.2)) && !(turnOff.any (·.2 == a.2)))

def WiringComplete : Bool :=
  entriesCovered && switchTotal threadSafeOn && switchTotal defaultOn && switchTotal turnOff &&
  locksFirstAll && sameOperations && noUnlockedFunctionInstalled

/-! ## the pointer table as state: switches, save / restore

`saveAndDisableNewDeleteOverloads` / `restoreNewDeleteOverloads` (also run once inside the first
`getGlobalDetector()` call) copy the pointers to the `saved_*` variables and back; the copy lists
are REGENERATED (`saveCopies`, `restoreCopies`, `savedInit`).  Statements are executed in source
order on an environment variable ↦ function name. -/

abbrev Env := List (String × String)

def Env.get (e : Env) (k : String) : String := ((e.find? (·.1 == k)).map (·.2)).getD "?"

/-- assignment to a declared variable (an undeclared one is caught by `copiesWellFormed`) -/
def Env.set (e : Env) (k v : String) : Env := e.map (fun p => if p.1 == k then (p.1, v) else p)

/-- `dst = src;` for variables -/
def copyAll (cs : List (String × String)) (e : Env) : Env := cs.foldl (fun e c => e.set c.1 (e.get c.2)) e

/-- `ptr = function;` -/
def assignAll (as : List (String × String)) (e : Env) : Env := as.foldl (fun e a => e.set a.1 a.2) e

structure Ptrs where
  vars    : Env          -- the pointers and their saved_* copies
  counter : Int          -- save_counter
deriving DecidableEq, Repr

/-- process start: the static initialisers -/
def Ptrs.initial : Ptrs := { vars := fptrs ++ savedInit, counter := 0 }

def Ptrs.threadSafeOn (p : Ptrs) : Ptrs := { p with vars := assignAll Gen.ThreadSafe.threadSafeOn p.vars }
def Ptrs.defaultOn (p : Ptrs) : Ptrs := { p with vars := assignAll Gen.ThreadSafe.defaultOn p.vars }
def Ptrs.turnOff (p : Ptrs) : Ptrs := { p with vars := assignAll Gen.ThreadSafe.turnOff p.vars }

/-- `saveAndDisableNewDeleteOverloads` -/
def Ptrs.save (p : Ptrs) : Ptrs :=
  if p.counter + 1 > 1 then { p with counter := p.counter + 1 }
  else { vars := assignAll Gen.ThreadSafe.turnOff (copyAll saveCopies p.vars), counter := p.counter + 1 }

/-- `restoreNewDeleteOverloads` -/
def Ptrs.restore (p : Ptrs) : Ptrs :=
  if p.counter - 1 > 0 then { p with counter := p.counter - 1 }
  else { vars := copyAll restoreCopies p.vars, counter := p.counter - 1 }

/-- what the eleven pointers point at -/
def Ptrs.pointers (p : Ptrs) : List (String × String) := fptrs.map (fun f => (f.1, p.vars.get f.1))

/-- the function an entry point reaches right now -/
def Ptrs.target (p : Ptrs) (entry : String) : String :=
  match entries.find? (·.1 == entry) with
  | some e => p.vars.get e.2
  | none => "?"

def locksFirstFn (fn : String) : Bool := match funcOf fn with | some f => f.locksFirst | none => false

/-- the function takes the scoped lock somewhere in its body (what the replay model follows: it
    mirrors the code; that the lock comes FIRST is the obligation `wiring_complete`) -/
def locksAnywhereFn (fn : String) : Bool := match funcOf fn with | some f => f.locksAnywhere | none => false

/-- every pointer is on a function that takes the scoped lock first -/
def Ptrs.allLocked (p : Ptrs) : Bool := p.pointers.all (fun q => locksFirstFn q.2)

/-- `areNewDeleteOverloaded()` -/
def Ptrs.overloaded (p : Ptrs) : Bool :=
  p.vars.get "operator_new_fptr" == "mem_leak_operator_new" ||
  p.vars.get "operator_new_fptr" == "threadsafe_mem_leak_operator_new"

/-- every variable the copy lists mention is declared, each saved variable belongs to one pointer -/
def copiesWellFormed : Bool :=
  (saveCopies ++ restoreCopies).all (fun c => Ptrs.initial.vars.any (·.1 == c.1) && Ptrs.initial.vars.any (·.1 == c.2)) &&
  savedInit.length == fptrs.length

/-- the three explicit configurations -/
def threadSafeConfig : Ptrs := Ptrs.initial.threadSafeOn
def defaultConfig : Ptrs := Ptrs.initial.defaultOn
def offConfig : Ptrs := Ptrs.initial.turnOff

/-- the number of function pointers / entry points the obligation was checked for -/
def wiringSize : Nat × Nat := (fptrs.length, entries.length)

/-- the property's lock clause for one operation from a state with nobody inside a wrapper: the
    wrapper gets the lock (does not block), and when it is left - by whatever exit - the lock is
    free again and the flag is clear -/
def LockFreeAfter (op : DetOp) (d : Det) : Prop :=
  ∃ s', wrapper op (Sys.idle d) = some s' ∧ s'.lf = LF.idle

/-- the same for an arbitrary version of the scoped-lock code (used to show what each regenerated
    statement is needed for) -/
def LockFreeAfterWith (c : Code) (op : DetOp) (d : Det) : Prop :=
  ∃ s', wrapperWith c op (Sys.idle d) = some s' ∧ s'.lf = LF.idle

/-- the flag never claims a lock that is not held -/
def FlagImpliesHeld (s : LF) : Bool := !s.flag || (s.lock == .held)

/-- `memLeakMutexIsHeld` says exactly whether the mutex is held -/
def FlagIffHeld (s : LF) : Bool := s.flag == (s.lock == .held)

/-- the regenerated code with one ingredient of the repair taken out (what the code looked like
    before the repair, and the two ways of getting the repair wrong that the hints name) -/
def Code.withoutReleaseCall (c : Code) : Code := { c with fail := c.fail.filter (· != .releaseBeforeFailing) }
def Code.withoutFlagSet (c : Code) : Code := { c with ctor := c.ctor.filter (· != .simple (.setFlag true)) }
def Code.withoutFlagClear (c : Code) : Code := { c with dtor := c.dtor.filter (· != .simple (.setFlag false)) }

/-- `fail` with the failure recorded BEFORE the lock is given back and the test left afterwards
    (`addFailure(..); releaseBeforeFailing(); exitCurrentTest();`): indistinguishable with an output that
    does not allocate, a self-deadlock with one that does -/
def Code.recordBeforeRelease (c : Code) : Code :=
  { c with fail := [.other, .addFailure, .releaseBeforeFailing, .exitCurrentTest] }

/-- the output of `-ojunit` with the thread-safe overloads on: `printFailure` allocates through the locked wrapper -/
def Out.junitThreadSafe : Out := { alloc := true, locked := true }


/-! ## ownership discipline of a schedule (no detector involved)

The hypothesis of the schedule-independence theorems, stated on the schedule alone: live ids are
distinct (allocator contract), every thread releases / reallocates / hands over only blocks it
holds itself at that moment, a block is taken only after it was given to that thread, and no guard
bytes are overrun.  `held t` evolves by exactly the thread-local `holdStep`. -/

structure Own where
  held   : Nat → List (Nat × Kind)
  moving : List (Nat × Kind × Nat)          -- handed over, not yet taken: id, family, receiver

def pr (m : Nat × Kind × Nat) : Nat × Kind := (m.1, m.2.1)

def upd (h : Nat → List (Nat × Kind)) (t : Nat) (v : List (Nat × Kind)) : Nat → List (Nat × Kind) :=
  fun u => if u = t then v else h u

/-- every block some thread `< n` holds or that is in transit -/
def allBlocks (n : Nat) (o : Own) : List (Nat × Kind) :=
  (List.range n).flatMap o.held ++ o.moving.map pr

def movingStep (m : List (Nat × Kind × Nat)) (t : Nat) : TOp → List (Nat × Kind × Nat)
  | .give id k to => (id, k, to) :: m
  | .take id k => m.erase (id, k, t)
  | .det _ => m

def ownStep (o : Own) (t : Nat) (op : TOp) : Own :=
  { held := upd o.held t (holdStep (o.held t) op), moving := movingStep o.moving t op }

/-- side conditions that are not thread-local -/
def ownExtra (n : Nat) (o : Own) (t : Nat) : TOp → Prop
  | .det (.alloc id _) => id ∉ ids (allBlocks n o)
  | .det (.free _ _ c) => c = false
  | .det (.realloc old new c) => c = false ∧ new ∉ (ids (allBlocks n o)).erase old
  | .give _ _ _ => True
  | .take id k => (id, k, t) ∈ o.moving

def Owned (n : Nat) : List Event → Own → Prop
  | [], _ => True
  | (t, op) :: es, o =>
    t < n ∧ opOwned (o.held t) op = true ∧ ownExtra n o t op ∧ Owned n es (ownStep o t op)

def Own.empty : Own := { held := fun _ => [], moving := [] }

/-- the ownership state after a schedule -/
def ownRun : List Event → Own → Own
  | [], o => o
  | (t, op) :: es, o => ownRun es (ownStep o t op)

end ThreadSafe
