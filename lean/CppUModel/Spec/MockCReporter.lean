import CppUModel.Model.MockCReporter
/-!
# C19 — what the reporter plumbing of the C layer must be (hand-written)

Both entry functions pass the C reporter; the C reporter is the C++ reporter with the exception-free terminator; both
terminators call the crash hook iff the reporter's flag is set.
-/
namespace MockC.Rep.Req
open MockC MockC.Rep

def mockCalls : List MockCallDesc := [
  ⟨"mock_c", "\"\"", some "&failureReporterForC"⟩,
  ⟨"mock_scope_c", "scope", some "&failureReporterForC"⟩]

def reporters : List ReporterDesc := [
  ⟨"MockFailureReporterForInCOnlyCode", "!getTestToFail()->hasFailed()", "failWith", "MockFailureReporterTestTerminatorForInCOnlyCode", "crashOnFailure_"⟩,
  ⟨"MockFailureReporter", "!getTestToFail()->hasFailed()", "failWith", "MockFailureReporterTestTerminator", "crashOnFailure_"⟩]

def terminators : List TermDesc := [
  ⟨"MockFailureReporterTestTerminatorForInCOnlyCode", "crashOnFailure_", "UT_CRASH", "getCurrentTestTerminatorWithoutExceptions"⟩,
  ⟨"MockFailureReporterTestTerminator", "crashOnFailure_", "UT_CRASH", "getCurrentTestTerminator"⟩]

def tables : Tables := ⟨mockCalls, reporters, terminators, "MockFailureReporterForInCOnlyCode"⟩

end MockC.Rep.Req

namespace MockC.Rep

/-- the events of one `failTest`: nothing if the test already failed, else the crash hook iff the flag is set, then the exit -/
def evs (flag hasFailed : Bool) (how : Exit) : List Ev :=
  if hasFailed then [] else (if flag then [Ev.crash] else []) ++ [Ev.exit how]

/-- the C run and the C++ run of one scenario, side by side -/
structure Sim (c x : RWorld) : Prop where
  active : c.active = x.active.map (fun p => (p.1, Rk.c))
  active_std : ∀ p ∈ x.active, p.2 = Rk.std
  cur : c.cur = x.cur.map (fun p => (p.1, Rk.c))
  cur_std : ∀ p, x.cur = some p → p.2 = Rk.std
  flag : c.crashC = x.crashStd
  failed : c.hasFailed = x.hasFailed
  crashes : c.events.map Ev.isCrash = x.events.map Ev.isCrash
  c_exits : ∀ e ∈ c.events, e = Ev.crash ∨ e = Ev.exit .longjmp

end MockC.Rep
