import CppUModel.Model.Mock
/-!
Vocabulary of the C08 theorems: signatures, "fits", unambiguity, well-formedness, the abstract
consumption of expected capacity, multiset / sequence equality, and the runs the theorems talk
about.  Everything here is computable (`Bool`), so it can be evaluated on concrete scenarios.
-/
namespace Mock

/-- an actual call statement: function name (already scoped) and its steps in program order -/
structure Call where
  name : String
  segs : List Seg
deriving DecidableEq, Repr, Inhabited

def inNames (segs : List Seg) : List String :=
  segs.filterMap (fun s => match s with | .inp n _ => some n | _ => none)
def outNames (segs : List Seg) : List String :=
  segs.filterMap (fun s => match s with | .out n => some n | _ => none)
def objsOf (segs : List Seg) : List Nat :=
  segs.filterMap (fun s => match s with | .obj o => some o | _ => none)

/-- `WellFormedCalls`: inside one actual call the parameter names are distinct, the output
    parameter names are distinct, and `onObject` is used at most once -/
def WFCall (c : Call) : Prop :=
  (inNames c.segs).Nodup ∧ (outNames c.segs).Nodup ∧ (objsOf c.segs).length ≤ 1

/-- the same for an expectation -/
def WFExp (e : Exp) : Prop := (e.ins.map (·.name)).Nodup ∧ (e.outs.map (·.name)).Nodup

/-- the expectation accepts this step of a call -/
def compatSeg (e : Exp) : Seg → Bool
  | .inp n v => e.hasInput n v
  | .out n => e.hasOutput n
  | .obj o => e.relatesToObject o

def compat (e : Exp) (segs : List Seg) : Bool := segs.all (compatSeg e)

/-- every parameter (and the object) the expectation names is supplied by the steps -/
def covered (e : Exp) (segs : List Seg) : Bool :=
  e.ins.all (fun p => (inNames segs).contains p.name) &&
  e.outs.all (fun p => (outNames segs).contains p.name) &&
  (e.obj.isNone || !(objsOf segs).isEmpty)

/-- **same signature**: the call has the expectation's function name, exactly its parameters
    with exactly its values, exactly its output parameters, and is made on its object (an
    expectation that names no object stands for any object) -/
def fits (e : Exp) (c : Call) : Bool := e.name == c.name && compat e c.segs && covered e c.segs

/-- two expectations have the same signature -/
def sameSig (a b : Exp) : Bool :=
  a.name == b.name && a.obj == b.obj &&
  a.ins.all (fun p => b.hasInput p.name p.val) && b.ins.all (fun p => a.hasInput p.name p.val) &&
  a.outs.all (fun p => b.hasOutputNamed p.name) && b.outs.all (fun p => a.hasOutputNamed p.name)

/-- they share a parameter name with different values, or name two different objects -/
def conflict (a b : Exp) : Bool :=
  a.ins.any (fun p => b.ins.any (fun q => p.name == q.name && p.val != q.val)) ||
  (match a.obj, b.obj with
   | some x, some y => x != y
   | _, _ => false)

/-- the hypothesis of the property: two expectations on the same function have the same
    signature or differ in a shared parameter (or in the object they name) -/
def Unambiguous (es : List Exp) : Prop :=
  ∀ a ∈ es, ∀ b ∈ es, a.name = b.name → sameSig a b = true ∨ conflict a b = true

/-- no ignore-other-parameters -/
def Plain (es : List Exp) : Prop := ∀ e ∈ es, e.iop = false

/-- matching flags as `resetActualCallMatchingState` leaves them -/
def Exp.clean (e : Exp) : Bool :=
  e.ins.all (fun p => !p.passed) && e.outs.all (fun p => !p.passed) &&
  (e.passedObj == e.obj.isNone) && !e.finalized

def Clean (es : List Exp) : Prop := ∀ e ∈ es, e.clean = true

/-- forget everything that belongs to the call in flight -/
def Exp.norm (e : Exp) : Exp := { e.reset with cand := false, isMatch := false }

/-- one unit of capacity used by call number `order` (the static part of `callWasMade`) -/
def Exp.bump (e : Exp) (order : Nat) : Exp :=
  { e with actual := e.actual + 1,
           outOfOrder := e.outOfOrder || (e.lo != 0 && (decide (order < e.lo) || decide (e.hi < order))) }

/-- the expectation a call consumes: the first one, in declaration order, that still has
    capacity and has the call's signature -/
def wants (c : Call) (e : Exp) : Bool := e.canMatch && fits e c

/-- abstract consumption: the specification the matching algorithm is compared with -/
def consume (es : List Exp) (order : Nat) (c : Call) : Option (List Exp) :=
  if es.any (wants c) then some (modifyFirst (wants c) (fun e => e.bump order) es) else none

/-! ## multiset and sequence equality -/

/-- remaining capacity of the signature class of `e` -/
def capLeft (es : List Exp) (e : Exp) : Nat :=
  ((es.filter (fun x => sameSig e x)).map (fun x => x.expected - x.actual)).sum

/-- number of calls with the signature of `e` -/
def demand (calls : List Call) (e : Exp) : Nat := calls.countP (fun c => fits e c)

/-- the multiset of actual calls equals the multiset of expected calls with their
    multiplicities: every call has the signature of some expectation, and every signature is
    called exactly as often as its class has capacity -/
def MultisetEq (es : List Exp) (calls : List Call) : Prop :=
  (∀ c ∈ calls, ∃ e ∈ es, fits e c = true) ∧ (∀ e ∈ es, demand calls e = capLeft es e)

/-- `expandInOrder`: every expectation repeated as often as it still has capacity -/
def expandInOrder (es : List Exp) : List Exp :=
  es.flatMap (fun e => List.replicate (e.expected - e.actual) e)

/-- no strict-order window and not yet flagged out of order (expectations declared without
    `strictOrder()`) -/
def NoOrder (es : List Exp) : Prop := ∀ e ∈ es, e.lo = 0 ∧ e.outOfOrder = false

/-! the hypotheses and statements are decidable, so they can be evaluated on concrete scenarios -/
instance (c : Call) : Decidable (WFCall c) := by unfold WFCall; infer_instance
instance (e : Exp) : Decidable (WFExp e) := by unfold WFExp; infer_instance
instance (es : List Exp) : Decidable (Unambiguous es) := by unfold Unambiguous; infer_instance
instance (es : List Exp) : Decidable (Plain es) := by unfold Plain; infer_instance
instance (es : List Exp) : Decidable (Clean es) := by unfold Clean; infer_instance
instance (es : List Exp) : Decidable (NoOrder es) := by unfold NoOrder; infer_instance
instance (es : List Exp) (calls : List Call) : Decidable (MultisetEq es calls) := by unfold MultisetEq; infer_instance

/-- position by position, the call has the signature of the expected unit -/
def SeqFits : List Exp → List Call → Prop
  | [], [] => True
  | e :: es, c :: cs => fits e c = true ∧ SeqFits es cs
  | _, _ => False

/-- the sequence of calls is the declared sequence -/
def SeqEq (es : List Exp) (calls : List Call) : Prop := SeqFits (expandInOrder es) calls

/-! ## runs -/

def bufInit : List UInt8 := List.replicate 8 0xEE

/-- `MockSupport::checkExpectations` after the last call has been finished -/
def endCheck (es : List Exp) : Option String :=
  if es.any (fun e => !e.isFulfilled) then some msgUnfulfilled
  else if es.any (·.outOfOrder) then some msgOutOfOrder
  else none

/-- the code: calls number `k+1, k+2, …` made one after the other on the expectation
    list, then the end-of-test check.  `none` = the test passes, `some m` = it fails with `m` -/
def run (es : List Exp) (k : Nat) : List Call → Option String
  | [] => endCheck es
  | c :: rest =>
    match (callFull es (k + 1) c.name c.segs bufInit).fail with
    | some m => some m
    | none => run (callFull es (k + 1) c.name c.segs bufInit).es (k + 1) rest

/-- the abstract run: fold of `consume` -/
def consumeAll (es : List Exp) (k : Nat) : List Call → Option (List Exp)
  | [] => some es
  | c :: rest =>
    match consume es (k + 1) c with
    | some es1 => consumeAll es1 (k + 1) rest
    | none => none

/-- strict-order windows as `expectNCalls` assigns them from position `k` on (nothing called yet) -/
def windowsFrom : Nat → List Exp → Prop
  | _, [] => True
  | k, e :: es => e.lo = k + 1 ∧ e.hi = k + e.expected ∧ e.actual = 0 ∧ e.outOfOrder = false ∧
      windowsFrom (k + e.expected) es

/-! ## diagnosis of the first deviation, from the signature sets only -/

/-- an expectation that can still take a call to this function -/
def alive (c : Call) (x : Exp) : Bool := x.canMatch && x.name == c.name

/-- every parameter and output parameter the expectation names is supplied by the steps -/
def paramsCovered (e : Exp) (segs : List Seg) : Bool :=
  e.ins.all (fun p => (inNames segs).contains p.name) && e.outs.all (fun p => (outNames segs).contains p.name)

/-- the diagnosis of a step that no expectation in play accepts: unexpected parameter name /
    value (does any expectation of the function know the name?), unexpected output parameter,
    unexpected object -/
def msgForSeg (es : List Exp) (fn : String) : Seg → String
  | .inp n _ => msgUnexpectedInput es fn n
  | .out n => msgUnexpectedOutput es fn n
  | .obj _ => msgUnexpectedObject fn

/-- all steps were accepted: fine if some expectation with capacity has exactly this signature,
    otherwise a parameter is missing, or (all parameters there) the object is -/
def diagEnd (es : List Exp) (c : Call) : Option String :=
  if es.any (wants c) then none
  else if es.any (fun e => alive c e && compat e c.segs && !paramsCovered e c.segs) then some (msgMissingParam c.name)
  else some (msgMissingObject c.name)

/-- walk through the steps: the first step after which no expectation with capacity is
    compatible with the steps made so far gives the diagnosis -/
def diagRest (es : List Exp) (c : Call) : List Seg → List Seg → Option String
  | _, [] => diagEnd es c
  | pre, s :: rest =>
    if es.any (fun e => alive c e && compat e (pre ++ [s])) then diagRest es c (pre ++ [s]) rest
    else some (msgForSeg es c.name s)

/-- `Spec.diagnose`: `none` = the call is fulfilled, `some m` = the first line of the failure -/
def diagnose (es : List Exp) (c : Call) : Option String :=
  if es.any (alive c) then diagRest es c [] c.segs else some (msgUnexpectedCall es c.name)

/-- the specification of a whole run: the first call whose diagnosis is not `none` fails the
    test with that diagnosis (later calls are never looked at); a fulfilled call uses up the
    first expectation with capacity and its signature; at the end, the end-of-test check -/
def specRun (es : List Exp) (k : Nat) : List Call → Option String
  | [] => endCheck es
  | c :: rest =>
    match diagnose es c with
    | some m => some m
    | none => specRun (modifyFirst (wants c) (fun e => e.bump (k + 1)) es) (k + 1) rest

/-- what `World.call` followed by finishing the call (as `returnValue()` or the next
    `actualCall` does) computes on one scope -/
def Scope.callNow (sc : Scope) (fn : String) (segs : List Seg) (buf : List UInt8) : Scope × Option String :=
  match (sc.actualCall fn).fail with
  | some f => ((sc.actualCall fn).sc, some f)
  | none =>
    match segsLoop (sc.actualCall fn).sc buf segs with
    | (sc1, some f) => (sc1, some f)
    | (sc1, none) => sc1.checkLast

/-! ## lazily finished calls, ignoreOtherCalls, several scopes -/

/-- a call statement; `now` = the test asks for the return value, which finishes the call at
    once — otherwise the call stays in flight until the next `actualCall` on the same scope or
    `checkExpectations` / `expectedCallsLeft` finishes it -/
structure Stmt where
  call : Call
  now  : Bool
deriving Repr, Inhabited

/-- the run as the API performs it on one `MockSupport`: `actualCall` first finishes the call
    in flight, ignores the call if the scope is disabled or ignores other calls and has no
    expectation of that name, otherwise starts the new call and applies its steps; the first
    failure leaves the scenario -/
def Scope.lazyRun (sc : Scope) : List Stmt → Scope × Option String
  | [] => (sc, none)
  | s :: rest =>
    match (sc.actualCall s.call.name).fail with
    | some f => ((sc.actualCall s.call.name).sc, some f)
    | none =>
      if (sc.actualCall s.call.name).ignored then Scope.lazyRun (sc.actualCall s.call.name).sc rest
      else
        match segsLoop (sc.actualCall s.call.name).sc bufInit s.call.segs with
        | (sc1, some f) => (sc1, some f)
        | (sc1, none) =>
          if s.now then
            match sc1.checkLast with
            | (sc2, some f) => (sc2, some f)
            | (sc2, none) => Scope.lazyRun sc2 rest
          else Scope.lazyRun sc1 rest

/-- … followed by `mock().checkExpectations()` (which finishes the last call first) -/
def Scope.lazyVerdict (sc : Scope) (stmts : List Stmt) : Option String :=
  match sc.lazyRun stmts with
  | (_, some f) => some f
  | (sc1, none) => (World.check { glob := sc1, subs := [] } "").2

/-- the eager run, with `ignoreOtherCalls`: a call to a function no expectation names is skipped -/
def runG (ioc : Bool) (es : List Exp) (k : Nat) : List Call → Option String
  | [] => endCheck es
  | c :: rest =>
    if ioc && !es.any (fun e => e.name == c.name) then runG ioc es k rest
    else
      match (callFull es (k + 1) c.name c.segs bufInit).fail with
      | some m => some m
      | none => runG ioc (callFull es (k + 1) c.name c.segs bufInit).es (k + 1) rest

/-- the expectation list and the pending failure of a scope once the call in flight is finished -/
def Scope.settledEs (sc : Scope) : List Exp :=
  match sc.last with
  | none => sc.es
  | some c => (callCheck { es := sc.es, call := c, fail := none }).es

def Scope.settledFail (sc : Scope) : Option String :=
  match sc.last with
  | none => none
  | some c => (callCheck { es := sc.es, call := c, fail := none }).fail

/-- the calls `ignoreOtherCalls` lets through -/
def knownCalls (es : List Exp) (calls : List Call) : List Call :=
  calls.filter (fun c => es.any (fun e => e.name == c.name))

/-- the first failure finishing the calls in flight reports, scope by scope (global mock first,
    then the named scopes in creation order) -/
def firstPendingFail : List Scope → Option String
  | [] => none
  | s :: rest =>
    match s.settledFail with
    | some f => some f
    | none => firstPendingFail rest

/-- the expectations of the global mock and of every named scope, once the calls in flight are finished -/
def World.allSettledEs (w : World) : List Exp := (w.glob :: w.subs).flatMap Scope.settledEs

/-! ## the ignore-other-parameters class -/

/-- the expectation list after a sequence of calls, if none of them reports a failure -/
def afterCalls (es : List Exp) (k : Nat) : List Call → Option (List Exp)
  | [] => some es
  | c :: rest =>
    match (callFull es (k + 1) c.name c.segs bufInit).fail with
    | some _ => none
    | none => afterCalls (callFull es (k + 1) c.name c.segs bufInit).es (k + 1) rest

/-- same class: same function, object, flag, the same (required) parameter map and the same
    (required) output parameters.  (`fits` already is the textbook reading for an expectation
    with `ignoreOtherParameters`: every parameter it names occurs in the call with an equal
    value — `covered` and `compat` —, parameters it does not name are accepted.) -/
def sameClass (a b : Exp) : Bool :=
  a.name == b.name && a.obj == b.obj && a.iop == b.iop &&
  a.ins.all (fun p => b.ins.any (fun q => q.name == p.name && q.val == p.val)) &&
  b.ins.all (fun p => a.ins.any (fun q => q.name == p.name && q.val == p.val)) &&
  a.outs.all (fun p => b.hasOutputNamed p.name) && b.outs.all (fun p => a.hasOutputNamed p.name)

/-- unambiguous in the wider sense: two expectations on one function are of the same class or
    differ on a shared (required) parameter's value (or name different objects) -/
def UnambiguousI (es : List Exp) : Prop :=
  ∀ a ∈ es, ∀ b ∈ es, a.name = b.name → sameClass a b = true ∨ conflict a b = true

def capLeftI (es : List Exp) (e : Exp) : Nat :=
  ((es.filter (fun x => sameClass e x)).map (fun x => x.expected - x.actual)).sum

/-- the calls can be assigned one-to-one to the expected units; for unambiguous sets a call
    matches one class only, so this is a count per class -/
def MultisetEqI (es : List Exp) (calls : List Call) : Prop :=
  (∀ c ∈ calls, ∃ e ∈ es, fits e c = true) ∧ (∀ e ∈ es, demand calls e = capLeftI es e)

instance (es : List Exp) : Decidable (UnambiguousI es) := by unfold UnambiguousI; infer_instance
instance (es : List Exp) (calls : List Call) : Decidable (MultisetEqI es calls) := by unfold MultisetEqI; infer_instance

/-! ## tests run with `MockSupportPlugin` installed -/

/-- every failure of one test: those of its body, then those of the plugin's post action -/
def testVerdict (body : World → BodyResult) (w : World) : List String :=
  (body w).msgs ++ (pluginPost (body w)).1

/-- a run of several tests; the mock is whatever the previous test's post action left -/
def pluginRun : List (World → BodyResult) → World → List (List String)
  | [], _ => []
  | b :: rest, w => testVerdict b w :: pluginRun rest (pluginPost (b w)).2

end Mock
