/-!
# A small `printf` for the diagnostics models (C14)

The leak-report buffer and the failure messages are built with `vsnprintf` formats that use only
`%s %d %u %lu %ld %p %c %04lx %02hx %02X` and literal text.  A format string is a list of `Seg`s
(REGENERATED from the C++ sources into `Gen/DiagnosticsConstants.lean`), the arguments are a list
of `Arg`s; `Fmt.render` is the complete formatted text (what `vsnprintf` would produce in an
unbounded buffer; its length is the value `vsnprintf` returns).

`%p` is rendered by the C library in an implementation-defined way: its text is an INPUT
(`Arg.str`).  Core Lean only.
-/
namespace Fmt

abbrev Bytes := List UInt8

def ofString (s : String) : Bytes := s.toUTF8.toList

def digit (n : Nat) : UInt8 := UInt8.ofNat (48 + n % 10)
def hexDigitL (n : Nat) : UInt8 := if n % 16 < 10 then UInt8.ofNat (48 + n % 16) else UInt8.ofNat (87 + n % 16)
def hexDigitU (n : Nat) : UInt8 := if n % 16 < 10 then UInt8.ofNat (48 + n % 16) else UInt8.ofNat (55 + n % 16)

/-- digits of `n` in front of `acc`, most significant first; `fuel` bounds the number of digits -/
def decAux : Nat → Nat → Bytes → Bytes
  | 0, _, acc => acc
  | f + 1, n, acc => if n < 10 then digit n :: acc else decAux f (n / 10) (digit n :: acc)

/-- `%u`, `%lu`, `%llu` -/
def decNat (n : Nat) : Bytes := decAux (n + 1) n []

/-- `%d`, `%ld`, `%lld` -/
def decInt (i : Int) : Bytes :=
  if i < 0 then 45 :: decNat i.natAbs else decNat i.natAbs

def hexAux (dig : Nat → UInt8) : Nat → Nat → Bytes → Bytes
  | 0, _, acc => acc
  | f + 1, n, acc => if n < 16 then dig n :: acc else hexAux dig f (n / 16) (dig n :: acc)

/-- `%x`, `%lx`, `%llx` -/
def hexLower (n : Nat) : Bytes := hexAux hexDigitL (n + 1) n []
/-- `%X` -/
def hexUpper (n : Nat) : Bytes := hexAux hexDigitU (n + 1) n []

/-- left padding with `c` to at least `w` characters (`%0w…`, `%w…`) -/
def padLeft (w : Nat) (c : UInt8) (b : Bytes) : Bytes := List.replicate (w - b.length) c ++ b

/-- C conversion `(int) x` of an unsigned 64-bit value (LP64: keep the low 32 bits, two's complement) -/
def castInt32 (n : Nat) : Int :=
  if n % 4294967296 < 2147483648 then ((n % 4294967296 : Nat) : Int) else ((n % 4294967296 : Nat) : Int) - 4294967296

inductive Seg where
  | lit (b : Bytes)
  | s            -- %s
  | d            -- %d / %ld / %lld   (argument: `Arg.int`)
  | u            -- %u / %lu / %llu   (argument: `Arg.nat`)
  | p            -- %p                (argument: `Arg.str`, the C library's rendering)
  | c            -- %c
  | x            -- %x / %lx          (argument: `Arg.nat`)
  | lx04         -- %04lx
  | hx02         -- %02hx
  | X02          -- %02X
deriving Repr, DecidableEq, Inhabited

inductive Arg where
  | str (b : Bytes)
  | int (i : Int)
  | nat (n : Nat)
  | chr (c : UInt8)
deriving Repr, DecidableEq, Inhabited

def renderOne : Seg → Arg → Bytes
  | .s, .str b => b
  | .p, .str b => b
  | .d, .int i => decInt i
  | .u, .nat n => decNat n
  | .x, .nat n => hexLower n
  | .lx04, .nat n => padLeft 4 48 (hexLower n)
  | .hx02, .nat n => padLeft 2 48 (hexLower n)
  | .X02, .nat n => padLeft 2 48 (hexUpper n)
  | .c, .chr c => [c]
  | _, _ => [63]          -- `?`: argument of the wrong kind (never produced by the models)

/-- the complete formatted text -/
def render : List Seg → List Arg → Bytes
  | [], _ => []
  | .lit b :: rest, args => b ++ render rest args
  | _ :: rest, [] => 63 :: render rest []
  | sg :: rest, a :: args => renderOne sg a ++ render rest args

end Fmt
