import CppUModel.Spec.Text
import CppUModel.Spec.DiagnosticsFmt
/-!
# Vocabulary of the C14 theorems (diagnostics)

Textbook definitions, independent of the model in `Model/Diagnostics.lean`:
printable rendering of a byte string, first differing index of two strings, "occurs in",
NUL-freeness.  Byte strings are `List UInt8` without terminator.
-/
namespace DiagSpec
open Fmt

abbrev Bytes := List UInt8

/-- a C string's contents never contain NUL -/
def NulFree (a : Bytes) : Prop := ∀ x ∈ a, x ≠ 0
instance (a : Bytes) : Decidable (NulFree a) := by unfold NulFree; infer_instance

/-- printable form of one byte: 7..13 → `\a \b \t \n \v \f \r`; other control bytes (< 0x20), 0x7F
    and bytes ≥ 0x80 → `\xHH` (upper-case hex); everything else itself -/
def printableByte (c : UInt8) : Bytes :=
  if 7 ≤ c ∧ c ≤ 13 then
    [92, (match c with | 7 => 97 | 8 => 98 | 9 => 116 | 10 => 110 | 11 => 118 | 12 => 102 | _ => 114)]
  else if c < 32 ∨ c = 127 ∨ 128 ≤ c then
    [92, 120, hexDigitU (c.toNat / 16), hexDigitU c.toNat]
  else [c]

def printable (a : Bytes) : Bytes := a.flatMap printableByte

/-- the first index at which the two strings differ (an index past the end of one of them differs
    from any byte of the other); the common length if they are equal -/
def firstDiff : Bytes → Bytes → Nat
  | x :: xs, y :: ys => if x = y then firstDiff xs ys + 1 else 0
  | _, _ => 0

/-- the same when bytes are compared through `f` (ASCII lower-casing for the no-case check) -/
def firstDiffBy (f : UInt8 → UInt8) : Bytes → Bytes → Nat
  | x :: xs, y :: ys => if f x = f y then firstDiffBy f xs ys + 1 else 0
  | _, _ => 0

/-- first index `< n` at which the two byte arrays differ, `n` if none (binary comparison) -/
def firstDiffBin : Nat → Bytes → Bytes → Nat
  | 0, _, _ => 0
  | n + 1, x :: xs, y :: ys => if x = y then firstDiffBin n xs ys + 1 else 0
  | _ + 1, _, _ => 0

/-- `b` occurs in `a` (decidable; used by the oracle) -/
def occursIn (b a : Bytes) : Bool := Text.isInfix a b

/-- position of the first occurrence of `b` in `a` -/
def findSub : Bytes → Bytes → Nat → Option Nat
  | [], b, i => if b.isEmpty then some i else none
  | a@(_ :: t), b, i => if b.isPrefixOf a then some i else findSub t b (i + 1)

/-- position of the last occurrence of `b` in `a` -/
def rfindSub (a b : Bytes) : Option Nat :=
  let rec go : Bytes → Nat → Option Nat → Option Nat
    | [], i, best => if b.isEmpty then some i else best
    | a@(_ :: t), i, best => go t (i + 1) (if b.isPrefixOf a then some i else best)
  go a 0 none

/-- `"AB CD EF"`: upper-case hex bytes separated by one blank (binary operands) -/
def hexDump : Bytes → Bytes
  | [] => []
  | [x] => [hexDigitU (x.toNat / 16), hexDigitU x.toNat]
  | x :: rest => hexDigitU (x.toNat / 16) :: hexDigitU x.toNat :: 32 :: hexDump rest

/-- two's complement value of a signed 64-bit integer as an unsigned one -/
def toU64 (i : Int) : Nat := (i % 18446744073709551616).toNat

end DiagSpec
