import CppUModel.Model.OutputEvents
/-!
# TeamCity service messages — the vocabulary of C20

Written from the TeamCity rules, not from the code: the escaping rules (`|` before `' | [ ]`,
`|n` for LF, `|r` for CR), decoding, the messages a test reporter emits, how a message is
rendered, an independent parser of a service-message stream, and well-formedness (balance) of a
message list as a decidable automaton.  Core Lean only; imported by the driver.
-/
namespace TeamCity
open Text (Bytes)
open OutEv (dec lit)

def quote : UInt8 := 39      -- '
def bar : UInt8 := 124       -- |
def lbr : UInt8 := 91        -- [
def rbr : UInt8 := 93        -- ]
def cr : UInt8 := 13
def lf : UInt8 := 10

/-! ## escaping by the TeamCity rules -/

def escRef (c : UInt8) : Bytes :=
  if c = 39 ∨ c = 124 ∨ c = 91 ∨ c = 93 then [124, c]
  else if c = 13 then [124, 114]
  else if c = 10 then [124, 110]
  else [c]

def escapeRef (s : Bytes) : Bytes := s.flatMap escRef

/-- the byte an escape `|x` stands for (`|n` LF, `|r` CR, otherwise the byte itself: `|' || |[ |]`) -/
def unescByte (x : UInt8) : UInt8 :=
  if x = 110 then 10 else if x = 114 then 13 else x

/-- decoding, as a scanner: `esc` = the previous byte was an unconsumed `|` -/
def decodeAux : Bool → Bytes → Bytes
  | _, [] => []
  | true, x :: rest => unescByte x :: decodeAux false rest
  | false, c :: rest => if c = 124 then decodeAux true rest else c :: decodeAux false rest

def decodeTC (s : Bytes) : Bytes := decodeAux false s

/-- "every `'` and `]` is preceded by an odd run of `|`", as a scanner; `odd` = the run of `|`
    ending just before the current position has odd length -/
def oddRunOk : Bool → Bytes → Bool
  | _, [] => true
  | odd, c :: rest =>
    if c = 124 then oddRunOk (!odd) rest
    else if c = 39 ∨ c = 93 then odd && oddRunOk false rest
    else oddRunOk false rest

/-- length of the run of `|` at the end of `pre` -/
def trailingBars (pre : Bytes) : Nat := (pre.reverse.takeWhile (· == 124)).length

/-- the escapes the rules define (`|' || |[ |] |n |r`) -/
def validEsc (x : UInt8) : Bool := x == 39 || x == 124 || x == 91 || x == 93 || x == 110 || x == 114

/-- what a strict TeamCity reader does with an attribute value: read up to the first quote that is
    not escaped, decoding on the way; a raw `[ ]` or line break inside a value, or an escape the
    rules do not define, is rejected.  Result = (decoded value, what follows the closing quote) -/
def scanValue : Bool → Bytes → Bytes → Option (Bytes × Bytes)
  | _, [], _ => none
  | true, x :: rest, acc => if validEsc x then scanValue false rest (unescByte x :: acc) else none
  | false, c :: rest, acc =>
    if c = 39 then some (acc.reverse, rest)
    else if c = 124 then scanValue true rest acc
    else if c = 91 ∨ c = 93 ∨ c = 13 ∨ c = 10 then none
    else scanValue false rest (c :: acc)

/-! ## messages -/

inductive Msg
  | suiteStarted  (name : Bytes)
  | suiteFinished (name : Bytes)
  | testStarted   (name : Bytes)
  | testIgnored   (name : Bytes)
  | testFinished  (name : Bytes) (duration : Nat)
  | testFailed    (name message details : Bytes)
  | text          (raw : Bytes)        -- anything that is not a service message
deriving Repr, DecidableEq, Inhabited

def attr (key : String) (value : Bytes) : Bytes :=
  [32] ++ lit key ++ [61, 39] ++ escapeRef value ++ [39]

def message (name : String) (attrs : Bytes) : Bytes :=
  lit "##teamcity[" ++ lit name ++ attrs ++ lit "]\n"

/-- a message as it must appear on the wire: every value escaped -/
def Msg.render : Msg → Bytes
  | .suiteStarted n => message "testSuiteStarted" (attr "name" n)
  | .suiteFinished n => message "testSuiteFinished" (attr "name" n)
  | .testStarted n => message "testStarted" (attr "name" n)
  | .testIgnored n => message "testIgnored" (attr "name" n)
  | .testFinished n d => message "testFinished" (attr "name" n ++ attr "duration" (dec d))
  | .testFailed n m d => message "testFailed" (attr "name" n ++ attr "message" m ++ attr "details" d)
  | .text raw => raw

def renderAll (ms : List Msg) : Bytes := ms.flatMap Msg.render

/-! ## balance -/

inductive Phase
  | idle
  | inSuite (group : Bytes)
  | inTest (group test : Bytes)
deriving Repr, DecidableEq, Inhabited

/-- one message against the open suite / test; `none` = not well formed -/
def balStep : Phase → Msg → Option Phase
  | p, .text _ => some p
  | .idle, .suiteStarted g => some (.inSuite g)
  | .inSuite g, .suiteFinished g' => if g' = g then some .idle else none
  | .inSuite g, .testStarted t => some (.inTest g t)
  | .inTest g t, .testIgnored t' => if t' = t then some (.inTest g t) else none
  | .inTest g t, .testFailed t' _ _ => if t' = t then some (.inTest g t) else none
  | .inTest g t, .testFinished t' _ => if t' = t then some (.inSuite g) else none
  | _, _ => none

def balRun : Phase → List Msg → Option Phase
  | p, [] => some p
  | p, m :: ms =>
    match balStep p m with
    | some p' => balRun p' ms
    | none => none

/-- every suite start has its finish, every test start inside a suite has its finish, ignored and
    failed messages name the open test, and nothing is left open at the end -/
def balanced (ms : List Msg) : Bool := balRun .idle ms == some .idle

/-- `testFailed` only while a test is open, and naming it -/
def failuresInOpenTest : Option Bytes → List Msg → Bool
  | _, [] => true
  | _, .testStarted t :: ms => failuresInOpenTest (some t) ms
  | _, .testFinished _ _ :: ms => failuresInOpenTest none ms
  | cur, .testFailed t _ _ :: ms => (cur == some t) && failuresInOpenTest cur ms
  | cur, _ :: ms => failuresInOpenTest cur ms

/-! ## an independent stream parser (used by the oracle in the driver) -/

def marker : Bytes := lit "##teamcity["

/-- bytes up to (excluding) the first byte satisfying `stop`; the rest starts at that byte -/
def takeUntil (stop : UInt8 → Bool) : Bytes → Bytes → Bytes × Bytes
  | [], acc => (acc.reverse, [])
  | c :: rest, acc => if stop c then (acc.reverse, c :: rest) else takeUntil stop rest (c :: acc)

/-- attributes ` key='value'`* up to `]`; fuel bounds the number of attributes -/
def parseAttrs : Nat → Bytes → List (Bytes × Bytes) → Except String (List (Bytes × Bytes) × Bytes)
  | 0, _, _ => .error "too many attributes"
  | fuel + 1, s, acc =>
    match s with
    | [] => .error "message not closed"
    | c :: rest =>
      if c = 93 then .ok (acc.reverse, rest)
      else if c = 32 then
        match takeUntil (fun b => b == 61 || b == 93 || b == 39 || b == 32) rest [] with
        | (key, 61 :: 39 :: more) =>
          match scanValue false more [] with
          | some (v, after) => parseAttrs fuel after ((key, v) :: acc)
          | none => .error "attribute value not closed"
        | _ => .error "malformed attribute"
      else .error "unexpected byte in message"

def lookupAttr (k : String) (as : List (Bytes × Bytes)) : Option Bytes :=
  (as.find? (fun p => p.1 == lit k)).map (·.2)

def natOfBytes? (b : Bytes) : Option Nat :=
  if b.isEmpty then none else
  b.foldl (fun (acc : Option Nat) (c : UInt8) => match acc with
    | some n => if 48 ≤ c ∧ c ≤ 57 then some (n * 10 + (c.toNat - 48)) else none
    | none => none) (some 0)

def mkMsg (name : Bytes) (as : List (Bytes × Bytes)) : Except String Msg :=
  let keys := as.map (·.1)
  let n := lookupAttr "name" as
  if name = lit "testSuiteStarted" ∧ keys = [lit "name"] then .ok (.suiteStarted (n.getD []))
  else if name = lit "testSuiteFinished" ∧ keys = [lit "name"] then .ok (.suiteFinished (n.getD []))
  else if name = lit "testStarted" ∧ keys = [lit "name"] then .ok (.testStarted (n.getD []))
  else if name = lit "testIgnored" ∧ keys = [lit "name"] then .ok (.testIgnored (n.getD []))
  else if name = lit "testFinished" ∧ keys = [lit "name", lit "duration"] then
    match (lookupAttr "duration" as).bind natOfBytes? with
    | some d => .ok (.testFinished (n.getD []) d)
    | none => .error "duration is not a number"
  else if name = lit "testFailed" ∧ keys = [lit "name", lit "message", lit "details"] then
    .ok (.testFailed (n.getD []) ((lookupAttr "message" as).getD []) ((lookupAttr "details" as).getD []))
  else .error ("unknown message or attribute list: " ++ String.ofList (name.map fun c => Char.ofNat c.toNat))

/-- split a stream into service messages and the text between them.  A message must be followed
    by a line break (which belongs to it). `fuel` bounds the number of steps. -/
def parseStream : Nat → Bytes → Bytes → List Msg → Except String (List Msg)
  | 0, _, _, _ => .error "out of fuel"
  | fuel + 1, s, txt, acc =>
    let flush (acc : List Msg) : List Msg := if txt.isEmpty then acc else .text txt.reverse :: acc
    match s with
    | [] => .ok (flush acc).reverse
    | c :: rest =>
      if marker.isPrefixOf s then
        match takeUntil (fun b => b == 32 || b == 93) (s.drop marker.length) [] with
        | (name, more) =>
          match parseAttrs (more.length + 1) more [] with
          | .error e => .error e
          | .ok (as, after) =>
            match mkMsg name as with
            | .error e => .error e
            | .ok m =>
              match after with
              | 10 :: after' => parseStream fuel after' [] (m :: flush acc)
              | _ => .error "service message not followed by a line break"
      else parseStream fuel rest (c :: txt) acc

def parse (s : Bytes) : Except String (List Msg) := parseStream (s.length + 1) s [] []

end TeamCity
