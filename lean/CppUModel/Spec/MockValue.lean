import CppUModel.Model.MockValue
/-!
# C09 vocabulary: what a mock parameter value *denotes*

The property theorems (Props/C09.lean) are stated with these definitions; the driver's oracle uses
its own value type (decimal integers read from the trace) and does not depend on them.
-/
namespace Mock

/-- the six supported integer types -/
def MVal.isInt : MVal → Bool
  | .int _ | .uint _ | .long _ | .ulong _ | .llong _ | .ullong _ => true
  | _ => false

/-- the mathematical integer an integer value denotes (two's complement for the signed types) -/
def denote? : MVal → Option Int
  | .int v => some v.toInt
  | .uint v => some (v.toNat : Int)
  | .long v => some v.toInt
  | .ulong v => some (v.toNat : Int)
  | .llong v => some v.toInt
  | .ullong v => some (v.toNat : Int)
  | _ => none

/-- the type names the built-in setters store -/
def builtinTypeNames : List String :=
  ["bool", "int", "unsigned int", "long int", "unsigned long int", "long long int", "unsigned long long int",
   "double", "const char*", "void*", "const void*", "void (*)()", "const unsigned char*"]

/-- well-formed value: a custom object type is not named like a built-in type (a custom type named
    "int" would make `equals` read the inactive union member `intValue_`) -/
def MVal.WF : MVal → Prop
  | .obj ty _ _ => ty ∉ builtinTypeNames
  | _ => True

/-- content of a C string argument: what `SimpleString(const char*)` holds -/
def cstrContent : Option Bytes → Bytes
  | none => []
  | some b => b

/-- a C string never contains its terminator -/
def NulFree (b : Bytes) : Prop := ∀ c ∈ b, c ≠ 0

/-- a memory buffer whose length fits `size_t` -/
def SizeOk (b : Bytes) : Prop := b.length < 2 ^ 64

/-- side conditions under which the callee models mean what the property says: a custom type is not named like a
    built-in type, a string value holds no NUL before its end, a buffer's length fits `size_t` -/
def MVal.Valid : MVal → Prop
  | .obj ty _ _ => ty ∉ builtinTypeNames
  | .str s => NulFree (cstrContent s)
  | .mem b => SizeOk b
  | _ => True

/-- THE PROPERTY as one function: what `a.equals(b)` must answer for every ordered pair of values (`a` is the
    expectation at the only call site).  Integers of any two integer types: the same mathematical integer; bool /
    pointers: identity within the own type; strings: content; buffers: length and content; doubles: the LEFT
    operand's tolerance, NaN equal to nothing (`doublesEqual` is the class logic over the hardware comparison);
    objects of the same type: the LEFT operand's comparator, none = never equal; everything else: never equal. -/
def specEq : MVal → MVal → Bool
  | .bool x, .bool y => x == y
  | .dbl v t, .dbl w _ => doublesEqual floatClose v w t
  | .str x, .str y => cstrContent x == cstrContent y
  | .ptr x, .ptr y => x == y
  | .cptr x, .cptr y => x == y
  | .fptr x, .fptr y => x == y
  | .mem x, .mem y => x.length == y.length && x == y
  | .obj t1 x c, .obj t2 y _ => t1 == t2 && (match c with | some f => f x y | none => false)
  | a, b =>
    match denote? a, denote? b with
    | some x, some y => x == y
    | _, _ => false

def MVal.isDbl : MVal → Bool
  | .dbl _ _ => true
  | _ => false
def MVal.isObj : MVal → Bool
  | .obj _ _ _ => true
  | _ => false

/-- the integer a getter result stands for, by the signedness of the getter's return type -/
def resultInt (signed : Bool) {w : Nat} (n : BitVec w) : Int := if signed then n.toInt else (n.toNat : Int)

/-- width in bits of an integer value's C type (LP64) -/
def MVal.width : MVal → Nat
  | .int _ | .uint _ => 32
  | .long _ | .ulong _ | .llong _ | .ullong _ => 64
  | _ => 0

/-- the text `toString()` shows for an integer `d` held in a type of `w` bits: decimal, blank, and the
    hexadecimal two's-complement pattern at the type's own width in brackets -/
def integerText (d : Int) (w : Nat) : Bytes :=
  decInt d ++ ascii " " ++ ascii "(0x" ++ hexNat (d % (2 ^ w : Int)).toNat ++ ascii ")"

end Mock
