import CppUModel.Proofs.JUnitLoop
import CppUModel.Proofs.JUnitBehaviours
import CppUModel.Proofs.JUnitRead
import CppUModel.Proofs.JUnitRepeat
import CppUModel.Proofs.JUnitTimes
/-!
# C16 — the JUnit report is well-formed XML and faithful to the run

Property theorems only.  Model: `Model/JUnit.lean` (from `src/CppUTest/JUnitTestOutput.cpp`) over
the runner events of `Model/OutputEvents.lean` (from `TestRegistry::runAllTests`); vocabulary:
`Spec/JUnit.lean` (XML references, attribute/text readers, the structured report and its rendering,
written independently of the code).  `encodeXmlText` and `encodeFileName` follow tables regenerated
from the source on every run (`Gen/EscapeTables.lean`); `xml_table_side_condition`,
`encode_table_is_xml_rule`, `file_name_table_is_spec` are the obligations over those tables.
-/
namespace JUnit
open Text (Bytes)
open OutEv

/-! ## encoding -/

/-- Side condition on the regenerated replace list: every pattern is one byte and no replacement
    text contains a later pattern (so `&` must come first). -/
theorem xml_table_side_condition : tableOk Gen.EscapeTables.xmlReplaces = true := xml_table_ok

/-- The six sequential `replace` calls equal one pass of the per-byte map, for all byte strings. -/
theorem encode_sequential_eq_map (s : Bytes) : encodeXmlText s = s.flatMap encByte :=
  encodeXmlText_eq_map s

/-- The per-byte map of the regenerated table is the XML reference encoding of `& " < > CR LF`. -/
theorem encode_table_is_xml_rule : ∀ c : UInt8, encByte c = encByteRef c := encByte_eq_ref

/-- Unescaping yields the original text, for all byte strings. -/
theorem decode_encode (s : Bytes) : decodeXml (encodeXmlText s) = s := by
  have := decodeAux_encodeRef s []
  simpa [decodeXml, encodeXmlText_eq_ref, decodeAux] using this

/-- The encoded text is safe both as attribute value and as element text: no raw `< > "`, no raw
    line break, and every `&` starts one of the emitted references. -/
theorem encoded_is_attr_and_text_safe (s : Bytes) : attrAndTextSafe (encodeXmlText s) = true := by
  have := safeAux_encodeRef s []
  simpa [attrAndTextSafe, encodeXmlText_eq_ref, safeAux] using this

/-- An XML reader of a `"`-delimited attribute value gets exactly the original and stops exactly at
    the closing quote, whatever the value and whatever follows (unambiguous tokenisation). -/
theorem attr_value_roundtrip (v rest : Bytes) :
    scanAttr none (encodeXmlText v ++ 34 :: rest) [] = some (v, rest) := by
  rw [encodeXmlText_eq_ref, scanAttr_encodeRef]; simp

/-- The same for element text up to the next tag (the captured output in `<system-out>`). -/
theorem text_roundtrip (v rest : Bytes) :
    scanText none (encodeXmlText v ++ 60 :: rest) [] = some (v, 60 :: rest) := by
  rw [encodeXmlText_eq_ref, scanText_encodeRef]; simp

/-! ## the document -/

/-- the structured reports of an event list: (file name, suite) per `groupEnded` -/
def reports (package timeString : Bytes) (evs : List Ev) : List (Bytes × Suite) :=
  reportsFrom { package := package, timeString := timeString } evs

/-- Every file, for ANY event list, is the fixed template rendered from the structured report:
    every variable field (suite name, class name, test name, file, failure message
    `file:line: message`, captured output) passes through the reference encoding; numbers are
    printed as digits; the only field written as given is the platform's time string. -/
theorem document_shape (package timeString : Bytes) (evs : List Ev) :
    files package timeString evs =
      (reports package timeString evs).map fun r => { name := r.1, bytes := r.2.render } :=
  (fold_files evs _).1

/-- Reading a rendered attribute back gives the structured report's field (any field `v`, any
    continuation), so the fields of `document_shape` are recoverable from the bytes. -/
theorem fields_roundtrip (v rest : Bytes) :
    scanAttr none (encodeRef v ++ 34 :: rest) [] = some (v, rest) ∧
    scanText none (encodeRef v ++ 60 :: rest) [] = some (v, 60 :: rest) := by
  rw [scanAttr_encodeRef, scanText_encodeRef]; simp

/-- The suite element states the true number of test cases and of failed test cases it contains —
    for ANY event list (the numbers are printed through `(int)` casts). -/
theorem suite_counts_true (package timeString : Bytes) (evs : List Ev) :
    ∀ r ∈ reports package timeString evs,
      r.2.tests = castInt r.2.cases.length ∧
      r.2.failures = castInt (r.2.cases.filter fun c => c.failure.isSome).length :=
  (fold_countsOk evs _ ⟨rfl, rfl⟩).1

/-- One test case element per test that runs, in run order, over all files of the run, each with
    the test's name, file, line, ignored flag and the message of its FIRST failure — for every
    registry, filter and package. -/
theorem one_testcase_per_test_in_order (package timeString : Bytes) (flt : Option Filter) (tests : List Script) :
    (reports package timeString (runAll flt tests)).flatMap reportKeys =
      (tests.filter fun t => shouldRun flt t.info).map scriptKey := by
  have h := (loop_keys flt tests true 0 {} { package := package, timeString := timeString } rfl (fun _ => rfl)).1
  simpa [reports, runAll, reportsFrom_cons, reportsOf, step] using h

/-- A test case is marked skipped exactly when the test is an ignored one … -/
theorem skipped_iff_ignored (package timeString : Bytes) (flt : Option Filter) (tests : List Script) :
    ((reports package timeString (runAll flt tests)).flatMap reportKeys).map (fun k => k.2.2.2.1) =
      (tests.filter fun t => shouldRun flt t.info).map fun t => !t.info.willRun := by
  rw [one_testcase_per_test_in_order, List.map_map]; rfl

/-- … and has a failure element exactly when the test ran and failed, carrying the first failure. -/
theorem failure_iff_failed (package timeString : Bytes) (flt : Option Filter) (tests : List Script) :
    ((reports package timeString (runAll flt tests)).flatMap reportKeys).map (fun k => k.2.2.2.2) =
      (tests.filter fun t => shouldRun flt t.info).map fun t =>
        if t.info.willRun then (firstFail t.info t.acts).map failureMessage else none := by
  rw [one_testcase_per_test_in_order, List.map_map]; rfl

/-- Obligation over the regenerated member-initialiser lists of src/CppUTest/TestFailure.cpp: the
    `file:line` of a failure element are those of the failure — the given location for the
    constructors that take one (and for `FailFailure`), the test's own file and line for
    `TestFailure(test, message)` (leak plugin, mock failures, plugins), "no message" where none is given. -/
theorem failure_location_is_the_failures (t : TestInfo) (f : Bytes) (l : Nat) (m : Bytes) :
    failureMessage (locMsgFailure t f l m) = f ++ lit ":" ++ fmtInt (castInt l) ++ lit ": " ++ m ∧
    failureMessage (exitFailure t f l m) = f ++ lit ":" ++ fmtInt (castInt l) ++ lit ": " ++ m ∧
    failureMessage (locFailure t f l) = f ++ lit ":" ++ fmtInt (castInt l) ++ lit ": " ++ lit "no message" ∧
    failureMessage (msgFailure t m) = t.file ++ lit ":" ++ fmtInt (castInt t.line) ++ lit ": " ++ m := by
  simp [failureMessage, locMsgFailure_file, locMsgFailure_line, locMsgFailure_message, exitFailure_file, exitFailure_line,
    exitFailure_message, locFailure_file, locFailure_line, locFailure_message, msgFailure_file, msgFailure_line,
    msgFailure_message]

/-- What "first failure" means for a scripted test: the first failure its body reports (whichever
    constructor builds it), else the first one added by the plugin's post-test action. -/
theorem first_failure_cases (t : TestInfo) (f : Bytes) (l : Nat) (m : Bytes) (as : List Act) :
    firstFail t (.fail f l m :: as) = some (locMsgFailure t f l m) ∧
    firstFail t (.failExit f l m :: as) = some (exitFailure t f l m) ∧
    firstFail t (.failMsg m :: as) = some (msgFailure t m) ∧
    firstFail t (.failLoc f l :: as) = some (locFailure t f l) ∧
    firstFail t [.postFail m] = some (msgFailure t m) ∧
    firstFail t [] = none := by
  simp [firstFail, testBodyEvs, testInner, traceBefore, traceBetween, traceAfter, vv, bodyExits, actEvs, postEvs, evsFirst]

/-- An ignored test never has a failure, so its element shows the skipped marker. -/
theorem ignored_shows_marker (sc : Script) (c : Case) (h : caseKey c = scriptKey sc) (hi : sc.info.willRun = false) :
    c.failure = none ∧ c.skipped = true := by
  simp [caseKey, scriptKey, hi] at h
  exact ⟨h.2.2.2.2, h.2.2.2.1⟩

/-- One file per group: the reports of a run correspond one to one, in order, to the maximal runs of
    consecutive tests with the same group name (the groups of the default order), and each contains as
    many test cases as tests of that group ran. -/
theorem suites_follow_groups (package timeString : Bytes) (flt : Option Filter) (tests : List Script) :
    (reports package timeString (runAll flt tests)).map (fun r => r.2.cases.length) =
      (groupRuns tests).map (ranIn flt) := by
  have h := loop_groups flt tests true 0 {} { package := package, timeString := timeString } rfl (fun _ => rfl)
  have hadd : ∀ l : List Nat, addToHead 0 l = l := by intro l; cases l <;> simp [addToHead]
  simpa [reports, runAll, reportsFrom_cons, reportsOf, step, hadd] using h

/-- The collector never dereferences a missing node on a run of the registry. -/
theorem run_never_crashes (package timeString : Bytes) (flt : Option Filter) (tests : List Script) :
    (stFrom { package := package, timeString := timeString } (runAll flt tests)).crashed = false := by
  have h := (loop_keys flt tests true 0 {} { package := package, timeString := timeString } rfl (fun _ => rfl)).2
  simpa [runAll, stFrom_cons, step] using h

/-! ## the `time` attributes (`%d.%03d` of `ms / 1000`, `ms % 1000`) -/

/-- The `time` attribute of every test case element is the time the test took (the clock's advance while it
    ran; 0 for an ignored test), as whole seconds printed through `(int)` and a three-digit millisecond part —
    over all files of the run, in run order, for every registry, filter and package. -/
theorem case_times_are_test_times (package timeString : Bytes) (flt : Option Filter) (tests : List Script) :
    (reports package timeString (runAll flt tests)).flatMap (fun r => r.2.cases.map caseTime) =
      (tests.filter fun t => shouldRun flt t.info).map scriptTime := by
  have h := loop_proj caseTime nodeTime scriptTime caseTime_caseOf nodeTime_scriptNode flt tests true 0 {}
    { package := package, timeString := timeString } rfl (fun _ => rfl)
  simpa [reports, runAll, reportsFrom_cons, reportsOf, step] using h

/-- The `time` attribute of every suite element is the time of its group: the sum of the times of the tests of
    that group that were executed (filtered-out and ignored tests take none). -/
theorem suite_times_are_group_times (package timeString : Bytes) (flt : Option Filter) (tests : List Script) :
    (reports package timeString (runAll flt tests)).map (fun r => suiteTime r.2) =
      (groupRuns tests).map (fun run => timeOfMs (ticksIn flt run)) := by
  have h := loop_group_times flt tests true 0 {} { package := package, timeString := timeString } rfl (by intro h; cases h)
  have hadd : ∀ l : List Nat, addToHead 0 l = l := by intro l; cases l <;> simp [addToHead]
  simpa [reports, runAll, reportsFrom_cons, reportsOf, step, hadd, List.map_map, Function.comp_def] using h

/-- below 2^31 seconds the printed seconds are the true seconds (above, the `(int)` cast wraps: `castInt`) -/
theorem time_is_exact_below_wrap (ms : Nat) (h : ms / 1000 < 2147483648) :
    timeOfMs ms = (((ms / 1000 : Nat) : Int), ms % 1000) ∧ ms % 1000 < 1000 := by
  refine ⟨?_, Nat.mod_lt _ (by decide)⟩
  simp only [timeOfMs, castInt_small _ h]

/-! ## the writer and collector functions as regenerated from the source (`Gen/JUnitTemplates.lean`) -/

/-- OBLIGATION over the regenerated statement lists of `writeXmlHeader`, `writeTestSuiteSummary`, `writeProperties`,
    `writeTestCases`, `writeFailure`, `writeFileEnding` and the regenerated order of the writer calls of
    `writeTestGroupToFile`: for EVERY collector state, what is written between `openFileForWrite` and
    `closeFile` is the rendering of the structured report — every literal of every format string, every
    conversion paired with its argument, every text field through `encodeXmlText`.  `document_shape` and
    everything after it rest on this. -/
theorem writer_templates_render_the_report (s : St) : fileBytes s = (suiteOf s).render := fileBytes_renders s

/-- … and one iteration of the loop of `writeTestCases` writes the rendering of one test case, whatever the
    running check-count offset. -/
theorem testcase_template_renders_the_case (s : St) (total : Nat) (n : Node) :
    testCase s total n = (caseOf s.package s.group total n).render := testCase_renders s total n

/-- all regenerated statement lists of the writer -/
def allTemplates : List (List Tpl.Item) :=
  [Gen.JUnitTemplates.xmlHeader, Gen.JUnitTemplates.suiteSummary, Gen.JUnitTemplates.properties, Gen.JUnitTemplates.caseOpen,
   Gen.JUnitTemplates.caseSkipped, Gen.JUnitTemplates.caseClose, Gen.JUnitTemplates.failureElem, Gen.JUnitTemplates.fileEnding]

/-- OBLIGATION (syntactic, on the regenerated lists): no writer prints a text field as it is — every `%s` of a
    name, path, message or captured text is an `encodeXmlText(..)`; the only raw `%s` is the platform's time string. -/
theorem every_text_field_is_encoded : allTemplates.all (fun t => t.all Tpl.Item.encodesText) = true := by decide

/-- OBLIGATION: the writer calls of `writeTestGroupToFile` come in document order. -/
theorem writer_calls_in_document_order :
    Gen.JUnitTemplates.groupFile = [.xmlHeader, .suiteSummary, .properties, .testCases, .fileEnding] := by decide

/-- OBLIGATION over the regenerated `resetTestGroupResult`: the counts, the group name and the node list are cleared
    and nothing else is (the captured output and the check-count offset survive: `captured_output_accumulates`). -/
theorem reset_clears_exactly (s : St) :
    reset s = { s with testCount := 0, failureCount := 0, group := [], nodesRev := [] } := reset_eq s

/-- OBLIGATION over the regenerated `printCurrentGroupEnded`: the group time is taken first, the file is written from
    the un-reset collector, the reset comes last. -/
theorem group_end_takes_time_writes_then_resets (s : St) (ms : Nat) :
    groupEnded s ms = (onGroupEnded s ms, [writeGroup { s with groupExecTime := ms }]) := groupEnded_eq s ms

example : (allTemplates.map List.length).sum > 40 := by decide

/-! ## file names -/

/-- Obligation over the regenerated tables: forbidden set, replacement and literal pieces are those
    of the specification (`/ \ ? % * : | " < >` → `_`, `cpputest_`, `_`, `.xml`). -/
theorem file_name_table_is_spec :
    (∀ c : UInt8, Gen.EscapeTables.fileNameForbidden.contains c = forbiddenInFileNames.contains c) ∧
    Gen.EscapeTables.fileNameReplacement = 95 ∧ Gen.EscapeTables.fileNamePrefix = lit "cpputest_" ∧
    Gen.EscapeTables.fileNamePackageSep = lit "_" ∧ Gen.EscapeTables.fileNameSuffix = lit ".xml" := file_name_tables

/-- The file name is `cpputest_[package_]group.xml` with every character illegal in file names
    replaced by `_`; no illegal character is left and legal characters are unchanged. -/
theorem file_name_sanitised (package group : Bytes) :
    createFileName package group = expectedFileName package group ∧
    (∀ c ∈ sanitize (lit "cpputest_" ++ (if package.isEmpty then [] else package ++ lit "_") ++ group),
        forbiddenInFileNames.contains c = false) :=
  ⟨createFileName_eq_expected package group, sanitize_clean _⟩

/-- every report of ANY event list carries the sanitised name of the group it was collected for -/
theorem report_file_names (package timeString : Bytes) (evs : List Ev) :
    ∀ r ∈ reports package timeString evs, ∃ pk, r.1 = expectedFileName pk r.2.name := by
  suffices h : ∀ (evs : List Ev) (s : St), ∀ r ∈ reportsFrom s evs, ∃ pk, r.1 = expectedFileName pk r.2.name from h evs _
  intro evs
  induction evs with
  | nil => intro s r hr; simp [reportsFrom_nil] at hr
  | cons e es ih =>
    intro s r hr
    rw [reportsFrom_cons, List.mem_append] at hr
    rcases hr with hr | hr
    · cases e <;> simp only [reportsOf, List.not_mem_nil] at hr
      case groupEnded ms =>
        split at hr
        · simp at hr
        · simp only [List.mem_singleton] at hr
          subst hr
          exact ⟨s.package, by simp [reportOf, suiteOf, createFileName_eq_expected]⟩
    · exact ih _ r hr

/-! ## three behaviours of the code that are not violations, stated exactly -/

/-- (1) Two groups get the same file name exactly when their names agree after the illegal characters
    are replaced (e.g. `a/b` and `a:b`); the writer then opens that name twice, in group order — what
    the file system makes of it (the later report replaces the earlier) is outside the code. -/
theorem same_file_name_iff (package g1 g2 : Bytes) :
    createFileName package g1 = createFileName package g2 ↔ sanitize g1 = sanitize g2 := by
  rw [createFileName_eq_expected, createFileName_eq_expected]
  exact expectedFileName_eq_iff package g1 g2

def collidingGroups : List Script :=
  [ { info := { group := lit "a/b", name := lit "t1", file := lit "f", line := 1, willRun := true }, acts := [] },
    { info := { group := lit "a:b", name := lit "t2", file := lit "f", line := 2, willRun := true }, acts := [] } ]

theorem colliding_groups_write_the_same_name_twice :
    (files [] (lit "T") (runAll none collidingGroups)).map (·.name) = [lit "cpputest_a_b.xml", lit "cpputest_a_b.xml"] := by
  decide

/-- (2) The captured output is never reset between groups (`stdOutput_` is only appended to): the
    `<system-out>` of the report written at a group end is EVERYTHING printed since the start of
    the run, for any event list on which the collector does not crash (every run of the registry:
    `run_never_crashes`).  This is why the oracle accepts the accumulated text. -/
theorem captured_output_accumulates (package timeString : Bytes) (pre : List Ev) (ms : Nat)
    (h : (stFrom { package := package, timeString := timeString } pre).crashed = false) :
    ∃ r, reports package timeString (pre ++ [.groupEnded ms]) = reports package timeString pre ++ [r] ∧
      r.2.stdout = evsPrinted pre := by
  refine ⟨reportOf { stFrom { package := package, timeString := timeString } pre with groupExecTime := ms }, ?_, ?_⟩
  · simp [reports, reportsFrom_append, reportsFrom_cons, reportsFrom_nil, reportsOf, h]
  · have := stdOutput_after pre { package := package, timeString := timeString } h
    simpa [reportOf, suiteOf] using this

/-- … in particular on every prefix of a run of the registry -/
theorem run_prefix_never_crashes (package timeString : Bytes) (flt : Option Filter) (tests : List Script)
    (pre post : List Ev) (h : runAll flt tests = pre ++ post) :
    (stFrom { package := package, timeString := timeString } pre).crashed = false :=
  not_crashed_prefix pre post _ (by rw [← h]; exact run_never_crashes package timeString flt tests)

/-- (3) A group none of whose tests runs (all filtered out) still gets a report: since no test
    started, the collector never learnt the group's name — the suite is called "", counts 0 tests
    and the file is `cpputest_[package_].xml`. -/
theorem group_without_running_tests (package timeString : Bytes) (flt : Option Filter) (t : Script)
    (h : shouldRun flt t.info = false) :
    reports package timeString (runAll flt [t]) =
      [(expectedFileName package [],
        { failures := 0, name := [], tests := 0, secs := 0, millis := 0, timestamp := timeString, cases := [], stdout := [] })] := by
  have h0 : castInt 0 = 0 := by decide
  simp [reports, runAll, loop, startEvs, bodyEvs, endEvs, endOfGroup, h, reportsFrom_cons, reportsFrom_nil, reportsOf, step,
    reportOf, suiteOf, casesOf, createFileName_eq_expected, h0, bodyR, countFiltered, countTest]

/-! ## repeated runs (`-r<n>`) on one `JUnitTestOutput` -/

/-- (4) Every repetition writes the same report files again, in the same order — the names depend only on
    package, groups and filter, not on what the previous repetition left in the collector.  (The code opens
    them with mode "w", so on a file system each repetition replaces the reports of the one before;
    the harness checks the mode.) -/
theorem repeated_runs_rewrite_each_report (package timeString : Bytes) (n : Nat) (flt : Option Filter) (tests : List Script) :
    (files package timeString (runRepeated n flt tests)).map (·.name) =
      (List.range n).flatMap (fun _ => loopNames flt package [] tests) := by
  have h := (repetitions_state flt tests n n { package := package, timeString := timeString } ⟨rfl, rfl, rfl⟩).1
  rw [document_shape, List.map_map]
  exact h

/-- … and in every repetition there is one test case element per test that runs, in run order, with
    the same name, file, line, skipped marker and first failure. -/
theorem one_testcase_per_test_in_order_repeated (package timeString : Bytes) (n : Nat) (flt : Option Filter)
    (tests : List Script) :
    (reports package timeString (runRepeated n flt tests)).flatMap reportKeys =
      (List.range n).flatMap (fun _ => (tests.filter fun t => shouldRun flt t.info).map scriptKey) :=
  (repetitions_state flt tests n n { package := package, timeString := timeString } ⟨rfl, rfl, rfl⟩).2.1

/-- What IS carried from one repetition into the next: the captured output (`captured_output_accumulates`
    holds for any event list; the runner's own "Test run i of n" line reaches it without its numbers, because
    `print(size_t)` does nothing on this output) and the check-count offset `totalCheckCount_`, which is
    why the `assertions` attribute of a later repetition can be negative. -/
theorem test_run_line_without_numbers (n : Nat) (hn : n > 1) : testRunText n = lit "Test run  of \n" := by
  simp [testRunText, hn]; decide

/-! ## reading a whole report back -/

/-- The specification's own report reader (tokenizer + layout reader of `Spec/JUnit.lean`) accepts
    the rendering of ANY well-formed structured report — attribute values and text arbitrary byte
    strings, so in particular everything over `& < > " '` and line breaks — and returns exactly the
    `Suite`/`Case`s it was rendered from.  Well-formed: millisecond parts below 1000, no case that is
    both failed and marked skipped (only one of the two is rendered), a time string that needs no
    encoding. -/
theorem report_reader_roundtrip (su : Suite) (hwf : suiteWf su) (hts : plain su.timestamp) :
    parseReport su.render = .ok su := parseReport_render su hwf hts

theorem casesOf_millis (p g : Bytes) : ∀ (ns : List Node) (t : Nat), ∀ c ∈ casesOf p g t ns, c.millis < 1000
  | [], _, c, hc => by simp [casesOf] at hc
  | n :: rest, t, c, hc => by
    simp only [casesOf, List.mem_cons] at hc
    rcases hc with h | h
    · subst h; simp only [caseOf]; exact Nat.mod_lt _ (by decide)
    · exact casesOf_millis p g rest _ c h

theorem reports_are_reportOf : ∀ (evs : List Ev) (s : St), ∀ r ∈ reportsFrom s evs, ∃ s', r = reportOf s'
  | [], s, r, hr => by simp [reportsFrom_nil] at hr
  | e :: es, s, r, hr => by
    rw [reportsFrom_cons, List.mem_append] at hr
    rcases hr with hr | hr
    · cases e <;> simp only [reportsOf, List.not_mem_nil] at hr
      case groupEnded ms =>
        split at hr
        · simp at hr
        · exact ⟨_, List.mem_singleton.mp hr⟩
    · exact reports_are_reportOf es _ r hr

/-- the time string of every report is the one the collector was created with -/
theorem reports_timestamp : ∀ (evs : List Ev) (s : St), ∀ r ∈ reportsFrom s evs, r.2.timestamp = s.timeString := by
  intro evs
  induction evs with
  | nil => intro s r hr; simp [reportsFrom_nil] at hr
  | cons e es ih =>
    intro s r hr
    rw [reportsFrom_cons, List.mem_append] at hr
    rcases hr with hr | hr
    · cases e <;> simp only [reportsOf, List.not_mem_nil] at hr
      case groupEnded ms =>
        split at hr
        · simp at hr
        · rw [List.mem_singleton.mp hr]; rfl
    · have := ih _ r hr
      rw [this]
      unfold step
      split
      · rfl
      · cases e <;> simp [onTestStarted, onFailure, onTestEnded, onGroupEnded, reset_eq] <;>
          (first | rfl | (split <;> (first | rfl | (split <;> rfl))))

/-- Whenever the test case elements of the reports of an event list are those of scripted tests (same keys),
    the reader accepts every report and returns it. -/
theorem roundtrip_of_keys (package timeString : Bytes) (evs : List Ev) (scs : List Script) (hts : plain timeString)
    (hkeys : (reports package timeString evs).flatMap reportKeys = scs.map scriptKey) :
    ∀ r ∈ reports package timeString evs, parseReport r.2.render = .ok r.2 := by
  intro r hr
  obtain ⟨s', hs'⟩ := reports_are_reportOf _ _ r hr
  have htsr : r.2.timestamp = timeString := reports_timestamp _ _ r hr
  apply parseReport_render
  · refine ⟨?_, ?_⟩
    · rw [hs']; simp only [reportOf, suiteOf]; exact Nat.mod_lt _ (by decide)
    · intro c hc
      refine ⟨?_, ?_⟩
      · rw [hs'] at hc; exact casesOf_millis _ _ _ _ c hc
      · intro hf
        have hk : caseKey c ∈ (reports package timeString evs).flatMap reportKeys :=
          List.mem_flatMap.mpr ⟨r, hr, List.mem_map.mpr ⟨c, hc, rfl⟩⟩
        rw [hkeys] at hk
        obtain ⟨sc, _, hsc⟩ := List.mem_map.mp hk
        simp only [scriptKey, caseKey, Prod.mk.injEq] at hsc
        cases hw : sc.info.willRun
        · rw [hw] at hsc; rw [← hsc.2.2.2.2] at hf; simp at hf
        · rw [hw] at hsc; rw [← hsc.2.2.2.1]; rfl
  · rw [htsr]; exact hts

/-- The statement formerly left open, now proved: on every run of the registry the reader accepts
    every report and returns it. -/
def report_reader_roundtrip_full : Prop :=
  ∀ (package timeString : Bytes) (flt : Option Filter) (tests : List Script),
    plain timeString →
    ∀ r ∈ reports package timeString (runAll flt tests), parseReport r.2.render = .ok r.2

theorem report_reader_roundtrip_on_runs : report_reader_roundtrip_full := by
  intro package timeString flt tests hts
  exact roundtrip_of_keys package timeString _ _ hts (one_testcase_per_test_in_order package timeString flt tests)

/-- … and on every REPEATED run (`-r<n>` on one output object: the state the collector carries from one repetition
    into the next — captured output, check-count offset — never makes a report unreadable). -/
theorem report_reader_roundtrip_on_repeated_runs (package timeString : Bytes) (n : Nat) (flt : Option Filter)
    (tests : List Script) (hts : plain timeString) :
    ∀ r ∈ reports package timeString (runRepeated n flt tests), parseReport r.2.render = .ok r.2 := by
  apply roundtrip_of_keys package timeString _
    ((List.range n).flatMap fun _ => tests.filter fun t => shouldRun flt t.info) hts
  rw [one_testcase_per_test_in_order_repeated, List.map_flatMap]

theorem map_parse_of_roundtrip (rs : List (Bytes × Suite)) (hr : ∀ r ∈ rs, parseReport r.2.render = .ok r.2) :
    (rs.map fun r => ({ name := r.1, bytes := r.2.render } : File)).map (fun f => parseReport f.bytes) =
      rs.map (fun r => (Except.ok r.2 : Except String Suite)) := by
  induction rs with
  | nil => rfl
  | cons r rs ih =>
    simp only [List.map_cons]
    rw [hr r (List.mem_cons_self ..), ih (fun x hx => hr x (List.mem_cons_of_mem _ hx))]

/-- Whole repeated run, on the bytes: every file of every repetition is accepted by the reader, which returns the
    structured report it was written from. -/
theorem files_are_read_back_repeated (package timeString : Bytes) (n : Nat) (flt : Option Filter) (tests : List Script)
    (hts : plain timeString) :
    (files package timeString (runRepeated n flt tests)).map (fun f => parseReport f.bytes) =
      (reports package timeString (runRepeated n flt tests)).map (fun r => (Except.ok r.2 : Except String Suite)) := by
  rw [document_shape]
  exact map_parse_of_roundtrip _ (report_reader_roundtrip_on_repeated_runs package timeString n flt tests hts)

/-- Corollary on the bytes: every file of a run is accepted by the reader, which returns the
    structured report the file was written from (`document_shape` + the reader = the original fields). -/
theorem files_are_read_back (package timeString : Bytes) (flt : Option Filter) (tests : List Script)
    (hts : plain timeString) :
    (files package timeString (runAll flt tests)).map (fun f => parseReport f.bytes) =
      (reports package timeString (runAll flt tests)).map (fun r => (Except.ok r.2 : Except String Suite)) := by
  have h := document_shape package timeString (runAll flt tests)
  have hr := report_reader_roundtrip_on_runs package timeString flt tests hts
  generalize files package timeString (runAll flt tests) = fs at h
  generalize reports package timeString (runAll flt tests) = rs at h hr
  subst h
  induction rs with
  | nil => rfl
  | cons r rs ih =>
    simp only [List.map_cons]
    rw [hr r (List.mem_cons_self ..), ih (fun x hx => hr x (List.mem_cons_of_mem _ hx))]

/-- the template and per-field part, kept from the earlier round -/
theorem report_reader_roundtrip_partial (package timeString : Bytes) (evs : List Ev) :
    (files package timeString evs = (reports package timeString evs).map fun r => { name := r.1, bytes := r.2.render }) ∧
    (∀ v rest : Bytes, attrAndTextSafe (encodeRef v) = true ∧
      scanAttr none (encodeRef v ++ 34 :: rest) [] = some (v, rest) ∧
      scanText none (encodeRef v ++ 60 :: rest) [] = some (v, 60 :: rest)) := by
  refine ⟨document_shape package timeString evs, fun v rest => ⟨?_, (fields_roundtrip v rest).1, (fields_roundtrip v rest).2⟩⟩
  have := encoded_is_attr_and_text_safe v
  rwa [encodeXmlText_eq_ref] at this

/-! ## non-vacuity -/

/-- two groups; a test failing twice (the first failure is kept), an ignored test, a test
    that prints and gets a failure without location from a plugin; names with every character that has XML meaning -/
def demo : List Script :=
  [ { info := { group := lit "gr\"p<1>", name := lit "na&me", file := lit "dir/a\"b.cpp", line := 10, willRun := true },
      acts := [.checks 2, .tick 1234, .fail (lit "o<t>.cpp") 3 (lit "x\ny & \"z\""), .failExit (lit "dir/a\"b.cpp") 12 (lit "second")] },
    { info := { group := lit "gr\"p<1>", name := lit "ign", file := lit "dir/a\"b.cpp", line := 20, willRun := false }, acts := [] },
    { info := { group := lit "G2", name := lit "ok", file := lit "f.cpp", line := 1, willRun := true },
      acts := [.print (lit "f.cpp") 2 (lit "<hello> & \r\n"), .postFail (lit "leak <1>")] } ]

example : (files (lit "p/k") (lit "T") (runAll none demo)).map (·.name) =
    [lit "cpputest_p_k_gr_p_1_.xml", lit "cpputest_p_k_G2.xml"] := by decide

example : ((reports (lit "p/k") (lit "T") (runAll none demo)).map fun r => (r.2.tests, r.2.failures, r.2.cases.length)) =
    [(2, 1, 2), (1, 1, 1)] := by decide

example : scanAttr none (encodeXmlText (lit "a\"b<c>&d\n") ++ 34 :: lit " next") [] = some (lit "a\"b<c>&d\n", lit " next") := by
  decide

example : (groupRuns demo).map List.length = [2, 1] := by decide

example : (demo.map scriptTime) = [(1, 234), (0, 0), (0, 0)] := by decide
example : (groupRuns demo).map (fun run => timeOfMs (ticksIn none run)) = [(1, 234), (0, 0)] := by decide
example : timeOfMs 2147483648000 = (-2147483648, 0) := by decide
example : (files (lit "p") (lit "T") (runRepeated 2 none demo)).map (·.name) =
    [lit "cpputest_p_gr_p_1_.xml", lit "cpputest_p_G2.xml", lit "cpputest_p_gr_p_1_.xml", lit "cpputest_p_G2.xml"] := by decide

example : decodeXml (encodeXmlText (lit "a<b>&\"c\"\r\n&amp;")) = lit "a<b>&\"c\"\r\n&amp;" := by decide
example : encodeXmlText (lit "<&>") = lit "&lt;&amp;&gt;" := by decide

end JUnit
