import CppUModel.Proofs.Cache
import CppUModel.Proofs.CacheHeap
/-!
# C18 — the string buffer cache never aliases live buffers and gives everything back

Property theorems only.  Model: `CppUModel/Model/Cache.lean` (from
`src/CppUTest/SimpleStringInternalCache.cpp`); vocabulary: `CppUModel/Spec/Cache.lean`.
Ids stand for blocks of the underlying allocator; distinct live ids are disjoint memory
(the platform allocator's contract, which the environment hypothesis `Fresh` states).
-/
namespace Cache
open ListLemmas

/-- One step neither forgets nor invents an underlying allocation:
    held-after + returned-to-allocator = held-before + obtained-from-allocator (as multisets). -/
theorem conservation (s : State) (op : Op) :
    ((step s op).1.liveIds ++ freed (step s op).2).Perm (s.liveIds ++ allocd (step s op).2) :=
  step_conservation s op

/-- The same for every history, of any length. -/
theorem run_conservation : ∀ (ops : List Op) (s : State),
    ((run s ops).1.liveIds ++ freed (run s ops).2).Perm (s.liveIds ++ allocd (run s ops).2)
  | [], s => by simp [run, freed, allocd]
  | op :: ops, s => by
    have h1 := step_conservation s op
    have h2 := run_conservation ops (step s op).1
    simp only [run, freed_append, allocd_append]
    apply perm_of_count; intro x
    have := h1.count_eq x; have := h2.count_eq x
    simp [List.count_append] at *; omega

theorem allocd_of_not_alloc (s : State) (op : Op) (h : ∀ a b c, op ≠ .alloc a b c) :
    allocd (step s op).2 = [] := by
  cases op with
  | alloc a b c => exact absurd rfl (h a b c)
  | dealloc m sz =>
    simp only [step, dealloc]
    split
    · split
      · simp [allocd]
      · simp only [deallocCached]; split
        · simp [allocd]
        · simp only [warnOnce]; split <;> simp [allocd]
    · simp only [deallocUncached]; split
      · simp [allocd, destroyBlock]
      · simp only [warnOnce]; split <;> simp [allocd]
  | clearCache =>
    simp only [step, clearCache]
    induction s.classes with
    | nil => simp [allocd]
    | cons c cs ih => simp [List.flatMap_cons, allocd_append, ih, destroyList_allocd]
  | clearAll =>
    simp only [step, clearAll, allocd_append, destroyList_allocd, List.append_nil]
    induction s.classes with
    | nil => simp [allocd]
    | cons c cs ih => simp [List.flatMap_cons, allocd_append, ih, destroyList_allocd]

theorem alloc_allocd_sub (s : State) (sz n m : Nat) :
    ∀ i ∈ allocd (alloc s sz n m).2, i = n ∨ i = m := by
  unfold alloc
  split
  · split
    · simp [allocd]
    · unfold allocCached; split <;> simp [allocd, createEvs]
  · simp [allocd, createEvs]

theorem alloc_allocd_nodup (s : State) (sz n m : Nat) (h : n ≠ m) :
    (allocd (alloc s sz n m).2).Nodup := by
  unfold alloc
  split
  · split
    · simp [allocd]
    · unfold allocCached; split <;> simp [allocd, createEvs, h]
  · simp [allocd, createEvs, h]

/-- No underlying allocation is ever referenced twice (so no buffer is in two lists, or twice
    in one list, and list nodes are not shared), in every reachable state. -/
theorem nodup_step (s : State) (op : Op) (hinv : s.liveIds.Nodup) (hf : Fresh s op) :
    (step s op).1.liveIds.Nodup := by
  have hc := step_conservation s op
  have hn : (s.liveIds ++ allocd (step s op).2).Nodup := by
    cases op with
    | alloc sz n m =>
      obtain ⟨h1, h2, h3⟩ := hf
      rw [List.nodup_append]
      refine ⟨hinv, alloc_allocd_nodup s sz n m h3, ?_⟩
      intro a ha b hb hab; subst hab
      rcases alloc_allocd_sub s sz n m a hb with rfl | rfl
      · exact h1 ha
      · exact h2 ha
    | dealloc m sz => rw [allocd_of_not_alloc s _ (by intros; simp)]; simpa using hinv
    | clearCache => rw [allocd_of_not_alloc s _ (by intros; simp)]; simpa using hinv
    | clearAll => rw [allocd_of_not_alloc s _ (by intros; simp)]; simpa using hinv
  have := (hc.nodup_iff).mpr hn
  exact (List.nodup_append.mp this).1

/-- The cache only returns to the underlying allocator blocks it holds, each at most once per
    operation: no double free and no foreign free. -/
theorem frees_only_live_once (s : State) (op : Op) (hinv : s.liveIds.Nodup) :
    (freed (step s op).2).Nodup ∧ ∀ i ∈ freed (step s op).2, i ∈ s.liveIds := by
  cases op with
  | alloc sz n m =>
    have : freed (step s (.alloc sz n m)).2 = [] := by
      simp only [step, alloc]
      split
      · split
        · simp [freed]
        · unfold allocCached; split <;> simp [freed, createEvs]
      · simp [freed, createEvs]
    rw [this]; simp
  | dealloc m sz =>
    have hc := step_conservation s (.dealloc m sz)
    rw [allocd_of_not_alloc s _ (by intros; simp)] at hc
    simp only [List.append_nil] at hc
    have hn := (hc.nodup_iff).mpr hinv
    exact ⟨(List.nodup_append.mp hn).2.1, fun i hi => hc.subset (List.mem_append_right _ hi)⟩
  | clearCache =>
    have hc := step_conservation s .clearCache
    rw [allocd_of_not_alloc s _ (by intros; simp)] at hc
    simp only [List.append_nil] at hc
    have hn := (hc.nodup_iff).mpr hinv
    exact ⟨(List.nodup_append.mp hn).2.1, fun i hi => hc.subset (List.mem_append_right _ hi)⟩
  | clearAll =>
    have hc := step_conservation s .clearAll
    rw [allocd_of_not_alloc s _ (by intros; simp)] at hc
    simp only [List.append_nil] at hc
    have hn := (hc.nodup_iff).mpr hinv
    exact ⟨(List.nodup_append.mp hn).2.1, fun i hi => hc.subset (List.mem_append_right _ hi)⟩

/-- After `clearAllIncludingCurrentlyUsedMemory` the cache holds nothing but its node table:
    together with `conservation`/`frees_only_live_once`, everything obtained was returned
    exactly once. -/
theorem clearAll_returns_everything (s : State) :
    (clearAll s).1.liveIds = s.table.toList := by
  simp only [clearAll, State.liveIds, State.blocks]
  induction s.classes with
  | nil => simp
  | cons c cs ih => simpa [Class.blocks] using ih

/-- `clearCache` empties exactly the free lists: buffers in use stay where they are. -/
theorem clearCache_keeps_used (s : State) :
    (clearCache s).1.usedMems = s.usedMems ∧ (clearCache s).1.freeMems = [] := by
  simp only [clearCache, State.usedMems, State.freeMems]
  constructor
  · congr 2
    induction s.classes with
    | nil => simp
    | cons c cs ih => simp [ih]
  · induction s.classes with
    | nil => simp
    | cons c cs ih => simp at ih ⊢


/-! ### what `alloc` hands out -/

theorem mem_usedMems_of_class (s : State) (i : Nat) (c : Class) (hc : s.classes[i]? = some c)
    (b : Block) (hb : b ∈ c.used) : b.mem ∈ s.usedMems := by
  simp only [State.usedMems, List.mem_map, List.mem_append, List.mem_flatMap]
  exact ⟨b, Or.inl ⟨c, List.mem_of_getElem? hc, hb⟩, rfl⟩

theorem usedMems_sub_liveIds (s : State) : ∀ x ∈ s.usedMems, x ∈ s.liveIds := by
  intro x hx
  simp only [State.usedMems, List.mem_map, List.mem_append, List.mem_flatMap] at hx
  obtain ⟨b, hb, rfl⟩ := hx
  simp only [State.liveIds, State.blocks, List.mem_append, List.mem_flatMap]
  right
  rcases hb with ⟨c, hc, hb⟩ | hb
  · exact ⟨b, Or.inl ⟨c, hc, by simp [Class.blocks, hb]⟩, by simp [Block.ids]⟩
  · exact ⟨b, Or.inr hb, by simp [Block.ids]⟩

theorem classIds_count (cs : List Class) (x : Nat) :
    (cs.flatMap Class.ids).count x =
      ((cs.flatMap (·.free)).flatMap Block.ids).count x +
      ((cs.flatMap (·.used)).flatMap Block.ids).count x := by
  induction cs with
  | nil => simp
  | cons c cs ih =>
    simp [List.flatMap_cons, List.count_append, Class.ids, Class.blocks, ih]; omega

/-- a buffer sitting in a free list is not in any used list (from `Nodup`) -/
theorem free_not_used (s : State) (hinv : s.liveIds.Nodup) (i : Nat) (c : Class)
    (hc : s.classes[i]? = some c) (b : Block) (rest : List Block) (hf : c.free = b :: rest) :
    b.mem ∉ s.usedMems := by
  intro hu
  have h1 : 1 ≤ ((s.classes.flatMap (·.free)).flatMap Block.ids).count b.mem := by
    apply List.count_pos_iff.mpr
    simp only [List.mem_flatMap]
    exact ⟨b, ⟨c, List.mem_of_getElem? hc, by simp [hf]⟩, by simp [Block.ids]⟩
  have h2 : 1 ≤ ((s.classes.flatMap (·.used)).flatMap Block.ids).count b.mem
      + (s.uncached.flatMap Block.ids).count b.mem := by
    simp only [State.usedMems, List.mem_map, List.mem_append] at hu
    obtain ⟨b', hb', hm⟩ := hu
    rcases hb' with hb' | hb'
    · have : 1 ≤ ((s.classes.flatMap (·.used)).flatMap Block.ids).count b.mem :=
        List.count_pos_iff.mpr (List.mem_flatMap.mpr ⟨b', hb', by simp [Block.ids, hm]⟩)
      omega
    · have : 1 ≤ (s.uncached.flatMap Block.ids).count b.mem :=
        List.count_pos_iff.mpr (List.mem_flatMap.mpr ⟨b', hb', by simp [Block.ids, hm]⟩)
      omega
  have h3 := List.nodup_iff_count.mp hinv b.mem
  rw [liveIds_eq] at h3
  simp only [List.count_append, classIds_count] at h3
  omega

/-- **No aliasing.** The buffer returned by `alloc` is not one that is currently handed out. -/
theorem alloc_not_in_use (s : State) (size n m : Nat) (hinv : s.liveIds.Nodup)
    (hf : Fresh s (.alloc size n m)) :
    ∀ r ∈ returned (alloc s size n m).2, r ∉ s.usedMems := by
  obtain ⟨_, hm, _⟩ := hf
  intro r hr
  unfold alloc at hr
  split at hr
  · split at hr
    · simp [returned] at hr
    · next c hc =>
      unfold allocCached at hr
      split at hr
      · next b rest hfr =>
        simp [returned] at hr; subst hr
        exact free_not_used s hinv _ c hc b rest hfr
      · simp [returned, createEvs] at hr; subst hr
        exact fun h => hm (usedMems_sub_liveIds s _ h)
  · simp [returned, createEvs] at hr; subst hr
    exact fun h => hm (usedMems_sub_liveIds s _ h)


/-! ### sizes and size classes -/

/-- `getIndexForCache` on the regenerated class table: a cached size lands in the least class
    that fits it. -/
theorem indexFor_fits (cs : List Class) (size : Nat)
    (hcs : cs.map (·.size) = Gen.Cache.classSizes) (hsz : isCached size = true) :
    ∃ c, cs[indexFor cs size]? = some c ∧ size ≤ c.size ∧
      ∀ j, j < indexFor cs size → ∀ d, cs[j]? = some d → d.size < size := by
  have hlim : Gen.Cache.classSizes.getLast? = some Gen.Cache.cachedLimit := by decide
  have hex : ∃ d ∈ cs, size ≤ d.size := by
    have : (cs.map (·.size)).getLast? = some Gen.Cache.cachedLimit := by rw [hcs]; exact hlim
    rw [List.getLast?_map] at this
    cases hl : cs.getLast? with
    | none => simp [hl] at this
    | some d =>
      simp [hl] at this
      refine ⟨d, List.mem_of_getLast? hl, ?_⟩
      simp [isCached] at hsz; omega
  unfold indexFor
  cases hfi : cs.findIdx? (fun c => decide (size ≤ c.size)) with
  | none =>
    rw [List.findIdx?_eq_none_iff] at hfi
    obtain ⟨d, hd, hle⟩ := hex
    have := hfi d hd; simp at this; omega
  | some i =>
    rw [List.findIdx?_eq_some_iff_getElem] at hfi
    obtain ⟨hi, hp, hlt⟩ := hfi
    refine ⟨cs[i], by simp [hi], by simpa using hp, ?_⟩
    intro j hj d hd
    simp only at hj
    have hjl : j < cs.length := by omega
    have := hlt j hj
    rw [List.getElem?_eq_getElem hjl] at hd
    cases hd; simpa using this

theorem sizesOk_set (s : State) (i : Nat) (c c' : Class) (hok : SizesOk s)
    (hc : s.classes[i]? = some c) (hsz : c'.size = c.size)
    (hb : ∀ b ∈ c'.blocks, b.msize = c.size) :
    SizesOk { s with classes := s.classes.set i c' } := by
  obtain ⟨h1, h2⟩ := hok
  have hi : i < s.classes.length := by
    rcases Nat.lt_or_ge i s.classes.length with h | h
    · exact h
    · rw [List.getElem?_eq_none h] at hc; cases hc
  have hci : s.classes[i] = c := by rw [List.getElem?_eq_getElem hi] at hc; exact Option.some.inj hc
  constructor
  · simp only [List.map_set, hsz]
    rw [← h1]
    apply List.ext_getElem?
    intro j
    simp only [List.getElem?_set, List.length_map]
    split
    · next hij => subst hij; simp [hi, hci]
    · rfl
  · intro d hd b hb'
    rcases List.mem_or_eq_of_mem_set hd with hd | rfl
    · exact h2 d hd b hb'
    · rw [hsz]; exact hb b hb'

/-- size bookkeeping is an invariant of every operation -/
theorem sizesOk_step (s : State) (op : Op) (hok : SizesOk s) : SizesOk (step s op).1 := by
  have hmem : ∀ {i c}, s.classes[i]? = some c → c ∈ s.classes := fun h => List.mem_of_getElem? h
  cases op with
  | alloc sz n m =>
    simp only [step, alloc]
    split
    · split
      · exact hok
      · next c hc =>
        unfold allocCached
        split
        · next b rest hf =>
          refine sizesOk_set s _ c _ hok hc rfl ?_
          intro x hx
          apply hok.2 c (hmem hc) x
          simp only [Class.blocks, hf, List.mem_append, List.mem_cons] at hx ⊢
          rcases hx with hx | rfl | hx
          · exact Or.inl (Or.inr hx)
          · exact Or.inl (Or.inl rfl)
          · exact Or.inr hx
        · next hf =>
          refine sizesOk_set s _ c _ hok hc rfl ?_
          intro x hx
          simp [Class.blocks, hf] at hx
          rcases hx with rfl | hx
          · rfl
          · exact hok.2 c (hmem hc) x (by simp [Class.blocks, hx])
    · exact ⟨hok.1, hok.2⟩
  | dealloc m sz =>
    simp only [step, dealloc]
    split
    · split
      · exact hok
      · next c hc =>
        unfold deallocCached
        split
        · next b used' hu =>
          have ⟨_, hp⟩ := unlink_perm _ _ _ _ hu
          refine sizesOk_set s _ c _ hok hc rfl ?_
          intro x hx
          apply hok.2 c (hmem hc) x
          simp only [Class.blocks, List.mem_append, List.mem_cons] at hx ⊢
          rcases hx with (rfl | hx) | hx
          · exact Or.inr (hp.symm.subset (by simp))
          · exact Or.inl hx
          · exact Or.inr (hp.symm.subset (by simp [hx]))
        · unfold warnOnce; split <;> exact ⟨hok.1, hok.2⟩
    · unfold deallocUncached
      split
      · exact ⟨hok.1, hok.2⟩
      · unfold warnOnce; split <;> exact ⟨hok.1, hok.2⟩
  | clearCache =>
    simp only [step, clearCache]
    constructor
    · simp only [List.map_map]; rw [← hok.1]; rfl
    · intro c hc b hb
      simp only [List.mem_map] at hc
      obtain ⟨d, hd, rfl⟩ := hc
      exact hok.2 d hd b (by simp [Class.blocks] at hb ⊢; exact Or.inr hb)
  | clearAll =>
    simp only [step, clearAll]
    constructor
    · simp only [List.map_map]; rw [← hok.1]; rfl
    · intro c hc b hb
      simp only [List.mem_map] at hc
      obtain ⟨d, hd, rfl⟩ := hc
      simp [Class.blocks] at hb

/-- `Inv` holds in every reachable state (induction over the history). -/
theorem inv_step (s : State) (op : Op) (hinv : Inv s) (hf : Fresh s op) : Inv (step s op).1 :=
  ⟨nodup_step s op hinv.1 hf, sizesOk_step s op hinv.2⟩

theorem inv_run : ∀ (ops : List Op) (s : State), Inv s → FreshAll s ops → Inv (run s ops).1
  | [], _, h, _ => h
  | op :: ops, s, h, hf => by
    simp only [run]
    exact inv_run ops _ (inv_step s op h hf.1) hf.2

theorem inv_create (t : Nat) : Inv (create t).1 := by
  constructor
  · simp [create, State.liveIds, State.blocks, Class.blocks, Gen.Cache.classSizes]
  · constructor
    · simp [create, List.map_map]; rfl
    · intro c hc b hb
      simp [create] at hc
      obtain ⟨_, _, rfl⟩ := hc
      simp [Class.blocks] at hb

/-- **Big enough, own class only.** Whatever `alloc(size)` returns is a buffer that was obtained
    from the underlying allocator with at least `size` bytes; for a cached size it is a buffer of
    exactly the size of the least class that fits — whether fresh or reused. -/
theorem alloc_size_ge (s : State) (size n m : Nat) (hok : SizesOk s) :
    ∃ b, (alloc s size n m).2.getLast? = some (.ret b.mem) ∧
      b.mem ∈ (alloc s size n m).1.usedMems ∧ size ≤ b.msize ∧
      (isCached size = true →
        ∃ c, s.classes[indexFor s.classes size]? = some c ∧ b.msize = c.size ∧
          b ∈ ((alloc s size n m).1.classes[indexFor s.classes size]?.map (·.used)).getD []) := by
  unfold alloc
  split
  · next hcached =>
    obtain ⟨c, hc, hle, _⟩ := indexFor_fits s.classes size hok.1 hcached
    rw [hc]
    have hi : indexFor s.classes size < s.classes.length := by
      rcases Nat.lt_or_ge (indexFor s.classes size) s.classes.length with h | h
      · exact h
      · rw [List.getElem?_eq_none h] at hc; cases hc
    simp only
    unfold allocCached
    split
    · next b rest hf =>
      have hbs : b.msize = c.size := hok.2 c (List.mem_of_getElem? hc) b (by simp [Class.blocks, hf])
      refine ⟨b, by simp, ?_, by omega, fun _ => ⟨c, rfl, hbs, by simp [hi]⟩⟩
      exact mem_usedMems_of_class _ (indexFor s.classes size) _ (by simp [hi]; rfl) b (by simp)
    · refine ⟨⟨n, m, c.size⟩, by simp [createEvs], ?_, hle, fun _ => ⟨c, rfl, rfl, by simp [hi]⟩⟩
      exact mem_usedMems_of_class _ (indexFor s.classes size) _ (by simp [hi]; rfl) ⟨n, m, c.size⟩ (by simp)
  · next hnc =>
    refine ⟨⟨n, m, size⟩, by simp [createEvs], ?_, Nat.le_refl _, fun h => absurd h hnc⟩
    simp [State.usedMems]

/-! ### releasing something the cache does not know -/

/-- Releasing a buffer that is not handed out (for its size class / the uncached list) changes
    nothing except that the warning is printed the first time. No crash, no list surgery. -/
theorem unknown_release (s : State) (m size : Nat)
    (hunk : if isCached size then
              ∀ c, s.classes[indexFor s.classes size]? = some c → ∀ b ∈ c.used, b.mem ≠ m
            else ∀ b ∈ s.uncached, b.mem ≠ m)
    (hcls : isCached size = true → ∃ c, s.classes[indexFor s.classes size]? = some c) :
    dealloc s m size = warnOnce s := by
  unfold dealloc
  split
  · next hc =>
    simp only [hc, if_true] at hunk
    obtain ⟨c, hcc⟩ := hcls hc
    rw [hcc]; simp only
    unfold deallocCached
    cases hu : unlink c.used m with
    | none => rfl
    | some p =>
      obtain ⟨b, r⟩ := p
      have ⟨h1, h2⟩ := unlink_perm _ _ _ _ hu
      exact absurd h1 (hunk c hcc b (h2.symm.subset (by simp)))
  · next hc =>
    simp only [hc] at hunk
    unfold deallocUncached
    cases hu : unlink s.uncached m with
    | none => rfl
    | some p =>
      obtain ⟨b, r⟩ := p
      have ⟨h1, h2⟩ := unlink_perm _ _ _ _ hu
      exact absurd h1 (hunk b (h2.symm.subset (by simp)))

theorem warnOnce_spec (s : State) :
    (warnOnce s).1 = { s with warned := true } ∧
    (warnOnce s).2 = (if s.warned then [] else [.warn]) := by
  unfold warnOnce; split
  · next h => cases s; simp_all
  · simp_all

/-- A known buffer released with any size of the same class behaves identically. -/
theorem wrong_size_same_class (s : State) (m size size' : Nat)
    (h1 : isCached size = true) (h2 : isCached size' = true)
    (hi : indexFor s.classes size = indexFor s.classes size') :
    dealloc s m size = dealloc s m size' := by
  simp [dealloc, h1, h2, hi]

/-- A release of a handed-out buffer puts exactly that buffer back: it leaves the used lists and
    nothing else does. -/
theorem release_removes_exactly (c : Class) (m : Nat) (b : Block)
    (used' : List Block) (hu : unlink c.used m = some (b, used')) :
    b.mem = m ∧ c.used.Perm (b :: used') := unlink_perm _ _ _ _ hu

/-! ### whole histories -/

/-- Any history from construction that ends with `clearAll`: every block obtained from the
    underlying allocator (other than the node table, which the destructor returns) has been given
    back — and by `frees_only_live_once` none twice. -/
theorem history_then_clearAll (t : Nat) (ops : List Op) :
    let r := run (create t).1 (ops ++ [.clearAll])
    (freed r.2 ++ [t]).Perm (t :: allocd r.2) ∧ r.1.liveIds = [t] := by
  have hlive : ∀ (ops : List Op) (s : State), s.table = some t →
      (run s (ops ++ [.clearAll])).1.liveIds = [t] := by
    intro ops
    induction ops with
    | nil => intro s hs; simp [run, step, clearAll_returns_everything, hs]
    | cons op ops ih =>
      intro s hs
      simp only [List.cons_append, run]
      apply ih
      cases op with
      | alloc sz n m =>
        simp only [step, alloc]; split
        · split
          · exact hs
          · unfold allocCached; split <;> exact hs
        · exact hs
      | dealloc m sz =>
        simp only [step, dealloc]; split
        · split
          · exact hs
          · unfold deallocCached; split
            · exact hs
            · unfold warnOnce; split <;> exact hs
        · unfold deallocUncached; split
          · exact hs
          · unfold warnOnce; split <;> exact hs
      | clearCache => exact hs
      | clearAll => exact hs
  have h2 := hlive ops (create t).1 rfl
  refine ⟨?_, h2⟩
  have hc := run_conservation (ops ++ [.clearAll]) (create t).1
  rw [h2] at hc
  have : (create t).1.liveIds = [t] := by simp [create, State.liveIds, State.blocks, Class.blocks, Gen.Cache.classSizes]
  rw [this] at hc
  apply perm_of_count; intro x
  have := hc.count_eq x
  simp [List.count_append, List.count_cons] at this ⊢; omega

/-! ### destruction of the global cache -/

theorem clearAll_blocks (s : State) : (clearAll s).1.blocks = [] := by
  simp only [clearAll, State.blocks]
  induction s.classes with
  | nil => simp
  | cons c cs ih => simp [Class.blocks] at ih ⊢

theorem destroy_liveIds (s : State) : (destroy s).1.liveIds = s.blocks.flatMap Block.ids := by
  unfold destroy
  cases h : s.table <;> simp [State.liveIds, State.blocks, h]

/-- **Destroyed ⇒ everything returned.** Whatever state the global string cache is in (buffers still
    handed out, buffers in free lists, uncached buffers), after `~GlobalSimpleStringCache()` it holds
    no underlying allocation at all.  Depends on the regenerated fact that the destructor calls
    `clearAllIncludingCurrentlyUsedMemory` (a destructor that only calls `clearCache` breaks this
    obligation). -/
theorem globalDestroy_returns_everything (s : State) : (globalDestroy s).1.liveIds = [] := by
  have hall : Gen.Cache.globalDtorClearsAll = true := by decide
  unfold globalDestroy
  simp only [hall, if_true]
  rw [destroy_liveIds, clearAll_blocks]; rfl

/-- and what it gives back is exactly what it held (nothing twice, nothing foreign) -/
theorem globalDestroy_conservation (s : State) :
    (freed (globalDestroy s).2).Perm s.liveIds := by
  have hall : Gen.Cache.globalDtorClearsAll = true := by decide
  unfold globalDestroy
  simp only [hall, if_true]
  have hc := clearAll_conservation s
  have h1 := clearAll_returns_everything s
  have ha : allocd (clearAll s).2 = [] := allocd_of_not_alloc s .clearAll (by intros; simp)
  rw [h1, ha] at hc
  simp only [List.append_nil] at hc
  have htab : (clearAll s).1.table = s.table := rfl
  unfold destroy
  cases ht : s.table with
  | none =>
    rw [htab, ht]; simp only [List.append_nil]
    rw [ht] at hc; simpa using hc
  | some t =>
    rw [htab, ht]; simp only
    rw [ht] at hc
    rw [freed_append]
    apply perm_of_count; intro x
    have := hc.count_eq x
    simp [List.count_append, List.count_cons, freed] at this ⊢; omega

/-! ### non-vacuity: the hypotheses are met by concrete, non-trivial states -/

/-- a state reached by a real history: two buffers of class 32 (one released), one uncached -/
def sample : State :=
  (run (create 1).1 [.alloc 10 2 3, .alloc 20 4 5, .alloc 300 6 7, .dealloc 3 10]).1

example : Inv sample ∧ sample.usedMems = [5, 7] ∧ sample.freeMems = [3] := by
  refine ⟨inv_run _ _ (inv_create 1) (by simp [FreshAll, Fresh]; decide), by decide, by decide⟩

example : Fresh sample (.alloc 10 8 9) := by simp [Fresh]; decide
example : returned (alloc sample 10 8 9).2 = [3] := by decide   -- reuse from the free list
example : returned (alloc sample 40 8 9).2 = [9] := by decide   -- other class: fresh buffer


/-! ## Growth round: global object, strings, whole histories -/

/-! ### the global cache object, its allocator adaptor, strings -/

/-- `~GlobalSimpleStringCache()` re-installs the allocator that was current at construction, whatever
    has been installed in between. -/
theorem gdestroy_restores_saved (cur a : AllocRef) (t : Nat) :
    (gdestroy (gswap (gcreate cur t) a)).1 = cur := rfl

/-- while the global cache exists, strings go through its adaptor; the blocks come from (and go back to)
    the allocator that was current at construction, also after somebody installed another one -/
theorem gcreate_installs (cur : AllocRef) (t : Nat) (a : AllocRef) :
    (gcreate cur t).strAlloc = .cache ∧ (gcreate cur t).underlying = cur ∧
      (gswap (gcreate cur t) a).underlying = cur := ⟨rfl, rfl, rfl⟩

/-- destruction of the global cache object in any state returns everything -/
theorem gdestroy_returns_everything (g : GState) : (gdestroy g).2.1.liveIds = [] :=
  globalDestroy_returns_everything g.cache

/-- the adaptor's `name()` is the regenerated literal; the other two names are the saved allocator's -/
theorem adaptorNames_spec (a f : String) : adaptorNames a f = [Gen.Cache.adaptorName, a, f] := rfl

theorem run_append (s : State) (a b : List Op) :
    run s (a ++ b) = ((run (run s a).1 b).1, (run s a).2 ++ (run (run s a).1 b).2) := by
  induction a generalizing s with
  | nil => simp [run]
  | cons op a ih => simp only [List.cons_append, run, ih]; simp [List.append_assoc]

/-- **Whole life of a global cache object**: any history from construction followed by destruction
    returns every underlying block exactly once (the multiset of frees equals the multiset of allocations,
    node table included) and holds nothing afterwards. -/
theorem history_then_globalDestroy (t : Nat) (ops : List Op) :
    let r := run (create t).1 ops
    let d := globalDestroy r.1
    (freed (r.2 ++ d.2)).Perm (t :: allocd r.2) ∧ d.1.liveIds = [] := by
  refine ⟨?_, globalDestroy_returns_everything _⟩
  have h1 := run_conservation ops (create t).1
  have h2 := globalDestroy_conservation (run (create t).1 ops).1
  have h3 : (create t).1.liveIds = [t] := by
    simp [create, State.liveIds, State.blocks, Class.blocks, Gen.Cache.classSizes]
  rw [h3] at h1
  rw [freed_append]
  apply perm_of_count; intro x
  have := h1.count_eq x; have := h2.count_eq x
  simp [List.count_append, List.count_cons] at *; omega

/-- `SimpleString::operator+=`: the buffer handed out for the longer string is never the buffer that is
    about to be released (the new one is obtained first) -/
theorem stringAppend_fresh_buffer (s : State) (oldMem len k n m : Nat) (hinv : s.liveIds.Nodup)
    (hf : Fresh s (.alloc (stringBufferSize (len + k)) n m)) (hold : oldMem ∈ s.usedMems) :
    ∀ r ∈ returned (alloc s (stringBufferSize (len + k)) n m).2, r ≠ oldMem := by
  intro r hr h
  exact alloc_not_in_use s _ n m hinv hf r hr (h ▸ hold)

/-- a string of `len` characters gets a buffer with room for the terminator -/
theorem string_buffer_fits (s : State) (len n m : Nat) (hok : SizesOk s) :
    ∃ b : Block, (alloc s (stringBufferSize len) n m).2.getLast? = some (.ret b.mem) ∧ len + 1 ≤ b.msize := by
  obtain ⟨b, h1, _, h3, _⟩ := alloc_size_ge s (stringBufferSize len) n m hok
  exact ⟨b, h1, h3⟩

/-- `hasFreeBlocksOfSize` is exactly "the next `alloc` of that size asks the allocator for nothing" -/
theorem hasFree_iff_no_underlying_alloc (s : State) (size n m : Nat) (hok : SizesOk s) (hc : isCached size = true) :
    hasFree s size = true ↔ allocd (alloc s size n m).2 = [] := by
  obtain ⟨c, hcc, _, _⟩ := indexFor_fits s.classes size hok.1 hc
  unfold hasFree alloc
  simp only [hc, if_true, hcc]
  unfold allocCached
  cases hfr : c.free with
  | nil => simp [allocd, createEvs]
  | cons b rest => simp [allocd]

/-- **No aliasing along a whole history**: at every step of every history from construction, what
    `alloc` returns is not handed out at that moment. -/
theorem run_no_aliasing (t : Nat) (pre : List Op) (size n m : Nat)
    (hfresh : FreshAll (create t).1 (pre ++ [.alloc size n m])) :
    ∀ r ∈ returned (alloc (run (create t).1 pre).1 size n m).2, r ∉ (run (create t).1 pre).1.usedMems := by
  have hsplit : ∀ (a : List Op) (s : State) (op : Op), FreshAll s (a ++ [op]) → FreshAll s a ∧ Fresh (run s a).1 op := by
    intro a
    induction a with
    | nil => intro s op h; exact ⟨trivial, by simpa [FreshAll, run] using h.1⟩
    | cons x a ih =>
      intro s op h
      obtain ⟨h1, h2⟩ := h
      obtain ⟨k1, k2⟩ := ih _ op h2
      exact ⟨⟨h1, k1⟩, by simpa [run] using k2⟩
  obtain ⟨h1, h2⟩ := hsplit pre _ _ hfresh
  exact alloc_not_in_use _ size n m (inv_run pre _ (inv_create t) h1).1 h2


example : FreshAll (create 1).1 ([.alloc 10 2 3, .dealloc 3 10] ++ [.alloc 20 4 5]) := by
  simp [FreshAll, Fresh]; decide
example : (gdestroy (gswap (gcreate .orig 1) .other)).1 = .orig := by decide
example : hasFree sample 10 = true ∧ hasFree sample 40 = false := by decide
example : sample.usedMems = [5, 7] ∧ returned (alloc sample (stringBufferSize (3 + 5)) 8 9).2 = [3] := by decide
end Cache

/-! ## The pointer level: the member functions as regenerated from the C++ source

`Gen/CacheCode.lean` holds `alloc`, `dealloc`, `clearCache`, `clearAllIncludingCurrentlyUsedMemory` and
`getIndexForCache` (callees inlined) in the statement language of `Model/CacheSyntax.lean`, regenerated from
`SimpleStringInternalCache.cpp` on every run; `Model/CacheHeap.lean` interprets them over a heap of
`SimpleStringMemoryBlock` cells.  The theorems below are ABOUT THOSE REGENERATED PROGRAMS (an edit of the C++
that changes a statement changes the program and breaks them). -/
namespace Cache.Heap
open Cache Gen.Cache.Code ListLemmas

theorem allocH_refines (f : Nat) (hs : HState) (s : State) (size n m : Nat)
    (hrep : Rep hs s) (hinv : Inv s) (hf : FreshH s (.alloc size n m)) :
    ∃ hs', allocH (f + 40) hs size n m = .ok (hs', (alloc s size n m).2) ∧ Rep hs' (alloc s size n m).1 := by
  obtain ⟨⟨hn, hm, hnm⟩, hn0⟩ := hf
  have hfreshnode : ∀ (j : Nat) (d : Class), s.classes[j]? = some d → ∀ b ∈ d.free ++ d.used, b.node ≠ n ∧ b.node ≠ m := by
    intro j d hd b hb
    have := block_node_live s j d hd b hb
    exact ⟨fun h => hn (h ▸ this), fun h => hm (h ▸ this)⟩
  have hfreshunc : ∀ b ∈ s.uncached, b.node ≠ n ∧ b.node ≠ m := by
    intro b hb
    have := uncached_node_live s b hb
    exact ⟨fun h => hn (h ▸ this), fun h => hm (h ▸ this)⟩
  unfold alloc
  by_cases hcached : isCached size = true
  · have hsz : size ≤ 256 := by unfold isCached Gen.Cache.cachedLimit at hcached; exact of_decide_eq_true hcached
    simp only [hcached, if_true]
    obtain ⟨c, hc, _, _⟩ := indexFor_fits s.classes size hinv.2.1 hcached
    rw [hc]; simp only
    obtain ⟨nd, hnd⟩ := node_of_class hs s hrep _ c hc
    have hi := indexForH_eq hs s hrep size
    obtain ⟨hsize, hfl, hul⟩ := hrep.cls _ nd c hnd hc
    unfold allocCached
    cases hfr : c.free with
    | nil =>
      rw [hfr] at hfl
      have hfree0 : nd.free = 0 := hfl
      have hev : createEvs c.size n m ++ [Ev.ret m] = [.ualloc 16 n, .ualloc nd.size m, .ret m] := by
        simp [createEvs, hsize, Gen.Cache.blockStructBytes]
      rw [hev]
      refine ⟨_, allocH_new f hs size n m _ nd hsz hi hnd hfree0 hnm, ?_⟩
      simp only
      apply rep_set_class hs s hrep _ c _ nd _ hc hnd
      · intro j d hj hd b hb
        obtain ⟨h1, h2⟩ := hfreshnode j d hd b hb
        simp [setCell, h1, h2]
      · intro b hb
        obtain ⟨h1, h2⟩ := hfreshunc b hb
        simp [setCell, h1, h2]
      · exact hsize
      · simp only [hfr]; exact hfree0
      · refine ⟨hn0, rfl, nd.used, by simp [setCell], ?_⟩
        apply isList_frame hs.cells _ _ _ _ hul
        intro b hb
        obtain ⟨h1, h2⟩ := hfreshnode _ c hc b (by simp [hb])
        simp [setCell, h1, h2]
    | cons b rest =>
      rw [hfr] at hfl
      obtain ⟨hp0, hpb, nx, hcell, hrest⟩ := hfl
      refine ⟨_, allocH_reserve f hs size n m _ nd nd.free nx b.mem hsz hi hnd rfl hp0 hcell, ?_⟩
      obtain ⟨hnodup, hoth, hunc⟩ := class_separate s hinv.1 _ c hc
      rw [hfr] at hnodup
      simp only [List.cons_append, List.map_cons, List.nodup_cons, List.map_append, List.mem_append, List.mem_map, not_or, not_exists, not_and] at hnodup
      simp only
      apply rep_set_class hs s hrep _ c _ nd _ hc hnd
      · intro j d hj hd x hx
        have := hoth j d hj hd x hx b (by simp [hfr])
        simp [setCell, hpb, this]
      · intro x hx
        have := hunc x hx b (by simp [hfr])
        simp [setCell, hpb, this]
      · exact hsize
      · apply isList_frame hs.cells _ _ _ _ hrest
        intro x hx
        have : x.node ≠ b.node := fun h => hnodup.1.1 x hx h
        simp [setCell, hpb, this]
      · refine ⟨hp0, hpb, nd.used, by simp [setCell], ?_⟩
        apply isList_frame hs.cells _ _ _ _ hul
        intro x hx
        have : x.node ≠ b.node := fun h => hnodup.1.2 x hx h
        simp [setCell, hpb, this]
  · have hsz : ¬ size ≤ 256 := fun h => hcached (by unfold isCached Gen.Cache.cachedLimit; exact decide_eq_true h)
    simp only [hcached]
    have hev : createEvs size n m ++ [Ev.ret m] = [.ualloc 16 n, .ualloc size m, .ret m] := by
      simp [createEvs, Gen.Cache.blockStructBytes]
    rw [hev]
    refine ⟨_, allocH_uncached f hs size n m hsz hnm, ?_⟩
    refine ⟨hrep.len, ?_, ?_, hrep.warned⟩
    · intro j nd c hnj hcj
      obtain ⟨k1, k2, k3⟩ := hrep.cls j nd c hnj hcj
      refine ⟨k1, isList_frame hs.cells _ _ _ ?_ k2, isList_frame hs.cells _ _ _ ?_ k3⟩
      · intro b hb
        obtain ⟨h1, h2⟩ := hfreshnode j c hcj b (by simp [hb])
        simp [setCell, h1, h2]
      · intro b hb
        obtain ⟨h1, h2⟩ := hfreshnode j c hcj b (by simp [hb])
        simp [setCell, h1, h2]
    · refine ⟨hn0, rfl, hs.nonCached, by simp [setCell], ?_⟩
      apply isList_frame hs.cells _ _ _ _ hrep.unc
      intro b hb
      obtain ⟨h1, h2⟩ := hfreshunc b hb
      simp [setCell, h1, h2]

theorem rep_create (t : Nat) : Rep createH (create t).1 := by
  refine ⟨by simp [createH, create], ?_, rfl, rfl⟩
  intro i nd c hn hc
  simp only [createH, create, List.getElem?_map] at hn hc
  cases h : Gen.Cache.classSizes[i]? with
  | none => simp [h] at hn
  | some sz =>
    simp [h] at hn hc
    subst hn; subst hc
    exact ⟨rfl, rfl, rfl⟩

/-- `dealloc`, both branches -/
theorem deallocH_refines (f : Nat) (hs : HState) (s : State) (m size : Nat)
    (hrep : Rep hs s) (hinv : Inv s) (hfuel : s.blocks.length ≤ f) :
    ∃ hs', deallocH (f + 60) hs m size = .ok (hs', (dealloc s m size).2) ∧ Rep hs' (dealloc s m size).1 := by
  unfold dealloc
  by_cases hcached : isCached size = true
  · simp only [hcached, if_true]
    obtain ⟨c, hc, _, _⟩ := indexFor_fits s.classes size hinv.2.1 hcached
    rw [hc]
    exact deallocH_cached_refines f hs s m size hrep hinv hcached c hc
      (Nat.le_trans (free_length_le s _ c hc).2 hfuel)
  · simp only [hcached]
    exact deallocH_uncached_refines f hs s m size hrep hinv hcached (Nat.le_trans (uncached_length_le s) hfuel)

/-- **Refinement, one operation.**  The member functions as regenerated from the C++ source, run at
    pointer level on a heap that represents the list-level state, never touch a dead or NULL pointer,
    terminate, produce exactly the allocator traffic / return value / warning of the list model, and leave a
    heap that represents the list model's next state. -/
theorem stepH_refines (f : Nat) (hs : HState) (s : State) (op : Op)
    (hrep : Rep hs s) (hinv : Inv s) (hf : FreshH s op) (hfuel : s.blocks.length ≤ f) :
    ∃ hs', stepH (f + 60) hs op = .ok (hs', (step s op).2) ∧ Rep hs' (step s op).1 := by
  cases op with
  | alloc sz n m =>
    have := allocH_refines (f + 20) hs s sz n m hrep hinv hf
    simpa [stepH, step, Nat.add_assoc] using this
  | dealloc m sz => exact deallocH_refines f hs s m sz hrep hinv hfuel
  | clearCache =>
    have := clearCacheH_refines (f + 10) hs s hrep hinv (by omega)
    simpa [stepH, step, Nat.add_assoc] using this
  | clearAll => exact clearAllH_refines f hs s hrep hinv hfuel

/-- run a history at pointer level -/
def runH (fuel : Nat) : HState → List Op → Except String (HState × List Ev)
  | hs, [] => .ok (hs, [])
  | hs, op :: ops =>
    match stepH fuel hs op with
    | .ok (hs1, e1) =>
      (match runH fuel hs1 ops with
       | .ok (hs2, e2) => .ok (hs2, e1 ++ e2)
       | .error m => .error m)
    | .error m => .error m

def FreshAllH : State → List Op → Prop
  | _, [] => True
  | s, op :: ops => FreshH s op ∧ FreshAllH (step s op).1 ops

theorem freshAll_of_freshAllH : ∀ (ops : List Op) (s : State), FreshAllH s ops → FreshAll s ops
  | [], _, _ => trivial
  | op :: ops, s, h => by
    refine ⟨?_, freshAll_of_freshAllH ops _ h.2⟩
    cases op <;> first | exact h.1.1 | trivial

theorem table_step (s : State) (op : Op) : (step s op).1.table = s.table := by
  cases op with
  | alloc sz n m =>
    simp only [step, alloc]; split
    · split
      · rfl
      · unfold allocCached; split <;> rfl
    · rfl
  | dealloc m sz =>
    simp only [step, dealloc]; split
    · split
      · rfl
      · unfold deallocCached; split
        · rfl
        · unfold warnOnce; split <;> rfl
    · unfold deallocUncached; split
      · rfl
      · unfold warnOnce; split <;> rfl
  | clearCache => rfl
  | clearAll => rfl

theorem liveIds_length (s : State) : s.liveIds.length = s.table.toList.length + 2 * s.blocks.length := by
  unfold State.liveIds
  rw [List.length_append]
  congr 1
  induction s.blocks with
  | nil => rfl
  | cons b l ih => simp [List.flatMap_cons, Block.ids, ih]; omega

theorem allocd_step_le (s : State) (op : Op) : (allocd (step s op).2).length ≤ 2 := by
  cases op with
  | alloc sz n m =>
    simp only [step, alloc]; split
    · split
      · simp [allocd]
      · unfold allocCached; split <;> simp [allocd, createEvs]
    · simp [allocd, createEvs]
  | dealloc m sz => rw [allocd_of_not_alloc s _ (by intros; simp)]; simp
  | clearCache => rw [allocd_of_not_alloc s _ (by intros; simp)]; simp
  | clearAll => rw [allocd_of_not_alloc s _ (by intros; simp)]; simp

/-- one operation adds at most one block -/
theorem blocks_length_step (s : State) (op : Op) : (step s op).1.blocks.length ≤ s.blocks.length + 1 := by
  have h := (step_conservation s op).length_eq
  have h1 := liveIds_length s
  have h2 := liveIds_length (step s op).1
  have h3 := allocd_step_le s op
  rw [table_step] at h2
  simp only [List.length_append] at h
  omega

/-- **Refinement, whole histories.**  From construction, over any history of any length (fresh non-NULL
    ids from the allocator), the pointer-level run of the regenerated code succeeds (no dead pointer is
    touched, every list walk ends) and produces exactly the list model's event trace; the final heap
    represents the list model's final state.  Hence every list-level theorem of this file
    (conservation, no aliasing, sizes, clearAll, unknown release) holds of what the source says. -/
theorem runH_refines : ∀ (ops : List Op) (f : Nat) (hs : HState) (s : State),
    Rep hs s → Inv s → FreshAllH s ops → s.blocks.length + ops.length ≤ f →
    ∃ hs', runH (f + 60) hs ops = .ok (hs', (run s ops).2) ∧ Rep hs' (run s ops).1
  | [], _, hs, _, hrep, _, _, _ => ⟨hs, rfl, hrep⟩
  | op :: ops, f, hs, s, hrep, hinv, hfr, hfuel => by
    simp only [List.length_cons] at hfuel
    obtain ⟨hs1, h1, hrep1⟩ := stepH_refines f hs s op hrep hinv hfr.1 (by omega)
    have hfa := freshAll_of_freshAllH (op :: ops) s hfr
    have hinv1 := inv_step s op hinv hfa.1
    have hb := blocks_length_step s op
    obtain ⟨hs2, h2, hrep2⟩ := runH_refines ops f hs1 (step s op).1 hrep1 hinv1 hfr.2 (by omega)
    refine ⟨hs2, ?_, by simpa [run] using hrep2⟩
    simp only [runH, h1, h2, run]

theorem history_refines (t : Nat) (ops : List Op) (f : Nat) (hfr : FreshAllH (create t).1 ops)
    (hfuel : ops.length ≤ f) :
    ∃ hs', runH (f + 60) createH ops = .ok (hs', (run (create t).1 ops).2) ∧
      Rep hs' (run (create t).1 ops).1 :=
  runH_refines ops f createH (create t).1 (rep_create t) (inv_create t) hfr (by
    have : (create t).1.blocks.length = 0 := by
      simp [create, State.blocks, Class.blocks, Gen.Cache.classSizes]
    omega)


theorem list_len5 {α} : ∀ (l : List α), l.length = 5 → ∃ a b c d e, l = [a, b, c, d, e]
  | [a, b, c, d, e], _ => ⟨a, b, c, d, e, rfl⟩
  | [], h => by simp at h
  | [_], h => by simp at h
  | [_, _], h => by simp at h
  | [_, _, _], h => by simp at h
  | [_, _, _, _], h => by simp at h
  | _ :: _ :: _ :: _ :: _ :: _ :: _, h => by simp at h

/-- **`getIndexForCache` as regenerated (the C++ loop, run by the interpreter) is `indexFor`**, for every
    size — including the sizes above the cached limit, where the loop runs out and returns 0. -/
theorem getIndexH_eq (f : Nat) (hs : HState) (size : Nat)
    (hsizes : hs.nodes.map (·.size) = Gen.Cache.classSizes) :
    getIndexH (f + 30) hs size = .ok (indexForH hs.nodes size) := by
  obtain ⟨a, b, c, d, e, hn⟩ := list_len5 hs.nodes (by
    have := congrArg List.length hsizes; simpa [Gen.Cache.classSizes] using this)
  have hsz := hsizes
  rw [hn] at hsz
  · simp only [List.map_cons, List.map_nil, Gen.Cache.classSizes, List.cons.injEq, and_true] at hsz
    obtain ⟨ha, hb, hc, hd, he⟩ := hsz
    by_cases h1 : size ≤ 32
    · simp [getIndexH, call, getIndexProg, exec, execSimple, evalE, evalB, params, setLocal, nodeAt, hn, ha, h1, indexForH,
        List.findIdx?_cons]
    · by_cases h2 : size ≤ 64
      · simp [getIndexH, call, getIndexProg, exec, execSimple, evalE, evalB, params, setLocal, nodeAt, hn, ha, hb, h1, h2,
          indexForH, List.findIdx?_cons]
      · by_cases h3 : size ≤ 96
        · simp [getIndexH, call, getIndexProg, exec, execSimple, evalE, evalB, params, setLocal, nodeAt, hn, ha, hb, hc, h1,
            h2, h3, indexForH, List.findIdx?_cons]
        · by_cases h4 : size ≤ 128
          · simp [getIndexH, call, getIndexProg, exec, execSimple, evalE, evalB, params, setLocal, nodeAt, hn, ha, hb, hc, hd,
              h1, h2, h3, h4, indexForH, List.findIdx?_cons]
          · by_cases h5 : size ≤ 256
            · simp [getIndexH, call, getIndexProg, exec, execSimple, evalE, evalB, params, setLocal, nodeAt, hn, ha, hb, hc,
                hd, he, h1, h2, h3, h4, h5, indexForH, List.findIdx?_cons]
            · simp [getIndexH, call, getIndexProg, exec, execSimple, evalE, evalB, params, setLocal, nodeAt, hn, ha, hb, hc,
                hd, he, h1, h2, h3, h4, h5, indexForH, List.findIdx?_cons]

/-! ### non-vacuity -/

example : FreshAllH (create 1).1 [.alloc 10 2 3, .alloc 20 4 5, .alloc 300 6 7, .dealloc 3 10, .clearCache, .clearAll] := by
  simp [FreshAllH, FreshH, Fresh]; decide

/-- the reference decomposition is the regenerated code (tripwires for every list-manipulating function) -/
theorem regenerated_code_is_reference :
    deallocProg = deallocRef ∧ clearCacheProg = clearCacheRef ∧ clearAllProg = clearAllRef :=
  ⟨deallocProg_eq_ref, clearCacheProg_eq_ref, clearAllProg_eq_ref⟩

end Cache.Heap
