import CppUModel.Proofs.Cache
/-!
# C18 — the string buffer cache never aliases live buffers and gives everything back

Property theorems only.  Model: `CppUModel/Model/Cache.lean` (from
`src/CppUTest/SimpleStringInternalCache.cpp`); vocabulary: `CppUModel/Spec/Cache.lean`.
Ids stand for blocks of the underlying allocator; distinct live ids are disjoint memory
(the platform allocator's contract, which the environment hypothesis `Fresh` states).
-/
namespace Cache
open ListLemmas

/-- One step neither forgets nor invents an underlying allocation:
    held-after + returned-to-allocator = held-before + obtained-from-allocator (as multisets). -/
theorem conservation (s : State) (op : Op) :
    ((step s op).1.liveIds ++ freed (step s op).2).Perm (s.liveIds ++ allocd (step s op).2) :=
  step_conservation s op

/-- The same for every history, of any length. -/
theorem run_conservation : ∀ (ops : List Op) (s : State),
    ((run s ops).1.liveIds ++ freed (run s ops).2).Perm (s.liveIds ++ allocd (run s ops).2)
  | [], s => by simp [run, freed, allocd]
  | op :: ops, s => by
    have h1 := step_conservation s op
    have h2 := run_conservation ops (step s op).1
    simp only [run, freed_append, allocd_append]
    apply perm_of_count; intro x
    have := h1.count_eq x; have := h2.count_eq x
    simp [List.count_append] at *; omega

theorem allocd_of_not_alloc (s : State) (op : Op) (h : ∀ a b c, op ≠ .alloc a b c) :
    allocd (step s op).2 = [] := by
  cases op with
  | alloc a b c => exact absurd rfl (h a b c)
  | dealloc m sz =>
    simp only [step, dealloc]
    split
    · split
      · simp [allocd]
      · simp only [deallocCached]; split
        · simp [allocd]
        · simp only [warnOnce]; split <;> simp [allocd]
    · simp only [deallocUncached]; split
      · simp [allocd, destroyBlock]
      · simp only [warnOnce]; split <;> simp [allocd]
  | clearCache =>
    simp only [step, clearCache]
    induction s.classes with
    | nil => simp [allocd]
    | cons c cs ih => simp [List.flatMap_cons, allocd_append, ih, destroyList_allocd]
  | clearAll =>
    simp only [step, clearAll, allocd_append, destroyList_allocd, List.append_nil]
    induction s.classes with
    | nil => simp [allocd]
    | cons c cs ih => simp [List.flatMap_cons, allocd_append, ih, destroyList_allocd]

theorem alloc_allocd_sub (s : State) (sz n m : Nat) :
    ∀ i ∈ allocd (alloc s sz n m).2, i = n ∨ i = m := by
  unfold alloc
  split
  · split
    · simp [allocd]
    · unfold allocCached; split <;> simp [allocd, createEvs]
  · simp [allocd, createEvs]

theorem alloc_allocd_nodup (s : State) (sz n m : Nat) (h : n ≠ m) :
    (allocd (alloc s sz n m).2).Nodup := by
  unfold alloc
  split
  · split
    · simp [allocd]
    · unfold allocCached; split <;> simp [allocd, createEvs, h]
  · simp [allocd, createEvs, h]

/-- No underlying allocation is ever referenced twice (so no buffer is in two lists, or twice
    in one list, and list nodes are not shared), in every reachable state. -/
theorem nodup_step (s : State) (op : Op) (hinv : s.liveIds.Nodup) (hf : Fresh s op) :
    (step s op).1.liveIds.Nodup := by
  have hc := step_conservation s op
  have hn : (s.liveIds ++ allocd (step s op).2).Nodup := by
    cases op with
    | alloc sz n m =>
      obtain ⟨h1, h2, h3⟩ := hf
      rw [List.nodup_append]
      refine ⟨hinv, alloc_allocd_nodup s sz n m h3, ?_⟩
      intro a ha b hb hab; subst hab
      rcases alloc_allocd_sub s sz n m a hb with rfl | rfl
      · exact h1 ha
      · exact h2 ha
    | dealloc m sz => rw [allocd_of_not_alloc s _ (by intros; simp)]; simpa using hinv
    | clearCache => rw [allocd_of_not_alloc s _ (by intros; simp)]; simpa using hinv
    | clearAll => rw [allocd_of_not_alloc s _ (by intros; simp)]; simpa using hinv
  have := (hc.nodup_iff).mpr hn
  exact (List.nodup_append.mp this).1

/-- The cache only returns to the underlying allocator blocks it holds, each at most once per
    operation: no double free and no foreign free. -/
theorem frees_only_live_once (s : State) (op : Op) (hinv : s.liveIds.Nodup) :
    (freed (step s op).2).Nodup ∧ ∀ i ∈ freed (step s op).2, i ∈ s.liveIds := by
  cases op with
  | alloc sz n m =>
    have : freed (step s (.alloc sz n m)).2 = [] := by
      simp only [step, alloc]
      split
      · split
        · simp [freed]
        · unfold allocCached; split <;> simp [freed, createEvs]
      · simp [freed, createEvs]
    rw [this]; simp
  | dealloc m sz =>
    have hc := step_conservation s (.dealloc m sz)
    rw [allocd_of_not_alloc s _ (by intros; simp)] at hc
    simp only [List.append_nil] at hc
    have hn := (hc.nodup_iff).mpr hinv
    exact ⟨(List.nodup_append.mp hn).2.1, fun i hi => hc.subset (List.mem_append_right _ hi)⟩
  | clearCache =>
    have hc := step_conservation s .clearCache
    rw [allocd_of_not_alloc s _ (by intros; simp)] at hc
    simp only [List.append_nil] at hc
    have hn := (hc.nodup_iff).mpr hinv
    exact ⟨(List.nodup_append.mp hn).2.1, fun i hi => hc.subset (List.mem_append_right _ hi)⟩
  | clearAll =>
    have hc := step_conservation s .clearAll
    rw [allocd_of_not_alloc s _ (by intros; simp)] at hc
    simp only [List.append_nil] at hc
    have hn := (hc.nodup_iff).mpr hinv
    exact ⟨(List.nodup_append.mp hn).2.1, fun i hi => hc.subset (List.mem_append_right _ hi)⟩

/-- After `clearAllIncludingCurrentlyUsedMemory` the cache holds nothing but its node table:
    together with `conservation`/`frees_only_live_once`, everything obtained was returned
    exactly once. -/
theorem clearAll_returns_everything (s : State) :
    (clearAll s).1.liveIds = s.table.toList := by
  simp only [clearAll, State.liveIds, State.blocks]
  induction s.classes with
  | nil => simp
  | cons c cs ih => simpa [Class.blocks] using ih

/-- `clearCache` empties exactly the free lists: buffers in use stay where they are. -/
theorem clearCache_keeps_used (s : State) :
    (clearCache s).1.usedMems = s.usedMems ∧ (clearCache s).1.freeMems = [] := by
  simp only [clearCache, State.usedMems, State.freeMems]
  constructor
  · congr 2
    induction s.classes with
    | nil => simp
    | cons c cs ih => simp [ih]
  · induction s.classes with
    | nil => simp
    | cons c cs ih => simp at ih ⊢


/-! ### what `alloc` hands out -/

theorem mem_usedMems_of_class (s : State) (i : Nat) (c : Class) (hc : s.classes[i]? = some c)
    (b : Block) (hb : b ∈ c.used) : b.mem ∈ s.usedMems := by
  simp only [State.usedMems, List.mem_map, List.mem_append, List.mem_flatMap]
  exact ⟨b, Or.inl ⟨c, List.mem_of_getElem? hc, hb⟩, rfl⟩

theorem usedMems_sub_liveIds (s : State) : ∀ x ∈ s.usedMems, x ∈ s.liveIds := by
  intro x hx
  simp only [State.usedMems, List.mem_map, List.mem_append, List.mem_flatMap] at hx
  obtain ⟨b, hb, rfl⟩ := hx
  simp only [State.liveIds, State.blocks, List.mem_append, List.mem_flatMap]
  right
  rcases hb with ⟨c, hc, hb⟩ | hb
  · exact ⟨b, Or.inl ⟨c, hc, by simp [Class.blocks, hb]⟩, by simp [Block.ids]⟩
  · exact ⟨b, Or.inr hb, by simp [Block.ids]⟩

theorem classIds_count (cs : List Class) (x : Nat) :
    (cs.flatMap Class.ids).count x =
      ((cs.flatMap (·.free)).flatMap Block.ids).count x +
      ((cs.flatMap (·.used)).flatMap Block.ids).count x := by
  induction cs with
  | nil => simp
  | cons c cs ih =>
    simp [List.flatMap_cons, List.count_append, Class.ids, Class.blocks, ih]; omega

/-- a buffer sitting in a free list is not in any used list (from `Nodup`) -/
theorem free_not_used (s : State) (hinv : s.liveIds.Nodup) (i : Nat) (c : Class)
    (hc : s.classes[i]? = some c) (b : Block) (rest : List Block) (hf : c.free = b :: rest) :
    b.mem ∉ s.usedMems := by
  intro hu
  have h1 : 1 ≤ ((s.classes.flatMap (·.free)).flatMap Block.ids).count b.mem := by
    apply List.count_pos_iff.mpr
    simp only [List.mem_flatMap]
    exact ⟨b, ⟨c, List.mem_of_getElem? hc, by simp [hf]⟩, by simp [Block.ids]⟩
  have h2 : 1 ≤ ((s.classes.flatMap (·.used)).flatMap Block.ids).count b.mem
      + (s.uncached.flatMap Block.ids).count b.mem := by
    simp only [State.usedMems, List.mem_map, List.mem_append] at hu
    obtain ⟨b', hb', hm⟩ := hu
    rcases hb' with hb' | hb'
    · have : 1 ≤ ((s.classes.flatMap (·.used)).flatMap Block.ids).count b.mem :=
        List.count_pos_iff.mpr (List.mem_flatMap.mpr ⟨b', hb', by simp [Block.ids, hm]⟩)
      omega
    · have : 1 ≤ (s.uncached.flatMap Block.ids).count b.mem :=
        List.count_pos_iff.mpr (List.mem_flatMap.mpr ⟨b', hb', by simp [Block.ids, hm]⟩)
      omega
  have h3 := List.nodup_iff_count.mp hinv b.mem
  rw [liveIds_eq] at h3
  simp only [List.count_append, classIds_count] at h3
  omega

/-- **No aliasing.** The buffer returned by `alloc` is not one that is currently handed out. -/
theorem alloc_not_in_use (s : State) (size n m : Nat) (hinv : s.liveIds.Nodup)
    (hf : Fresh s (.alloc size n m)) :
    ∀ r ∈ returned (alloc s size n m).2, r ∉ s.usedMems := by
  obtain ⟨_, hm, _⟩ := hf
  intro r hr
  unfold alloc at hr
  split at hr
  · split at hr
    · simp [returned] at hr
    · next c hc =>
      unfold allocCached at hr
      split at hr
      · next b rest hfr =>
        simp [returned] at hr; subst hr
        exact free_not_used s hinv _ c hc b rest hfr
      · simp [returned, createEvs] at hr; subst hr
        exact fun h => hm (usedMems_sub_liveIds s _ h)
  · simp [returned, createEvs] at hr; subst hr
    exact fun h => hm (usedMems_sub_liveIds s _ h)


/-! ### sizes and size classes -/

/-- `getIndexForCache` on the regenerated class table: a cached size lands in the least class
    that fits it. -/
theorem indexFor_fits (cs : List Class) (size : Nat)
    (hcs : cs.map (·.size) = Gen.Cache.classSizes) (hsz : isCached size = true) :
    ∃ c, cs[indexFor cs size]? = some c ∧ size ≤ c.size ∧
      ∀ j, j < indexFor cs size → ∀ d, cs[j]? = some d → d.size < size := by
  have hlim : Gen.Cache.classSizes.getLast? = some Gen.Cache.cachedLimit := by decide
  have hex : ∃ d ∈ cs, size ≤ d.size := by
    have : (cs.map (·.size)).getLast? = some Gen.Cache.cachedLimit := by rw [hcs]; exact hlim
    rw [List.getLast?_map] at this
    cases hl : cs.getLast? with
    | none => simp [hl] at this
    | some d =>
      simp [hl] at this
      refine ⟨d, List.mem_of_getLast? hl, ?_⟩
      simp [isCached] at hsz; omega
  unfold indexFor
  cases hfi : cs.findIdx? (fun c => decide (size ≤ c.size)) with
  | none =>
    rw [List.findIdx?_eq_none_iff] at hfi
    obtain ⟨d, hd, hle⟩ := hex
    have := hfi d hd; simp at this; omega
  | some i =>
    rw [List.findIdx?_eq_some_iff_getElem] at hfi
    obtain ⟨hi, hp, hlt⟩ := hfi
    refine ⟨cs[i], by simp [hi], by simpa using hp, ?_⟩
    intro j hj d hd
    simp only at hj
    have hjl : j < cs.length := by omega
    have := hlt j hj
    rw [List.getElem?_eq_getElem hjl] at hd
    cases hd; simpa using this

theorem sizesOk_set (s : State) (i : Nat) (c c' : Class) (hok : SizesOk s)
    (hc : s.classes[i]? = some c) (hsz : c'.size = c.size)
    (hb : ∀ b ∈ c'.blocks, b.msize = c.size) :
    SizesOk { s with classes := s.classes.set i c' } := by
  obtain ⟨h1, h2⟩ := hok
  have hi : i < s.classes.length := by
    rcases Nat.lt_or_ge i s.classes.length with h | h
    · exact h
    · rw [List.getElem?_eq_none h] at hc; cases hc
  have hci : s.classes[i] = c := by rw [List.getElem?_eq_getElem hi] at hc; exact Option.some.inj hc
  constructor
  · simp only [List.map_set, hsz]
    rw [← h1]
    apply List.ext_getElem?
    intro j
    simp only [List.getElem?_set, List.length_map]
    split
    · next hij => subst hij; simp [hi, hci]
    · rfl
  · intro d hd b hb'
    rcases List.mem_or_eq_of_mem_set hd with hd | rfl
    · exact h2 d hd b hb'
    · rw [hsz]; exact hb b hb'

/-- size bookkeeping is an invariant of every operation -/
theorem sizesOk_step (s : State) (op : Op) (hok : SizesOk s) : SizesOk (step s op).1 := by
  have hmem : ∀ {i c}, s.classes[i]? = some c → c ∈ s.classes := fun h => List.mem_of_getElem? h
  cases op with
  | alloc sz n m =>
    simp only [step, alloc]
    split
    · split
      · exact hok
      · next c hc =>
        unfold allocCached
        split
        · next b rest hf =>
          refine sizesOk_set s _ c _ hok hc rfl ?_
          intro x hx
          apply hok.2 c (hmem hc) x
          simp only [Class.blocks, hf, List.mem_append, List.mem_cons] at hx ⊢
          rcases hx with hx | rfl | hx
          · exact Or.inl (Or.inr hx)
          · exact Or.inl (Or.inl rfl)
          · exact Or.inr hx
        · next hf =>
          refine sizesOk_set s _ c _ hok hc rfl ?_
          intro x hx
          simp [Class.blocks, hf] at hx
          rcases hx with rfl | hx
          · rfl
          · exact hok.2 c (hmem hc) x (by simp [Class.blocks, hx])
    · exact ⟨hok.1, hok.2⟩
  | dealloc m sz =>
    simp only [step, dealloc]
    split
    · split
      · exact hok
      · next c hc =>
        unfold deallocCached
        split
        · next b used' hu =>
          have ⟨_, hp⟩ := unlink_perm _ _ _ _ hu
          refine sizesOk_set s _ c _ hok hc rfl ?_
          intro x hx
          apply hok.2 c (hmem hc) x
          simp only [Class.blocks, List.mem_append, List.mem_cons] at hx ⊢
          rcases hx with (rfl | hx) | hx
          · exact Or.inr (hp.symm.subset (by simp))
          · exact Or.inl hx
          · exact Or.inr (hp.symm.subset (by simp [hx]))
        · unfold warnOnce; split <;> exact ⟨hok.1, hok.2⟩
    · unfold deallocUncached
      split
      · exact ⟨hok.1, hok.2⟩
      · unfold warnOnce; split <;> exact ⟨hok.1, hok.2⟩
  | clearCache =>
    simp only [step, clearCache]
    constructor
    · simp only [List.map_map]; rw [← hok.1]; rfl
    · intro c hc b hb
      simp only [List.mem_map] at hc
      obtain ⟨d, hd, rfl⟩ := hc
      exact hok.2 d hd b (by simp [Class.blocks] at hb ⊢; exact Or.inr hb)
  | clearAll =>
    simp only [step, clearAll]
    constructor
    · simp only [List.map_map]; rw [← hok.1]; rfl
    · intro c hc b hb
      simp only [List.mem_map] at hc
      obtain ⟨d, hd, rfl⟩ := hc
      simp [Class.blocks] at hb

/-- `Inv` holds in every reachable state (induction over the history). -/
theorem inv_step (s : State) (op : Op) (hinv : Inv s) (hf : Fresh s op) : Inv (step s op).1 :=
  ⟨nodup_step s op hinv.1 hf, sizesOk_step s op hinv.2⟩

theorem inv_run : ∀ (ops : List Op) (s : State), Inv s → FreshAll s ops → Inv (run s ops).1
  | [], _, h, _ => h
  | op :: ops, s, h, hf => by
    simp only [run]
    exact inv_run ops _ (inv_step s op h hf.1) hf.2

theorem inv_create (t : Nat) : Inv (create t).1 := by
  constructor
  · simp [create, State.liveIds, State.blocks, Class.blocks, Gen.Cache.classSizes]
  · constructor
    · simp [create, List.map_map]; rfl
    · intro c hc b hb
      simp [create] at hc
      obtain ⟨_, _, rfl⟩ := hc
      simp [Class.blocks] at hb

/-- **Big enough, own class only.** Whatever `alloc(size)` returns is a buffer that was obtained
    from the underlying allocator with at least `size` bytes; for a cached size it is a buffer of
    exactly the size of the least class that fits — whether fresh or reused. -/
theorem alloc_size_ge (s : State) (size n m : Nat) (hok : SizesOk s) :
    ∃ b, (alloc s size n m).2.getLast? = some (.ret b.mem) ∧
      b.mem ∈ (alloc s size n m).1.usedMems ∧ size ≤ b.msize ∧
      (isCached size = true →
        ∃ c, s.classes[indexFor s.classes size]? = some c ∧ b.msize = c.size ∧
          b ∈ ((alloc s size n m).1.classes[indexFor s.classes size]?.map (·.used)).getD []) := by
  unfold alloc
  split
  · next hcached =>
    obtain ⟨c, hc, hle, _⟩ := indexFor_fits s.classes size hok.1 hcached
    rw [hc]
    have hi : indexFor s.classes size < s.classes.length := by
      rcases Nat.lt_or_ge (indexFor s.classes size) s.classes.length with h | h
      · exact h
      · rw [List.getElem?_eq_none h] at hc; cases hc
    simp only
    unfold allocCached
    split
    · next b rest hf =>
      have hbs : b.msize = c.size := hok.2 c (List.mem_of_getElem? hc) b (by simp [Class.blocks, hf])
      refine ⟨b, by simp, ?_, by omega, fun _ => ⟨c, rfl, hbs, by simp [hi]⟩⟩
      exact mem_usedMems_of_class _ (indexFor s.classes size) _ (by simp [hi]; rfl) b (by simp)
    · refine ⟨⟨n, m, c.size⟩, by simp [createEvs], ?_, hle, fun _ => ⟨c, rfl, rfl, by simp [hi]⟩⟩
      exact mem_usedMems_of_class _ (indexFor s.classes size) _ (by simp [hi]; rfl) ⟨n, m, c.size⟩ (by simp)
  · next hnc =>
    refine ⟨⟨n, m, size⟩, by simp [createEvs], ?_, Nat.le_refl _, fun h => absurd h hnc⟩
    simp [State.usedMems]

/-! ### releasing something the cache does not know -/

/-- Releasing a buffer that is not handed out (for its size class / the uncached list) changes
    nothing except that the warning is printed the first time. No crash, no list surgery. -/
theorem unknown_release (s : State) (m size : Nat)
    (hunk : if isCached size then
              ∀ c, s.classes[indexFor s.classes size]? = some c → ∀ b ∈ c.used, b.mem ≠ m
            else ∀ b ∈ s.uncached, b.mem ≠ m)
    (hcls : isCached size = true → ∃ c, s.classes[indexFor s.classes size]? = some c) :
    dealloc s m size = warnOnce s := by
  unfold dealloc
  split
  · next hc =>
    simp only [hc, if_true] at hunk
    obtain ⟨c, hcc⟩ := hcls hc
    rw [hcc]; simp only
    unfold deallocCached
    cases hu : unlink c.used m with
    | none => rfl
    | some p =>
      obtain ⟨b, r⟩ := p
      have ⟨h1, h2⟩ := unlink_perm _ _ _ _ hu
      exact absurd h1 (hunk c hcc b (h2.symm.subset (by simp)))
  · next hc =>
    simp only [hc] at hunk
    unfold deallocUncached
    cases hu : unlink s.uncached m with
    | none => rfl
    | some p =>
      obtain ⟨b, r⟩ := p
      have ⟨h1, h2⟩ := unlink_perm _ _ _ _ hu
      exact absurd h1 (hunk b (h2.symm.subset (by simp)))

theorem warnOnce_spec (s : State) :
    (warnOnce s).1 = { s with warned := true } ∧
    (warnOnce s).2 = (if s.warned then [] else [.warn]) := by
  unfold warnOnce; split
  · next h => cases s; simp_all
  · simp_all

/-- A known buffer released with any size of the same class behaves identically. -/
theorem wrong_size_same_class (s : State) (m size size' : Nat)
    (h1 : isCached size = true) (h2 : isCached size' = true)
    (hi : indexFor s.classes size = indexFor s.classes size') :
    dealloc s m size = dealloc s m size' := by
  simp [dealloc, h1, h2, hi]

/-- A release of a handed-out buffer puts exactly that buffer back: it leaves the used lists and
    nothing else does. -/
theorem release_removes_exactly (c : Class) (m : Nat) (b : Block)
    (used' : List Block) (hu : unlink c.used m = some (b, used')) :
    b.mem = m ∧ c.used.Perm (b :: used') := unlink_perm _ _ _ _ hu

/-! ### whole histories -/

/-- Any history from construction that ends with `clearAll`: every block obtained from the
    underlying allocator (other than the node table, which the destructor returns) has been given
    back — and by `frees_only_live_once` none twice. -/
theorem history_then_clearAll (t : Nat) (ops : List Op) :
    let r := run (create t).1 (ops ++ [.clearAll])
    (freed r.2 ++ [t]).Perm (t :: allocd r.2) ∧ r.1.liveIds = [t] := by
  have hlive : ∀ (ops : List Op) (s : State), s.table = some t →
      (run s (ops ++ [.clearAll])).1.liveIds = [t] := by
    intro ops
    induction ops with
    | nil => intro s hs; simp [run, step, clearAll_returns_everything, hs]
    | cons op ops ih =>
      intro s hs
      simp only [List.cons_append, run]
      apply ih
      cases op with
      | alloc sz n m =>
        simp only [step, alloc]; split
        · split
          · exact hs
          · unfold allocCached; split <;> exact hs
        · exact hs
      | dealloc m sz =>
        simp only [step, dealloc]; split
        · split
          · exact hs
          · unfold deallocCached; split
            · exact hs
            · unfold warnOnce; split <;> exact hs
        · unfold deallocUncached; split
          · exact hs
          · unfold warnOnce; split <;> exact hs
      | clearCache => exact hs
      | clearAll => exact hs
  have h2 := hlive ops (create t).1 rfl
  refine ⟨?_, h2⟩
  have hc := run_conservation (ops ++ [.clearAll]) (create t).1
  rw [h2] at hc
  have : (create t).1.liveIds = [t] := by simp [create, State.liveIds, State.blocks, Class.blocks, Gen.Cache.classSizes]
  rw [this] at hc
  apply perm_of_count; intro x
  have := hc.count_eq x
  simp [List.count_append, List.count_cons] at this ⊢; omega

/-! ### destruction of the global cache -/

theorem clearAll_blocks (s : State) : (clearAll s).1.blocks = [] := by
  simp only [clearAll, State.blocks]
  induction s.classes with
  | nil => simp
  | cons c cs ih => simp [Class.blocks] at ih ⊢

theorem destroy_liveIds (s : State) : (destroy s).1.liveIds = s.blocks.flatMap Block.ids := by
  unfold destroy
  cases h : s.table <;> simp [State.liveIds, State.blocks, h]

/-- **Destroyed ⇒ everything returned.** Whatever state the global string cache is in (buffers still
    handed out, buffers in free lists, uncached buffers), after `~GlobalSimpleStringCache()` it holds
    no underlying allocation at all.  Depends on the regenerated fact that the destructor calls
    `clearAllIncludingCurrentlyUsedMemory` (a destructor that only calls `clearCache` breaks this
    obligation). -/
theorem globalDestroy_returns_everything (s : State) : (globalDestroy s).1.liveIds = [] := by
  have hall : Gen.Cache.globalDtorClearsAll = true := by decide
  unfold globalDestroy
  simp only [hall, if_true]
  rw [destroy_liveIds, clearAll_blocks]; rfl

/-- and what it gives back is exactly what it held (nothing twice, nothing foreign) -/
theorem globalDestroy_conservation (s : State) :
    (freed (globalDestroy s).2).Perm s.liveIds := by
  have hall : Gen.Cache.globalDtorClearsAll = true := by decide
  unfold globalDestroy
  simp only [hall, if_true]
  have hc := clearAll_conservation s
  have h1 := clearAll_returns_everything s
  have ha : allocd (clearAll s).2 = [] := allocd_of_not_alloc s .clearAll (by intros; simp)
  rw [h1, ha] at hc
  simp only [List.append_nil] at hc
  have htab : (clearAll s).1.table = s.table := rfl
  unfold destroy
  cases ht : s.table with
  | none =>
    rw [htab, ht]; simp only [List.append_nil]
    rw [ht] at hc; simpa using hc
  | some t =>
    rw [htab, ht]; simp only
    rw [ht] at hc
    rw [freed_append]
    apply perm_of_count; intro x
    have := hc.count_eq x
    simp [List.count_append, List.count_cons, freed] at this ⊢; omega

/-! ### non-vacuity: the hypotheses are met by concrete, non-trivial states -/

/-- a state reached by a real history: two buffers of class 32 (one released), one uncached -/
def sample : State :=
  (run (create 1).1 [.alloc 10 2 3, .alloc 20 4 5, .alloc 300 6 7, .dealloc 3 10]).1

example : Inv sample ∧ sample.usedMems = [5, 7] ∧ sample.freeMems = [3] := by
  refine ⟨inv_run _ _ (inv_create 1) (by simp [FreshAll, Fresh]; decide), by decide, by decide⟩

example : Fresh sample (.alloc 10 8 9) := by simp [Fresh]; decide
example : returned (alloc sample 10 8 9).2 = [3] := by decide   -- reuse from the free list
example : returned (alloc sample 40 8 9).2 = [9] := by decide   -- other class: fresh buffer

end Cache
