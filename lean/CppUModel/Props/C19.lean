import CppUModel.Proofs.MockC
import CppUModel.Proofs.MockCAligned
import CppUModel.Proofs.MockCNodes
import CppUModel.Proofs.MockCReporter
import CppUModel.Model.MockCActual
/-!
# C19 — the C mocking interface behaves like the C++ one

Property theorems.  Model: `Model/MockC.lean` (the C layer of `src/CppUTestExt/MockSupport_c.cpp` as a state machine
over its three static pointers, on top of an abstract C++ mock); wiring regenerated from the source:
`Gen/CMockWiring.lean`; REQUIRED wiring and the C++ program a scenario stands for: `Spec/MockC.lean`.

* `wiring_correct` — the regenerated tables are the required ones (initialiser order = header member order for the
  three structs, every forwarder calls the required C++ method with the required argument/result conversions).
* `value_conversion_exact` — `getMockValueCFromNamedValue` keeps type tag and payload for every type string.
* `defaulting_same` — `...OrDefault` returns the caller's default iff there is no return value.
* `c_run_eq_cpp_run` — for every scenario of the aligned class, over ANY lawful C++ mock: the C run and the C++ run of
  the scenario end in the same C++ world (verdict, failure text, output bytes are functions of it) and return the same
  values.  By induction over the scenario.
* `c_run_eq_cpp_run_full` / `c_run_eq_cpp_run_full_fails_known` — without the alignment hypothesis the statement is
  false; the witness is the scenario of `corpus/C19/finding_support_getter_other_scope.ops` (known finding
  `C19:support-getter-reads-static-actual-call`), and a second one for
  `C19:actual-hasReturnValue-reads-current-scope`.
-/
namespace MockC
open Req
set_option maxRecDepth 100000

/-! ## wiring -/

/-- what a required table entry must satisfy so that the C layer's lookup through the regenerated tables finds the
    required forwarder, including the forwarders an `...OrDefault` forwarder calls -/
def subOk (fw : Fwd) : Bool :=
  match fw.body with
  | .orDefault h g => findFwdIn Gen.CMock.forwarders h == Req.findFwd h && findFwdIn Gen.CMock.forwarders g == Req.findFwd g
  | _ => true

def entryOk (tbl : Ptr) (field : String) : Bool :=
  match Req.forwarderOf tbl field with
  | some fw => forwarderOf tbl field == some fw && subOk fw && wf tbl fw
  | none => false

/-- The wiring of the current source is the required wiring. -/
structure WiringCorrect : Prop where
  /-- positional initialisers follow the member order of the structs: member `withIntParameters` is initialised
      with `withIntParameters_c`, ... -/
  init_expected : initOf .exp = (fieldsOf .exp).map (Req.fwdName .exp)
  init_actual   : initOf .act = (fieldsOf .act).map (Req.fwdName .act)
  init_support  : initOf .sup = (fieldsOf .sup).map (Req.fwdName .sup)
  /-- every forwarder of the source is the required one of that name (receiver, C++ method, overload selected by the
      parameter types, argument conversions, where the chain object is stored, result conversion) ... -/
  forwarders_required : Gen.CMock.forwarders.all (fun f => Req.findFwd f.name == some f) = true
  /-- ... and none is missing -/
  forwarders_complete : Req.forwarders.all (fun f => findFwdIn Gen.CMock.forwarders f.name == some f) = true
  /-- so every member of every table resolves to the required forwarder -/
  members_expected : (fieldsOf .exp).all (entryOk .exp) = true
  members_actual   : (fieldsOf .act).all (entryOk .act) = true
  members_support  : (fieldsOf .sup).all (entryOk .sup) = true
  /-- the three tables have exactly the documented members -/
  members_documented :
    (Req.documented.all (fun d => (fieldsOf d.1.1).contains d.1.2) = true) ∧
    ([Ptr.exp, Ptr.act, Ptr.sup].all (fun t => (fieldsOf t).all (fun f => Req.documented.any (fun d => d.1 == (t, f)))) = true) ∧
    Req.documented.length = (fieldsOf .exp).length + (fieldsOf .act).length + (fieldsOf .sup).length
  mock_c       : findFwdIn Gen.CMock.forwarders "mock_c" = some ⟨"mock_c", [], .mock none⟩
  mock_scope_c : findFwdIn Gen.CMock.forwarders "mock_scope_c" = some ⟨"mock_scope_c", [("scope", "string")], .mock (some "scope")⟩

theorem init_expected : initOf .exp = (fieldsOf .exp).map (Req.fwdName .exp) := by decide +kernel
theorem init_actual : initOf .act = (fieldsOf .act).map (Req.fwdName .act) := by decide +kernel
theorem init_support : initOf .sup = (fieldsOf .sup).map (Req.fwdName .sup) := by decide +kernel
theorem forwarders_required : Gen.CMock.forwarders.all (fun f => Req.findFwd f.name == some f) = true := by decide +kernel
theorem forwarders_complete : Req.forwarders.all (fun f => findFwdIn Gen.CMock.forwarders f.name == some f) = true := by decide +kernel
theorem members_expected : (fieldsOf .exp).all (entryOk .exp) = true := by decide +kernel
theorem members_actual : (fieldsOf .act).all (entryOk .act) = true := by decide +kernel
theorem members_support : (fieldsOf .sup).all (entryOk .sup) = true := by decide +kernel
theorem members_documented :
    (Req.documented.all (fun d => (fieldsOf d.1.1).contains d.1.2) = true) ∧
    ([Ptr.exp, Ptr.act, Ptr.sup].all (fun t => (fieldsOf t).all (fun f => Req.documented.any (fun d => d.1 == (t, f)))) = true) ∧
    Req.documented.length = (fieldsOf .exp).length + (fieldsOf .act).length + (fieldsOf .sup).length := by decide +kernel

theorem wiring_correct : WiringCorrect where
  init_expected := init_expected
  init_actual := init_actual
  init_support := init_support
  forwarders_required := forwarders_required
  forwarders_complete := forwarders_complete
  members_expected := members_expected
  members_actual := members_actual
  members_support := members_support
  members_documented := members_documented
  mock_c := by decide +kernel
  mock_scope_c := by decide +kernel

/-- `toCpp` says what the header documents, member by member: receiver and C++ method (with overload) of the
    statement a member stands for, for all 125 members. -/
theorem meaning_is_documented :
    Req.documented.all (fun d => (headOf (toCpp (.call d.1.1 d.1.2 []))) == some d.2) = true := by decide +kernel

/-- The C++ getters the bridge rests on have the shapes it assumes: `MockSupport::xReturnValue()` and
    `MockCheckedActualCall::returnXValue()` read `returnValue()` with the same `MockNamedValue` getter; every
    `...OrDefault` of both classes uses the default iff `!hasReturnValue()`; `MockSupport::returnValue()` and
    `hasReturnValue()` delegate to the last actual call; the adaptor nodes and the C failure reporter / terminator have
    the pinned bodies (the C reporter = the C++ reporter with the exception-free terminator). -/
theorem cpp_getter_shapes :
    (Req.supGetters.all (fun p => Gen.CMock.supGetters.lookup p.1 == some p.2) = true) ∧
    (Req.actGetters.all (fun p => Gen.CMock.actGetters.lookup p.1 == some p.2) = true) ∧
    Gen.CMock.supGetters.length = Req.supGetters.length ∧ Gen.CMock.actGetters.length = Req.actGetters.length ∧
    Gen.CMock.shapes = Req.shapes := by decide +kernel

/-- Argument order: every forwarder whose C++ call has two arguments of the same type (so that exchanging them
    compiles silently: value/tolerance, name/value strings, type/name strings) passes its parameters in the required
    order; and the parameters themselves are declared in the order the header documents. -/
theorem argument_order_correct :
    (Gen.CMock.forwarders.filter (fun f => hasRepeatedType (callArgs f.body))).map
        (fun f => (f.name, (callArgs f.body).map (·.1))) = Req.argumentOrder ∧
    (Gen.CMock.forwarders.filter (fun f => hasRepeatedType (callArgs f.body))).all
        (fun f => (Req.findFwd f.name).map (·.params) == some f.params) = true := by decide +kernel

/-! ## adaptor nodes (custom-type comparators and copiers installed through the C interface) -/

/-- the operand order extracted from `MockCFunctionComparatorNode` / `MockCFunctionCopierNode` is the required one -/
theorem adaptor_order_correct : Gen.CMock.adaptors = Req.adaptors := by decide +kernel

/-- For EVERY C equality function — symmetric or not — and every pair of objects: the comparator adaptor answers what
    the C function answers on (expected, actual) in this order, as a truth value (`!= 0`).  So a pattern comparator
    ("only the expected object may be a wildcard") behaves the same installed through C and through C++. -/
theorem comparator_adaptor_exact {α : Type} (equal : α → α → Int) (expected actual : α) :
    adaptIsEqual equal expected actual = some (decide (equal expected actual ≠ 0)) := by
  have h : adaptorOrder "isEqual" = [0, 1] := by decide +kernel
  simp [adaptIsEqual, h, applyOrder2]

/-- For every C copy function: the copier adaptor writes through `dst` reading `src`, never the other way round. -/
theorem copier_adaptor_exact {α σ : Type} (copier : α → α → σ → σ) (dst src : α) (mem : σ) :
    adaptCopy copier dst src mem = some (copier dst src mem) := by
  have h : adaptorOrder "copy" = [0, 1] := by decide +kernel
  simp [adaptCopy, h, applyOrder2]

/-- non-vacuity: an asymmetric comparator distinguishes the two operand orders -/
example : adaptIsEqual (fun (e a : Int × Bool) => if e.2 || e.1 == a.1 then 2 else 0) (90, true) (9, false) = some true ∧
    adaptIsEqual (fun (e a : Int × Bool) => if e.2 || e.1 == a.1 then 2 else 0) (9, false) (90, true) = some false := by
  constructor <;> decide +kernel

/-! ## value conversion -/

/-- type string ↦ enumerator, by the names of the enumerators -/
def tagOf (t : String) : String :=
  if t = "bool" then "MOCKVALUETYPE_BOOL"
  else if t = "int" then "MOCKVALUETYPE_INTEGER"
  else if t = "unsigned int" then "MOCKVALUETYPE_UNSIGNED_INTEGER"
  else if t = "long int" then "MOCKVALUETYPE_LONG_INTEGER"
  else if t = "unsigned long int" then "MOCKVALUETYPE_UNSIGNED_LONG_INTEGER"
  else if t = "long long int" then "MOCKVALUETYPE_LONG_LONG_INTEGER"
  else if t = "unsigned long long int" then "MOCKVALUETYPE_UNSIGNED_LONG_LONG_INTEGER"
  else if t = "double" then "MOCKVALUETYPE_DOUBLE"
  else if t = "const char*" then "MOCKVALUETYPE_STRING"
  else if t = "void*" then "MOCKVALUETYPE_POINTER"
  else if t = "const void*" then "MOCKVALUETYPE_CONST_POINTER"
  else if t = "void (*)()" then "MOCKVALUETYPE_FUNCTIONPOINTER"
  else if t = "const unsigned char*" then "MOCKVALUETYPE_MEMORYBUFFER"
  else "MOCKVALUETYPE_OBJECT"

theorem value_tables_correct :
    Gen.CMock.valueTags = Req.valueTags ∧
    -- every branch writes the union member whose C type is the type of that kind of value
    (Req.valueTags.all (fun r => Gen.CMock.unionMembers.lookup r.member == Req.memberTypes.lookup r.member
                                  && (Req.memberTypes.lookup r.member).isSome) = true) ∧
    -- every enumerator is used by exactly one branch
    (Gen.CMock.enumOrder.all (fun e => (Req.valueTags.filter (·.tag == e)).length == 1) = true) ∧
    Gen.CMock.enumOrder.length = Req.valueTags.length := by decide +kernel

/-- For EVERY C++ value (any type string, any payload): the C value carries the enumerator that belongs to the
    type string (unknown type strings are objects) and the payload unchanged, except that a `bool` is delivered as
    the `int` 1 / 0. -/
theorem value_conversion_exact (nv : NamedVal) :
    (MockC.toCValue nv).tag = tagOf nv.type ∧
    (MockC.toCValue nv).payload = (if nv.type = "bool" then boolToInt nv.payload else nv.payload) := by
  rw [toCValue_eq]
  obtain ⟨t, p⟩ := nv
  simp only [Req.toCValue, toCValueWith, Req.valueTags]
  by_cases h1 : t = "bool"
  · subst h1; simp [tagOf]
  by_cases h2 : t = "int"
  · subst h2; simp [tagOf]
  by_cases h3 : t = "unsigned int"
  · subst h3; simp [tagOf]
  by_cases h4 : t = "long int"
  · subst h4; simp [tagOf]
  by_cases h5 : t = "unsigned long int"
  · subst h5; simp [tagOf]
  by_cases h6 : t = "long long int"
  · subst h6; simp [tagOf]
  by_cases h7 : t = "unsigned long long int"
  · subst h7; simp [tagOf]
  by_cases h8 : t = "double"
  · subst h8; simp [tagOf]
  by_cases h9 : t = "const char*"
  · subst h9; simp [tagOf]
  by_cases h10 : t = "void*"
  · subst h10; simp [tagOf]
  by_cases h11 : t = "const void*"
  · subst h11; simp [tagOf]
  by_cases h12 : t = "void (*)()"
  · subst h12; simp [tagOf]
  by_cases h13 : t = "const unsigned char*"
  · subst h13; simp [tagOf]
  have e : ∀ (l : String), ¬ t = l → ¬ l = t := fun l h h' => h h'.symm
  simp [tagOf, h1, h2, h3, h4, h5, h6, h7, h8, h9, h10, h11, h12, h13, e _ h1, e _ h2, e _ h3, e _ h4, e _ h5, e _ h6,
    e _ h7, e _ h8, e _ h9, e _ h10, e _ h11, e _ h12, e _ h13]

/-- the truth value survives the trip through the C `int` -/
theorem bool_round_trip (b : Bool) : neZero (boolToInt (.bool b)) = .bool b := by
  cases b <;> simp [neZero, boolToInt]

/-! ## defaulting -/

/-- Every `...OrDefault` member of both tables (any forwarder with that body whose parts are `hasReturnValue_c` and a
    plain getter): if the scope says there is no return value the caller's default comes back untouched and the getter
    is not called; otherwise the result is the getter's.  (`c` = the pointers after the `has` call.) -/
theorem defaulting_same (K : CppMock) (st : Core K) (fw h g : Fwd) (hasFn getFn : String) (args : List Val)
    (hb : fw.body = .orDefault hasFn getFn)
    (hh : Req.findFwd hasFn = some h) (hg : Req.findFwd getFn = some g)
    (hhb : h.body = .ret .sup "hasReturnValue" [] .id) (s : String) (hcur : st.cur = some s)
    (hns : K.stopped (K.sup st.m s (signature "hasReturnValue" []) []).1 = false) :
    let has := asBool (K.sup st.m s (signature "hasReturnValue" []) []).2
    let c : Core K := { st with m := (K.sup st.m s (signature "hasReturnValue" []) []).1 }
    (has = false → execFwdWith Req.forwarders K st fw args = (c, defaultRes g (argOf fw.params args "defaultValue"))) ∧
    (has = true → execFwdWith Req.forwarders K st fw args = execSimple K c g []) := by
  have e1 : ∀ n, findFwdIn Req.forwarders n = Req.findFwd n := fun _ => rfl
  have hcS : callVia K st .sup (signature "hasReturnValue" []) [] =
      some (K.sup st.m s (signature "hasReturnValue" []) []) := by simp [callVia, hcur]
  have hH : execSimple K st h [] =
      ({ st with m := (K.sup st.m s (signature "hasReturnValue" []) []).1 },
       .val (asVal (K.sup st.m s (signature "hasReturnValue" []) []).2)) := by
    simp [execSimple, hhb, hcS, applyPost]
  constructor
  · intro hf
    simp only [execFwdWith, hb, e1, hh, hg, execOrDefault, hH, isUndefined, Bool.false_eq_true, if_false,
      isTrue_val_asVal, hns, hf]
  · intro ht
    simp only [execFwdWith, hb, e1, hh, hg, execOrDefault, hH, isUndefined, Bool.false_eq_true, if_false,
      isTrue_val_asVal, hns, ht, if_true]

/-- ... and that is also what the C++ `...OrDefault` does: same default decision, same value (bool default compared by
    truth value).  This is `exec_sim` for the `...OrDefault` members; stated separately because the property names
    the defaulting behaviour. -/
theorem defaulting_same_as_cpp (K : CppMock) (law : Lawful K) (tbl : Ptr) (fw : Fwd) (args : List Val) (st : Core K)
    (hasFn getFn : String) (hb : fw.body = .orDefault hasFn getFn) (hwf : wf tbl fw = true) (hal : AlignedAt K st) :
    SimR (execFwdWith Req.forwarders K st fw args) (execX K st (Req.meaning tbl fw args)) :=
  sim_orDefault K law tbl fw args st hasFn getFn hb hwf hal

/-! ## refinement: C run = C++ run -/

theorem execFwdWith_congr (K : CppMock) (st : Core K) (fw : Fwd) (args : List Val) (h : subOk fw = true) :
    execFwdWith Gen.CMock.forwarders K st fw args = execFwdWith Req.forwarders K st fw args := by
  have e1 : ∀ n, findFwdIn Req.forwarders n = Req.findFwd n := fun _ => rfl
  unfold execFwdWith
  cases hb : fw.body <;> simp only []
  rename_i hf gf
  simp only [subOk, hb, Bool.and_eq_true, beq_iff_eq] at h
  rw [h.1, h.2, e1, e1]

/-- one statement: the C layer on the current source and the C++ statement it stands for -/
theorem step_sim (K : CppMock) (law : Lawful K) (st : Core K) (s : CStmt) (hok : StepOk K st s) :
    SimR (execCWith forwarderOf Gen.CMock.forwarders K st s) (execX K st (toCpp s)) := by
  cases s with
  | mockC =>
    simp [execCWith, wiring_correct.mock_c, execFwdWith, execSimple, toCpp, execX, SimR, canonC, canonX]
  | mockScope sc =>
    simp [execCWith, wiring_correct.mock_scope_c, execFwdWith, execSimple, toCpp, execX, SimR, canonC, canonX,
      argOf, indexOf]
  | call tbl field args =>
    obtain ⟨hmem, hal⟩ := hok
    have hall : (fieldsOf tbl).all (entryOk tbl) = true := by
      cases tbl
      · exact members_support
      · exact members_expected
      · exact members_actual
    have hE := List.all_eq_true.mp hall field hmem
    unfold entryOk at hE
    cases hreq : Req.forwarderOf tbl field with
    | none => simp [hreq] at hE
    | some fw =>
      simp only [hreq, Bool.and_eq_true, beq_iff_eq] at hE
      obtain ⟨⟨hfw, hsub⟩, hwf⟩ := hE
      simp only [execCWith, hfw, toCpp, hreq]
      rw [execFwdWith_congr K st fw args hsub]
      simp only [hreq] at hal
      exact exec_sim K law tbl fw args st hwf hal

theorem run_sim (K : CppMock) (law : Lawful K) : ∀ (ss : List CStmt) (c : CState K) (x : XState K),
    c.core = x.core → c.obs.map canonC = x.obs.map canonX → RunOk K c ss →
    (runC K c ss).core = (runX K x (ss.map toCpp)).core ∧
    (runC K c ss).obs.map canonC = (runX K x (ss.map toCpp)).obs.map canonX
  | [], c, x, hc, ho, _ => by simp [runC, runCWith, runX, hc, ho]
  | s :: rest, c, x, hc, ho, hok => by
    simp only [runC, runCWith, List.map_cons, runX]
    rw [← hc]
    by_cases hs : K.stopped c.core.m = true
    · simp only [hs, if_true]; exact ⟨hc, ho⟩
    · simp only [hs, Bool.false_eq_true, if_false]
      have hok' := hok (by simpa using hs)
      have hstep := step_sim K law c.core s hok'.1
      have ih := run_sim K law rest (stepC K c s) (stepX K x (toCpp s))
        (by simp only [stepC, stepCWith, stepX, ← hc]; exact hstep.1)
        (by simp only [stepC, stepCWith, stepX, ← hc, List.map_append, ho, List.map_cons, List.map_nil, hstep.2])
        hok'.2
      simpa [runC, stepC] using ih

/-- **C run ≡ C++ run.**  For every lawful C++ mock `K` (the parameter: nothing else is assumed about what the C++
    operations do), every scenario `ss` of any length whose table calls are members of their tables and whose
    return-value getters are asked while aligned, started with the same pointers and the same C++ world: the run
    through the C interface and the run of the C++ program the scenario stands for end in the same C++ world — hence
    the same verdict, failure text and output-parameter bytes — and return the same values (type tag and payload,
    defaults included). -/
theorem c_run_eq_cpp_run (K : CppMock) (law : Lawful K) (ss : List CStmt) (core : Core K) (hok : RunOk K ⟨core, []⟩ ss) :
    observeC (runC K ⟨core, []⟩ ss) = observeX (runX K ⟨core, []⟩ (ss.map toCpp)) := by
  have h := run_sim K law ss ⟨core, []⟩ ⟨core, []⟩ rfl rfl hok
  simp only [observeC, observeX, h.1, h.2]

/-! ### the aligned class is decidable from the scenario text -/

theorem runOk_of_stopped (K : CppMock) (c : CState K) (ss : List CStmt) (h : K.stopped c.core.m = true) :
    RunOk K c ss := by
  cases ss with
  | nil => trivial
  | cons s rest => intro h'; rw [h] at h'; cases h'

theorem stepOk_of_stmtOk (K : CppMock) (sl : ScopeLaws K) (sy : Sym) (st : Core K) (s : CStmt)
    (inv : SymInv K sl sy st) (h : stmtOk sy s = true) : StepOk K st s := by
  cases s with
  | mockC => trivial
  | mockScope _ => trivial
  | call tbl field args =>
    simp only [stmtOk, Bool.and_eq_true, List.contains_iff_mem] at h
    refine ⟨h.1, ?_⟩
    cases hf : Req.forwarderOf tbl field with
    | none => trivial
    | some fw =>
      have h2 := h.2
      simp only [hf, Bool.or_eq_true, Bool.not_eq_true', Bool.and_eq_true, beq_iff_eq] at h2
      intro hn
      rcases h2 with h2 | ⟨h3, h4⟩
      · rw [hn] at h2; cases h2
      · cases hact : sy.act with
        | none => simp [hact] at h3
        | some s0 =>
          obtain ⟨a, ha, hl⟩ := inv.act s0 hact
          exact ⟨s0, a, by rw [← inv.cur, ← h4, hact], ha, hl⟩

theorem alignedFrom_runOk (K : CppMock) (law : Lawful K) (sl : ScopeLaws K) :
    ∀ (ss : List CStmt) (sy : Sym) (c : CState K), SymInv K sl sy c.core → alignedFrom sy ss = true → RunOk K c ss
  | [], _, _, _, _ => trivial
  | s :: rest, sy, c, inv, hal => by
    intro hns
    simp only [alignedFrom, Bool.and_eq_true] at hal
    have hstep := stepOk_of_stmtOk K sl sy c.core s inv hal.1
    refine ⟨hstep, ?_⟩
    cases hsy : symStepX sy (toCpp s) with
    | none => simp [hsy] at hal
    | some sy' =>
      have hrest := hal.2
      simp only [hsy] at hrest
      have hcore : (stepC K c s).core = (execX K c.core (toCpp s)).1 := (step_sim K law c.core s hstep).1
      by_cases hst : K.stopped (stepC K c s).core.m = true
      · exact runOk_of_stopped K _ rest hst
      · apply alignedFrom_runOk K law sl rest sy' (stepC K c s) ?_ hrest
        rw [hcore]
        exact inv_step K sl sy sy' c.core (toCpp s) inv hsy (by rw [← hcore]; simpa using hst)

/-- **`Aligned` (a Bool computed from the scenario text) implies `RunOk`**, for every C++ mock that is lawful and obeys
    the scope laws, started with checking on and `currentMockSupport` not yet set. -/
theorem aligned_implies_runOk (K : CppMock) (law : Lawful K) (sl : ScopeLaws K) (ss : List CStmt) (m : K.M)
    (hp : sl.plain m) (h : Aligned ss = true) : RunOk K ⟨⟨m, none, none, none⟩, []⟩ ss :=
  alignedFrom_runOk K law sl ss ⟨none, none⟩ _ ⟨rfl, hp, fun s hs => by cases hs⟩ h

/-- C run ≡ C++ run on the decidable class. -/
theorem c_run_eq_cpp_run_aligned (K : CppMock) (law : Lawful K) (sl : ScopeLaws K) (ss : List CStmt) (m : K.M)
    (hp : sl.plain m) (h : Aligned ss = true) :
    observeC (runC K ⟨⟨m, none, none, none⟩, []⟩ ss) = observeX (runX K ⟨⟨m, none, none, none⟩, []⟩ (ss.map toCpp)) :=
  c_run_eq_cpp_run K law ss _ (aligned_implies_runOk K law sl ss m hp h)

/-- Everything that is a function of the C++ world is the same after the two runs — in particular the number of
    failures recorded for the test and their texts (the test result is part of the world `K.M`; a second mock failure
    in teardown goes through the same reporter guard on both sides: `cReporterFailTest` = `cppReporterFailTest` up to
    the terminator, `cpp_getter_shapes`). -/
theorem failures_recorded_same {α : Type} (K : CppMock) (law : Lawful K) (failuresRecorded : K.M → α)
    (ss : List CStmt) (core : Core K) (hok : RunOk K ⟨core, []⟩ ss) :
    failuresRecorded (runC K ⟨core, []⟩ ss).core.m = failuresRecorded (runX K ⟨core, []⟩ (ss.map toCpp)).core.m := by
  have h := congrArg Prod.fst (c_run_eq_cpp_run K law ss core hok)
  simp only [observeC, observeX] at h
  rw [h]

/-- the same theorem under the name the conventions ask for: it is the part of the full statement below that holds
    on the current source (the class excluded is exactly `¬ RunOk`: a return-value getter asked while the static
    actual call is not the last call of the selected scope) -/
theorem c_run_eq_cpp_run_partial (K : CppMock) (law : Lawful K) (ss : List CStmt) (core : Core K)
    (hok : RunOk K ⟨core, []⟩ ss) :
    observeC (runC K ⟨core, []⟩ ss) = observeX (runX K ⟨core, []⟩ (ss.map toCpp)) :=
  c_run_eq_cpp_run K law ss core hok

/-- the full-strength statement: every scenario whose table calls are members of their tables -/
def c_run_eq_cpp_run_full : Prop :=
  ∀ (K : CppMock), Lawful K → ∀ (ss : List CStmt) (core : Core K),
    (∀ tbl field args, CStmt.call tbl field args ∈ ss → field ∈ fieldsOf tbl) →
    observeC (runC K ⟨core, []⟩ ss) = observeX (runX K ⟨core, []⟩ (ss.map toCpp))

/-! ### the full statement is false on the current source (two known findings) -/

/-- a small lawful C++ mock: an actual call made in a scope becomes the scope's last call; every getter of call `a`
    answers `a + 100`; a scope without a call answers `0` / "no return value" -/
def toySup (m : Nat × List (String × Nat)) (s meth : String) (_ : List Val) :
    (Nat × List (String × Nat)) × Res Unit Nat :=
  if meth ∈ Req.bridgePairs.map (fun p => signature p.1 []) then
    match m.2.lookup s with
    | some a => (m, .val (.int (a + 100)))
    | none => (m, .val (.int 0))
  else if meth = "actualCall(string)" then ((m.1 + 1, (s, m.1) :: m.2), .ac m.1)
  else (m, .unit)

@[reducible] def Toy : CppMock where
  M := Nat × List (String × Nat)
  EC := Unit
  AC := Nat
  mock := fun m _ => m
  sup := toySup
  ec := fun m _ _ _ => (m, .ec ())
  ac := fun m a _ _ => (m, .val (.int (a + 100)))
  stopped := fun _ => false
  last := fun m s => m.2.lookup s

theorem toy_lawful : Lawful Toy where
  bridge := by
    intro m s a p hp hl
    have hmem : signature p.1 [] ∈ Req.bridgePairs.map (fun p => signature p.1 []) := List.mem_map.mpr ⟨p, hp, rfl⟩
    simp only [Toy] at hl ⊢
    simp only [toySup, hmem, if_true, hl]
  has_keeps_last := by
    intro m s _
    have hmem : signature "hasReturnValue" [] ∈ Req.bridgePairs.map (fun p => signature p.1 []) :=
      List.mem_map.mpr ⟨("hasReturnValue", "hasReturnValue"), has_pair, rfl⟩
    simp only [Toy, toySup, hmem, if_true]
    cases h : List.lookup s m.2 <;> simp [h]

/-- `mock_scope_c("s")->actualCall("f"); mock_c()->intReturnValue()`:
    the C interface answers with the call made in scope "s", `mock().intReturnValue()` knows of no call -/
def witnessSupportGetter : List CStmt :=
  [.mockScope "s", .call .sup "actualCall" [.tok "f"], .mockC, .call .sup "intReturnValue" []]

/-- `c = mock_scope_c("s")->actualCall("f"); mock_c(); c->hasReturnValue()`:
    the C interface asks the global scope, `call.hasReturnValue()` asks the call -/
def witnessActualHas : List CStmt :=
  [.mockScope "s", .call .sup "actualCall" [.tok "f"], .mockC, .call .act "hasReturnValue" []]

theorem witness_support_getter_differs :
    (observeC (runC Toy ⟨⟨(0, []), none, none, none⟩, []⟩ witnessSupportGetter)).2 ≠
    (observeX (runX Toy ⟨⟨(0, []), none, none, none⟩, []⟩ (witnessSupportGetter.map toCpp))).2 := by decide +kernel

theorem witness_actual_has_differs :
    (observeC (runC Toy ⟨⟨(0, []), none, none, none⟩, []⟩ witnessActualHas)).2 ≠
    (observeX (runX Toy ⟨⟨(0, []), none, none, none⟩, []⟩ (witnessActualHas.map toCpp))).2 := by decide +kernel

/-- The unrestricted statement does not hold for the current source: known finding
    `C19:support-getter-reads-static-actual-call` (reproduced on the real code by
    `corpus/C19/finding_support_getter_other_scope.ops`). -/
theorem c_run_eq_cpp_run_full_fails_known : ¬ c_run_eq_cpp_run_full := by
  intro h
  have h1 := h Toy toy_lawful witnessSupportGetter ⟨(0, []), none, none, none⟩ (by
    intro tbl field args hm
    simp only [witnessSupportGetter, List.mem_cons, List.mem_nil_iff, or_false] at hm
    rcases hm with hm | hm | hm | hm <;> simp at hm
    · obtain ⟨rfl, rfl, _⟩ := hm; decide
    · obtain ⟨rfl, rfl, _⟩ := hm; decide)
  exact witness_support_getter_differs (congrArg Prod.snd h1)

/-- The same through the actual-call table: known finding `C19:actual-hasReturnValue-reads-current-scope`
    (`corpus/C19/finding_actual_has_return_value_other_scope.ops`). -/
theorem actual_has_fails_known :
    ¬ (∀ (ss : List CStmt), observeC (runC Toy ⟨⟨(0, []), none, none, none⟩, []⟩ ss) =
        observeX (runX Toy ⟨⟨(0, []), none, none, none⟩, []⟩ (ss.map toCpp))) := by
  intro h
  exact witness_actual_has_differs (congrArg Prod.snd (h witnessActualHas))

/-! ## non-vacuity -/

/-- a scenario of the aligned class that reaches across in every way: expectation with parameter and return value,
    actual call, chain getter with default, support-level getter and `has` on the scope of the call -/
def alignedScenario : List CStmt :=
  [.mockScope "s", .call .sup "expectOneCall" [.tok "f"], .call .exp "withBoolParameters" [.tok "p", .int 2],
   .call .exp "andReturnIntValue" [.int 7], .call .sup "actualCall" [.tok "f"],
   .call .act "withBoolParameters" [.tok "p", .int 1], .call .act "returnIntValueOrDefault" [.int 3],
   .call .sup "intReturnValue" [], .call .act "hasReturnValue" [], .call .sup "returnBoolValueOrDefault" [.int 5]]

/-- executable check of the hypothesis `RunOk` on the toy mock -/
def alignedB (st : Core Toy) : Bool :=
  match st.cur, st.a with
  | some s, some a => Toy.last st.m s == some a
  | _, _ => false

theorem alignedB_sound (st : Core Toy) (h : alignedB st = true) : AlignedAt Toy st := by
  unfold alignedB at h
  cases hc : st.cur with
  | none => simp [hc] at h
  | some s =>
    cases ha : st.a with
    | none => simp [hc, ha] at h
    | some a =>
      simp only [hc, ha, beq_iff_eq] at h
      exact ⟨s, a, hc, ha, h⟩

def stepOkB (st : Core Toy) : CStmt → Bool
  | .call tbl field _ =>
    (fieldsOf tbl).contains field &&
    (match Req.forwarderOf tbl field with
     | some fw => !needsAlign tbl fw || alignedB st
     | none => true)
  | _ => true

theorem stepOkB_sound (st : Core Toy) (s : CStmt) (h : stepOkB st s = true) : StepOk Toy st s := by
  cases s with
  | mockC => trivial
  | mockScope _ => trivial
  | call tbl field args =>
    simp only [stepOkB, Bool.and_eq_true, List.contains_iff_mem] at h
    refine ⟨h.1, ?_⟩
    cases hf : Req.forwarderOf tbl field with
    | none => trivial
    | some fw =>
      have h2 := h.2
      simp only [hf, Bool.or_eq_true, Bool.not_eq_true'] at h2
      intro hn
      rcases h2 with h2 | h2
      · rw [hn] at h2; cases h2
      · exact alignedB_sound st h2

def runOkB : CState Toy → List CStmt → Bool
  | _, [] => true
  | st, s :: rest => stepOkB st.core s && runOkB (stepC Toy st s) rest

theorem runOkB_sound : ∀ (ss : List CStmt) (st : CState Toy), runOkB st ss = true → RunOk Toy st ss
  | [], _, _ => trivial
  | s :: rest, st, h => by
    simp only [runOkB, Bool.and_eq_true] at h
    intro _
    exact ⟨stepOkB_sound st.core s h.1, runOkB_sound rest _ h.2⟩

/-- the scenario meets the hypotheses of `c_run_eq_cpp_run` ... -/
example : RunOk Toy ⟨⟨(0, []), none, none, none⟩, []⟩ alignedScenario := runOkB_sound _ _ (by decide +kernel)

/-- ... it is in the syntactic class ... -/
example : Aligned alignedScenario = true := by decide +kernel
example : Aligned witnessSupportGetter = false ∧ Aligned witnessActualHas = false := by decide +kernel

/-- ... while the two witnesses of the findings do not (their getters are asked on another scope) -/
example : runOkB ⟨⟨(0, []), none, none, none⟩, []⟩ witnessSupportGetter = false := by decide +kernel
example : runOkB ⟨⟨(0, []), none, none, none⟩, []⟩ witnessActualHas = false := by decide +kernel

/-- the hypotheses of `c_run_eq_cpp_run` are met by a non-trivial scenario on a lawful mock, and the conclusion is
    about ten returned values -/
example : (observeC (runC Toy ⟨⟨(0, []), none, none, none⟩, []⟩ alignedScenario)).2.length = 10 := by decide +kernel

example : observeC (runC Toy ⟨⟨(0, []), none, none, none⟩, []⟩ alignedScenario) =
    observeX (runX Toy ⟨⟨(0, []), none, none, none⟩, []⟩ (alignedScenario.map toCpp)) := by decide +kernel

/-- the bool parameter `2` reaches C++ as `true`, the bool default `5` comes back as a truth value -/
example : toCpp (.call .exp "withBoolParameters" [.tok "p", .int 2]) =
    .call .exp "withParameter(string,bool)" [.tok "p", .bool true] .toExp := by decide +kernel

example : MockC.toCValue ⟨"bool", .bool true⟩ = { tag := "MOCKVALUETYPE_BOOL", member := "boolValue", payload := .int 1 } := by decide +kernel
example : MockC.toCValue ⟨"MyType", .tok "o3"⟩ = { tag := "MOCKVALUETYPE_OBJECT", member := "objectValue", payload := .tok "o3" } := by decide +kernel

/-! ## adaptor nodes: ownership and lifetime (`comparatorList_` / `copierList_`, installComparator_c, installCopier_c,
       removeAllComparatorsAndCopiers_c) — model `Model/MockCNodes.lean`, interpreted from the regenerated constructor
       initialiser lists and freeing loops -/

open Nodes in
/-- the regenerated node constructors, freeing loops and list heads are the required ones (whatever the order of the two
    loops / classes in the source): each constructor stores the old head — the argument the forwarder passes first — in
    `next_`; each list has exactly one loop, which reads `next_`, deletes the node, advances — in this order; both heads
    start null -/
theorem node_tables_correct :
    loopOf Gen.CMock.removeAllLoops "comparatorList_" = ⟨"comparatorList_", Nodes.Req.loopBody "comparatorList_"⟩ ∧
    loopOf Gen.CMock.removeAllLoops "copierList_" = ⟨"copierList_", Nodes.Req.loopBody "copierList_"⟩ ∧
    Gen.CMock.removeAllLoops.length = 2 ∧
    ctorLinks (ctorOf Gen.CMock.nodeCtors "MockCFunctionComparatorNode") = true ∧
    ctorLinks (ctorOf Gen.CMock.nodeCtors "MockCFunctionCopierNode") = true ∧
    (Nodes.Req.listHeads.all (fun h => Gen.CMock.listHeads.contains h) = true) ∧ Gen.CMock.listHeads.length = 2 := by
  decide +kernel

open Nodes in
/-- **Every node is accounted for, for every history** of installComparator / installCopier / removeAll through the C
    interface (any length, any interleaving), on the current source: the nodes deleted so far together with the nodes
    still on the two lists are exactly the nodes ever allocated, each once — no leak, no double delete — and the freeing
    loops never touch a deleted node, never dereference null and always terminate. -/
theorem nodes_accounted (os : List NOp) :
    ((nrun {} os).freed ++ (nrun {} os).live).Perm (List.range (nrun {} os).fresh) ∧
    (nrun {} os).freed.Nodup ∧ (nrun {} os).bad = false := by
  have inv := nrun_inv os {} ninv_init
  refine ⟨inv.account, ?_, ninv_not_bad _ inv⟩
  have hn : ((nrun {} os).freed ++ (nrun {} os).live).Nodup := (inv.account.nodup_iff).mpr List.nodup_range
  exact (List.nodup_append.mp hn).1

open Nodes in
/-- **removeAll frees everything**: after `removeAllComparatorsAndCopiers_c`, whatever happened before, both lists are
    empty and every node that was on them has been deleted (in list order). -/
theorem removeAll_frees_every_node (os : List NOp) :
    (nrun {} (os ++ [.removeAll])).live = [] ∧
    (nrun {} (os ++ [.removeAll])).freed =
      ((nrun {} os).cmp.freed ++ (nrun {} os).cmp.live) ++ ((nrun {} os).cpy.freed ++ (nrun {} os).cpy.live) ∧
    (nrun {} (os ++ [.removeAll])).cmp.chain = [] ∧ (nrun {} (os ++ [.removeAll])).cpy.chain = [] := by
  have inv := nrun_inv os {} ninv_init
  have inv' := nstep_inv _ .removeAll inv
  have hl := removeAll_live _ inv
  simp only [nrun, List.foldl_append, List.foldl_cons, List.foldl_nil] at *
  refine ⟨hl, removeAll_freed _ inv, ?_, ?_⟩
  · rw [inv'.cmp.chain_live]
    have : (nstep (List.foldl nstep {} os) NOp.removeAll).cmp.live ++ (nstep (List.foldl nstep {} os) NOp.removeAll).cpy.live = [] := hl
    exact (List.append_eq_nil_iff.mp this).1
  · rw [inv'.cpy.chain_live]
    have : (nstep (List.foldl nstep {} os) NOp.removeAll).cmp.live ++ (nstep (List.foldl nstep {} os) NOp.removeAll).cpy.live = [] := hl
    exact (List.append_eq_nil_iff.mp this).2

open Nodes in
theorem disciplinedFrom_take : ∀ (os : List AOp) (d : Disc) (k : Nat), disciplinedFrom d os = true →
    disciplinedFrom d (os.take k) = true
  | [], _, k, _ => by simp [disciplinedFrom]
  | _ :: _, _, 0, _ => by simp [disciplinedFrom]
  | o :: rest, d, k + 1, h => by
    simp only [disciplinedFrom, List.take_succ_cons] at h ⊢
    cases hd : discStep d o with
    | none => simp [hd] at h
    | some d' => simp only [hd] at h ⊢; exact disciplinedFrom_take rest d' k h

open Nodes in
/-- **On the disciplined class the C layer's ownership is safe, at every point of the scenario**: if
    `removeAllComparatorsAndCopiers` is only called on the global mock and only while no expectation made since the
    last global `clear()` carries a typed parameter, then after every prefix of the scenario nobody (no scope's
    repository, no expectation) points to a deleted adaptor node, and nothing went wrong in the lists. -/
theorem disciplined_never_dangling (os : List AOp) (h : Disciplined os = true) (k : Nat) :
    dangling (Nodes.runC {} (os.take k)) = false ∧ (Nodes.runC {} (os.take k)).nodes.bad = false := by
  obtain ⟨d', inv⟩ := runC_inv (os.take k) {} {} winv_init (disciplinedFrom_take os {} k h)
  exact ⟨not_dangling_of_inv _ d' inv, ninv_not_bad _ inv.nodes⟩

open Nodes in
/-- through the C++ interface the comparator / copier objects are the test's: whatever the scenario does, nobody ever
    points to a deleted one -/
theorem cpp_never_dangling (os : List AOp) : dangling (Nodes.runX {} os) = false :=
  runX_not_dangling os

/-- the full-strength statement about adaptor lifetime: the two interfaces leave the same pointers valid -/
def adaptor_lifetime_same_full : Prop :=
  ∀ os : List Nodes.AOp, Nodes.dangling (Nodes.runC {} os) = Nodes.dangling (Nodes.runX {} os)

/-- `mock_c()->installComparator(..); mock_scope_c("s")->removeAllComparatorsAndCopiers();` — known finding
    `C19:removeAll-on-scope-frees-adaptors-of-other-scopes` (`corpus/C19/finding_remove_all_on_scope_frees_global_adaptors.ops`) -/
def witnessRemoveAllOnScope : List Nodes.AOp := [.scope "", .installComparator, .scope "s", .removeAll]

/-- `mock_c()->installCopier(..); expectOneCall("f")->withOutputParameterOfTypeReturning(..);
    mock_c()->removeAllComparatorsAndCopiers();` — the expectation still points to the deleted copier node
    (`corpus/C19/finding_remove_all_while_expectation_holds_adaptor.ops`) -/
def witnessRemoveAllWhileHeld : List Nodes.AOp := [.scope "", .installCopier, .expectTyped, .removeAll]

theorem witness_removeAll_on_scope_dangles :
    Nodes.dangling (Nodes.runC {} witnessRemoveAllOnScope) = true ∧ Nodes.dangling (Nodes.runX {} witnessRemoveAllOnScope) = false ∧
    Nodes.Disciplined witnessRemoveAllOnScope = false := by decide +kernel

theorem witness_removeAll_while_held_dangles :
    Nodes.dangling (Nodes.runC {} witnessRemoveAllWhileHeld) = true ∧ Nodes.dangling (Nodes.runX {} witnessRemoveAllWhileHeld) = false ∧
    Nodes.Disciplined witnessRemoveAllWhileHeld = false := by decide +kernel

/-- the unrestricted statement is false on the current source (two findings, one root: the C layer owns the nodes in
    one list for all scopes and deletes them while the C++ core may still point to them) -/
theorem adaptor_lifetime_same_full_fails_known : ¬ adaptor_lifetime_same_full := by
  intro h
  have h1 := h witnessRemoveAllWhileHeld
  rw [witness_removeAll_while_held_dangles.1, witness_removeAll_while_held_dangles.2.1] at h1
  cases h1

/-- ... and it holds on the disciplined class (this is the `_partial` form of the statement above) -/
theorem adaptor_lifetime_same_partial (os : List Nodes.AOp) (h : Nodes.Disciplined os = true) :
    Nodes.dangling (Nodes.runC {} os) = Nodes.dangling (Nodes.runX {} os) := by
  have h1 := (disciplined_never_dangling os h os.length).1
  rw [List.take_length] at h1
  rw [h1, cpp_never_dangling]

/-- non-vacuity: a disciplined scenario with installs in two scopes, a typed expectation, a global clear and two
    removeAll; three nodes are allocated and all three are deleted, nothing dangles at the end -/
def disciplinedScenario : List Nodes.AOp :=
  [.scope "", .installComparator, .scope "s", .installCopier, .expectTyped, .scope "", .clear, .removeAll,
   .installComparator, .removeAll]

example : Nodes.Disciplined disciplinedScenario = true := by decide +kernel
example : (Nodes.runC {} disciplinedScenario).nodes.freed = [0, 2, 1] ∧ (Nodes.runC {} disciplinedScenario).nodes.live = [] ∧
    (Nodes.runC {} (disciplinedScenario.take 5)).refs.length = 5 := by decide +kernel
example : (Nodes.nrun {} [.installComparator, .installCopier, .installComparator, .removeAll, .installCopier]).freed = [2, 0, 1] ∧
    (Nodes.nrun {} [.installComparator, .installCopier, .installComparator, .removeAll, .installCopier]).live = [3] := by
  decide +kernel

/-! ## the failure reporter behind the C interface (mock_c / mock_scope_c, crashOnFailure_c, the C reporter and its
       terminator) — model `Model/MockCReporter.lean`, interpreted from the regenerated `mockCalls`, `reporters`,
       `terminators` -/

/-- the regenerated reporter plumbing is the required one: BOTH entry functions pass `&failureReporterForC`; the C
    reporter is the C++ reporter with the exception-free terminator; both terminators call the crash hook iff the flag
    is set -/
theorem reporter_tables_correct : Rep.genTables = Rep.Req.tables := by decide +kernel

/-- **Every MockSupport object reached through the C interface — the global one or any scope, at any point of any
    scenario — has the C failure reporter active**, so a failure detected there takes the same path as for `mock_c()`. -/
theorem c_reporter_active_everywhere (os : List Rep.ROp) (s : String) (r : Rep.Rk)
    (h : (s, r) ∈ (Rep.runC {} os).active) : r = .c := by
  have sim := Rep.runSim os {} {} Rep.sim_init
  rw [sim.active] at h
  obtain ⟨p, _, hp⟩ := List.mem_map.mp h
  exact (congrArg Prod.snd hp).symm

/-- **Same failure path, for every scenario** (scope selections, crashOnFailure with any truth value on any scope,
    failures detected by the selected scope or by an object of another scope, several tests in a row): the C run and
    the C++ run call the crash hook at the same failures, record a failure for the same tests, and the C run never
    leaves a failing call by an exception — always by the exception-free terminator. -/
theorem failure_path_same (os : List Rep.ROp) :
    (Rep.runC {} os).events.map Rep.Ev.isCrash = (Rep.runX {} os).events.map Rep.Ev.isCrash ∧
    (Rep.runC {} os).hasFailed = (Rep.runX {} os).hasFailed ∧
    (Rep.runC {} os).crashC = (Rep.runX {} os).crashStd ∧
    (∀ e ∈ (Rep.runC {} os).events, e = Rep.Ev.crash ∨ e = Rep.Ev.exit .longjmp) := by
  have sim := Rep.runSim os {} {} Rep.sim_init
  exact ⟨sim.crashes, sim.failed, sim.flag, sim.c_exits⟩

/-- non-vacuity: crashOnFailure set through the global table, the failure detected in a named scope, a second failure
    in the same test (no second crash), switched off for the next test -/
def reporterScenario : List Rep.ROp :=
  [.mockGlobal, .crashOnFailure true, .mockScope "drv", .fail, .failIn "", .newTest, .mockGlobal, .crashOnFailure false,
   .mockScope "drv", .fail]

example : (Rep.runC {} reporterScenario).events = [.crash, .exit .longjmp, .exit .longjmp] ∧
    (Rep.runX {} reporterScenario).events = [.crash, .exit .exception, .exit .exception] := by decide +kernel

/-- what the seeded change `mock_scope_c: mock(scope)` (reporter argument dropped) does in the model: the scope gets the
    standard reporter, whose flag the C table never set — the crash hook is not called and the call is left by an exception -/
example : (Rep.stepCWith { Rep.Req.tables with calls := [⟨"mock_c", "\"\"", some "&failureReporterForC"⟩, ⟨"mock_scope_c", "scope", none⟩] }
    (Rep.stepCWith Rep.Req.tables (Rep.stepCWith Rep.Req.tables {} .mockGlobal) (.crashOnFailure true)) (.mockScope "drv")).cur
    = some ("drv", .std) := by decide +kernel

/-! ## an actual call made while mocking is disabled, and the scope's last actual call

`hasReturnValue_c` and all 24 `...OrDefault_c` forwarders ask `currentMockSupport->hasReturnValue()`, that is the scope's
`lastActualFunctionCall_`; the C++ program asks the object `actualCall()` handed out.  `Actual.actualCall` interprets the
statement list of `MockSupport::actualCall` regenerated from MockSupport.cpp (`Gen.CMock.actualCallSteps`). -/

/-- `createActualCall` makes the new checked call the scope's last call (what `.createChecked` stands for) -/
theorem actual_call_tables_correct :
    Gen.CMock.createActualCallBody =
      "lastActualFunctionCall_=new MockCheckedActualCall(++actualCallOrder_,activeReporter_,expectations_);return lastActualFunctionCall_;" ∧
    (∀ st ∈ Gen.CMock.actualCallSteps, ∀ t, st ≠ ACStep.other t) ∧
    Actual.ignoredCallClearsLast = true := by
  refine ⟨by decide, ?_, by decide⟩
  intro st h t
  simp [Gen.CMock.actualCallSteps] at h
  rcases h with h | h | h | h | h | h | h | h <;> subst h <;> simp

/-- **A call made while mocking is disabled leaves no last call behind**: whatever the scope's previous call was (also
    one whose expectation carried a return value), `actualCall` hands out the ignored-call object and the scope's
    `lastActualFunctionCall_` is empty afterwards, the previous call finished and deleted. -/
theorem disabled_call_leaves_no_last (s : Actual.Sup) (ci hr : Bool) (h : s.enabled = false) :
    (Actual.actualCall s ci hr).1.last = none ∧ (Actual.actualCall s ci hr).2 = .ignored ∧
    Actual.supHas (Actual.actualCall s ci hr).1 = false := by
  unfold Actual.actualCall Actual.supHas
  cases hl : s.last <;> simp [Gen.CMock.actualCallSteps, Actual.runSteps, Actual.finishLast, h, hl]

/-- **`hasReturnValue` through C = the C++ answer, after every actual call** (enabled or disabled, tracing, ignored by
    `ignoreOtherCalls`, checked with or without a return value, whatever the previous call was): what the C table says
    (the selected scope's last call) is what the object handed out says. -/
theorem has_through_c_same_as_cpp (s : Actual.Sup) (ci hr : Bool) :
    Actual.cHas (Actual.actualCall s ci hr).1 = Actual.handedHas (Actual.actualCall s ci hr).2 := by
  unfold Actual.actualCall Actual.cHas Actual.supHas
  cases hl : s.last <;> cases he : s.enabled <;> cases ht : s.tracing <;> cases ci <;>
    simp [Gen.CMock.actualCallSteps, Actual.runSteps, Actual.finishLast, Actual.handedHas, hl, he, ht]

/-- **Same defaulting after every actual call**: `return<Type>ValueOrDefault(d)` through C (scope's last call decides,
    value read from the static actual call) returns what the C++ call object returns — in particular the caller's
    default after a call made while disabled. -/
theorem orDefault_through_c_same_as_cpp (s : Actual.Sup) (ci hr : Bool) (v d : Nat) :
    Actual.cOrDefault (Actual.actualCall s ci hr).1 (Actual.actualCall s ci hr).2 v d =
      Actual.cppOrDefault (Actual.actualCall s ci hr).2 v d := by
  unfold Actual.cOrDefault Actual.cppOrDefault
  rw [has_through_c_same_as_cpp]

theorem disabled_call_gets_default_through_c (s : Actual.Sup) (ci hr : Bool) (v d : Nat) (h : s.enabled = false) :
    Actual.cOrDefault (Actual.actualCall s ci hr).1 (Actual.actualCall s ci hr).2 v d = .inl d := by
  have hd := disabled_call_leaves_no_last s ci hr h
  unfold Actual.cOrDefault Actual.cHas
  rw [hd.2.2]; rfl

/-- non-vacuity: the previous call of the scope fulfilled an expectation with a return value (the scope says
    `hasReturnValue` = true), mocking is then disabled; the next call gets the ignored object, the previous call is
    finished and deleted, and the C table answers "no return value" / the default 5 -/
def disabledAfterReturning : Actual.Sup := { enabled := false, last := some (0, true), next := 1 }

example : disabledAfterReturning.enabled = false ∧ Actual.supHas disabledAfterReturning = true ∧
    (Actual.actualCall disabledAfterReturning false false).1.finished = [0] ∧
    Actual.cHas (Actual.actualCall disabledAfterReturning false false).1 = false ∧
    Actual.cOrDefault (Actual.actualCall disabledAfterReturning false false).1
      (Actual.actualCall disabledAfterReturning false false).2 42 5 = .inl 5 := by decide

/-- non-vacuity of the general statement: an enabled call that fulfils a returning expectation answers "has" on both sides -/
example : Actual.cHas (Actual.actualCall {} false true).1 = true ∧
    Actual.cppOrDefault (Actual.actualCall {} false true).2 42 5 = .inr (some 42) := by decide

/-- what the seeded change "test `enabled_` first" does in the model: the previous call stays the scope's last call, the C
    table says `hasReturnValue` = 1 and reads the value from the ignored-call object (zero), the C++ object says 0 / default -/
example :
    let r := Actual.runSteps [.retIgnoredIfDisabled, .scopeName, .finishLast, .retTraceIfTracing, .retIgnoredIfCallIgnored,
                              .createChecked, .withName, .retChecked] disabledAfterReturning none false false
    Actual.cHas r.1 = true ∧ Actual.handedHas r.2 = false ∧
    Actual.cOrDefault r.1 r.2 42 5 = .inr none ∧ Actual.cppOrDefault r.2 42 5 = .inl 5 := by decide

end MockC
